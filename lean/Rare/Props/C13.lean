import Rare.Proofs.C13Main
import Rare.Proofs.C13Algo
import Rare.Proofs.C13Real
import Rare.Proofs.C13GoSort
import Rare.Proofs.F64Parse
import Rare.Proofs.C13Date
import Rare.Proofs.C13Groups
import Rare.Proofs.C13Axes
import Rare.Proofs.C13Survey
import Rare.Gen.C13
/-!
# C13 – Output ordering is a deterministic function of the aggregated data

Model: `Rare/Model/C13.lean` (the sorters of `pkg/aggregation/sorting` and `cmd/helpers/sorting.go`
after the two `fix:` commits for F18 and the calendar/instant ties), parametric in the library calls
(`Oracle`: `strings.ToLower`, `strconv.ParseFloat`, `dateparse.ParseFormat`, `time.Parse`); every
theorem stated for `o : Oracle` holds for every behaviour of these calls.  On top of it

* `Rare/Model/C13Num.lean`: `strconv.ParseFloat` IS modelled (`F64.parseFloat`, software binary64) –
  `byNameSmartF` mirrors `ByNameSmart` with it, `realNum`/`numVal` say what a key denotes.  Theorems
  `numeric_real_*`, `numeric_orders_by_magnitude`, `numeric_equal_values_by_text`, … are about the
  real semantics, for all byte strings.
* `Rare/Model/C13Lower.lean`: `strings.ToLower` IS modelled (`goToLower tl`: ASCII fast path +
  `strings.Map(unicode.ToLower, ·)` over Go's UTF-8 decoding), parametric only in the rune table
  `tl = unicode.ToLower`, of which `RuneLower` is assumed and re-checked against the toolchain on every
  run (`rune_lower_from_source`, harness op `lowtab`).  `contextual_table_lookup` is exact for all
  byte strings.
* `dateparse.ParseFormat` / `time.Parse` remain oracles (`DateLib`), universally quantified.

`sort.Sort` is NOT modelled.  It is any comparison-based algorithm (`Algo`, a decision tree asking
`less a b`) that satisfies the contract `SortContract` (`Rare/Spec/C13.lean`), stated once:

    within : it only compares elements of its input;
    sorted : on distinct elements, if `less` is asymmetric, total and transitive on them (`OrderOn`),
             the result is a permutation of the input that is pairwise sorted w.r.t. `less`.

Theorems that USE the contract (hypothesis `hc : SortContract alg`): `perm_invariant`,
`perm_invariant_partial`, `reverse_every_permutation`, `reverse_every_permutation_partial` (and
`sort_result` in `Proofs/C13Main.lean`).  All other theorems are about the comparators themselves
or about the reference sort `isort`.  `sort_contract_satisfiable` discharges the contract for a
verified insertion sort (`isortA`); nothing is claimed about Go's pdqsort beyond the contract.

Round 4b (`Rare/Model/C13Axes.lean`): the commands' use of the sorters – two `BuildSorter` closures for the two
axes of table/heatmap/spark, kept for the whole render loop (`table_axes_independent`,
`render_loop_deterministic`, `table_renders_deterministic`, `reduce_render_loop`,
`shared_sorter_counterexample`, `sorters_built_per_axis`), and `-n N` = sort first, cut afterwards
(`top_n_deterministic`, `top_rows_precede_hidden`, `cut_before_sort_counterexample`, `top_n_matches_source`,
`sort_wrappers_match_source`).

Full statement wanted for `contextual` / `date`:
  for EVERY key set, every permutation sorts to the same sequence
    (`sort_result` without the hypothesis `modeUniform`).
This is false for the code as it is (F19, known finding): the closures infer their mode from the
first key they see and switch to the fallback for good when they meet a stranger, so the answer to
`less a b` depends on the comparisons made before.  Proved instead: `contextual_partial`,
`date_partial` (hypothesis: all keys infer the same table / share one layout, or none does) and
`contextual_counterexample`, `date_counterexample`, `date_layout_counterexample` at the witnesses.
Round 4c: the one repair the repo's tests leave room for (an in-band "survey" of the keys before sorting) was examined on the
real code and on the model and rejected: `survey_harmless`, `survey_contextual_all_sets` (what it would gain),
`survey_repair_counterexample` (what it leaves open).
-/
namespace Rare.C13

/-! ## less is a strict total order, per mode -/

/-- `text` -/
theorem text_less_strict_total : StrictTotalOn (fun _ => True) byName :=
  bytesLt_strictTotal

/-- `numeric` (after the F18 fix), for every behaviour of `ParseFloat`. -/
theorem numeric_less_strict_total (num : Key → PF) : StrictTotalOn (fun _ => True) (byNameSmart num) := by
  have : byNameSmart num = numericLess (fun k => (num k).mag) :=
    funext fun a => funext fun b => byNameSmart_eq_numeric num a b
  rw [this]
  exact byRank_key_strictTotal _ optLt_strictTotal

/-- `value` (ascending; the CLI default is its reverse): rows, not only names, are totally ordered. -/
theorem value_less_strict_total :
    StrictTotalOn (fun _ : NV => True) (fun a b => (valueSorterEx (pureCmp byName) () a b).1) := by
  have : (fun a b => (valueSorterEx (pureCmp byName) () a b).1) = valueLess :=
    funext fun a => funext fun b => by rw [valueSorterEx_byName]
  rw [this]
  exact valueLess_strictTotal

/-- `contextual`: what the mode denotes is a strict total order for EVERY key set … -/
theorem contextual_less_strict_total (o : Oracle) (sets : List SortSet) (keys : List Key) :
    StrictTotalOn (fun _ => True) (contextualSpec o sets keys) :=
  contextualSpec_strictTotal o sets keys

/-- … and `date` likewise. -/
theorem date_less_strict_total (o : Oracle) (sets : List SortSet) (keys : List Key) :
    StrictTotalOn (fun _ => True) (dateSpec o sets keys) :=
  dateSpec_strictTotal o sets keys

/-- Every mode, with or without `:reverse`, orders rows with distinct names (asymmetric, total and
transitive on distinct rows). -/
theorem less_order_all_modes (o : Oracle) (sets : List SortSet) (m : Mode) (rev : Bool) (items : List NV)
    (hnd : (items.map (·.name)).Nodup) : OrderOn (· ∈ items) (finalSpecLess o sets items m rev) :=
  finalSpec_orderOn o sets m rev items hnd

/-! ## unique sorted sequence ⇒ permutation invariance -/

/-- Two sorted arrangements of the same distinct keys are equal. -/
theorem sorted_unique {α : Type} {less : α → α → Bool} {keys o1 o2 : List α}
    (ho : OrderOn (· ∈ keys) less) (h1 : IsSorted less o1 keys) (h2 : IsSorted less o2 keys) : o1 = o2 :=
  sorted_unique' ho h1 h2

/-- `text`, `numeric`, `value` (any modifier): whatever order the map hands the rows over in,
`sort.Sort` with the closure rare builds returns the same sequence – the sorted arrangement of
the set under the specified order. -/
theorem perm_invariant (o : Oracle) (sets : List SortSet) (m : Mode)
    (hm : m = .text ∨ m = .numeric ∨ m = .value) (rev : Bool)
    (alg : List NV → Algo NV (List NV)) (hc : SortContract alg)
    (items a1 a2 : List NV) (hnd : (items.map (·.name)).Nodup) (h1 : a1.Perm items) (h2 : a2.Perm items) :
    (Algo.run (finalSorter o sets m rev).cmp (finalSorter o sets m rev).init (alg a1)).1
      = (Algo.run (finalSorter o sets m rev).cmp (finalSorter o sets m rev).init (alg a2)).1
    ∧ (Algo.run (finalSorter o sets m rev).cmp (finalSorter o sets m rev).init (alg a1)).1
      = isort (finalSpecLess o sets items m rev) items := by
  have hu : modeUniform o sets m (items.map (·.name)) = true := by
    rcases hm with h | h | h <;> subst h <;> rfl
  rw [sort_result o sets m rev alg hc items a1 hnd h1 hu, sort_result o sets m rev alg hc items a2 hnd h2 hu]
  exact ⟨rfl, rfl⟩

/-- All modes at once, under the uniformity hypothesis (trivially true for text/numeric/value). -/
theorem perm_invariant_partial (o : Oracle) (sets : List SortSet) (m : Mode) (rev : Bool)
    (alg : List NV → Algo NV (List NV)) (hc : SortContract alg)
    (items a1 a2 : List NV) (hnd : (items.map (·.name)).Nodup) (h1 : a1.Perm items) (h2 : a2.Perm items)
    (hu : modeUniform o sets m (items.map (·.name)) = true) :
    (Algo.run (finalSorter o sets m rev).cmp (finalSorter o sets m rev).init (alg a1)).1
      = (Algo.run (finalSorter o sets m rev).cmp (finalSorter o sets m rev).init (alg a2)).1 := by
  rw [sort_result o sets m rev alg hc items a1 hnd h1 hu, sort_result o sets m rev alg hc items a2 hnd h2 hu]

/-! ## the inferring closures (F19) -/

/-- `contextual`, partial: if every key infers the same name table (or none does), the stateful
closure answers the specified order along every adaptive comparison sequence over these keys. -/
theorem contextual_partial (o : Oracle) (sets : List SortSet) (keys : List Key)
    (hu : ctxUniform o sets keys = true) {ρ : Type} (alg : Algo Key ρ) (hw : Algo.Within (· ∈ keys) alg) :
    (Algo.run (byContextual o sets) ({}, ()) alg).1 = Algo.runPure (contextualSpec o sets keys) alg :=
  (ctx_faithful o sets keys hu).run_eq alg hw

/-- `date`, partial: same with one shared layout (or no layout at all and `ctxUniform`). -/
theorem date_partial (o : Oracle) (sets : List SortSet) (keys : List Key)
    (hu : dateUniform o sets keys = true) {ρ : Type} (alg : Algo Key ρ) (hw : Algo.Within (· ∈ keys) alg) :
    (Algo.run (byDateWithContextual o sets) ({}, {}, ()) alg).1 = Algo.runPure (dateSpec o sets keys) alg :=
  (date_faithful o sets keys hu).run_eq alg hw

/-- Library behaviour at the witnesses (recorded from the real `ParseFloat`/`dateparse`/`time`). -/
def witnessOracle : Oracle where
  lower := asciiLower
  num := fun _ => .err
  dfmt := fun k => if k = asc "01/02/2022" ∨ k = asc "12/31/2021" then some 0 else none
  dparse := fun _ k =>
    if k = asc "01/02/2022" then some 1641081600000000000
    else if k = asc "12/31/2021" then some 1640908800000000000 else none

/-- F19 at the witness `{mon, fri, abc}`: the hypothesis of `contextual_partial` fails, Go's
insertion sort returns two different sequences for two arrival orders, and NO pure comparator
explains the closure (the answer to `mon < fri` depends on what was compared before). -/
theorem contextual_counterexample :
    ctxUniform witnessOracle sortSets [asc "mon", asc "fri", asc "abc"] = false
    ∧ (goInsertionSort (byContextual witnessOracle sortSets) ({}, ()) [asc "mon", asc "fri", asc "abc"]).1
        = [asc "abc", asc "mon", asc "fri"]
    ∧ (goInsertionSort (byContextual witnessOracle sortSets) ({}, ()) [asc "abc", asc "mon", asc "fri"]).1
        = [asc "abc", asc "fri", asc "mon"]
    ∧ ¬ ∃ less, Faithful (byContextual witnessOracle sortSets) ({}, ())
          (· ∈ [asc "mon", asc "fri", asc "abc"]) less := by
  refine ⟨by decide, by decide, by decide, ?_⟩
  intro ⟨less, hf⟩
  have h1 := hf.runSeq_eq [(asc "mon", asc "fri")] (by decide)
  have h2 := hf.runSeq_eq [(asc "abc", asc "mon"), (asc "mon", asc "fri")] (by decide)
  have e1 : runSeq (byContextual witnessOracle sortSets) ({}, ()) [(asc "mon", asc "fri")] = [true] := by decide
  have e2 : runSeq (byContextual witnessOracle sortSets) ({}, ())
      [(asc "abc", asc "mon"), (asc "mon", asc "fri")] = [true, false] := by decide
  rw [e1] at h1
  rw [e2] at h2
  simp only [List.map_cons, List.map_nil, List.cons.injEq, and_true] at h1 h2
  rw [← h1] at h2
  exact absurd h2.2 (by decide)

/-- The same defect in `ByDate`, at `{01/02/2022, 12/31/2021, abc}`. -/
theorem date_counterexample :
    dateUniform witnessOracle sortSets [asc "01/02/2022", asc "12/31/2021", asc "abc"] = false
    ∧ (goInsertionSort (byDateWithContextual witnessOracle sortSets) ({}, {}, ())
          [asc "01/02/2022", asc "12/31/2021", asc "abc"]).1
        = [asc "12/31/2021", asc "01/02/2022", asc "abc"]
    ∧ (goInsertionSort (byDateWithContextual witnessOracle sortSets) ({}, {}, ())
          [asc "abc", asc "01/02/2022", asc "12/31/2021"]).1
        = [asc "01/02/2022", asc "12/31/2021", asc "abc"] := by
  refine ⟨by decide, by decide, by decide⟩

/-- Library behaviour at the third witness (recorded from the real `dateparse`/`time`): layout 0 =
`2006-01-02` (inferred from the zero-padded keys) does not parse `2022-9-3`; layout 1 = `2006-1-2`
(inferred from `2022-9-3`) parses all three.  `ParseFloat`/`ToLower` are the models. -/
def layoutWitness : Oracle := realOracle {
  dfmt := fun k => if k = asc "2022-9-3" then some 1 else if k = asc "2022-10-01" ∨ k = asc "2022-09-02" then some 0 else none
  dparse := fun f k =>
    if k = asc "2022-10-01" then some 1664582400000000000
    else if k = asc "2022-09-02" then some 1662076800000000000
    else if k = asc "2022-9-3" ∧ f = 1 then some 1662163200000000000 else none }

/-- F19 without any stranger: all three keys are dates, yet the layout is taken from whichever key
the closure is handed first.  Arrival `[2022-10-01, 2022-9-3, 2022-09-02]` (Go's insertion sort
first asks `Less(1, 0)`, i.e. sees `2022-9-3`) sorts chronologically, arrival
`[2022-9-3, 2022-10-01, 2022-09-02]` falls back to text. -/
theorem date_layout_counterexample :
    dateUniform layoutWitness sortSets [asc "2022-10-01", asc "2022-9-3", asc "2022-09-02"] = false
    ∧ (goInsertionSort (byDateWithContextual layoutWitness sortSets) ({}, {}, ())
          [asc "2022-10-01", asc "2022-9-3", asc "2022-09-02"]).1
        = [asc "2022-09-02", asc "2022-9-3", asc "2022-10-01"]
    ∧ (goInsertionSort (byDateWithContextual layoutWitness sortSets) ({}, {}, ())
          [asc "2022-9-3", asc "2022-10-01", asc "2022-09-02"]).1
        = [asc "2022-09-02", asc "2022-10-01", asc "2022-9-3"] := by
  decide +kernel

/-! ## a repair of F19 that was examined and rejected (round 4c): the "survey" step

The repo's tests pin the sorters as plain funcs handed through the generic `Sort[TElem, TSort ~func(a, b TElem) bool]`
(`TestFallbackSort`: `Sort(list, ByContextual())` must give the SET-level fallback), so the only way `Sort`/`SortBy` can tell
a closure about the key set is to call it.  `survey` = show every element to the sorter as `less(x, x)` before `sort.Sort`
(`Proofs/C13Survey.lean`; tried on the real code in a scratch worktree: the whole suite passes unedited).  It is harmless
(`survey_harmless`) and repairs witnesses 1 and 2, but it is not a repair of F19 (`survey_repair_counterexample`). -/

/-- Wherever the closure already answers a pure order (the uniform key sets of `contextual_partial` / `date_partial`, every
key set of the other modes), it still does after having been shown any of these keys: a survey changes nothing there. -/
theorem survey_harmless {α σ : Type} {cmp : SCmp α σ} {init : σ} {P : α → Prop} {less : α → α → Bool}
    (h : Faithful cmp init P less) (arrival : List α) (hl : ∀ x ∈ arrival, P x) {ρ : Type} (alg : Algo α ρ)
    (hw : Algo.Within P alg) :
    (Algo.run cmp (survey cmp init arrival) alg).1 = Algo.runPure less alg :=
  (h.after_survey arrival hl).run_eq alg hw

/-- **What the survey WOULD repair – `contextual` on EVERY key set** (no uniformity hypothesis): with the survey step, whatever
order the keys arrive in, `sort.Sort` (any algorithm meeting the contract, any `n`) with the `ByContextual()` closure returns
the sorted arrangement of the set under the specified set-level order (all keys in one table: calendar order; otherwise the
fallback for the whole set).  Needs only that no name is in two tables (`sortSets_disjoint`: true of the weekday/month
tables).  This is what `--sort contextual` and `rare reduce --sort` would gain; `date` would not
(`survey_repair_counterexample`), which is why the patch was not committed. -/
theorem survey_contextual_all_sets (o : Oracle) (sets : List SortSet) (hd : TablesDisjoint o.lower sets)
    (alg : List Key → Algo Key (List Key)) (hc : SortContract alg)
    (keys a1 a2 : List Key) (hnd : keys.Nodup) (h1 : a1.Perm keys) (h2 : a2.Perm keys) :
    (Algo.run (byContextual o sets) (survey (byContextual o sets) ({}, ()) a1) (alg a1)).1
      = (Algo.run (byContextual o sets) (survey (byContextual o sets) ({}, ()) a2) (alg a2)).1
    ∧ (Algo.run (byContextual o sets) (survey (byContextual o sets) ({}, ()) a1) (alg a1)).1
      = isort (contextualSpec o sets keys) keys := by
  have ho : OrderOn (· ∈ keys) (contextualSpec o sets keys) :=
    (contextualSpec_strictTotal o sets keys).toOrderOn.mono (fun _ _ => trivial)
  have res : ∀ a : List Key, a.Perm keys →
      (Algo.run (byContextual o sets) (survey (byContextual o sets) ({}, ()) a) (alg a)).1
        = isort (contextualSpec o sets keys) keys := by
    intro a hp
    have hf := (survey_ctx_faithful o sets hd keys a hp).mono (Q := (· ∈ a)) (fun x h => hp.mem_iff.mp h)
    rw [hf.run_eq (alg a) (hc.within a)]
    have hnda : a.Nodup := hp.nodup_iff.mpr hnd
    have hoa : OrderOn (· ∈ a) (contextualSpec o sets keys) := ho.mono (fun x h => hp.mem_iff.mp h)
    rw [hc.result hnda hoa]
    exact isort_perm_invariant hnda hoa hp
  exact ⟨(res a1 h1).trans (res a2 h2).symm, res a1 h1⟩

/-- its hypothesis holds for the real tables, whatever `strings.ToLower` does -/
example (o : Oracle) : TablesDisjoint o.lower sortSets := sortSets_disjoint o.lower

/-- What the survey repairs and what it does not (kernel computation on the model of the patched `Sort`):
* `{mon, fri, abc}` (witness 1) and `{01/02/2022, 12/31/2021, abc}` (witness 2): both arrival orders of
  `contextual_counterexample` / `date_counterexample` now give the set-level fallback order;
* `{2022-10-01, 2022-9-3, 2022-09-02}` (witness 3): the layout is still the one of the first key shown – the two arrival
  orders of `date_layout_counterexample` still give two sequences;
* `date` = `ByDate(ByContextual())`: `ByDate` hands a key to its inner closure only once it has fallen back (and must not
  before: `TestDateSort` passes a fallback that panics), so after ONE survey of `{2022-01-01, mon, fri}` the inner closure
  has seen `mon, fri` (arrival `2022-01-01` first: weekday table, `mon < fri`) or all three (arrival `mon` first: fallback,
  `fri < mon`) – the answer to `mon < fri` depends on the arrival order; a SECOND survey would settle it.  With Go's
  insertion sort the first comparison happens to involve the unseen key, so this shows only for `n > 12` (real code, 17
  keys: 93 different results in 2000 shuffles). -/
theorem survey_repair_counterexample :
    (surveyedSort (byContextual witnessOracle sortSets) ({}, ()) [asc "mon", asc "fri", asc "abc"]
        = [asc "abc", asc "fri", asc "mon"]
      ∧ surveyedSort (byContextual witnessOracle sortSets) ({}, ()) [asc "abc", asc "mon", asc "fri"]
        = [asc "abc", asc "fri", asc "mon"]
      ∧ surveyedSort (byDateWithContextual witnessOracle sortSets) ({}, {}, ())
          [asc "01/02/2022", asc "12/31/2021", asc "abc"] = [asc "01/02/2022", asc "12/31/2021", asc "abc"]
      ∧ surveyedSort (byDateWithContextual witnessOracle sortSets) ({}, {}, ())
          [asc "abc", asc "01/02/2022", asc "12/31/2021"] = [asc "01/02/2022", asc "12/31/2021", asc "abc"])
    ∧ (surveyedSort (byDateWithContextual layoutWitness sortSets) ({}, {}, ())
          [asc "2022-10-01", asc "2022-9-3", asc "2022-09-02"] = [asc "2022-09-02", asc "2022-10-01", asc "2022-9-3"]
      ∧ surveyedSort (byDateWithContextual layoutWitness sortSets) ({}, {}, ())
          [asc "2022-9-3", asc "2022-10-01", asc "2022-09-02"] = [asc "2022-09-02", asc "2022-9-3", asc "2022-10-01"])
    ∧ ((byDateWithContextual nestedWitness sortSets
          (survey (byDateWithContextual nestedWitness sortSets) ({}, {}, ()) [asc "2022-01-01", asc "mon", asc "fri"])
          (asc "mon") (asc "fri")).1 = true
      ∧ (byDateWithContextual nestedWitness sortSets
          (survey (byDateWithContextual nestedWitness sortSets) ({}, {}, ()) [asc "mon", asc "2022-01-01", asc "fri"])
          (asc "mon") (asc "fri")).1 = false
      ∧ (byDateWithContextual nestedWitness sortSets
          (survey (byDateWithContextual nestedWitness sortSets) ({}, {}, ())
            ([asc "2022-01-01", asc "mon", asc "fri"] ++ [asc "2022-01-01", asc "mon", asc "fri"]))
          (asc "mon") (asc "fri")).1 = false) := by
  refine ⟨by decide +kernel, by decide +kernel, by decide +kernel⟩

/-- the hypothesis of `survey_harmless` is satisfiable on a non-trivial closure: weekday names in three spellings -/
example : (Algo.run (byContextual witnessOracle sortSets)
      (survey (byContextual witnessOracle sortSets) ({}, ()) [asc "Mon", asc "tues", asc "sunday"])
      (isortA [asc "tues", asc "sunday", asc "Mon"])).1 = [asc "sunday", asc "Mon", asc "tues"] := by decide +kernel

/-! ## what each mode means -/

/-- `value`: in the default (descending) arrangement larger totals come first. -/
theorem value_desc {out items : List NV} (h : IsSorted (revLess valueLess) out items) :
    out.Pairwise (fun a b => a.value ≥ b.value) := by
  refine h.2.imp ?_
  intro a b hab
  simp only [revLess, valueLess, byRank, lexLt, intLt, Bool.not_eq_true', Bool.or_eq_false_iff,
    decide_eq_false_iff_not] at hab
  omega

/-- `value:asc`: smaller totals first, equal totals by name. -/
theorem value_asc {out items : List NV} (h : IsSorted valueLess out items) :
    out.Pairwise (fun a b => a.value < b.value ∨ (a.value = b.value ∧ bytesLt a.name b.name = true)) := by
  refine h.2.imp ?_
  intro a b hab
  simpa [valueLess, byRank, lexLt, intLt] using hab

/-- `numeric` orders numbers by magnitude (whatever their spelling) … -/
theorem numeric_by_magnitude (num : Key → PF) (a b : Key) (x y : Int)
    (ha : num a = .val x) (hb : num b = .val y) (hxy : x < y) :
    byNameSmart num a b = true ∧ byNameSmart num b a = false := by
  have hne : x ≠ y := by omega
  have hne' : y ≠ x := by omega
  have hnot : ¬ y < x := by omega
  simp [byNameSmart, ha, hb, PF.isNum, PF.ord, hne, hne', hxy, hnot]

/-- … puts every number before everything that is not a number (NaN counts as text) … -/
theorem numeric_numbers_first (num : Key → PF) (a b : Key) (x : Int)
    (ha : num a = .val x) (hb : (num b).isNum = false) :
    byNameSmart num a b = true ∧ byNameSmart num b a = false := by
  cases hnb : num b with
  | val y => rw [hnb] at hb; simp [PF.isNum] at hb
  | err => simp [byNameSmart, ha, hnb, PF.isNum]
  | nan => simp [byNameSmart, ha, hnb, PF.isNum]

/-- … and two spellings of one number, or two non-numbers, by text. -/
theorem numeric_ties_by_text (num : Key → PF) (a b : Key)
    (h : (num a).mag = (num b).mag) : byNameSmart num a b = bytesLt a b := by
  rw [byNameSmart_eq_numeric]
  simp only [numericLess, byRank, lexLt, h, decide_true, Bool.true_and]
  rw [optLt_strictTotal.irrefl _ trivial]
  rfl

/-- `date`: from a fresh closure, two keys that parse with the inferred layout are ordered
chronologically. -/
theorem date_chronological {σ : Type} (o : Oracle) (fb : SCmp Key σ) (s0 : σ) (a b : Key) (f : Nat) (x y : Int)
    (hf : o.dfmt a = some f) (ha : o.dparse f a = some x) (hb : o.dparse f b = some y) (hxy : x < y) :
    (byDate o fb ({}, s0) a b).1 = true := by
  have hne : x ≠ y := by omega
  simp [byDate, hf, ha, hb, hne, hxy]

/-- `date`, set level: with one shared layout the specified (and, by `date_partial`, the computed)
order is chronological. -/
theorem date_chronological_set (o : Oracle) (sets : List SortSet) (keys : List Key) (k0 : Key) (rest : List Key)
    (hk : keys = k0 :: rest) (f : Nat) (hf : o.dfmt k0 = some f)
    (hall : ∀ k ∈ keys, o.dfmt k = some f ∧ (o.dparse f k).isSome = true)
    (a b : Key) (x y : Int) (ha : o.dparse f a = some x) (hb : o.dparse f b = some y) (hxy : x < y) :
    dateSpec o sets keys a b = true := by
  subst hk
  unfold dateSpec dateSpecLess
  simp only [hf]
  rw [if_pos (by simpa [List.all_eq_true] using hall)]
  simp [chronoLess, byRank, lexLt, intLt, ha, hb, hxy]

/-! ## contextual: calendar positions, over the tables regenerated from the Go source -/

def weekdayNames : List String :=
  ["sunday", "monday", "tuesday", "wednesday", "thursday", "friday", "saturday"]

def monthNames : List String :=
  ["january", "february", "march", "april", "may", "june", "july", "august", "september",
   "october", "november", "december"]

/-- every entry abbreviates (is a prefix of) the full name at its position, and every full name is present -/
def calendarTable (table : List (String × Nat)) (names : List String) : Bool :=
  table.all (fun e => match names[e.2]? with
    | some full => e.1.toList.isPrefixOf full.toList
    | none => false)
  && (List.range names.length).all (fun i => table.contains (names.getD i "", i))

def asKeys (table : List (String × Nat)) : SortSet := table.map (fun e => (asc e.1, e.2))

/-- The generated weekday and month tables map every name and abbreviation to its calendar
position (Sunday = 0 … Saturday = 6, January = 0 … December = 11). -/
theorem contextual_calendar :
    calendarTable Gen.C13.weekdays weekdayNames = true ∧ calendarTable Gen.C13.months monthNames = true := by
  decide +kernel

/-- The hand-written tables of the model are the generated ones (same finite maps, same order of
`sortSets`), and the two tables share no key. -/
theorem tables_match_source :
    (∀ e ∈ Gen.C13.weekdays, weekdays.get (asc e.1) = some e.2) ∧ Gen.C13.weekdays.length = weekdays.length
    ∧ (∀ e ∈ Gen.C13.months, months.get (asc e.1) = some e.2) ∧ Gen.C13.months.length = months.length
    ∧ Gen.C13.sortSets = [Gen.C13.weekdays, Gen.C13.months] ∧ sortSets = [weekdays, months]
    ∧ (∀ e ∈ Gen.C13.weekdays, months.get (asc e.1) = none) := by
  decide +kernel

/-- The closure, fresh, on any two generated weekday (month) spellings: earlier calendar position first. -/
theorem contextual_orders_by_calendar :
    (∀ e1 ∈ Gen.C13.weekdays, ∀ e2 ∈ Gen.C13.weekdays, e1.2 < e2.2 →
      (byContextual witnessOracle sortSets ({}, ()) (asc e1.1) (asc e2.1)).1 = true)
    ∧ (∀ e1 ∈ Gen.C13.months, ∀ e2 ∈ Gen.C13.months, e1.2 < e2.2 →
      (byContextual witnessOracle sortSets ({}, ()) (asc e1.1) (asc e2.1)).1 = true) := by
  decide +kernel

/-- In general: two keys of the inferred table are ordered by position, then by text. -/
theorem contextual_calendar_step (o : Oracle) (sets : List SortSet) (set : SortSet) (a b : Key) (i j : Nat)
    (hinf : inferSortSetByValue sets o.lower a = some set)
    (ha : set.get (o.lower a) = some i) (hb : set.get (o.lower b) = some j) (hij : i < j) :
    (byContextual o sets ({}, ()) a b).1 = true := by
  have hne : i ≠ j := by omega
  simp [byContextual, byContextualEx, hinf, ha, hb, hne, hij]

/-! ## reversing -/

/-- `Reverse` negates every answer of the closure … -/
theorem reverse_negates {α σ : Type} (cmp : SCmp α σ) (s : σ) (a b : α) :
    (reverse cmp s a b).1 = !(cmp s a b).1 ∧ (reverse cmp s a b).2 = (cmp s a b).2 :=
  ⟨rfl, rfl⟩

/-- … and on distinct keys that reverses the sorted sequence. -/
theorem reverse_reverses {α : Type} {less : α → α → Bool} {out keys : List α} (hnd : keys.Nodup)
    (ho : OrderOn (· ∈ keys) less) :
    IsSorted (revLess less) out keys ↔ IsSorted less out.reverse keys :=
  isSorted_rev hnd ho

/-- The reversed sort returns the reverse of the forward sort (reference sort; by `sort_result` also
the real one). -/
theorem reverse_result {α : Type} {less : α → α → Bool} {keys : List α} (hnd : keys.Nodup)
    (ho : OrderOn (· ∈ keys) less) : isort (revLess less) keys = (isort less keys).reverse := by
  have h1 := isort_sorted hnd ho.rev
  have h2 : IsSorted (revLess less) (isort less keys).reverse keys :=
    (isSorted_rev hnd ho).mpr (by rw [List.reverse_reverse]; exact isort_sorted hnd ho)
  exact sorted_unique' ho.rev h1 h2

/-! ## sort names and modifiers -/

def parsed (r : Except SortErr (Key × Bool)) : Option (Key × Bool) :=
  match r with
  | .ok x => some x
  | .error _ => none

def sortNames : List String := ["text", "numeric", "contextual", "context", "date", "value", ""]

/-- modifier ↦ expected `reverse` as a function of "the name is value" (`none` = error) -/
def modifierExpect : List (String × (Bool → Option Bool)) :=
  [("", fun v => some v), (":asc", fun _ => some false), (":desc", fun _ => some true),
   (":rev", fun v => some (!v)), (":reverse", fun v => some (!v)), (":ASC", fun _ => some false),
   (":Reverse", fun v => some (!v)), (":asc:whatever", fun _ => some false),
   (":", fun _ => none), (":bla", fun _ => none), (":ascending", fun _ => none)]

/-- `parseSort` on every name × modifier: `value` defaults to descending, `:asc`/`:desc` set the
direction, `:rev`/`:reverse` flip the default, anything else is an error. -/
theorem modifier_table :
    (sortNames.all fun n => modifierExpect.all fun me =>
      parsed (parseSort asciiLower (asc n ++ asc me.1))
        == (me.2 (n == "value")).map (fun r => (asc n, r))) = true := by
  decide +kernel

def modeOfReturn (stmt : String) : Option Mode :=
  if stmt = "return sorting.ValueNilSorter(sorting.ByName), nil" then some .text
  else if stmt = "return sorting.ValueNilSorter(sorting.ByNameSmart), nil" then some .numeric
  else if stmt = "return sorting.ValueNilSorter(sorting.ByContextual()), nil" then some .contextual
  else if stmt = "return sorting.ValueNilSorter(sorting.ByDateWithContextual()), nil" then some .date
  else if stmt = "return sorting.ValueSorterEx(sorting.ByName), nil" then some .value
  else none

/-- The model's name table and modifier table are the switches found in the Go source now. -/
theorem switches_match_source :
    (Gen.C13.lookupSwitch.all fun row => (modeOfReturn row.2).isSome
        && row.1.all fun label => lookupMode asciiLower (asc label) == modeOfReturn row.2) = true
    ∧ Gen.C13.lookupSwitch.length = 5
    ∧ lookupMode asciiLower (asc "fake") = none
    ∧ Gen.C13.modifierSwitch =
        [(["rev", "reverse"], "reverse = !reverse"), (["desc"], "reverse = true"), (["asc"], "reverse = false"),
         (["<default>"], "return \"\", false, errors.New(\"invalid sort modifier\")")]
    ∧ Gen.C13.reverseDefault = "(realname == \"value\")" := by
  decide +kernel

/-! ## `numeric` over the REAL `strconv.ParseFloat` (software binary64, `Rare/Base/F64Str.lean`)

`byNameSmartF` mirrors `ByNameSmart` with `F64.parseFloat`, `F64.eq`, `F64.lt`; `numVal k` is what
the key denotes: not a number (syntax error, range error such as `1e400`, NaN), `-Inf`, an exact
rational (the value of the nearest float64), `+Inf`. -/

/-- The Go-shaped comparator is the parametric model at the real `ParseFloat`. -/
theorem numeric_real_is_model : byNameSmartF = byNameSmart realNum :=
  funext fun a => funext fun b => byNameSmartF_eq a b

/-- `numeric`, real `ParseFloat`: a strict total order on ALL byte strings – irreflexive, transitive,
and any two distinct keys (`1`/`1.0`/`1e0`/`+1`, `-0`/`0`, NaN and Inf spellings, hex floats,
underscores, text) are ordered one way or the other. -/
theorem numeric_real_strict_total : StrictTotalOn (fun _ => True) byNameSmartF := by
  rw [numeric_real_is_model]
  exact numeric_less_strict_total realNum

/-- **`numeric` orders numbers by magnitude**: if both keys parse and their exact values differ,
the smaller value comes first (`-Inf` < every finite value < `+Inf`), whatever the spellings. -/
theorem numeric_orders_by_magnitude (a b : Key) (h : NumVal.lt (numVal a) (numVal b)) :
    byNameSmartF a b = true ∧ byNameSmartF b a = false := by
  obtain ⟨p, q, hp, hq, hpq⟩ := (numVal_lt_iff a b).mp h
  rw [numeric_real_is_model]
  cases ha : realNum a <;> rw [ha] at hp <;> simp [PF.mag] at hp
  cases hb : realNum b <;> rw [hb] at hq <;> simp [PF.mag] at hq
  subst hp; subst hq
  exact numeric_by_magnitude realNum a b _ _ ha hb hpq

/-- Equal exact values (two spellings of one number, `-0` and `0`, the same infinity) and two
non-numbers are ordered by text – that is what keeps the order strict and total. -/
theorem numeric_equal_values_by_text (a b : Key) (h : numVal a = numVal b) :
    byNameSmartF a b = bytesLt a b := by
  rw [numeric_real_is_model]
  exact numeric_ties_by_text realNum a b ((numVal_eq_iff a b).mp h)

/-- Every number (incl. `±Inf`) sorts before every non-number (text, NaN, out-of-range spellings). -/
theorem numeric_numbers_before_text (a b : Key) (ha : (numVal a).isNum = true) (hb : numVal b = .notNum) :
    byNameSmartF a b = true ∧ byNameSmartF b a = false := by
  rw [numeric_real_is_model]
  have hb' := (numVal_notNum_iff b).mp hb
  have ha' : (realNum a).mag ≠ none := by
    intro h
    rw [(numVal_notNum_iff a).mpr h] at ha
    cases ha
  cases hna : realNum a with
  | val x =>
    refine numeric_numbers_first realNum a b x hna ?_
    cases hnb : realNum b <;> rw [hnb] at hb' <;> simp [PF.mag, PF.isNum] at hb' ⊢
  | err => rw [hna] at ha'; exact absurd rfl ha'
  | nan => rw [hna] at ha'; exact absurd rfl ha'

/-- Decimal integer spellings (what `strconv.Atoi` accepts, `|n| ≤ 2^53`) are ordered as integers. -/
theorem numeric_orders_integers (a b : Key) (m n : Int) (ha : atoi a = some m) (hb : atoi b = some n)
    (hm : m.natAbs ≤ 9007199254740992) (hn : n.natAbs ≤ 9007199254740992) (hmn : m < n) :
    byNameSmartF a b = true ∧ byNameSmartF b a = false := by
  apply numeric_orders_by_magnitude
  obtain ⟨x, hx, hxr⟩ := F64.parseFloat_of_atoi_small ha hm
  obtain ⟨y, hy, hyr⟩ := F64.parseFloat_of_atoi_small hb hn
  have fin : ∀ (z : F64) (q : Rat), z.toRat? = some q → numValOf z = .fin q := by
    intro z q hz
    unfold F64.toRat? at hz
    split at hz
    · rename_i hf
      cases hz
      have hn := F64.not_nan_of_finite hf
      have hi := F64.not_inf_of_finite hf
      simp [numValOf, hn, hi]
    · cases hz
  simp only [numVal, hx, hy, fin x _ hxr, fin y _ hyr, NumVal.lt]
  exact Rat.intCast_lt_intCast.mpr hmn

/-- The spellings the property names, evaluated by the model of `ParseFloat` (kernel computation):
one value in five spellings, signed zero, NaN / Inf spellings (case-insensitive, `+nan` is not one),
range errors are NOT numbers, hex floats need a `p` exponent, underscores only between digits. -/
theorem numeric_spellings :
    numVal (asc "1") = numVal (asc "1.0") ∧ numVal (asc "1") = numVal (asc "1e0")
    ∧ numVal (asc "1") = numVal (asc "+1") ∧ numVal (asc "1") = numVal (asc "0x1p0")
    ∧ numVal (asc "1") = numVal (asc "01") ∧ (numVal (asc "1")).isNum = true
    ∧ numVal (asc "-0") = numVal (asc "0") ∧ numVal (asc "1e-400") = numVal (asc "0")
    ∧ numVal (asc "nan") = .notNum ∧ numVal (asc "NaN") = .notNum ∧ numVal (asc "+nan") = .notNum
    ∧ numVal (asc "inf") = .posInf ∧ numVal (asc "+Inf") = .posInf ∧ numVal (asc "iNfInItY") = .posInf
    ∧ numVal (asc "-inf") = .negInf ∧ numVal (asc "infin") = .notNum
    ∧ numVal (asc "1e400") = .notNum ∧ numVal (asc "-1e400") = .notNum
    ∧ numVal (asc "0x1p4") = numVal (asc "16") ∧ numVal (asc "0x10") = .notNum
    ∧ numVal (asc "1_000") = numVal (asc "1000") ∧ numVal (asc "1__0") = .notNum ∧ numVal (asc "_1") = .notNum
    ∧ numVal (asc ".5") = numVal (asc "0.5") ∧ numVal (asc "5.") = numVal (asc "5") ∧ numVal (asc ".") = .notNum
    ∧ numVal (asc "") = .notNum ∧ numVal (asc "1a") = .notNum ∧ numVal (asc " 1") = .notNum := by
  decide +kernel

example : NumVal.lt (numVal (asc "-inf")) (numVal (asc "-1.5")) ∧ NumVal.lt (numVal (asc "9")) (numVal (asc "1e1"))
    ∧ NumVal.lt (numVal (asc "0x1p4")) (numVal (asc "+Inf")) := by
  decide +kernel

example : atoi (asc "-20") = some (-20) ∧ atoi (asc "+007") = some 7 := by decide +kernel

/-- `numeric` on a key set with every kind of spelling: every arrival order gives the same sequence
(numbers by magnitude, the tie `-0`/`0` and `16`/`0x1p4` by text, then the non-numbers by text). -/
example :
    isort byNameSmartF [asc "nan", asc "inf", asc "-inf", asc "1e400", asc "0x1p4", asc "16", asc "0", asc "-0", asc "abc", asc "2"]
      = [asc "-inf", asc "-0", asc "0", asc "2", asc "0x1p4", asc "16", asc "inf", asc "1e400", asc "abc", asc "nan"]
    ∧ isort byNameSmartF [asc "2", asc "abc", asc "-0", asc "0", asc "16", asc "0x1p4", asc "1e400", asc "-inf", asc "inf", asc "nan"]
      = [asc "-inf", asc "-0", asc "0", asc "2", asc "0x1p4", asc "16", asc "inf", asc "1e400", asc "abc", asc "nan"] := by
  decide +kernel

/-! ## `strings.ToLower` as the sorters use it (contextual / date keys, sort names)

`goToLower tl` mirrors `strings.ToLower` with `unicode.ToLower = tl`; `RuneLower tl` is all that is
assumed of the rune table, and it is regenerated from the Go toolchain on every run. -/

/-- The assumed facts about `unicode.ToLower`, enumerated over all code points by the translator:
only U+0130 (`İ` ↦ `i`) and U+212A (KELVIN SIGN ↦ `k`) lower-case into ASCII; ASCII is `A-Z ↦ a-z`.
The contract is satisfiable (`tlMin`). -/
theorem rune_lower_from_source :
    Gen.C13.lowerIntoAscii = [(0x130, 0x69), (0x212A, 0x6B)] ∧ Gen.C13.lowerAsciiExact = true
    ∧ Gen.C13.lowerIdempotent = true ∧ RuneLower tlMin := by
  refine ⟨by decide, by decide, by decide, ?_⟩
  refine ⟨?_, by decide, by decide, ?_⟩
  · intro r hr; simp [tlMin, hr]
  · intro r hr h1 h2
    have : ¬ r < 128 := by omega
    simp [tlMin, this, h1, h2]; omega

/-- ASCII keys: `strings.ToLower` is exactly the byte-wise `A-Z ↦ a-z` (no assumption on `tl`). -/
theorem to_lower_ascii_exact (tl : Nat → Nat) (k : Key) (hk : k.all (fun c => c < 128) = true) :
    goToLower tl k = asciiLower k := by
  unfold goToLower
  simp only [hk, if_true]
  have e : asciiLower k = k.map lowerB := rfl
  cases hu : k.any (fun c => 65 ≤ c ∧ c ≤ 90) with
  | false => simp [e, map_lowerB_noUpper k hu]
  | true => simp [e]

/-- ALL byte strings: comparing `strings.ToLower(k)` with an ASCII constant `c` (a table key, a
`switch` label) is comparing `lowerK k` with it. -/
theorem to_lower_lookup (tl : Nat → Nat) (h : RuneLower tl) (k c : Key) (hc : c.all (fun x => x < 128) = true) :
    goToLower tl k = c ↔ lowerK k = c :=
  lower_lookup tl h k c hc

/-- the weekday and month tables have ASCII keys only -/
theorem tables_ascii : AsciiKeys sortSets := by
  unfold AsciiKeys
  decide +kernel

/-- **The table look-up of `contextual`, for all byte strings** (`v, ok := set[strings.ToLower(k)]`
for `set` = weekdays or months): `k` is at position `i` exactly when `foldLower k` – ASCII bytes
lower-cased, the two-byte sequence `C4 B0` (`İ`) read as `i`, `E2 84 AA` (KELVIN SIGN) as `k`, any
other non-ASCII byte (other runes, invalid UTF-8) making the key a stranger – is a table key with
value `i`.  So `FRIDAY`, `Friday`, `frİday` are Friday; `é`, `\xff`, `frıday` (dotless ı) are strangers. -/
theorem contextual_table_lookup (tl : Nat → Nat) (h : RuneLower tl) (set : SortSet) (hset : set ∈ sortSets)
    (k : Key) (i : Nat) :
    set.get (goToLower tl k) = (foldLower k).bind set.get
    ∧ (set.get (goToLower tl k) = some i ↔ ∃ name, foldLower k = some name ∧ (name, i) ∈ set) := by
  have hag := lookupAgree_lower tl h sortSets tables_ascii set hset k
  have hfold : set.get (lowerK k) = (foldLower k).bind set.get := by
    unfold lowerK
    cases hf : foldLower k with
    | some l => rfl
    | none =>
      simp only [Option.getD_none, Option.bind_none]
      -- `k` has a non-ASCII byte, every table key is ASCII
      unfold SortSet.get
      rw [List.lookup_eq_none_iff]
      intro e he
      simp only [bne_iff_ne, ne_eq]
      intro hke
      have hasc := tables_ascii set hset e he
      rw [← hke] at hasc
      rw [foldLower_ascii k hasc] at hf
      cases hf
  have hnd : ∀ (name : Key) (i : Nat), set.get name = some i ↔ (name, i) ∈ set := by
    have key : ∀ s ∈ sortSets, (s.map (·.1)).Nodup := by decide +kernel
    intro name i
    have nd := key set hset
    unfold SortSet.get
    clear hag hfold hset
    induction set with
    | nil => simp
    | cons e rest ih =>
      rw [List.map_cons, List.nodup_cons] at nd
      rw [List.lookup_cons]
      by_cases hne : name = e.1
      · subst hne
        simp only [beq_self_eq_true, Option.some.injEq, List.mem_cons]
        constructor
        · intro hi; subst hi; exact Or.inl rfl
        · intro hi
          rcases hi with hi | hi
          · rw [← hi]
          · exact absurd (List.mem_map_of_mem (f := fun x : Key × Nat => x.1) hi) nd.1
      · have : (name == e.1) = false := by simpa using hne
        rw [this]
        simp only [List.mem_cons]
        constructor
        · intro hi; exact Or.inr ((ih nd.2).mp hi)
        · intro hi
          rcases hi with hi | hi
          · rw [← hi] at hne; exact absurd rfl hne
          · exact (ih nd.2).mpr hi
  refine ⟨hag.trans hfold, ?_⟩
  rw [hag, hfold]
  cases hf : foldLower k with
  | none => simp
  | some name =>
    simp only [Option.bind_some, Option.some.injEq, exists_eq_left']
    exact hnd name i

example : foldLower (asc "FRIDAY") = some (asc "friday") ∧ foldLower [102, 114, 0xC4, 0xB0, 100, 97, 121] = some (asc "friday")
    ∧ foldLower [0xE2, 0x84, 0xAA] = some (asc "k") ∧ foldLower [102, 114, 0xC4, 0xB1, 100, 97, 121] = none
    ∧ foldLower [0xC3, 0xA9] = none ∧ foldLower [109, 111, 110, 0xFF] = none
    ∧ weekdays.get (lowerK [70, 82, 0xC4, 0xB0]) = some 5 ∧ months.get (lowerK [65, 80, 82, 0xC4, 0xB0, 76]) = some 3 := by
  decide +kernel

/-- The closures rare builds for `contextual` and `date` give the same answers, along every
comparison sequence, whether they lower-case with `strings.ToLower` (`goOracle tl`) or with the
look-up equivalent `lowerK` (`realOracle`, what the driver executes). -/
theorem contextual_lower_irrelevant (tl : Nat → Nat) (h : RuneLower tl) (d : DateLib) {ρ : Type} (alg : Algo Key ρ) :
    Algo.run (byContextual (goOracle tl d) sortSets) ({}, ()) alg
      = Algo.run (byContextual (realOracle d) sortSets) ({}, ()) alg
    ∧ Algo.run (byDateWithContextual (goOracle tl d) sortSets) ({}, {}, ()) alg
      = Algo.run (byDateWithContextual (realOracle d) sortSets) ({}, {}, ()) alg :=
  ⟨contextual_lower_run tl h sortSets tables_ascii d alg, date_lower_run tl h sortSets tables_ascii d alg⟩

/-! ## `value`: ties and negative totals; `:asc` / `:desc` / `:reverse` -/

/-- `Reverse` of an order is the order with its arguments swapped – on distinct elements (on equal
ones Go's `!less(a, a)` is `true`; `sort.Sort` on distinct rows never depends on it). -/
theorem reverse_is_swap {α : Type} {P : α → Prop} {less : α → α → Bool} (h : OrderOn P less) :
    (∀ a b, P a → P b → a ≠ b → revLess less a b = less b a) ∧ OrderOn P (revLess less) :=
  ⟨h.rev_eq, h.rev⟩

/-- `--sort value` (default, = `value:desc`) on two distinct rows: the larger total first (totals
are signed: `-3` sorts after `0`), equal totals by name in DESCENDING text order (the whole
`value:asc` order is reversed, ties included). -/
theorem value_default_less (a b : NV) (hne : a ≠ b) :
    (reverse (valueSorterEx (pureCmp byName)) () a b).1 = true
      ↔ (b.value < a.value ∨ (a.value = b.value ∧ bytesLt b.name a.name = true)) := by
  have e : (reverse (valueSorterEx (pureCmp byName)) () a b).1 = revLess valueLess a b := by
    simp [Rare.C13.reverse, valueSorterEx_byName, revLess]
  have ho : OrderOn (fun _ : NV => True) valueLess := valueLess_strictTotal.toOrderOn
  rw [e, ho.rev_eq a b trivial trivial hne]
  simp only [valueLess, byRank, lexLt, intLt, Bool.or_eq_true, decide_eq_true_eq, Bool.and_eq_true]
  constructor
  · rintro (h | ⟨h1, h2⟩)
    · exact Or.inl h
    · exact Or.inr ⟨h1.symm, h2⟩
  · rintro (h | ⟨h1, h2⟩)
    · exact Or.inl h
    · exact Or.inr ⟨h1.symm, h2⟩

/-- … hence in the default arrangement of distinct rows every earlier row has a larger total, or the
same total and a textually larger name. -/
theorem value_desc_ties {out items : List NV} (hnd : items.Nodup) (h : IsSorted (revLess valueLess) out items) :
    out.Pairwise (fun a b => b.value < a.value ∨ (a.value = b.value ∧ bytesLt b.name a.name = true)) := by
  have hndo : out.Nodup := h.1.nodup_iff.mpr hnd
  refine (h.2.and hndo).imp ?_
  intro a b ⟨hab, hne⟩
  have ho : OrderOn (fun _ : NV => True) valueLess := valueLess_strictTotal.toOrderOn
  rw [ho.rev_eq a b trivial trivial hne] at hab
  simp only [valueLess, byRank, lexLt, intLt, Bool.or_eq_true, decide_eq_true_eq, Bool.and_eq_true] at hab
  rcases hab with h | ⟨h1, h2⟩
  · exact Or.inl h
  · exact Or.inr ⟨h1.symm, h2⟩

/-- negative totals, a tie, both directions (reference sort = what `sort.Sort` must return) -/
example :
    isort (revLess valueLess) [⟨asc "a", -3⟩, ⟨asc "b", 0⟩, ⟨asc "c", 5⟩, ⟨asc "d", 0⟩, ⟨asc "e", -3⟩]
      = [⟨asc "c", 5⟩, ⟨asc "d", 0⟩, ⟨asc "b", 0⟩, ⟨asc "e", -3⟩, ⟨asc "a", -3⟩]
    ∧ isort valueLess [⟨asc "a", -3⟩, ⟨asc "b", 0⟩, ⟨asc "c", 5⟩, ⟨asc "d", 0⟩, ⟨asc "e", -3⟩]
      = [⟨asc "a", -3⟩, ⟨asc "e", -3⟩, ⟨asc "b", 0⟩, ⟨asc "d", 0⟩, ⟨asc "c", 5⟩] := by
  decide

/-- **Reversing reverses, for every permutation**: whatever order the rows arrive in, `sort.Sort`
(any algorithm meeting `SortContract`) with the reversed closure returns exactly the reverse of what
it returns with the forward closure (`mode:desc` vs `mode:asc`, `mode:reverse` vs `mode`). -/
theorem reverse_every_permutation (o : Oracle) (sets : List SortSet) (m : Mode)
    (hm : m = .text ∨ m = .numeric ∨ m = .value)
    (alg : List NV → Algo NV (List NV)) (hc : SortContract alg)
    (items a1 a2 : List NV) (hnd : (items.map (·.name)).Nodup) (h1 : a1.Perm items) (h2 : a2.Perm items) :
    (Algo.run (finalSorter o sets m true).cmp (finalSorter o sets m true).init (alg a1)).1
      = ((Algo.run (finalSorter o sets m false).cmp (finalSorter o sets m false).init (alg a2)).1).reverse := by
  have hu : modeUniform o sets m (items.map (·.name)) = true := by
    rcases hm with h | h | h <;> subst h <;> rfl
  rw [sort_result o sets m true alg hc items a1 hnd h1 hu, sort_result o sets m false alg hc items a2 hnd h2 hu]
  exact reverse_result (nodup_of_nodup_map _ items hnd) (modeSpec_orderOn o sets m items hnd)

/-- The same for all five modes under the uniformity hypothesis of the stateful closures (F19). -/
theorem reverse_every_permutation_partial (o : Oracle) (sets : List SortSet) (m : Mode)
    (alg : List NV → Algo NV (List NV)) (hc : SortContract alg)
    (items a1 a2 : List NV) (hnd : (items.map (·.name)).Nodup) (h1 : a1.Perm items) (h2 : a2.Perm items)
    (hu : modeUniform o sets m (items.map (·.name)) = true) :
    (Algo.run (finalSorter o sets m true).cmp (finalSorter o sets m true).init (alg a1)).1
      = ((Algo.run (finalSorter o sets m false).cmp (finalSorter o sets m false).init (alg a2)).1).reverse := by
  rw [sort_result o sets m true alg hc items a1 hnd h1 hu, sort_result o sets m false alg hc items a2 hnd h2 hu]
  exact reverse_result (nodup_of_nodup_map _ items hnd) (modeSpec_orderOn o sets m items hnd)

/-- `numeric:desc` of three rows from one arrival order = reverse of `numeric` from another -/
example (d : DateLib) :
    (Algo.run (finalSorter (realOracle d) sortSets .numeric true).cmp (finalSorter (realOracle d) sortSets .numeric true).init
        (isortA [⟨asc "10", 1⟩, ⟨asc "1a", 2⟩, ⟨asc "2", 3⟩])).1
    = ((Algo.run (finalSorter (realOracle d) sortSets .numeric false).cmp (finalSorter (realOracle d) sortSets .numeric false).init
        (isortA [⟨asc "2", 3⟩, ⟨asc "10", 1⟩, ⟨asc "1a", 2⟩])).1).reverse :=
  reverse_every_permutation _ sortSets .numeric (Or.inr (Or.inl rfl)) isortA isortA_contract
    [⟨asc "10", 1⟩, ⟨asc "1a", 2⟩, ⟨asc "2", 3⟩] _ _ (by decide) (List.Perm.refl _) (by decide)

/-- Sort names through the modelled `ToLower`: case variants and the `İ` spelling are accepted,
`value` defaults to descending, a non-ASCII stranger is an unknown sort. -/
theorem sort_name_spellings :
    parsed (parseSort lowerK (asc "NUMERIC:DESC")) = some (asc "numeric", true)
    ∧ parsed (parseSort lowerK (asc "Value")) = some (asc "value", true)
    ∧ parsed (parseSort lowerK (asc "value:Reverse")) = some (asc "value", false)
    ∧ parsed (parseSort lowerK ([110, 117, 109, 101, 114, 0xC4, 0xB0, 99] ++ asc ":rev")) = some (asc "numeric", true)
    ∧ lookupMode lowerK [110, 117, 109, 101, 114, 0xC4, 0xB0, 99] = some .numeric
    ∧ lookupMode lowerK [118, 97, 108, 117, 0xC3, 0xA9] = none
    ∧ lookupMode lowerK (asc "Context") = some .contextual := by
  decide +kernel

/-! ## `date` over the REAL `time.Parse` (round 4)

`timeParseNs layout key` (`Rare/Model/C13Date.lean`) is the instant `time.Parse(layout, key)` returns –
Go's layout tokenizer and parser as modelled for C18, instant = wall clock − zone offset written in
the key – and `Equal` / `Before` compare instants.  `layoutLib layouts lay` is the date library in
which only `dateparse.ParseFormat` (`lay`, returning the layout text) is still an oracle.
`realChrono l` = rank `(instant under l, text)`. -/

/-- For every layout: (instant, then text) is a strict total order on ALL byte strings. -/
theorem date_real_strict_total (l : Bytes) : StrictTotalOn (fun _ => True) (realChrono l) :=
  byRank_key_strictTotal _ intLt_strictTotal

/-- **`ByDate` on a set of keys that all have the inferred layout `l` and parse with it** answers, along
every adaptive comparison sequence (whatever was compared before, whichever key was seen first),
the strict total order (instant, then text) – for ALL such sets, including keys that denote the same
instant in different zones or spellings. -/
theorem date_real_order (layouts : List Bytes) (lay : Key → Option Bytes) (l : Bytes) (hl : l ∈ layouts)
    (keys : List Key) (hlay : ∀ k ∈ keys, lay k = some l) (hp : ∀ k ∈ keys, (timeParseNs l k).isSome = true)
    {ρ : Type} (alg : Algo Key ρ) (hw : Algo.Within (· ∈ keys) alg) :
    (Algo.run (byDateWithContextual (realOracle (layoutLib layouts lay)) sortSets) ({}, {}, ()) alg).1
      = Algo.runPure (realChrono l) alg :=
  (date_real_faithful layouts lay l hl _ _ (· ∈ keys) hlay hp).run_eq alg hw

/-- … hence `--sort date[:asc|:desc|:reverse]` of such rows: every arrival order gives the same
sequence, the sorted arrangement under (instant, text) (reversed when asked). -/
theorem date_real_perm_invariant (layouts : List Bytes) (lay : Key → Option Bytes) (l : Bytes) (hl : l ∈ layouts)
    (rev : Bool) (alg : List NV → Algo NV (List NV)) (hc : SortContract alg)
    (items a1 a2 : List NV) (hnd : (items.map (·.name)).Nodup) (h1 : a1.Perm items) (h2 : a2.Perm items)
    (hne : items ≠ [])
    (hlay : ∀ r ∈ items, lay r.name = some l) (hp : ∀ r ∈ items, (timeParseNs l r.name).isSome = true) :
    let o := realOracle (layoutLib layouts lay)
    (Algo.run (finalSorter o sortSets .date rev).cmp (finalSorter o sortSets .date rev).init (alg a1)).1
      = (Algo.run (finalSorter o sortSets .date rev).cmp (finalSorter o sortSets .date rev).init (alg a2)).1
    ∧ (Algo.run (finalSorter o sortSets .date rev).cmp (finalSorter o sortSets .date rev).init (alg a1)).1
      = isort (if rev then revLess (fun a b => realChrono l a.name b.name) else fun a b => realChrono l a.name b.name) items := by
  intro o
  have hk1 : ∀ k ∈ items.map (·.name), lay k = some l := by
    intro k hk
    obtain ⟨r, hr, rfl⟩ := List.mem_map.mp hk
    exact hlay r hr
  have hk2 : ∀ k ∈ items.map (·.name), (timeParseNs l k).isSome = true := by
    intro k hk
    obtain ⟨r, hr, rfl⟩ := List.mem_map.mp hk
    exact hp r hr
  obtain ⟨hu, hspec⟩ := dateUniform_real layouts lay l hl sortSets (items.map (·.name)) hk1 hk2
  have hne' : items.map (·.name) ≠ [] := by
    intro h
    exact hne (List.map_eq_nil_iff.mp h)
  have e : finalSpecLess o sortSets items .date rev
      = (if rev then revLess (fun a b => realChrono l a.name b.name) else fun a b => realChrono l a.name b.name) := by
    unfold finalSpecLess modeSpecLess
    simp only
    rw [hspec hne']
  rw [sort_result o sortSets .date rev alg hc items a1 hnd h1 hu, sort_result o sortSets .date rev alg hc items a2 hnd h2 hu, e]
  exact ⟨rfl, rfl⟩

/-- A fresh closure on two keys that parse with the layout inferred from the first: the earlier
instant first – whatever the wall clocks say – and ONE instant written twice by text. -/
theorem date_real_chronological {σ : Type} (layouts : List Bytes) (lay : Key → Option Bytes) (l : Bytes) (hl : l ∈ layouts)
    (fb : SCmp Key σ) (s0 : σ) (a b : Key) (x y : Int)
    (hlay : lay a = some l) (ha : timeParseNs l a = some x) (hb : timeParseNs l b = some y) :
    (x < y → (byDate (realOracle (layoutLib layouts lay)) fb ({}, s0) a b).1 = true)
    ∧ (y < x → (byDate (realOracle (layoutLib layouts lay)) fb ({}, s0) a b).1 = false)
    ∧ (x = y → (byDate (realOracle (layoutLib layouts lay)) fb ({}, s0) a b).1 = bytesLt a b) := by
  rw [byDate_fresh_real layouts lay l hl fb s0 a b x y hlay ha hb, byDateParsed_eq]
  refine ⟨fun h => ?_, fun h => ?_, fun h => ?_⟩
  · have : x ≠ y := by omega
    simp [this, h]
  · have h1 : x ≠ y := by omega
    have h2 : ¬ x < y := by omega
    simp [h1, h2]
  · simp [h]

open C18 in
/-- **One instant in two zones** (composition with C18's format/parse round trip `roundtrip_core`): for EVERY layout
of the round-trip class that carries the instant (date, time to the second, numeric offset,
four-digit year – e.g. `2006-01-02T15:04:05-0700`), every two instants and every two zone offsets
(whole minutes, |offset| < 25 h): the keys `time.Format` prints for them are ordered by INSTANT,
and two zone spellings of one instant by text – never left unordered. -/
theorem date_zones_same_instant {σ : Type} (layout : Bytes) (hRT : RT (tokenize layout) = true)
    (hC : carriesInstant (tokenize layout) = true)
    (u1 u2 off1 off2 : Int) (abbr1 abbr2 : Bytes) (ho1 : OffOK off1) (ho2 : OffOK off2)
    (hy1 : 0 ≤ (civilOf u1 off1).y ∧ (civilOf u1 off1).y ≤ 9999)
    (hy2 : 0 ≤ (civilOf u2 off2).y ∧ (civilOf u2 off2).y ≤ 9999)
    (ha1 : Tok.std .tz ∈ tokenize layout → AbbrOK abbr1 off1)
    (ha2 : Tok.std .tz ∈ tokenize layout → AbbrOK abbr2 off2)
    (layouts : List Bytes) (lay : Key → Option Bytes) (hl : layout ∈ layouts)
    (hlay : lay (formatLayout layout (timeVOf u1 off1 abbr1)) = some layout) (fb : SCmp Key σ) (s0 : σ) :
    let k1 := formatLayout layout (timeVOf u1 off1 abbr1)
    let k2 := formatLayout layout (timeVOf u2 off2 abbr2)
    (u1 < u2 → (byDate (realOracle (layoutLib layouts lay)) fb ({}, s0) k1 k2).1 = true)
    ∧ (u2 < u1 → (byDate (realOracle (layoutLib layouts lay)) fb ({}, s0) k1 k2).1 = false)
    ∧ (u1 = u2 → (byDate (realOracle (layoutLib layouts lay)) fb ({}, s0) k1 k2).1 = bytesLt k1 k2) := by
  intro k1 k2
  have p1 := timeParseNs_format layout hRT hC u1 off1 abbr1 ho1 hy1 ha1
  have p2 := timeParseNs_format layout hRT hC u2 off2 abbr2 ho2 hy2 ha2
  obtain ⟨c1, c2, c3⟩ := date_real_chronological layouts lay layout hl fb s0 k1 k2 _ _ hlay p1 p2
  exact ⟨fun h => c1 (by omega), fun h => c2 (by omega), fun h => c3 (by omega)⟩

/-- The layout dateparse infers for `2022-09-03T10:00:00+0000`. -/
def zoneLayout : Bytes := asc "2006-01-02T15:04:05-0700"

/-- 10:00 UTC of 2022-09-03 written in three zones, and two other instants of that day -/
def zoneKeys : List Key := [asc "2022-09-03T09:30:00+0000", asc "2022-09-03T10:00:00+0000",
  asc "2022-09-03T12:00:00+0200", asc "2022-09-03T05:00:00-0500", asc "2022-09-03T11:15:00+0000"]

/-- `date_zones_same_instant` is not vacuous and `timeParseNs` computes: the layout is in the class;
the three zone spellings of 10:00 UTC are what `Format` prints and parse to the one instant
1662199200 s; the closure, whatever arrival order Go's insertion sort is handed, returns the same
sequence – by instant, the tie by text (`05:00-0500` < `10:00+0000` < `12:00+0200`). -/
theorem date_zone_witness :
    C18.RT (C18.tokenize zoneLayout) = true ∧ carriesInstant (C18.tokenize zoneLayout) = true
    ∧ C18.formatLayout zoneLayout (C18.timeVOf 1662199200 7200 []) = asc "2022-09-03T12:00:00+0200"
    ∧ C18.formatLayout zoneLayout (C18.timeVOf 1662199200 (-18000) []) = asc "2022-09-03T05:00:00-0500"
    ∧ zoneKeys.map (timeParseNs zoneLayout)
        = [some 1662197400000000000, some 1662199200000000000, some 1662199200000000000, some 1662199200000000000,
           some 1662203700000000000]
    ∧ (∀ arrival ∈ [[1, 2, 3], [1, 3, 2], [2, 1, 3], [2, 3, 1], [3, 1, 2], [3, 2, 1], [0, 1, 2, 3, 4], [4, 3, 2, 1, 0], [2, 4, 1, 0, 3]],
        (goInsertionSort (byDateWithContextual (realOracle (oneLayoutLib zoneLayout)) sortSets) ({}, {}, ())
            (arrival.map (fun i => zoneKeys.getD i []))).1
          = (isort (realChrono zoneLayout) zoneKeys).filter (fun k => arrival.any (fun i => zoneKeys.getD i [] == k)))
    ∧ isort (realChrono zoneLayout) zoneKeys
        = [asc "2022-09-03T09:30:00+0000", asc "2022-09-03T05:00:00-0500", asc "2022-09-03T10:00:00+0000",
           asc "2022-09-03T12:00:00+0200", asc "2022-09-03T11:15:00+0000"] := by
  decide +kernel

/-- What the modelled `time.Parse` does with the spellings the property names (kernel computation;
the same table is compared with the real `time.Parse` by the `tparse` op): a fraction the layout
does not mention is accepted and counts; `Z`, `+00:00` and `-05:45` under `Z07:00`; zone
abbreviations keep the wall clock (`time.Local` = UTC knows no names – also `GMT+2`); month names in
any case; out-of-range fields, a missing zone and a one-digit field under a padded layout are errors. -/
theorem date_parse_spellings :
    timeParseNs (asc "2006-01-02 15:04:05") (asc "2022-09-03 10:00:00") = some 1662199200000000000
    ∧ timeParseNs (asc "2006-01-02 15:04:05") (asc "2022-09-03 10:00:00.000") = some 1662199200000000000
    ∧ timeParseNs (asc "2006-01-02 15:04:05") (asc "2022-09-03 10:00:00,5") = some 1662199200500000000
    ∧ timeParseNs (asc "2006-01-02 15:04:05.000") (asc "2022-09-03 10:00:00") = none
    ∧ timeParseNs (asc "2006-01-02") (asc "2022-09-03") = some 1662163200000000000
    ∧ timeParseNs (asc "2006-01-02") (asc "2022-9-3") = none
    ∧ timeParseNs (asc "2006-1-2") (asc "2022-09-03") = some 1662163200000000000
    ∧ timeParseNs (asc "2006-01-02T15:04:05Z07:00") (asc "2022-09-03T10:00:00Z") = some 1662199200000000000
    ∧ timeParseNs (asc "2006-01-02T15:04:05Z07:00") (asc "2022-09-03T10:00:00+00:00") = some 1662199200000000000
    ∧ timeParseNs (asc "2006-01-02T15:04:05Z07:00") (asc "2022-09-03T04:15:00-05:45") = some 1662199200000000000
    ∧ timeParseNs (asc "2006-01-02 15:04:05 MST") (asc "2022-09-03 10:00:00 PST") = some 1662199200000000000
    ∧ timeParseNs (asc "2006-01-02 15:04:05 MST") (asc "2022-09-03 10:00:00 GMT+2") = some 1662199200000000000
    ∧ timeParseNs (asc "2006-01-02 15:04:05 MST") (asc "2022-09-03 10:00:00 UTC") = some 1662199200000000000
    ∧ timeParseNs (asc "Jan 2, 2006") (asc "SEP 3, 2022") = some 1662163200000000000
    ∧ timeParseNs (asc "02/Jan/2006:15:04:05 -0700") (asc "03/Sep/2022:15:30:00 +0530") = some 1662199200000000000
    ∧ timeParseNs zoneLayout (asc "2022-09-03T10:00:00") = none
    ∧ timeParseNs zoneLayout (asc "2022-09-03T24:00:00+0000") = none
    ∧ timeParseNs zoneLayout (asc "2022-02-29T10:00:00+0000") = none
    ∧ timeParseNs zoneLayout (asc "2022-09-03T10:00:00+2500") = none
    ∧ timeParseNs zoneLayout (asc "1969-12-31T23:59:59+0000") = some (-1000000000)
    ∧ layoutModelled zoneLayout = true ∧ layoutModelled (asc "2006-002") = false := by
  decide +kernel

/-! ## the comparators the model mirrors are the ones in the Go source (round 4)

The translator regenerates, on every run, the control skeleton of each comparator – every `if`
condition, assignment and `return` expression with its nesting depth.  The tables below are what
`Rare/Model/C13.lean` mirrors line by line (`byNameSmart`, `byContextualEx`, `byDate` incl. the
`d0.Equal(d1)` tie rule = `byDateParsed`, `valueSorterEx`, `reverse`, `buildSorter`); a changed guard,
operator, tie-break or evaluation order in /repo makes this theorem false. -/

theorem comparators_match_source :
    Gen.C13.byNameSkel = [(0, "return", "a < b")]
    ∧ Gen.C13.byNameSmartSkel = [
        (0, "assign", "v0, err0 := strconv.ParseFloat(a, 64)"),
        (0, "assign", "v1, err1 := strconv.ParseFloat(b, 64)"),
        (0, "assign", "num0 := err0 == nil && v0 == v0"),
        (0, "assign", "num1 := err1 == nil && v1 == v1"),
        (0, "if", "num0 && num1"),
        (1, "if", "v0 != v1"),
        (2, "return", "v0 < v1"),
        (1, "return", "a < b"),
        (0, "if", "num0 != num1"),
        (1, "return", "num0"),
        (0, "return", "a < b")]
    ∧ Gen.C13.byContextualExSkel = [
        (0, "decl", "var set sortSet"),
        (0, "assign", "fallback := false"),
        (0, "return", "func(a, b string) bool"),
        (1, "if", "!fallback && set == nil"),
        (2, "assign", "set = inferSortSetByValue(a)"),
        (2, "if", "set == nil"),
        (3, "assign", "fallback = true"),
        (1, "if", "!fallback"),
        (2, "assign", "lowerA := strings.ToLower(a)"),
        (2, "assign", "lowerB := strings.ToLower(b)"),
        (2, "assign", "v0, ok0 := set[lowerA]"),
        (2, "assign", "v1, ok1 := set[lowerB]"),
        (2, "if", "!ok0 || !ok1"),
        (3, "assign", "fallback = true"),
        (2, "else", ""),
        (2, "if", "v0 != v1"),
        (3, "return", "v0 < v1"),
        (2, "else", ""),
        (3, "return", "a < b"),
        (1, "return", "fallbackSort(a, b)")]
    ∧ Gen.C13.byContextualSkel = [(0, "return", "ByContextualEx(ByNameSmart)")]
    ∧ Gen.C13.inferSkel = [
        (0, "assign", "val = strings.ToLower(val)"),
        (0, "for", "_, set := range sortSets"),
        (1, "if", "_, ok := set[val]; ok"),
        (2, "return", "set"),
        (0, "return", "nil")]
    ∧ Gen.C13.byDateSkel = [
        (0, "assign", "format := \"\""),
        (0, "assign", "fallback := false"),
        (0, "return", "func(a, b string) bool"),
        (1, "if", "!fallback"),
        (2, "if", "format == \"\""),
        (3, "decl", "var err error"),
        (3, "if", "format, err = dateparse.ParseFormat(a); err != nil"),
        (4, "assign", "fallback = true"),
        (2, "if", "format != \"\""),
        (3, "assign", "d0, err0 := time.Parse(format, a)"),
        (3, "assign", "d1, err1 := time.Parse(format, b)"),
        (3, "if", "err0 == nil && err1 == nil"),
        (4, "if", "d0.Equal(d1)"),
        (5, "return", "a < b"),
        (4, "return", "d0.Before(d1)"),
        (3, "else", ""),
        (4, "assign", "fallback = true"),
        (1, "return", "fallbackSort(a, b)")]
    ∧ Gen.C13.byDateWithContextualSkel = [(0, "return", "ByDate(ByContextual())")]
    ∧ Gen.C13.valueSorterExSkel = [
        (0, "return", "func(a, b NameValuePair) bool"),
        (1, "if", "a.Value == b.Value"),
        (2, "return", "fallback(a.Name, b.Name)"),
        (1, "return", "a.Value < b.Value")]
    ∧ Gen.C13.valueNilSorterSkel = [
        (0, "return", "func(a, b NameValuePair) bool"),
        (1, "return", "sorter(a.Name, b.Name)")]
    ∧ Gen.C13.reverseSkel = [
        (0, "return", "func(a, b TElem) bool"),
        (1, "return", "!sorter(a, b)")]
    ∧ Gen.C13.buildSorterSkel = [
        (0, "assign", "name, reverse, err := parseSort(fullName)"),
        (0, "if", "err != nil"),
        (1, "return", "nil, fmt.Errorf(\"error parsing sort: %v\", err)"),
        (0, "assign", "sorter, err := lookupSorter(name)"),
        (0, "if", "err != nil"),
        (1, "return", "nil, fmt.Errorf(\"unknown sort: %s\", name)"),
        (0, "if", "reverse"),
        (1, "assign", "sorter = sorting.Reverse(sorter)"),
        (0, "return", "sorter, nil")] := by
  refine ⟨by decide, by decide, by decide, by decide, by decide, by decide, by decide, by decide, by decide, by decide, by decide⟩

/-! ## row order of `rare reduce` (round 4)

`AccumulatingGroup.Groups(sorter)` (`Rare/Model/C13Groups.lean`) with the sorter `cmd/reduce.go`
builds (`ByContextual()`, reversed for `--sort-reverse`).  With a `--sort` expression the groups are
ranked by (sort key under the sorter, then group key as TEXT); the stateful contextual closure is
consulted on SORT KEYS only, never on group names. -/

/-- Whenever the sorter orders the distinct sort keys, `Groups` orders the distinct groups. -/
theorem reduce_less_order {P : Key → Prop} {less : Key → Key → Bool} (sortKey : Key → Key)
    (h : OrderOn (fun k => ∃ g, P g ∧ sortKey g = k) less) : OrderOn P (groupsSpecLess less sortKey) :=
  groupsSpec_orderOn sortKey h

/-- **`reduce --sort <expr> [--sort-reverse]`: the row order is a function of the set of
(group, sort key) pairs** – every arrival order (Go map iteration) gives the same sequence, namely
the groups sorted by sort key (contextual order, reversed when asked), groups with EQUAL sort keys
by group key text (ascending in both directions).  Hypothesis: the SORT KEYS are `ctxUniform` (all
in one name table, or none in any – F19 otherwise); the group names are arbitrary – weekday and
month names included, the sticky contextual closure never sees them. -/
theorem reduce_rows_deterministic (o : Oracle) (sets : List SortSet) (rev : Bool) (sortKey : Key → Key)
    (alg : List Key → Algo Key (List Key)) (hc : SortContract alg)
    (groups a1 a2 : List Key) (hnd : groups.Nodup) (h1 : a1.Perm groups) (h2 : a2.Perm groups)
    (hu : ctxUniform o sets (groups.map sortKey) = true) :
    let less := if rev then revLess (contextualSpec o sets (groups.map sortKey)) else contextualSpec o sets (groups.map sortKey)
    (Algo.run (groupsCmp o sets rev (some sortKey)) ({}, ()) (alg a1)).1
      = (Algo.run (groupsCmp o sets rev (some sortKey)) ({}, ()) (alg a2)).1
    ∧ (Algo.run (groupsCmp o sets rev (some sortKey)) ({}, ()) (alg a1)).1
      = isort (groupsSpecLess less sortKey) groups := by
  intro less
  have hfS := reduceSorter_faithful o sets rev (groups.map sortKey) hu
  have hfG : Faithful (groupsCmp o sets rev (some sortKey)) ({}, ()) (· ∈ groups) (groupsSpecLess less sortKey) :=
    groupsCmpExpr_faithful hfS sortKey (· ∈ groups) (fun g hg => List.mem_map_of_mem hg)
  have ho : OrderOn (· ∈ groups) (groupsSpecLess less sortKey) :=
    groupsSpec_orderOn sortKey (reduceLess_orderOn o sets rev (groups.map sortKey) _)
  rw [sort_faithful_result alg hc groups a1 hnd h1 hfG ho, sort_faithful_result alg hc groups a2 hnd h2 hfG ho]
  exact ⟨rfl, rfl⟩

/-- `reduce` without `--sort`: the sorter runs on the group keys themselves. -/
theorem reduce_rows_deterministic_plain (o : Oracle) (sets : List SortSet) (rev : Bool)
    (alg : List Key → Algo Key (List Key)) (hc : SortContract alg)
    (groups a1 a2 : List Key) (hnd : groups.Nodup) (h1 : a1.Perm groups) (h2 : a2.Perm groups)
    (hu : ctxUniform o sets groups = true) :
    (Algo.run (groupsCmp o sets rev none) ({}, ()) (alg a1)).1
      = (Algo.run (groupsCmp o sets rev none) ({}, ()) (alg a2)).1
    ∧ (Algo.run (groupsCmp o sets rev none) ({}, ()) (alg a1)).1
      = isort (if rev then revLess (contextualSpec o sets groups) else contextualSpec o sets groups) groups := by
  have hfS : Faithful (groupsCmp o sets rev none) ({}, ()) (· ∈ groups) _ := reduceSorter_faithful o sets rev groups hu
  have ho := reduceLess_orderOn o sets rev groups (· ∈ groups)
  rw [sort_faithful_result alg hc groups a1 hnd h1 hfS ho, sort_faithful_result alg hc groups a2 hnd h2 hfS ho]
  exact ⟨rfl, rfl⟩

/-- The design that was rejected (and is what `Groups` must NOT do): breaking ties of the sort key
through the caller's sorter, `if ka == kb { return sort(a, b) }`.  With the sticky contextual
closure the same instance then sees group names AND sort keys; on weekday groups with counts
`Mon=2, Fri=2, Sun=1` two arrival orders give two different row orders (kernel computation with
Go's insertion sort), while the real comparator gives one. -/
def groupsCmpTieBySorter {σ : Type} (sort : SCmp Key σ) (sortKey : Key → Key) : SCmp Key σ := fun s a b =>
  if sortKey a = sortKey b then sort s a b else sort s (sortKey a) (sortKey b)

def reduceWitnessKey (g : Key) : Key := if g = asc "Sun" then asc "1" else asc "2"

theorem reduce_tie_by_sorter_counterexample :
    (goInsertionSort (groupsCmpTieBySorter (reduceSorter (realOracle noDates) sortSets false) reduceWitnessKey) ({}, ())
        [asc "Mon", asc "Fri", asc "Sun"]).1 = [asc "Sun", asc "Mon", asc "Fri"]
    ∧ (goInsertionSort (groupsCmpTieBySorter (reduceSorter (realOracle noDates) sortSets false) reduceWitnessKey) ({}, ())
        [asc "Sun", asc "Mon", asc "Fri"]).1 = [asc "Sun", asc "Fri", asc "Mon"]
    ∧ (goInsertionSort (groupsCmp (realOracle noDates) sortSets false (some reduceWitnessKey)) ({}, ())
        [asc "Mon", asc "Fri", asc "Sun"]).1 = [asc "Sun", asc "Fri", asc "Mon"]
    ∧ (goInsertionSort (groupsCmp (realOracle noDates) sortSets false (some reduceWitnessKey)) ({}, ())
        [asc "Sun", asc "Mon", asc "Fri"]).1 = [asc "Sun", asc "Fri", asc "Mon"]
    ∧ ctxUniform (realOracle noDates) sortSets ([asc "Mon", asc "Fri", asc "Sun"].map reduceWitnessKey) = true := by
  decide +kernel

/-- `Groups` in the Go source is the comparator the model mirrors (regenerated skeleton). -/
theorem reduce_groups_match_source :
    Gen.C13.groupsSkel = [
      (0, "assign", "ret := make([]GroupKey, 0, len(s.data))"),
      (0, "for", "g := range s.data"),
      (1, "assign", "ret = append(ret, g)"),
      (0, "if", "s.sortExpr != nil"),
      (1, "assign", "ctx := accumulatorGroupSortContext{}"),
      (1, "assign", "sortKey := func(x GroupKey) string"),
      (2, "assign", "ctx.groupKey = string(x)"),
      (2, "assign", "ctx.rowLookup = func(row string) string"),
      (3, "if", "idx, ok := s.colIdxLookup[row]; ok"),
      (4, "return", "s.data[x][idx]"),
      (3, "return", "\"\""),
      (2, "return", "s.sortExpr.BuildKey(&ctx)"),
      (1, "expr", "sorting.Sort(ret, func(a, b GroupKey) bool { ka, kb := sortKey(a), sortKey(b) if ka == kb { return a < b } return sort(ka, kb) })"),
      (0, "else", ""),
      (1, "expr", "sorting.SortBy(ret, sort, func(x GroupKey) string { return string(x) })"),
      (0, "return", "ret")] := by
  decide +kernel

/-! ## `numeric`: keys that `ParseFloat` rounds to one float64 are ties, broken by text (round 4) -/

/-- Integers beyond 2^53, long fractions and exponent / hex / underscore spellings that denote the same
float64 are equal to `numeric`, so their order is the text order – from every arrival order; one
ulp further the values differ and magnitude decides (the boundary of the tie class). -/
theorem numeric_rounding_ties :
    numVal (asc "9007199254740993") = numVal (asc "9007199254740992")
    ∧ numVal (asc "9007199254740992.4") = numVal (asc "9007199254740992")
    ∧ numVal (asc "9007199254740994") ≠ numVal (asc "9007199254740992")
    ∧ numVal (asc "18014398509481985") = numVal (asc "18014398509481984")
    ∧ numVal (asc "9223372036854775807") = numVal (asc "9223372036854775808")
    ∧ numVal (asc "1e3") = numVal (asc "1000") ∧ numVal (asc "0x3e8p0") = numVal (asc "1000")
    ∧ numVal (asc "0.1") = numVal (asc "0.1000000000000000055511151231257827")
    ∧ numVal (asc "+0") = numVal (asc "-0") ∧ numVal (asc "0xff") = .notNum
    ∧ byNameSmartF (asc "9007199254740992") (asc "9007199254740993") = true
    ∧ byNameSmartF (asc "9007199254740993") (asc "9007199254740992") = false
    ∧ isort byNameSmartF [asc "9007199254740993", asc "1e3", asc "9007199254740992", asc "1000", asc "9007199254740994"]
        = [asc "1000", asc "1e3", asc "9007199254740992", asc "9007199254740993", asc "9007199254740994"]
    ∧ isort byNameSmartF [asc "9007199254740994", asc "1000", asc "9007199254740992", asc "1e3", asc "9007199254740993"]
        = [asc "1000", asc "1e3", asc "9007199254740992", asc "9007199254740993", asc "9007199254740994"] := by
  decide +kernel

/-- In both directions groups with EQUAL sort keys are listed by group key text, ascending:
`--sort-reverse` reverses the sort keys only. -/
theorem reduce_ties_by_group_text (less : Key → Key → Bool) (sortKey : Key → Key) (a b : Key)
    (h : sortKey a = sortKey b) : groupsSpecLess less sortKey a b = bytesLt a b := by
  simp [groupsSpecLess, h]

/-- `contextual`: two spellings of ONE calendar position (`tue`/`Tues`, `Mon`/`mon`/`MON`) are ordered
by their ORIGINAL text – not by the lower-cased text, which would tie `Mon` with `mon`. -/
theorem contextual_same_position_by_text (o : Oracle) (sets : List SortSet) (set : SortSet) (a b : Key) (i : Nat)
    (hinf : inferSortSetByValue sets o.lower a = some set)
    (ha : set.get (o.lower a) = some i) (hb : set.get (o.lower b) = some i) :
    (byContextual o sets ({}, ()) a b).1 = bytesLt a b := by
  simp [byContextual, byContextualEx, hinf, ha, hb]

example : (byContextual (realOracle noDates) sortSets ({}, ()) (asc "Mon") (asc "mon")).1 = true
    ∧ (byContextual (realOracle noDates) sortSets ({}, ()) (asc "mon") (asc "Mon")).1 = false
    ∧ bytesLt (lowerK (asc "Mon")) (lowerK (asc "mon")) = false := by decide +kernel

/-- the hypotheses of `date_real_order` / `date_real_perm_invariant` hold on the zone witness -/
example : (∀ k ∈ zoneKeys, (fun _ => some zoneLayout) k = some zoneLayout)
    ∧ (∀ k ∈ zoneKeys, (timeParseNs zoneLayout k).isSome = true) ∧ zoneKeys.Nodup := by decide +kernel

/-- the hypothesis of `reduce_rows_deterministic` holds on weekday GROUPS with numeric sort keys -/
example : ctxUniform (realOracle noDates) sortSets ([asc "Mon", asc "Fri", asc "Wed", asc "Sun"].map reduceWitnessKey) = true
    ∧ ctxUniform (realOracle noDates) sortSets [asc "Mon", asc "Fri", asc "Wed", asc "Sun"] = true := by decide +kernel


/-! ## the render loop and the two axes of `table` / `heatmap` / `spark` (round 4b)

`cmd/tabulate.go`, `heatmap.go`, `spark.go` build `rowSorter` and `colSorter` with two `BuildSorter` calls
before the aggregation loop and hand both to every render (`Rare/Model/C13Axes.lean`).  The captured
variables of a `contextual` / `date` closure therefore (a) survive from one render to the next and (b) must
belong to ONE axis: `lookupSorter` calls `ByContextual()` / `ByDateWithContextual()` inside its switch, so two
calls give two closures. -/

/-- **No information flows between the axes**, for any data, any sort names and any sort routine: the row
order of every render is what the row sorter alone makes of the rows seen so far – it does not depend on
the column keys (`--sort-rows contextual --sort-cols contextual` on weekday rows and month columns sorts
both by calendar), and vice versa. -/
theorem table_axes_independent {σr σc : Type} (rowRun : σr → List NV → List NV × σr)
    (colRun : σc → List NV → List NV × σc) (sr : σr) (sc : σc) (renders : List (List NV × List NV)) :
    tableRenders rowRun colRun sr sc renders
      = (axisRenders colRun sc (renders.map (·.1))).zip (axisRenders rowRun sr (renders.map (·.2)))
    ∧ (tableRenders rowRun colRun sr sc renders).map (·.2) = axisRenders rowRun sr (renders.map (·.2))
    ∧ (tableRenders rowRun colRun sr sc renders).map (·.1) = axisRenders colRun sc (renders.map (·.1)) := by
  have h := tableRenders_split rowRun colRun renders sr sc
  have hl : (axisRenders colRun sc (renders.map (·.1))).length = (axisRenders rowRun sr (renders.map (·.2))).length := by
    rw [axisRenders_length, axisRenders_length, List.length_map, List.length_map]
  refine ⟨h, ?_, ?_⟩
  · rw [h]; exact List.map_snd_zip (Nat.le_of_eq hl.symm)
  · rw [h]; exact List.map_fst_zip (Nat.le_of_eq hl)

/-- **The render loop**: one closure, built once, sorts the keys present at every refresh (live mode) and at
the end.  If the keys of the final screen are uniform for the mode (always, for text/numeric/value), EVERY
render – each showing some duplicate-free part of those keys in whatever order the map hands them over –
is that part sorted by the one specified order; what the closure inferred during earlier renders never
changes a later one, and two histories that differ only in map order give the same screens. -/
theorem render_loop_deterministic (o : Oracle) (sets : List SortSet) (m : Mode) (rev : Bool)
    (alg : List NV → Algo NV (List NV)) (hc : SortContract alg)
    (items : List NV) (hnd : (items.map (·.name)).Nodup)
    (hu : modeUniform o sets m (items.map (·.name)) = true)
    (arrivals : List (List NV)) (ha : ∀ a ∈ arrivals, a.Nodup ∧ ∀ x ∈ a, x ∈ items) :
    axisRenders (fun s l => Algo.run (finalSorter o sets m rev).cmp s (alg l)) (finalSorter o sets m rev).init arrivals
      = arrivals.map (isort (finalSpecLess o sets items m rev))
    ∧ ∀ arrivals', SameRenders arrivals arrivals' →
        axisRenders (fun s l => Algo.run (finalSorter o sets m rev).cmp s (alg l)) (finalSorter o sets m rev).init arrivals'
          = axisRenders (fun s l => Algo.run (finalSorter o sets m rev).cmp s (alg l)) (finalSorter o sets m rev).init arrivals := by
  have hf := finalSorter_faithful o sets m rev items hu
  have ho := finalSpec_orderOn o sets m rev items hnd
  refine ⟨axisRenders_faithful alg hc items hf ho arrivals ha, fun arrivals' hp => ?_⟩
  rw [axisRenders_faithful alg hc items hf ho arrivals ha,
    axisRenders_faithful alg hc items hf ho arrivals' (forall₂_perm_within hp ha)]
  exact (map_isort_perm ho hp ha).symm

/-- **`table` / `heatmap` / `spark` with `--sort-rows` and `--sort-cols`**: every render shows the columns
present sorted by the column mode's order and the rows present sorted by the row mode's order.  The two
axes may be of different kinds (weekday rows, month columns, both `contextual`): uniformity is asked of
each axis separately. -/
theorem table_renders_deterministic (o : Oracle) (sets : List SortSet) (mr mc : Mode) (revr revc : Bool)
    (alg : List NV → Algo NV (List NV)) (hc : SortContract alg)
    (rows cols : List NV) (hndr : (rows.map (·.name)).Nodup) (hndc : (cols.map (·.name)).Nodup)
    (hur : modeUniform o sets mr (rows.map (·.name)) = true) (huc : modeUniform o sets mc (cols.map (·.name)) = true)
    (renders : List (List NV × List NV))
    (hr : ∀ r ∈ renders, (r.1.Nodup ∧ ∀ x ∈ r.1, x ∈ cols) ∧ (r.2.Nodup ∧ ∀ x ∈ r.2, x ∈ rows)) :
    tableRenders (fun s l => Algo.run (finalSorter o sets mr revr).cmp s (alg l))
        (fun s l => Algo.run (finalSorter o sets mc revc).cmp s (alg l))
        (finalSorter o sets mr revr).init (finalSorter o sets mc revc).init renders
      = renders.map (fun r => (isort (finalSpecLess o sets cols mc revc) r.1, isort (finalSpecLess o sets rows mr revr) r.2)) := by
  rw [tableRenders_split]
  have hcols : ∀ a ∈ renders.map (·.1), a.Nodup ∧ ∀ x ∈ a, x ∈ cols := by
    intro a ha
    obtain ⟨r, hr', e⟩ := List.mem_map.mp ha
    exact e ▸ (hr r hr').1
  have hrows : ∀ a ∈ renders.map (·.2), a.Nodup ∧ ∀ x ∈ a, x ∈ rows := by
    intro a ha
    obtain ⟨r, hr', e⟩ := List.mem_map.mp ha
    exact e ▸ (hr r hr').2
  rw [(render_loop_deterministic o sets mc revc alg hc cols hndc huc _ hcols).1,
    (render_loop_deterministic o sets mr revr alg hc rows hndr hur _ hrows).1]
  clear hr hcols hrows
  induction renders with
  | nil => rfl
  | cons r rest ih => simp only [List.map_cons, List.zip_cons_cons, ih]

/-- The render loop of `rare reduce` (`aggr.Groups(sorter)` at every refresh with the one sorter built before
the loop): every render is the groups present, ranked by (sort key, group text). -/
theorem reduce_render_loop (o : Oracle) (sets : List SortSet) (rev : Bool) (sortKey : Key → Key)
    (alg : List Key → Algo Key (List Key)) (hc : SortContract alg)
    (groups : List Key) (hu : ctxUniform o sets (groups.map sortKey) = true)
    (arrivals : List (List Key)) (ha : ∀ a ∈ arrivals, a.Nodup ∧ ∀ x ∈ a, x ∈ groups) :
    let less := if rev then revLess (contextualSpec o sets (groups.map sortKey)) else contextualSpec o sets (groups.map sortKey)
    axisRenders (fun s l => Algo.run (groupsCmp o sets rev (some sortKey)) s (alg l)) ({}, ()) arrivals
      = arrivals.map (isort (groupsSpecLess less sortKey)) := by
  intro less
  have hfS := reduceSorter_faithful o sets rev (groups.map sortKey) hu
  have hfG : Faithful (groupsCmp o sets rev (some sortKey)) ({}, ()) (· ∈ groups) (groupsSpecLess less sortKey) :=
    groupsCmpExpr_faithful hfS sortKey (· ∈ groups) (fun g hg => List.mem_map_of_mem hg)
  have ho : OrderOn (· ∈ groups) (groupsSpecLess less sortKey) :=
    groupsSpec_orderOn sortKey (reduceLess_orderOn o sets rev (groups.map sortKey) _)
  exact axisRenders_faithful alg hc groups hfG ho arrivals ha

/-- **Where the closures are created** (regenerated from /repo): no package-level variable of the sorting
package, of `cmd/helpers/sorting.go` or of the commands holds a closure made by `ByContextual`, `ByContextualEx`,
`ByDate` or `ByDateWithContextual` (such a variable would be shared by every `BuildSorter` call of the process –
`switches_match_source` pins that `lookupSorter` calls the constructors inside its switch); and every command
creates its sorters in its own function body, outside any closure (once, before the aggregation loop), one
`BuildSorterOrFail` call per axis – the shape `tableRenders` / `axisRenders` mirror. -/
theorem sorters_built_per_axis :
    Gen.C13.statefulGlobals = []
    ∧ Gen.C13.sorterSites = [
        ("cmd/histo.go", 0, "sorter := helpers.BuildSorterOrFail(sortName)"),
        ("cmd/bargraph.go", 0, "sorter := helpers.BuildSorterOrFail(sortName)"),
        ("cmd/tabulate.go", 0, "rowSorter := helpers.BuildSorterOrFail(sortRows)"),
        ("cmd/tabulate.go", 0, "colSorter := helpers.BuildSorterOrFail(sortCols)"),
        ("cmd/heatmap.go", 0, "rowSorter := helpers.BuildSorterOrFail(sortRows)"),
        ("cmd/heatmap.go", 0, "colSorter := helpers.BuildSorterOrFail(sortCols)"),
        ("cmd/spark.go", 0, "rowSorter := helpers.BuildSorterOrFail(sortRows)"),
        ("cmd/spark.go", 0, "colSorter := helpers.BuildSorterOrFail(sortCols)"),
        ("cmd/reduce.go", 0, "var sorter = sorting.ByContextual()")] := by
  decide +kernel

def axisNV (l : List String) : List NV := l.map (fun s => ⟨asc s, 0⟩)

/-- The contextual sorter `lookupSorter` returns, run by Go's insertion sort. -/
def ctxRun : CtxState × Unit → List NV → List NV × (CtxState × Unit) :=
  goInsertionSort (modeSorter (realOracle noDates) sortSets .contextual).cmp

/-- What must NOT happen (one closure per sort NAME, shared by `--sort-rows contextual --sort-cols contextual`):
weekday rows × month columns, kernel computation with Go's insertion sort.  The columns are sorted first and
fix the month table; the shared closure then meets `Thu`, falls back for good and lists the rows as text
(`Fri Mon Thu Tue Wed`), and from the second render on the columns as well (`Apr Feb Jan Mar`).  With the two
closures of the real code both axes are in calendar order at every render, and each axis alone is uniform. -/
theorem shared_sorter_counterexample :
    tableRendersShared ctxRun ctxRun ({}, ())
        [(axisNV ["Jan", "Feb", "Mar", "Apr"], axisNV ["Thu", "Mon", "Fri", "Tue", "Wed"]),
         (axisNV ["Mar", "Jan", "Apr", "Feb"], axisNV ["Thu", "Mon", "Fri", "Tue", "Wed"])]
      = [(axisNV ["Jan", "Feb", "Mar", "Apr"], axisNV ["Fri", "Mon", "Thu", "Tue", "Wed"]),
         (axisNV ["Apr", "Feb", "Jan", "Mar"], axisNV ["Fri", "Mon", "Thu", "Tue", "Wed"])]
    ∧ tableRenders ctxRun ctxRun ({}, ()) ({}, ())
        [(axisNV ["Jan", "Feb", "Mar", "Apr"], axisNV ["Thu", "Mon", "Fri", "Tue", "Wed"]),
         (axisNV ["Mar", "Jan", "Apr", "Feb"], axisNV ["Thu", "Mon", "Fri", "Tue", "Wed"])]
      = [(axisNV ["Jan", "Feb", "Mar", "Apr"], axisNV ["Mon", "Tue", "Wed", "Thu", "Fri"]),
         (axisNV ["Jan", "Feb", "Mar", "Apr"], axisNV ["Mon", "Tue", "Wed", "Thu", "Fri"])]
    ∧ ctxUniform (realOracle noDates) sortSets ((axisNV ["Thu", "Mon", "Fri", "Tue", "Wed"]).map (·.name)) = true
    ∧ ctxUniform (realOracle noDates) sortSets ((axisNV ["Jan", "Feb", "Mar", "Apr"]).map (·.name)) = true
    ∧ ctxUniform (realOracle noDates) sortSets
        ((axisNV ["Jan", "Feb", "Mar", "Apr"] ++ axisNV ["Thu", "Mon", "Fri", "Tue", "Wed"]).map (·.name)) = false := by
  decide +kernel

/-- the hypotheses of `table_renders_deterministic` hold on that data (a growing screen, two renders) -/
example : let rows := axisNV ["Thu", "Mon", "Fri", "Tue", "Wed"]; let cols := axisNV ["Jan", "Feb", "Mar", "Apr"]
    (rows.map (·.name)).Nodup ∧ (cols.map (·.name)).Nodup
    ∧ modeUniform (realOracle noDates) sortSets .contextual (rows.map (·.name)) = true
    ∧ modeUniform (realOracle noDates) sortSets .contextual (cols.map (·.name)) = true
    ∧ ∀ r ∈ [(axisNV ["Feb", "Jan"], axisNV ["Thu", "Mon"]), (axisNV ["Mar", "Jan", "Apr", "Feb"], axisNV ["Wed", "Thu", "Mon", "Fri", "Tue"])],
        (r.1.Nodup ∧ ∀ x ∈ r.1, x ∈ cols) ∧ (r.2.Nodup ∧ ∀ x ∈ r.2, x ∈ rows) := by
  decide +kernel

/-! ## `-n N` / top rows: the cut comes after the sort (round 4b) -/

/-- **Which rows `histo -n N` (and every `ItemsSortedBy(N, …)` caller) shows is a function of the data**: the
sorted sequence is cut AFTER sorting, so from every arrival order the answer is the first `N` rows of the one
specified order (all rows if there are fewer than `N`; a negative `N` with `0 ≤ rows` is Go's slice panic). -/
theorem top_n_deterministic (o : Oracle) (sets : List SortSet) (m : Mode) (rev : Bool)
    (alg : List NV → Algo NV (List NV)) (hc : SortContract alg)
    (items a1 a2 : List NV) (hnd : (items.map (·.name)).Nodup) (h1 : a1.Perm items) (h2 : a2.Perm items)
    (hu : modeUniform o sets m (items.map (·.name)) = true) (count : Int) :
    itemsSortedBy (fun s l => Algo.run (finalSorter o sets m rev).cmp s (alg l)) (finalSorter o sets m rev).init a1 count
      = itemsSortedBy (fun s l => Algo.run (finalSorter o sets m rev).cmp s (alg l)) (finalSorter o sets m rev).init a2 count
    ∧ itemsSortedBy (fun s l => Algo.run (finalSorter o sets m rev).cmp s (alg l)) (finalSorter o sets m rev).init a1 count
      = minSlice (isort (finalSpecLess o sets items m rev) items) count := by
  simp only [itemsSortedBy]
  rw [sort_result o sets m rev alg hc items a1 hnd h1 hu, sort_result o sets m rev alg hc items a2 hnd h2 hu]
  exact ⟨rfl, rfl⟩

/-- `minSlice` is a prefix: for `0 ≤ N` the first `N` rows … -/
theorem top_n_is_prefix {α : Type} (l : List α) (count : Int) (h : 0 ≤ count) :
    minSlice l count = .ok (l.take count.toNat) := by
  unfold minSlice
  by_cases hlt : (l.length : Int) < count
  · rw [if_pos hlt, List.take_of_length_le (by omega)]
  · rw [if_neg hlt, if_neg (by omega)]

/-- … and every row shown precedes every row cut off (`value`: no hidden row has a larger total than a shown one). -/
theorem top_rows_precede_hidden {α : Type} {less : α → α → Bool} {items : List α} (hnd : items.Nodup)
    (ho : OrderOn (· ∈ items) less) (n : Nat) :
    ∀ x ∈ (isort less items).take n, ∀ y ∈ (isort less items).drop n, less x y = true := by
  have hs := (isort_sorted hnd ho).2
  rw [← List.take_append_drop n (isort less items), List.pairwise_append] at hs
  exact fun x hx y hy => hs.2.2 x hx y hy

/-- `value` (default, descending): a row that is cut off never has a larger total than a row that is shown. -/
theorem top_n_largest_totals {items : List NV} (hnd : items.Nodup) (n : Nat) :
    ∀ x ∈ (isort (revLess valueLess) items).take n, ∀ y ∈ (isort (revLess valueLess) items).drop n, y.value ≤ x.value := by
  have ho : OrderOn (· ∈ items) (revLess valueLess) := (valueLess_strictTotal.mono (fun _ _ => trivial)).toOrderOn.rev
  intro x hx y hy
  have h := top_rows_precede_hidden hnd ho n x hx y hy
  simp only [revLess, valueLess, byRank, lexLt, intLt, Bool.not_eq_true', Bool.or_eq_false_iff, decide_eq_false_iff_not] at h
  omega

/-- `--sort value` (descending) run by Go's insertion sort -/
def cutRun : Unit → List NV → List NV × Unit :=
  goInsertionSort (finalSorter (realOracle noDates) sortSets .value true).cmp

def cutA1 : List NV := [⟨asc "a", 1⟩, ⟨asc "b", 5⟩, ⟨asc "c", 3⟩, ⟨asc "d", 9⟩, ⟨asc "e", 2⟩]
def cutA2 : List NV := [⟨asc "d", 9⟩, ⟨asc "e", 2⟩, ⟨asc "a", 1⟩, ⟨asc "b", 5⟩, ⟨asc "c", 3⟩]

/-- What must NOT happen (cut, then sort): the rows shown would depend on the map order – kernel computation on
five rows with `-n 2`, two arrival orders, two different screens; the real order of the two steps gives one. -/
theorem cut_before_sort_counterexample :
    (itemsCutThenSorted cutRun () cutA1 2).toOption = some [⟨asc "b", 5⟩, ⟨asc "a", 1⟩]
    ∧ (itemsCutThenSorted cutRun () cutA2 2).toOption = some [⟨asc "d", 9⟩, ⟨asc "e", 2⟩]
    ∧ (itemsSortedBy cutRun () cutA1 2).toOption = some [⟨asc "d", 9⟩, ⟨asc "b", 5⟩]
    ∧ (itemsSortedBy cutRun () cutA2 2).toOption = some [⟨asc "d", 9⟩, ⟨asc "b", 5⟩]
    ∧ (itemsSortedBy cutRun () cutA1 7).toOption
        = some [⟨asc "d", 9⟩, ⟨asc "b", 5⟩, ⟨asc "c", 3⟩, ⟨asc "e", 2⟩, ⟨asc "a", 1⟩]
    ∧ (itemsSortedBy cutRun () cutA1 (-1)).toOption = none ∧ (itemsSortedBy cutRun () [] (-1)).toOption = none
    ∧ cutA1.Perm cutA2 := by
  decide +kernel

/-- `ItemsSortedBy` / `minSlice` in the Go source are what the model mirrors: sort first, cut afterwards
(regenerated skeletons). -/
theorem top_n_matches_source :
    Gen.C13.itemsSortedBySkel = [
      (0, "assign", "items := s.Items()"),
      (0, "expr", "sorting.SortBy(items, sorter, func(obj MatchPair) sorting.NameValuePair { return sorting.NameValuePair{ Name: obj.Name, Value: obj.Item.count, } })"),
      (0, "return", "minSlice(items, count)")]
    ∧ Gen.C13.minSliceSkel = [
      (0, "if", "len(items) < count"),
      (1, "return", "items"),
      (0, "return", "items[:count]")] := by
  decide +kernel

/-- The glue between the aggregators, rare's `sort.Interface` wrapper and `sort.Sort` is what the model assumes
(regenerated skeletons): `Less(i, j)` asks the closure about `(arr[i], arr[j])` in this order (`insertBack` /
`Algo.ask`), `Swap` exchanges two slots, `Sort` / `SortBy` hand the wrapper to `sort.Sort` (not `sort.Stable`,
no pre-processing), `Items` / `OrderedColumns` / `OrderedRows` collect from the map and sort with the caller's
sorter on (name, total) – the column total `s.cols[name]`, the row sum `obj.sum`. -/
theorem sort_wrappers_match_source :
    Gen.C13.wrappedLessSkel = [(0, "return", "s.less(s.arr[i], s.arr[j])")]
    ∧ Gen.C13.wrappedSwapSkel = [(0, "assign", "s.arr[i], s.arr[j] = s.arr[j], s.arr[i]")]
    ∧ Gen.C13.wrappedLenSkel = [(0, "return", "len(s.arr)")]
    ∧ Gen.C13.sortSkel = [(0, "assign", "ws := wrappedSorter[TElem]{arr, sorter}"), (0, "expr", "sort.Sort(&ws)")]
    ∧ Gen.C13.sortBySkel = [
      (0, "assign", "ws := wrappedSorter[TElem]{arr, func(a, b TElem) bool { return sorter(extractor(a), extractor(b)) }}"),
      (0, "expr", "sort.Sort(&ws)")]
    ∧ Gen.C13.itemsSkel = [
      (0, "assign", "items := make([]MatchPair, 0, len(s.matches))"),
      (0, "for", "key, val := range s.matches"),
      (1, "assign", "items = append(items, MatchPair{ Item: *val, Name: key, })"),
      (0, "return", "items")]
    ∧ Gen.C13.orderedColumnsSkel = [
      (0, "assign", "keys := s.Columns()"),
      (0, "expr", "sorting.SortBy(keys, sorter, func(name string) sorting.NameValuePair { return sorting.NameValuePair{ Name: name, Value: s.cols[name], } })"),
      (0, "return", "keys")]
    ∧ Gen.C13.orderedRowsSkel = [
      (0, "assign", "rows := s.Rows()"),
      (0, "expr", "sorting.SortBy(rows, sorter, func(obj *TableRow) sorting.NameValuePair { return sorting.NameValuePair{ Name: obj.name, Value: obj.sum, } })"),
      (0, "return", "rows")] := by
  decide +kernel

/-! ## defaults and `SortsByValue` (round 4b) -/

/-- **What the user gets without a sort flag** (regenerated from the flag definitions of the commands): `histo`,
`table` (both axes) and the rows of `spark` default to `value` – which `parseSort` makes DESCENDING (larger totals
first) –, `bars`, `heatmap` (both axes) and the columns of `spark` to `helpers.DefaultSortFlag.Value` = `numeric`,
ascending; `reduce` has no default (`ByContextual()` on the group keys).  Every default is a name the model
resolves; `DefaultSortFlagWithDefault` / `SortsByValue` are the statements the model mirrors. -/
theorem default_sorts_from_source :
    Gen.C13.defaultSortValue = "numeric"
    ∧ Gen.C13.sortDefaults = [
        ("cmd/histo.go", "sort", "\"value\""),
        ("cmd/bargraph.go", "sort", "helpers.DefaultSortFlag.Value"),
        ("cmd/tabulate.go", "sort-rows", "\"value\""),
        ("cmd/tabulate.go", "sort-cols", "\"value\""),
        ("cmd/heatmap.go", "sort-rows", "helpers.DefaultSortFlag.Value"),
        ("cmd/heatmap.go", "sort-cols", "helpers.DefaultSortFlag.Value"),
        ("cmd/spark.go", "sort-rows", "\"value\""),
        ("cmd/spark.go", "sort-cols", "\"numeric\""),
        ("cmd/reduce.go", "sort", "<none>")]
    ∧ parsed (parseSort asciiLower (asc "value")) = some (asc "value", true)
    ∧ lookupMode asciiLower (asc "value") = some .value
    ∧ parsed (parseSort asciiLower (asc Gen.C13.defaultSortValue)) = some (asc "numeric", false)
    ∧ lookupMode asciiLower (asc Gen.C13.defaultSortValue) = some .numeric
    ∧ sortsByValue asciiLower (asc "value") = true ∧ sortsByValue asciiLower (asc "numeric") = false
    ∧ Gen.C13.sortsByValueSkel = [
        (0, "assign", "name, _, err := parseSort(fullName)"),
        (0, "return", "err == nil && name == \"value\"")]
    ∧ Gen.C13.defaultSortFlagWithDefaultSkel = [
        (0, "if", "_, err := lookupSorter(dflt); err != nil"),
        (1, "expr", "panic(err)"),
        (0, "assign", "flag := *DefaultSortFlag"),
        (0, "assign", "flag.Value = dflt"),
        (0, "return", "&flag")] := by
  decide +kernel

/-- `SortsByValue` on every name × modifier: true exactly for `value` with a valid (or no) modifier. -/
theorem sorts_by_value_table :
    (sortNames.all fun n => modifierExpect.all fun me =>
      sortsByValue asciiLower (asc n ++ asc me.1) == (n == "value" && (me.2 true).isSome)) = true := by
  decide +kernel

/-- `SortsByValue(name)` implies that `BuildSorter(name)` succeeds with the `value` comparator (possibly reversed) –
for every `strings.ToLower` that leaves the word `value` alone. -/
theorem sorts_by_value_sound (o : Oracle) (sets : List SortSet) (h : o.lower (asc "value") = asc "value") (n : Key)
    (hv : sortsByValue o.lower n = true) :
    ∃ rev, parseSort o.lower n = .ok (asc "value", rev)
      ∧ buildSorter o sets n = .ok (if rev then (modeSorter o sets .value).reversed else modeSorter o sets .value) := by
  unfold sortsByValue at hv
  split at hv
  · rename_i name rev heq
    have hn : name = asc "value" := by simpa using hv
    subst hn
    have hm : lookupMode o.lower (asc "value") = some .value := by
      unfold lookupMode
      rw [h]
      decide +kernel
    refine ⟨rev, heq, ?_⟩
    simp only [buildSorter, heq, lookupSorter, hm]
  · simp at hv

/-! ## non-vacuity -/

/-- The assumed `sort.Sort` contract is satisfiable: insertion sort, written as a comparison tree,
meets it – so `perm_invariant`, `perm_invariant_partial` and `sort_result` are not vacuous. -/
theorem sort_contract_satisfiable : SortContract (isortA (α := NV)) := isortA_contract

/-- A second discharge, on the Go-shaped code: `sort.insertionSort` (`goInsertionSort`: the loop
`for i := 1; i < n; i++ { for j := i; j > 0 && Less(j, j-1); j-- { Swap(j, j-1) } }` that `sort.Sort`
runs for `n ≤ 12`, and what the driver's `sort` op executes) with a comparator that orders the distinct
elements returns the sorted permutation – the reference sequence `isort`.  (Nothing is claimed about
pdqsort for longer inputs: that is the assumption `SortContract`.) -/
theorem go_insertion_sort_sorted {α : Type} {less : α → α → Bool} {l : List α} (hnd : l.Nodup)
    (ho : OrderOn (· ∈ l) less) :
    IsSorted less (goInsertionSort (pureCmp less) () l).1 l
    ∧ (goInsertionSort (pureCmp less) () l).1 = isort less l :=
  ⟨goInsertionSort_sorted hnd ho, goInsertionSort_eq_isort hnd ho⟩

example : (goInsertionSort (pureCmp byNameSmartF) () [asc "10", asc "1a", asc "2", asc "1.0", asc "1"]).1
    = [asc "1", asc "1.0", asc "2", asc "10", asc "1a"] := by decide +kernel

/-- `perm_invariant` instantiated: numeric, reversed, three rows, two arrival orders. -/
example (o : Oracle) :
    (Algo.run (finalSorter o sortSets .numeric true).cmp (finalSorter o sortSets .numeric true).init
        (isortA [⟨asc "10", 1⟩, ⟨asc "1a", 2⟩, ⟨asc "2", 3⟩])).1
    = (Algo.run (finalSorter o sortSets .numeric true).cmp (finalSorter o sortSets .numeric true).init
        (isortA [⟨asc "2", 3⟩, ⟨asc "10", 1⟩, ⟨asc "1a", 2⟩])).1 :=
  (perm_invariant o sortSets .numeric (Or.inr (Or.inl rfl)) true isortA sort_contract_satisfiable
    [⟨asc "10", 1⟩, ⟨asc "1a", 2⟩, ⟨asc "2", 3⟩] _ _ (by decide) (List.Perm.refl _) (by decide)).1

/-- keys with two spellings of one number, a non-number and NaN: all hypotheses of the order theorems hold -/
example : OrderOn (· ∈ [asc "10", asc "1a", asc "2", asc "1.0", asc "1"]) (byNameSmart (fun _ => .err)) :=
  ((numeric_less_strict_total _).mono (fun _ _ => trivial)).toOrderOn

/-- a uniform weekday set in three spellings satisfies `ctxUniform` -/
example : ctxUniform witnessOracle sortSets [asc "Mon", asc "tues", asc "TUE", asc "sunday"] = true := by decide

/-- a uniform date set satisfies `dateUniform` -/
example : dateUniform witnessOracle sortSets [asc "01/02/2022", asc "12/31/2021"] = true := by decide

/-- the reference sort sorts the F18 witness the same way from every arrival order -/
example : (isort (byNameSmart (fun k => if k = asc "10" then .val 10 else if k = asc "2" then .val 2 else .err)))
    [asc "10", asc "1a", asc "2"] = [asc "2", asc "10", asc "1a"]
  ∧ (isort (byNameSmart (fun k => if k = asc "10" then .val 10 else if k = asc "2" then .val 2 else .err)))
    [asc "1a", asc "2", asc "10"] = [asc "2", asc "10", asc "1a"] := by decide

end Rare.C13
