import Rare.Proofs.C13Main
import Rare.Proofs.C13Algo
import Rare.Gen.C13
/-!
# C13 – Output ordering is a deterministic function of the aggregated data

Model: `Rare/Model/C13.lean` (the sorters of `pkg/aggregation/sorting` and `cmd/helpers/sorting.go`
after the two `fix:` commits for F18 and the calendar/instant ties).  Library calls
(`strings.ToLower`, `strconv.ParseFloat`, `dateparse.ParseFormat`, `time.Parse`) are the fields of
`Oracle`, universally quantified.  `sort.Sort` is any comparison-based algorithm (`Algo`) satisfying
`SortContract` (assumption: it compares only elements of its input and returns a sorted
permutation when `less` is a strict order on the distinct elements).

Full statement wanted for `contextual` / `date`:
  for EVERY key set, every permutation sorts to the same sequence
    (`sort_result` without the hypothesis `modeUniform`).
This is false for the code as it is (F19, known finding): the closures infer their mode from the
first key they see and switch to the fallback for good when they meet a stranger, so the answer to
`less a b` depends on the comparisons made before.  Proved instead: `contextual_partial`,
`date_partial` (hypothesis: all keys infer the same table / share one layout, or none does) and
`contextual_counterexample`, `date_counterexample` at the witnesses.
-/
namespace Rare.C13

/-! ## less is a strict total order, per mode -/

/-- `text` -/
theorem text_less_strict_total : StrictTotalOn (fun _ => True) byName :=
  bytesLt_strictTotal

/-- `numeric` (after the F18 fix), for every behaviour of `ParseFloat`. -/
theorem numeric_less_strict_total (num : Key → PF) : StrictTotalOn (fun _ => True) (byNameSmart num) := by
  have : byNameSmart num = numericLess (fun k => (num k).mag) :=
    funext fun a => funext fun b => byNameSmart_eq_numeric num a b
  rw [this]
  exact byRank_key_strictTotal _ optLt_strictTotal

/-- `value` (ascending; the CLI default is its reverse): rows, not only names, are totally ordered. -/
theorem value_less_strict_total :
    StrictTotalOn (fun _ : NV => True) (fun a b => (valueSorterEx (pureCmp byName) () a b).1) := by
  have : (fun a b => (valueSorterEx (pureCmp byName) () a b).1) = valueLess :=
    funext fun a => funext fun b => by rw [valueSorterEx_byName]
  rw [this]
  exact valueLess_strictTotal

/-- `contextual`: what the mode denotes is a strict total order for EVERY key set … -/
theorem contextual_less_strict_total (o : Oracle) (sets : List SortSet) (keys : List Key) :
    StrictTotalOn (fun _ => True) (contextualSpec o sets keys) :=
  contextualSpec_strictTotal o sets keys

/-- … and `date` likewise. -/
theorem date_less_strict_total (o : Oracle) (sets : List SortSet) (keys : List Key) :
    StrictTotalOn (fun _ => True) (dateSpec o sets keys) :=
  dateSpec_strictTotal o sets keys

/-- Every mode, with or without `:reverse`, orders rows with distinct names (asymmetric, total and
transitive on distinct rows). -/
theorem less_order_all_modes (o : Oracle) (sets : List SortSet) (m : Mode) (rev : Bool) (items : List NV)
    (hnd : (items.map (·.name)).Nodup) : OrderOn (· ∈ items) (finalSpecLess o sets items m rev) :=
  finalSpec_orderOn o sets m rev items hnd

/-! ## unique sorted sequence ⇒ permutation invariance -/

/-- Two sorted arrangements of the same distinct keys are equal. -/
theorem sorted_unique {α : Type} {less : α → α → Bool} {keys o1 o2 : List α}
    (ho : OrderOn (· ∈ keys) less) (h1 : IsSorted less o1 keys) (h2 : IsSorted less o2 keys) : o1 = o2 :=
  sorted_unique' ho h1 h2

/-- `text`, `numeric`, `value` (any modifier): whatever order the map hands the rows over in,
`sort.Sort` with the closure rare builds returns the same sequence – the sorted arrangement of
the set under the specified order. -/
theorem perm_invariant (o : Oracle) (sets : List SortSet) (m : Mode)
    (hm : m = .text ∨ m = .numeric ∨ m = .value) (rev : Bool)
    (alg : List NV → Algo NV (List NV)) (hc : SortContract alg)
    (items a1 a2 : List NV) (hnd : (items.map (·.name)).Nodup) (h1 : a1.Perm items) (h2 : a2.Perm items) :
    (Algo.run (finalSorter o sets m rev).cmp (finalSorter o sets m rev).init (alg a1)).1
      = (Algo.run (finalSorter o sets m rev).cmp (finalSorter o sets m rev).init (alg a2)).1
    ∧ (Algo.run (finalSorter o sets m rev).cmp (finalSorter o sets m rev).init (alg a1)).1
      = isort (finalSpecLess o sets items m rev) items := by
  have hu : modeUniform o sets m (items.map (·.name)) = true := by
    rcases hm with h | h | h <;> subst h <;> rfl
  rw [sort_result o sets m rev alg hc items a1 hnd h1 hu, sort_result o sets m rev alg hc items a2 hnd h2 hu]
  exact ⟨rfl, rfl⟩

/-- All modes at once, under the uniformity hypothesis (trivially true for text/numeric/value). -/
theorem perm_invariant_partial (o : Oracle) (sets : List SortSet) (m : Mode) (rev : Bool)
    (alg : List NV → Algo NV (List NV)) (hc : SortContract alg)
    (items a1 a2 : List NV) (hnd : (items.map (·.name)).Nodup) (h1 : a1.Perm items) (h2 : a2.Perm items)
    (hu : modeUniform o sets m (items.map (·.name)) = true) :
    (Algo.run (finalSorter o sets m rev).cmp (finalSorter o sets m rev).init (alg a1)).1
      = (Algo.run (finalSorter o sets m rev).cmp (finalSorter o sets m rev).init (alg a2)).1 := by
  rw [sort_result o sets m rev alg hc items a1 hnd h1 hu, sort_result o sets m rev alg hc items a2 hnd h2 hu]

/-! ## the inferring closures (F19) -/

/-- `contextual`, partial: if every key infers the same name table (or none does), the stateful
closure answers the specified order along every adaptive comparison sequence over these keys. -/
theorem contextual_partial (o : Oracle) (sets : List SortSet) (keys : List Key)
    (hu : ctxUniform o sets keys = true) {ρ : Type} (alg : Algo Key ρ) (hw : Algo.Within (· ∈ keys) alg) :
    (Algo.run (byContextual o sets) ({}, ()) alg).1 = Algo.runPure (contextualSpec o sets keys) alg :=
  (ctx_faithful o sets keys hu).run_eq alg hw

/-- `date`, partial: same with one shared layout (or no layout at all and `ctxUniform`). -/
theorem date_partial (o : Oracle) (sets : List SortSet) (keys : List Key)
    (hu : dateUniform o sets keys = true) {ρ : Type} (alg : Algo Key ρ) (hw : Algo.Within (· ∈ keys) alg) :
    (Algo.run (byDateWithContextual o sets) ({}, {}, ()) alg).1 = Algo.runPure (dateSpec o sets keys) alg :=
  (date_faithful o sets keys hu).run_eq alg hw

/-- Library behaviour at the witnesses (recorded from the real `ParseFloat`/`dateparse`/`time`). -/
def witnessOracle : Oracle where
  lower := asciiLower
  num := fun _ => .err
  dfmt := fun k => if k = asc "01/02/2022" ∨ k = asc "12/31/2021" then some 0 else none
  dparse := fun _ k =>
    if k = asc "01/02/2022" then some 1641081600000000000
    else if k = asc "12/31/2021" then some 1640908800000000000 else none

/-- F19 at the witness `{mon, fri, abc}`: the hypothesis of `contextual_partial` fails, Go's
insertion sort returns two different sequences for two arrival orders, and NO pure comparator
explains the closure (the answer to `mon < fri` depends on what was compared before). -/
theorem contextual_counterexample :
    ctxUniform witnessOracle sortSets [asc "mon", asc "fri", asc "abc"] = false
    ∧ (goInsertionSort (byContextual witnessOracle sortSets) ({}, ()) [asc "mon", asc "fri", asc "abc"]).1
        = [asc "abc", asc "mon", asc "fri"]
    ∧ (goInsertionSort (byContextual witnessOracle sortSets) ({}, ()) [asc "abc", asc "mon", asc "fri"]).1
        = [asc "abc", asc "fri", asc "mon"]
    ∧ ¬ ∃ less, Faithful (byContextual witnessOracle sortSets) ({}, ())
          (· ∈ [asc "mon", asc "fri", asc "abc"]) less := by
  refine ⟨by decide, by decide, by decide, ?_⟩
  intro ⟨less, hf⟩
  have h1 := hf.runSeq_eq [(asc "mon", asc "fri")] (by decide)
  have h2 := hf.runSeq_eq [(asc "abc", asc "mon"), (asc "mon", asc "fri")] (by decide)
  have e1 : runSeq (byContextual witnessOracle sortSets) ({}, ()) [(asc "mon", asc "fri")] = [true] := by decide
  have e2 : runSeq (byContextual witnessOracle sortSets) ({}, ())
      [(asc "abc", asc "mon"), (asc "mon", asc "fri")] = [true, false] := by decide
  rw [e1] at h1
  rw [e2] at h2
  simp only [List.map_cons, List.map_nil, List.cons.injEq, and_true] at h1 h2
  rw [← h1] at h2
  exact absurd h2.2 (by decide)

/-- The same defect in `ByDate`, at `{01/02/2022, 12/31/2021, abc}`. -/
theorem date_counterexample :
    dateUniform witnessOracle sortSets [asc "01/02/2022", asc "12/31/2021", asc "abc"] = false
    ∧ (goInsertionSort (byDateWithContextual witnessOracle sortSets) ({}, {}, ())
          [asc "01/02/2022", asc "12/31/2021", asc "abc"]).1
        = [asc "12/31/2021", asc "01/02/2022", asc "abc"]
    ∧ (goInsertionSort (byDateWithContextual witnessOracle sortSets) ({}, {}, ())
          [asc "abc", asc "01/02/2022", asc "12/31/2021"]).1
        = [asc "01/02/2022", asc "12/31/2021", asc "abc"] := by
  refine ⟨by decide, by decide, by decide⟩

/-! ## what each mode means -/

/-- `value`: in the default (descending) arrangement larger totals come first. -/
theorem value_desc {out items : List NV} (h : IsSorted (revLess valueLess) out items) :
    out.Pairwise (fun a b => a.value ≥ b.value) := by
  refine h.2.imp ?_
  intro a b hab
  simp only [revLess, valueLess, byRank, lexLt, intLt, Bool.not_eq_true', Bool.or_eq_false_iff,
    decide_eq_false_iff_not] at hab
  omega

/-- `value:asc`: smaller totals first, equal totals by name. -/
theorem value_asc {out items : List NV} (h : IsSorted valueLess out items) :
    out.Pairwise (fun a b => a.value < b.value ∨ (a.value = b.value ∧ bytesLt a.name b.name = true)) := by
  refine h.2.imp ?_
  intro a b hab
  simpa [valueLess, byRank, lexLt, intLt] using hab

/-- `numeric` orders numbers by magnitude (whatever their spelling) … -/
theorem numeric_by_magnitude (num : Key → PF) (a b : Key) (x y : Int)
    (ha : num a = .val x) (hb : num b = .val y) (hxy : x < y) :
    byNameSmart num a b = true ∧ byNameSmart num b a = false := by
  have hne : x ≠ y := by omega
  have hne' : y ≠ x := by omega
  have hnot : ¬ y < x := by omega
  simp [byNameSmart, ha, hb, PF.isNum, PF.ord, hne, hne', hxy, hnot]

/-- … puts every number before everything that is not a number (NaN counts as text) … -/
theorem numeric_numbers_first (num : Key → PF) (a b : Key) (x : Int)
    (ha : num a = .val x) (hb : (num b).isNum = false) :
    byNameSmart num a b = true ∧ byNameSmart num b a = false := by
  cases hnb : num b with
  | val y => rw [hnb] at hb; simp [PF.isNum] at hb
  | err => simp [byNameSmart, ha, hnb, PF.isNum]
  | nan => simp [byNameSmart, ha, hnb, PF.isNum]

/-- … and two spellings of one number, or two non-numbers, by text. -/
theorem numeric_ties_by_text (num : Key → PF) (a b : Key)
    (h : (num a).mag = (num b).mag) : byNameSmart num a b = bytesLt a b := by
  rw [byNameSmart_eq_numeric]
  simp only [numericLess, byRank, lexLt, h, decide_true, Bool.true_and]
  rw [optLt_strictTotal.irrefl _ trivial]
  rfl

/-- `date`: from a fresh closure, two keys that parse with the inferred layout are ordered
chronologically. -/
theorem date_chronological {σ : Type} (o : Oracle) (fb : SCmp Key σ) (s0 : σ) (a b : Key) (f : Nat) (x y : Int)
    (hf : o.dfmt a = some f) (ha : o.dparse f a = some x) (hb : o.dparse f b = some y) (hxy : x < y) :
    (byDate o fb ({}, s0) a b).1 = true := by
  have hne : x ≠ y := by omega
  simp [byDate, hf, ha, hb, hne, hxy]

/-- `date`, set level: with one shared layout the specified (and, by `date_partial`, the computed)
order is chronological. -/
theorem date_chronological_set (o : Oracle) (sets : List SortSet) (keys : List Key) (k0 : Key) (rest : List Key)
    (hk : keys = k0 :: rest) (f : Nat) (hf : o.dfmt k0 = some f)
    (hall : ∀ k ∈ keys, o.dfmt k = some f ∧ (o.dparse f k).isSome = true)
    (a b : Key) (x y : Int) (ha : o.dparse f a = some x) (hb : o.dparse f b = some y) (hxy : x < y) :
    dateSpec o sets keys a b = true := by
  subst hk
  unfold dateSpec dateSpecLess
  simp only [hf]
  rw [if_pos (by simpa [List.all_eq_true] using hall)]
  simp [chronoLess, byRank, lexLt, intLt, ha, hb, hxy]

/-! ## contextual: calendar positions, over the tables regenerated from the Go source -/

def weekdayNames : List String :=
  ["sunday", "monday", "tuesday", "wednesday", "thursday", "friday", "saturday"]

def monthNames : List String :=
  ["january", "february", "march", "april", "may", "june", "july", "august", "september",
   "october", "november", "december"]

/-- every entry abbreviates (is a prefix of) the full name at its position, and every full name is present -/
def calendarTable (table : List (String × Nat)) (names : List String) : Bool :=
  table.all (fun e => match names[e.2]? with
    | some full => e.1.toList.isPrefixOf full.toList
    | none => false)
  && (List.range names.length).all (fun i => table.contains (names.getD i "", i))

def asKeys (table : List (String × Nat)) : SortSet := table.map (fun e => (asc e.1, e.2))

/-- The generated weekday and month tables map every name and abbreviation to its calendar
position (Sunday = 0 … Saturday = 6, January = 0 … December = 11). -/
theorem contextual_calendar :
    calendarTable Gen.C13.weekdays weekdayNames = true ∧ calendarTable Gen.C13.months monthNames = true := by
  decide

/-- The hand-written tables of the model are the generated ones (same finite maps, same order of
`sortSets`), and the two tables share no key. -/
theorem tables_match_source :
    (∀ e ∈ Gen.C13.weekdays, weekdays.get (asc e.1) = some e.2) ∧ Gen.C13.weekdays.length = weekdays.length
    ∧ (∀ e ∈ Gen.C13.months, months.get (asc e.1) = some e.2) ∧ Gen.C13.months.length = months.length
    ∧ Gen.C13.sortSets = [Gen.C13.weekdays, Gen.C13.months] ∧ sortSets = [weekdays, months]
    ∧ (∀ e ∈ Gen.C13.weekdays, months.get (asc e.1) = none) := by
  decide

/-- The closure, fresh, on any two generated weekday (month) spellings: earlier calendar position first. -/
theorem contextual_orders_by_calendar :
    (∀ e1 ∈ Gen.C13.weekdays, ∀ e2 ∈ Gen.C13.weekdays, e1.2 < e2.2 →
      (byContextual witnessOracle sortSets ({}, ()) (asc e1.1) (asc e2.1)).1 = true)
    ∧ (∀ e1 ∈ Gen.C13.months, ∀ e2 ∈ Gen.C13.months, e1.2 < e2.2 →
      (byContextual witnessOracle sortSets ({}, ()) (asc e1.1) (asc e2.1)).1 = true) := by
  decide

/-- In general: two keys of the inferred table are ordered by position, then by text. -/
theorem contextual_calendar_step (o : Oracle) (sets : List SortSet) (set : SortSet) (a b : Key) (i j : Nat)
    (hinf : inferSortSetByValue sets o.lower a = some set)
    (ha : set.get (o.lower a) = some i) (hb : set.get (o.lower b) = some j) (hij : i < j) :
    (byContextual o sets ({}, ()) a b).1 = true := by
  have hne : i ≠ j := by omega
  simp [byContextual, byContextualEx, hinf, ha, hb, hne, hij]

/-! ## reversing -/

/-- `Reverse` negates every answer of the closure … -/
theorem reverse_negates {α σ : Type} (cmp : SCmp α σ) (s : σ) (a b : α) :
    (reverse cmp s a b).1 = !(cmp s a b).1 ∧ (reverse cmp s a b).2 = (cmp s a b).2 :=
  ⟨rfl, rfl⟩

/-- … and on distinct keys that reverses the sorted sequence. -/
theorem reverse_reverses {α : Type} {less : α → α → Bool} {out keys : List α} (hnd : keys.Nodup)
    (ho : OrderOn (· ∈ keys) less) :
    IsSorted (revLess less) out keys ↔ IsSorted less out.reverse keys :=
  isSorted_rev hnd ho

/-- The reversed sort returns the reverse of the forward sort (reference sort; by `sort_result` also
the real one). -/
theorem reverse_result {α : Type} {less : α → α → Bool} {keys : List α} (hnd : keys.Nodup)
    (ho : OrderOn (· ∈ keys) less) : isort (revLess less) keys = (isort less keys).reverse := by
  have h1 := isort_sorted hnd ho.rev
  have h2 : IsSorted (revLess less) (isort less keys).reverse keys :=
    (isSorted_rev hnd ho).mpr (by rw [List.reverse_reverse]; exact isort_sorted hnd ho)
  exact sorted_unique' ho.rev h1 h2

/-! ## sort names and modifiers -/

def parsed (r : Except SortErr (Key × Bool)) : Option (Key × Bool) :=
  match r with
  | .ok x => some x
  | .error _ => none

def sortNames : List String := ["text", "numeric", "contextual", "context", "date", "value", ""]

/-- modifier ↦ expected `reverse` as a function of "the name is value" (`none` = error) -/
def modifierExpect : List (String × (Bool → Option Bool)) :=
  [("", fun v => some v), (":asc", fun _ => some false), (":desc", fun _ => some true),
   (":rev", fun v => some (!v)), (":reverse", fun v => some (!v)), (":ASC", fun _ => some false),
   (":Reverse", fun v => some (!v)), (":asc:whatever", fun _ => some false),
   (":", fun _ => none), (":bla", fun _ => none), (":ascending", fun _ => none)]

/-- `parseSort` on every name × modifier: `value` defaults to descending, `:asc`/`:desc` set the
direction, `:rev`/`:reverse` flip the default, anything else is an error. -/
theorem modifier_table :
    (sortNames.all fun n => modifierExpect.all fun me =>
      parsed (parseSort asciiLower (asc n ++ asc me.1))
        == (me.2 (n == "value")).map (fun r => (asc n, r))) = true := by
  decide

def modeOfReturn (stmt : String) : Option Mode :=
  if stmt = "return sorting.ValueNilSorter(sorting.ByName), nil" then some .text
  else if stmt = "return sorting.ValueNilSorter(sorting.ByNameSmart), nil" then some .numeric
  else if stmt = "return sorting.ValueNilSorter(sorting.ByContextual()), nil" then some .contextual
  else if stmt = "return sorting.ValueNilSorter(sorting.ByDateWithContextual()), nil" then some .date
  else if stmt = "return sorting.ValueSorterEx(sorting.ByName), nil" then some .value
  else none

/-- The model's name table and modifier table are the switches found in the Go source now. -/
theorem switches_match_source :
    (Gen.C13.lookupSwitch.all fun row => (modeOfReturn row.2).isSome
        && row.1.all fun label => lookupMode asciiLower (asc label) == modeOfReturn row.2) = true
    ∧ Gen.C13.lookupSwitch.length = 5
    ∧ lookupMode asciiLower (asc "fake") = none
    ∧ Gen.C13.modifierSwitch =
        [(["rev", "reverse"], "reverse = !reverse"), (["desc"], "reverse = true"), (["asc"], "reverse = false"),
         (["<default>"], "return \"\", false, errors.New(\"invalid sort modifier\")")]
    ∧ Gen.C13.reverseDefault = "(realname == \"value\")" := by
  decide

/-! ## non-vacuity -/

/-- The assumed `sort.Sort` contract is satisfiable: insertion sort, written as a comparison tree,
meets it – so `perm_invariant`, `perm_invariant_partial` and `sort_result` are not vacuous. -/
theorem sort_contract_satisfiable : SortContract (isortA (α := NV)) := isortA_contract

/-- `perm_invariant` instantiated: numeric, reversed, three rows, two arrival orders. -/
example (o : Oracle) :
    (Algo.run (finalSorter o sortSets .numeric true).cmp (finalSorter o sortSets .numeric true).init
        (isortA [⟨asc "10", 1⟩, ⟨asc "1a", 2⟩, ⟨asc "2", 3⟩])).1
    = (Algo.run (finalSorter o sortSets .numeric true).cmp (finalSorter o sortSets .numeric true).init
        (isortA [⟨asc "2", 3⟩, ⟨asc "10", 1⟩, ⟨asc "1a", 2⟩])).1 :=
  (perm_invariant o sortSets .numeric (Or.inr (Or.inl rfl)) true isortA sort_contract_satisfiable
    [⟨asc "10", 1⟩, ⟨asc "1a", 2⟩, ⟨asc "2", 3⟩] _ _ (by decide) (List.Perm.refl _) (by decide)).1

/-- keys with two spellings of one number, a non-number and NaN: all hypotheses of the order theorems hold -/
example : OrderOn (· ∈ [asc "10", asc "1a", asc "2", asc "1.0", asc "1"]) (byNameSmart (fun _ => .err)) :=
  ((numeric_less_strict_total _).mono (fun _ _ => trivial)).toOrderOn

/-- a uniform weekday set in three spellings satisfies `ctxUniform` -/
example : ctxUniform witnessOracle sortSets [asc "Mon", asc "tues", asc "TUE", asc "sunday"] = true := by decide

/-- a uniform date set satisfies `dateUniform` -/
example : dateUniform witnessOracle sortSets [asc "01/02/2022", asc "12/31/2021"] = true := by decide

/-- the reference sort sorts the F18 witness the same way from every arrival order -/
example : (isort (byNameSmart (fun k => if k = asc "10" then .val 10 else if k = asc "2" then .val 2 else .err)))
    [asc "10", asc "1a", asc "2"] = [asc "2", asc "10", asc "1a"]
  ∧ (isort (byNameSmart (fun k => if k = asc "10" then .val 10 else if k = asc "2" then .val 2 else .err)))
    [asc "1a", asc "2", asc "10"] = [asc "2", asc "10", asc "1a"] := by decide

end Rare.C13
