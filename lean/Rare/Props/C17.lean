import Rare.Proofs.C17Gen
import Rare.Proofs.C17Wf
import Rare.Proofs.C17Range
import Rare.Proofs.C17Wrap
import Rare.Proofs.C17Laws
import Rare.Proofs.C17Pool
import Rare.Proofs.C17Sel
import Rare.Proofs.C17Iter
import Rare.Proofs.C17Heap
import Rare.Proofs.C17HeapI
import Rare.Proofs.C17DenE
import Rare.Proofs.C17HeapIE
import Rare.Proofs.C17Extra
import Rare.Model.Expr.Std
import Rare.Gen.C17
import Rare.Spec.C17Wf
/-!
# C17 — array helpers obey list semantics

A string is read as the list `elems s` of its NUL-separated elements; `pack xs` is the string with
elements `xs`.  Every theorem is about the stage a helper's builder returns
(`pkg/expressions/stdlib/funcsRange.go`, `stringSplitter`, `kfJoin`), run against an ARBITRARY
enclosing context `ctx`, with ARBITRARY argument stages.  Argument stages are only assumed to return
(`a.run ctx = .ok v`; a panicking argument is C08's subject).  Sub-expressions of `@map`, `@filter`,
`@reduce` are arbitrary stages `a1`; `f v0 v1` names what `a1` returns in `subCtx ctx v0 v1`, the context
where `{0}`/`{1}` are `v0`/`v1`, every other index is empty and every named key is resolved by `ctx`
(`sub_context_binding`).

"Well-formed": every array result below is literally `pack` of the specification's element list.
Section "Well-formed results" says what that means for the separators: `pack ys` has exactly
`ys.length - 1` joints and otherwise only the separators that sit INSIDE members of `ys`
(`wellformed_census`), reading it back gives the members' own elements in order (`wellformed_flatten`),
and it reads back as `ys` itself exactly when no member contains a separator (`wellformed_iff`).
Members can only contain a separator when a sub-expression (`@map`'s function, `@for`'s start/next,
an argument of `{@ ..}`/`{$ ..}`) or the string handed to `@split` does; `@filter`, `@slice`, `@range`
results are well-formed unconditionally (`*_wellformed`).

Integer arguments: `@select`/`@slice` take their constant arguments through `EvalStageInt`/`EvalArgInt`
(`evalStageInt`, `evalArgInt`), `@range` through `strconv.Atoi` (`atoi`); the theorems assume only
that, the int64 range of the parsed values is proved (`Proofs/C17Atoi.lean`: `atoi_range`, `atoi_iff`).
`len_spec/select_spec/slice_spec` keep ONE size hypothesis, `len(arr) < MaxInt64 = 2^63-1`: Go's `len` is an
`int`, so every Go string has `len ≤ 2^63-1`, and equality is impossible on any machine (the string would fill
the whole address space); for the model's unbounded lists the hypothesis is needed because
`strings.Count(..)+1` and the loop counter `i++` are wrapped int64 arithmetic.  `len_spec_wrapped`,
`select_spec_wrapped`, `slice_spec_wrapped` are the unconditional forms (every list, the wrap-around mirrored at
specification level: `Spec/C17Wrap.lean`), `wrapped_is_documented` says that below 2^63 elements they coincide.
-/
namespace Rare.C17
open Rare Rare.Expr Rare.Expr.Funcs.Range

/-! ## Sub-contexts: `{0}`/`{1}` bound, keys from the enclosing match -/

/-- Evaluating a stage inside the pooled `subContext{parent: ctx, vals: [v0, v1]}` is evaluating it
    in `subCtx ctx v0 v1`: index 0/1 are the bound values, larger indices are empty, a negative index
    (not an element index) and every key look-up are answered by the enclosing context. -/
theorem sub_context_binding {α : Type} (ctx : Ctx) (v0 v1 : Bytes) (c : Comp α) :
    (c.withSub v0 v1).run ctx = c.run (subCtx ctx v0 v1) ∧
    (subCtx ctx v0 v1).getMatch 0 = v0 ∧ (subCtx ctx v0 v1).getMatch 1 = v1 ∧
    (∀ i, 1 < i → (subCtx ctx v0 v1).getMatch i = []) ∧
    (∀ i, i < 0 → (subCtx ctx v0 v1).getMatch i = ctx.getMatch i) ∧
    (∀ k, (subCtx ctx v0 v1).getKey k = ctx.getKey k) := by
  refine ⟨withSub_run ctx v0 v1 c, rfl, rfl, ?_, ?_, fun _ => rfl⟩
  · intro i h
    have h1 : ¬ i < 0 := by omega
    have h2 : i ≠ 0 := by omega
    have h3 : i ≠ 1 := by omega
    simp [subCtx, h1, h2, h3]
  · intro i h
    simp [subCtx, h]

/-! ## The splitter -/

/-- `stringSplitter.Splitter` with any non-empty delimiter of any length: draining it (a loop that
    appends every `Next()` until `Done()`) never hangs and yields exactly `splitOn Delim S`. -/
theorem splitter_spec (ctx : Ctx) (s d : Bytes) (hd : d ≠ []) :
    (splitLoop (loopFuel s) { S := s, Delim := d } ([] : List Bytes) (fun _ => true)
      (fun acc x => .ret (acc ++ [x]))).run ctx = .ok (splitOn d s) := by
  rw [splitLoop_run_init ctx _ _ (fun acc x => acc ++ [x]) (fun _ _ => rfl) s d hd,
    foldWhile_true]
  have : ∀ (xs acc : List Bytes), xs.foldl (fun acc x => acc ++ [x]) acc = acc ++ xs := by
    intro xs; induction xs with
    | nil => simp
    | cons x xs ih => intro acc; simp [ih]
  simp [this]

/-! ## split / join are inverse -/

/-- List level, any delimiter `d ≠ []` of ANY length, any string: joining the pieces gives `s` back. -/
theorem join_split_list (d : Bytes) (hd : d ≠ []) (s : Bytes) : join d (splitOn d s) = s :=
  join_splitOn d hd s

/-- List level: splitting a joined non-empty list gives the list back when the delimiter occurs
    nowhere but at the joints, i.e. in no `x ++ (d without its last byte)`.  For a one-byte delimiter
    this says "no element contains `d`". -/
theorem split_join_list (d : Bytes) (hd : d ≠ []) (xs : List Bytes) (hx : xs ≠ [])
    (h : ∀ x ∈ xs, ¬ d <:+: x ++ d.dropLast) : splitOn d (join d xs) = xs :=
  splitOn_join d hd xs hx h

/-- `{@split s d}` is `pack (splitOn d s)`. -/
theorem split_spec (ctx : Ctx) (a0 : Stage) (s d : Bytes) (hd : d ≠ []) (h0 : a0.run ctx = .ok s) :
    (splitStage d a0).run ctx = .ok (pack (splitOn d s)) := by
  unfold splitStage
  rw [run_bind_ok ctx _ _ _ h0, arrayOperator_run ctx s d _ hd noopMapper id (noop_run ctx)]
  simp [pack, ArraySeparatorString, ArraySeparator, NUL]

/-- `{@join a d}` is `join d (elems a)` (`d` may be empty). -/
theorem join_spec (ctx : Ctx) (a0 : Stage) (arr d : Bytes) (h0 : a0.run ctx = .ok arr) :
    (joinStage d a0).run ctx = .ok (join d (elems arr)) := by
  unfold joinStage
  rw [run_bind_ok ctx _ _ _ h0,
    arrayOperator_run ctx arr _ d (by simp [ArraySeparatorString]) noopMapper id (noop_run ctx)]
  simp [elems, ArraySeparatorString, ArraySeparator, NUL]

private theorem nul_free_pieces (d : Bytes) (hd : d ≠ []) (s : Bytes) (hs : NUL ∉ s) :
    ∀ x ∈ splitOn d s, ¬ [NUL] <:+: x ++ ([NUL] : Bytes).dropLast := by
  intro x hx hi
  have hi' : [NUL] <:+: x := by simpa using hi
  exact splitOn_nul_free d hd s hs x hx (hi'.subset (List.mem_singleton.mpr rfl))

/-- **@split and @join are inverse (1)**: for every delimiter `d ≠ ""` of any length and every string
    `s` that is itself one element (contains no separator), `{@join {@split s d} d}` is `s`. -/
theorem split_join_inverse (ctx : Ctx) (a0 : Stage) (s d : Bytes) (hd : d ≠ [])
    (h0 : a0.run ctx = .ok s) (hs : NUL ∉ s) :
    (joinStage d (splitStage d a0)).run ctx = .ok s := by
  rw [join_spec ctx _ _ d (split_spec ctx a0 s d hd h0)]
  unfold elems pack
  rw [splitOn_join [NUL] (by simp) _ (by unfold splitOn; exact splitGo_ne_nil _ _ _ _)
    (nul_free_pieces d hd s hs), join_splitOn d hd s]

/-- **@split and @join are inverse (2)**: `{@split {@join a d} d}` is `a` when the delimiter occurs
    nowhere but at the joints (see `split_join_list`). -/
theorem join_split_inverse (ctx : Ctx) (a0 : Stage) (arr d : Bytes) (hd : d ≠ [])
    (h0 : a0.run ctx = .ok arr) (h : ∀ x ∈ elems arr, ¬ d <:+: x ++ d.dropLast) :
    (splitStage d (joinStage d a0)).run ctx = .ok arr := by
  rw [split_spec ctx _ _ d hd (join_spec ctx a0 arr d h0)]
  rw [splitOn_join d hd _ (by unfold elems splitOn; exact splitGo_ne_nil _ _ _ _) h]
  unfold pack elems
  rw [join_splitOn [NUL] (by simp) arr]

/-- Reading a packed list back: a non-empty list of separator-free elements is recovered exactly,
    so a result of the form `pack ys` contains no separator that does not delimit an element. -/
theorem wellformed_readback (ys : List Bytes) (hy : ys ≠ []) (h : ∀ y ∈ ys, NUL ∉ y) :
    elems (pack ys) = ys := by
  unfold elems pack
  apply splitOn_join [NUL] (by simp) ys hy
  intro y hm hi
  apply h y hm
  have : [NUL] <:+: y := by simpa using hi
  simpa using this.subset (List.mem_singleton.mpr rfl)

/-- …and conversely every array value is the packing of its elements. -/
theorem pack_elems (s : Bytes) : pack (elems s) = s := join_splitOn [NUL] (by simp) s

/-! ## @len -/

/-- `{@len a}` counts the elements; the empty string is the empty array.
    (`hl`: see the header – true of every Go string; needed because `strings.Count(..)+1` is int64.) -/
theorem len_spec (ctx : Ctx) (a0 : Stage) (arr : Bytes) (h0 : a0.run ctx = .ok arr)
    (hl : (arr.length : Int) < maxInt64) :
    (lenStage a0).run ctx = .ok (if arr = [] then ascii "0" else itoa (len arr)) := by
  unfold lenStage
  rw [run_bind_ok ctx _ _ _ h0]
  by_cases he : arr = []
  · simp [he, Comp.run]
  · have hc : arr.count NUL ≤ arr.length := List.count_le_length
    have : wrap64 (countSep arr + 1) = ((elems arr).length : Nat) := by
      rw [elems_length, wrap64_id]
      · simp [countSep, ArraySeparator, NUL]
      · simp only [countSep, minInt64]; omega
      · simp only [countSep, ArraySeparator]; unfold maxInt64 at *; simp only [NUL] at hc; omega
    simp [he, Comp.run, this, len]

/-- The same for ALL lists, with Go's wrap-around mirrored (no size hypothesis): the count is the
    number of elements reduced to int64.  (`len_spec` is the case where nothing wraps.) -/
theorem len_spec_wrapped (ctx : Ctx) (a0 : Stage) (arr : Bytes) (h0 : a0.run ctx = .ok arr) :
    (lenStage a0).run ctx =
      .ok (if arr = [] then ascii "0" else itoa (wrap64 ((elems arr).length : Nat))) := by
  unfold lenStage
  rw [run_bind_ok ctx _ _ _ h0]
  have : countSep arr + 1 = (((elems arr).length : Nat) : Int) := by
    rw [elems_length]; simp [countSep, ArraySeparator, NUL]
  simp [Comp.run, this]

/-! ## @map, @filter, @reduce -/

/-- `{@map a sub}`: `sub` applied to each element in order, `{0}` = the element, `{1}` empty. -/
theorem map_spec (ctx : Ctx) (a0 a1 : Stage) (arr : Bytes) (f : Bytes → Bytes → Bytes)
    (h0 : a0.run ctx = .ok arr) (h1 : ∀ v0 v1, a1.run (subCtx ctx v0 v1) = .ok (f v0 v1)) :
    (mapStage a0 a1).run ctx = .ok (pack ((elems arr).map fun x => f x [])) := by
  unfold mapStage
  rw [run_bind_ok ctx _ _ _ h0,
    arrayOperator_run ctx arr _ _ (by simp [ArraySeparatorString]) _ (fun x => f x [])
      (fun x => by rw [withSub_run]; exact h1 x [])]
  simp [pack, elems, ArraySeparatorString, ArraySeparator, NUL]

/-- `{@filter a sub}`: the elements for which `sub` (with `{0}` = the element) is truthy, in order. -/
theorem filter_spec (ctx : Ctx) (a0 a1 : Stage) (arr : Bytes) (f : Bytes → Bytes → Bytes)
    (h0 : a0.run ctx = .ok arr) (h1 : ∀ v0 v1, a1.run (subCtx ctx v0 v1) = .ok (f v0 v1)) :
    (filterStage a0 a1).run ctx = .ok (pack ((elems arr).filter fun x => truthy (f x []))) := by
  unfold filterStage
  rw [run_bind_ok ctx _ _ _ h0, run_bind]
  rw [splitLoop_run_init ctx _ _
    (fun st item => if truthy (f item []) then
        ⟨(if st.needSep then st.sb.write ArraySeparatorString else st.sb).write item, true⟩ else st)
    (by
      intro st x
      rw [run_bind_ok ctx _ _ _ (by rw [withSub_run]; exact h1 x [])]
      by_cases ht : truthy (f x []) = true <;> simp [ht, Comp.run])
    arr _ (by simp [ArraySeparatorString])]
  simp only [Except.bind, Comp.run, foldWhile_true]
  have := filter_fold (fun x => truthy (f x [])) (splitOn ArraySeparatorString arr) [] ⟨{}, false⟩
    ⟨rfl, rfl⟩
  simp only [List.nil_append] at this
  rw [this]; rfl

/-- `{@reduce a sub [init]}`: left fold with `{0}` = the accumulator and `{1}` = the element.  The first
    element starts the fold ONLY when no initial value is given (`init = ""`: `EvalStageIndexOrDefault`
    reads an absent, empty or non-constant third argument as `""`), and only once, before the loop
    (`reduce`, `Spec/C17.lean`; spelled out in `reduce_spec_cases`, `reduce_empty_first`,
    `reduce_no_reseed` below). -/
theorem reduce_spec (ctx : Ctx) (a0 a1 : Stage) (arr init : Bytes) (f : Bytes → Bytes → Bytes)
    (h0 : a0.run ctx = .ok arr) (h1 : ∀ v0 v1, a1.run (subCtx ctx v0 v1) = .ok (f v0 v1)) :
    (reduceStage init a0 a1).run ctx = .ok (reduce f init (elems arr)) := by
  unfold reduceStage
  rw [run_bind_ok ctx _ _ _ h0]
  have hb : ∀ memo x, (a1.withSub memo x).run ctx = .ok (f memo x) := fun memo x => by
    rw [withSub_run]; exact h1 memo x
  by_cases hi : init = []
  · obtain ⟨e1, e2, e3⟩ := first_next arr ArraySeparatorString (by simp [ArraySeparatorString])
    simp only [hi, if_true]
    rw [splitLoop_run ctx _ _ f hb _ _ _ (by rw [e2]; simp [ArraySeparatorString])
      (by simp only [loopFuel]; omega)]
    rw [foldWhile_true, e2]
    have : elems arr = splitOn ArraySeparatorString arr := rfl
    simp [reduce, this, e1]
  · simp only [hi, if_false]
    rw [splitLoop_run_init ctx _ _ f hb arr _ (by simp [ArraySeparatorString]), foldWhile_true]
    simp [reduce, hi, elems, ArraySeparatorString, ArraySeparator, NUL]

/-- **The initial-value rule of `@reduce`, exactly.**  The array always has a first element `x` (the empty
    string is the array with the one element `""`).  With a non-empty initial value EVERY element, the first
    included, is passed to the reducer; without one (absent, or the empty string) the first element IS the
    starting accumulator and the reducer sees the remaining elements only.  That seeding happens once, before
    the loop: nothing in the result depends on whether an accumulator value is empty. -/
theorem reduce_spec_cases (ctx : Ctx) (a0 a1 : Stage) (arr init : Bytes) (f : Bytes → Bytes → Bytes)
    (h0 : a0.run ctx = .ok arr) (h1 : ∀ v0 v1, a1.run (subCtx ctx v0 v1) = .ok (f v0 v1)) :
    ∃ x r, elems arr = x :: r ∧
      (reduceStage init a0 a1).run ctx = .ok (if init = [] then r.foldl f x else (x :: r).foldl f init) := by
  have hne : elems arr ≠ [] := by unfold elems splitOn; exact splitGo_ne_nil _ _ _ _
  cases he : elems arr with
  | nil => exact absurd he hne
  | cons x r =>
    refine ⟨x, r, rfl, ?_⟩
    rw [reduce_spec ctx a0 a1 arr init f h0 h1, he]
    by_cases hi : init = [] <;> simp [reduce, hi]

/-- **An empty accumulator is an ordinary accumulator** (first element empty, no initial value): the list
    `"" , y, r…` reduces to the fold of `r` from `f "" y` – the reducer IS called with `{0} = ""` and
    `{1} = y`; `y` does not silently become the accumulator. -/
theorem reduce_empty_first (ctx : Ctx) (a0 a1 : Stage) (arr y : Bytes) (r : List Bytes) (f : Bytes → Bytes → Bytes)
    (h0 : a0.run ctx = .ok arr) (h1 : ∀ v0 v1, a1.run (subCtx ctx v0 v1) = .ok (f v0 v1))
    (he : elems arr = [] :: y :: r) :
    (reduceStage [] a0 a1).run ctx = .ok (r.foldl f (f [] y)) := by
  rw [reduce_spec ctx a0 a1 arr [] f h0 h1, he]
  simp [reduce]

/-- **No re-seeding in the middle** (any initial value): cut the array after a non-empty prefix `pre`; the
    result is the fold of the rest from the prefix's result `m` – through the reducer, `f m y`, also when `m`
    is the empty string (a reducer may well return `""`). -/
theorem reduce_no_reseed (ctx : Ctx) (a0 a1 : Stage) (arr init : Bytes) (pre post : List Bytes)
    (f : Bytes → Bytes → Bytes)
    (h0 : a0.run ctx = .ok arr) (h1 : ∀ v0 v1, a1.run (subCtx ctx v0 v1) = .ok (f v0 v1))
    (he : elems arr = pre ++ post) (hp : pre ≠ []) :
    (reduceStage init a0 a1).run ctx = .ok (post.foldl f (reduce f init pre)) := by
  rw [reduce_spec ctx a0 a1 arr init f h0 h1, he]
  cases pre with
  | nil => exact absurd rfl hp
  | cons x r => by_cases hi : init = [] <;> simp [reduce, hi, List.foldl_append]

/-! ## @select, @slice -/

private theorem count_as_length (arr : Bytes) (hl : (arr.length : Int) < maxInt64) :
    wrap64 (countSep arr + 1) = ((elems arr).length : Int) ∧ ((elems arr).length : Int) ≤ maxInt64 := by
  have hc : arr.count NUL ≤ arr.length := List.count_le_length
  rw [elems_length]
  constructor
  · rw [wrap64_id]
    · simp [countSep, ArraySeparator, NUL]
    · simp only [countSep, minInt64]; omega
    · simp only [countSep, ArraySeparator]; unfold maxInt64 at *; simp only [NUL] at hc; omega
  · unfold maxInt64 at *; omega

/-- `{@select a i}`: the i-th element; a negative `i` counts from the end; out of range (either
    side, however large) gives the empty string.  `i` is whatever `EvalStageInt` made of the constant
    second argument (`hi`; it is an int64 by `evalStageInt_range`, no assumption). -/
theorem select_spec (ctx : Ctx) (a0 a1 : Stage) (arr : Bytes) (index : Int)
    (hi : evalStageInt a1 = .ok (some index))
    (h0 : a0.run ctx = .ok arr) (hl : (arr.length : Int) < maxInt64) :
    kfArraySelect [a0, a1] = ok (selectStage index a0) ∧
    (selectStage index a0).run ctx = .ok (select (elems arr) index) := by
  have h1 : minInt64 ≤ index := (evalStageInt_range hi).1
  refine ⟨by simp only [kfArraySelect, hi], ?_⟩
  unfold selectStage
  rw [run_bind_ok ctx _ _ _ h0, run_bind]
  rw [splitLoop_run_init ctx _ _ (selPhi (selectIndex index arr))
    (by intro st x; simp only [selPhi]; split <;> rfl) arr _ (by simp [ArraySeparatorString])]
  obtain ⟨hc, hm⟩ := count_as_length arr hl
  have hf := select_fold (selectIndex index arr) (splitOn ArraySeparatorString arr) 0 (by omega)
    (by have : splitOn ArraySeparatorString arr = elems arr := rfl
        rw [this]; omega)
  simp only [Except.bind, Comp.run]
  have hg : (fun st : SelSt => st.found.isNone) = selG := rfl
  rw [hg, hf]
  have he : splitOn ArraySeparatorString arr = elems arr := rfl
  rw [he]
  unfold selectIndex select
  by_cases hn : index < 0
  · simp only [hn, if_true, hc]
    rw [wrap64_id _ (by unfold minInt64 at *; omega) (by unfold maxInt64 at *; omega)]
    simp
  · simp [hn]

/-- `{@slice a start [len]}`: `len` elements from `start`; a negative `start` counts from the end and
    is CLAMPED to the first element; any `len` (however large; negative or absent = to the end).
    `start`/`len` are what `EvalStageInt`/`EvalArgInt` made of the constant arguments (`rest` is the
    optional third argument). -/
theorem slice_spec (ctx : Ctx) (a0 a1 : Stage) (rest : List Stage) (arr : Bytes) (start len : Int)
    (hr : rest.length ≤ 1)
    (hs : evalStageInt a1 = .ok (some start))
    (hn : evalArgInt (a0 :: a1 :: rest) 2 (-1) = .ok (some len))
    (h0 : a0.run ctx = .ok arr) (hl : (arr.length : Int) < maxInt64) :
    kfArraySlice (a0 :: a1 :: rest) = ok (sliceStage start len a0) ∧
    (sliceStage start len a0).run ctx = .ok (pack (slice (elems arr) start len)) := by
  obtain ⟨h1, h2⟩ := evalStageInt_range hs
  refine ⟨?_, ?_⟩
  · have hc : argCountBetween (a0 :: a1 :: rest) 2 3 = true := by
      simp only [argCountBetween, List.length_cons, Bool.and_eq_true, decide_eq_true_eq]; omega
    simp only [kfArraySlice, hc, Bool.not_true, Bool.false_eq_true, if_false, hs, hn]
  unfold sliceStage
  rw [run_bind_ok ctx _ _ _ h0, run_bind]
  rw [splitLoop_run_init ctx _ _ (sliPhi (sliceStart start arr))
    (by intro st x; rfl) arr _ (by simp [ArraySeparatorString])]
  obtain ⟨hc, hm⟩ := count_as_length arr hl
  have he : splitOn ArraySeparatorString arr = elems arr := rfl
  have hrs : 0 ≤ sliceStart start arr ∧ sliceStart start arr ≤ maxInt64 ∧
      sliceStart start arr = (if start < 0 then max 0 (start + (elems arr).length) else start) := by
    unfold sliceStart
    by_cases hn : start < 0
    · simp only [hn, if_true, hc]
      rw [wrap64_id _ (by unfold minInt64 at *; omega) (by unfold maxInt64 at *; omega)]
      by_cases hneg : start + ((elems arr).length : Int) < 0
      · simp only [hneg, if_true]
        refine ⟨by omega, by unfold maxInt64; omega, ?_⟩
        omega
      · simp only [hneg, if_false]
        refine ⟨by omega, by unfold maxInt64 at *; omega, ?_⟩
        omega
    · simp only [hn, if_false]
      exact ⟨by omega, h2, trivial⟩
  have hf := slice_fold_before (sliceStart start arr) len hrs.1 hrs.2.1
    (splitOn ArraySeparatorString arr) 0 {} (by omega) hrs.1 (by rw [he]; omega)
  simp only [Except.bind, Comp.run]
  have hg : (fun st : SliceSt => decide (len < 0) || decide (wrap64 (st.i - sliceStart start arr) < len)) =
      sliG (sliceStart start arr) len := rfl
  rw [hg, hf, he, hrs.2.2]
  simp [slice, takeL]

/-- `{@select a i}` for ALL lists, Go's 64-bit counter mirrored (`selectW`, `Spec/C17Wrap.lean`): no size
    hypothesis.  (`select_spec` is the case where nothing wraps: `wrapped_is_documented`.) -/
theorem select_spec_wrapped (ctx : Ctx) (a0 a1 : Stage) (arr : Bytes) (index : Int)
    (hi : evalStageInt a1 = .ok (some index)) (h0 : a0.run ctx = .ok arr) :
    kfArraySelect [a0, a1] = ok (selectStage index a0) ∧
    (selectStage index a0).run ctx = .ok (selectW (elems arr) index) := by
  obtain ⟨h1, h2⟩ := evalStageInt_range hi
  refine ⟨by simp only [kfArraySelect, hi], ?_⟩
  unfold selectStage
  rw [run_bind_ok ctx _ _ _ h0, run_bind]
  rw [splitLoop_run_init ctx _ _ (selPhi (selectIndex index arr))
    (by intro st x; simp only [selPhi]; split <;> rfl) arr _ (by simp [ArraySeparatorString])]
  simp only [Except.bind, Comp.run]
  have hg : (fun st : SelSt => st.found.isNone) = selG := rfl
  have he : splitOn ArraySeparatorString arr = elems arr := rfl
  obtain ⟨r1, r2⟩ := selectTarget_range (elems arr).length index h1 h2
  have hf := select_fold_wrapped (selectIndex index arr) (by rw [selectIndex_eq]; exact r1)
    (by rw [selectIndex_eq]; exact r2) (elems arr) 0 (by
      have : (0 : Int) ≤ selectIndex index arr % 18446744073709551616 := Int.emod_nonneg _ (by decide)
      simpa using this)
  rw [counter_zero] at hf
  rw [hg, he, hf, selectIndex_eq]
  simp [selectW]

/-- `{@slice a start [len]}` for ALL lists, Go's 64-bit counter mirrored (`sliceW`): no size hypothesis. -/
theorem slice_spec_wrapped (ctx : Ctx) (a0 a1 : Stage) (rest : List Stage) (arr : Bytes) (start len : Int)
    (hr : rest.length ≤ 1)
    (hs : evalStageInt a1 = .ok (some start))
    (hn : evalArgInt (a0 :: a1 :: rest) 2 (-1) = .ok (some len))
    (h0 : a0.run ctx = .ok arr) :
    kfArraySlice (a0 :: a1 :: rest) = ok (sliceStage start len a0) ∧
    (sliceStage start len a0).run ctx = .ok (sliceW (elems arr) start len) := by
  refine ⟨?_, ?_⟩
  · have hc : argCountBetween (a0 :: a1 :: rest) 2 3 = true := by
      simp only [argCountBetween, List.length_cons, Bool.and_eq_true, decide_eq_true_eq]; omega
    simp only [kfArraySlice, hc, Bool.not_true, Bool.false_eq_true, if_false, hs, hn]
  unfold sliceStage
  rw [run_bind_ok ctx _ _ _ h0, run_bind]
  rw [splitLoop_run_init ctx _ _ (sliPhi (sliceStart start arr))
    (by intro st x; rfl) arr _ (by simp [ArraySeparatorString])]
  have he : splitOn ArraySeparatorString arr = elems arr := rfl
  have hg : (fun st : SliceSt => decide (len < 0) || decide (wrap64 (st.i - sliceStart start arr) < len)) =
      sliG (sliceStart start arr) len := rfl
  have hf := slice_fold_wrapped (sliceStart start arr) len (elems arr) 0 {}
  rw [counter_zero] at hf
  simp only [Except.bind, Comp.run]
  rw [hg, he, hf, sliceStart_eq]
  simp [sliceW]

/-- Below 2^63 elements – every array a Go program can hold – the wrapped forms ARE the documented list
    functions: `selectW = select`, `sliceW = pack ∘ slice`. -/
theorem wrapped_is_documented (xs : List Bytes) (i len : Int) (hl : (xs.length : Int) ≤ maxInt64)
    (h1 : minInt64 ≤ i) (h2 : i ≤ maxInt64) :
    selectW xs i = select xs i ∧ sliceW xs i len = pack (slice xs i len) :=
  ⟨selectW_eq_select xs i hl h1 h2, sliceW_eq_slice xs i len hl h1 h2⟩

/-! ## @for -/

/-- `{@for start cond next}`: `v₀ = start`, `vₖ₊₁ = next` evaluated with `{0} = vₖ`, `{1} = k`; the result
    packs exactly the values before the first `k` whose `cond` (same bindings) is not truthy — leading
    empty values included — and is `<INF>` iff more than `MAX_ITERATIONS` values would be produced.
    In particular the loop always returns (no fuel exhaustion). Keys inside `cond`/`next` are resolved
    by the enclosing context `ctx` (`subCtx`). -/
theorem for_spec (ctx : Ctx) (a0 a1 a2 : Stage) (start : Bytes) (fc fn : Bytes → Bytes → Bytes)
    (h0 : a0.run ctx = .ok start)
    (hc : ∀ v0 v1, a1.run (subCtx ctx v0 v1) = .ok (fc v0 v1))
    (hn : ∀ v0 v1, a2.run (subCtx ctx v0 v1) = .ok (fn v0 v1)) :
    (forStage a0 a1 a2).run ctx =
      .ok (match iterateWhile (fun v k => truthy (fc v (itoa (k : Nat)))) (fun v k => fn v (itoa (k : Nat)))
              Gen.maxIterations 0 start with
           | some ys => pack ys
           | none => InfMarker) := by
  unfold forStage
  rw [run_bind_ok ctx _ _ _ h0,
    forLoop_run ctx a1 a2 fc fn hc hn _ start 0 {} (by omega) (by omega)]
  simp only [Nat.sub_zero]
  cases iterateWhile (fun v k => truthy (fc v (itoa (k : Nat)))) (fun v k => fn v (itoa (k : Nat)))
      Gen.maxIterations 0 start <;> simp [forResult]

/-! ## @range -/

/-- `{@range start stop incr}` (defaults `start = 0`, `incr = 1` are literal stages, see `range_builders`).
    Arguments that are not integers give `<BAD-TYPE>`; a zero increment or one pointing away from
    `stop` gives `<VALUE>`; otherwise the result packs EXACTLY the terms `start + k·incr` (computed in
    unbounded integers) that lie strictly before `stop` — for every int64 `start`, `stop`, `incr`,
    however close to the limits (the wrapped loop counter never passes `stop` unnoticed) — and the
    loop always returns: `<INF>` iff there are more than `MAX_ITERATIONS` terms.
    (That the parsed values are int64 is `atoi_range`, not an assumption.) -/
theorem range_spec (ctx : Ctx) (sStart sStop sIncr : Stage) (a b c : Bytes) (start stop incr : Int)
    (ha : sStart.run ctx = .ok a) (hb : sStop.run ctx = .ok b) (hc : sIncr.run ctx = .ok c)
    (pa : atoi a = some start) (pb : atoi b = some stop) (pc : atoi c = some incr) :
    (rangeStage sStart sStop sIncr).run ctx =
      .ok (if incr = 0 ∨ (incr > 0 ∧ start > stop) ∨ (incr < 0 ∧ start < stop) then ErrorValue
           else match progWhile start stop incr Gen.maxIterations 0 with
             | some ys => pack (ys.map itoa)
             | none => InfMarker) := by
  obtain ⟨hs1, hs2⟩ := atoi_range pa
  obtain ⟨ht1, ht2⟩ := atoi_range pb
  obtain ⟨hi1, hi2⟩ := atoi_range pc
  unfold rangeStage
  rw [run_bind_ok ctx _ _ _ ha]; simp only [pa]
  rw [run_bind_ok ctx _ _ _ hb]; simp only [pb]
  rw [run_bind_ok ctx _ _ _ hc]; simp only [pc]
  unfold rangeBody
  by_cases h0 : incr = 0
  · simp [h0, Comp.run]
  · by_cases h1 : incr > 0 ∧ start > stop
    · simp [h0, h1, Comp.run]
    · by_cases h2 : incr < 0 ∧ start < stop
      · have : ¬ (incr > 0) := by omega
        simp [h0, h2, this, Comp.run]
      · have e1 : (decide (incr > 0) && decide (start > stop)) = false := by
          simpa using fun hp => by omega
        have e2 : (decide (incr < 0) && decide (start < stop)) = false := by
          simpa using fun hp => by omega
        simp only [h0, if_false, e1, e2, Bool.false_eq_true, h1, h2, or_self]
        obtain ⟨r, hr1, hr2⟩ := rangeLoop_run start stop incr ht1 ht2 hi1 hi2
          (Gen.maxIterations + 2) 0 start {} (by simp) hs1 hs2 (by omega) (by omega) sbWf_empty
          (by simp [Sb.len])
        rw [hr1]
        simp only [Nat.sub_zero] at hr2
        cases hp : progWhile start stop incr Gen.maxIterations 0 with
        | none =>
          rw [hp] at hr2
          simp only [rangeResult] at hr2
          subst hr2; simp [Comp.run]
        | some ys =>
          rw [hp] at hr2
          obtain ⟨sb', h3, h4⟩ := hr2
          subst h3
          simp [Comp.run, h4]

/-- **The documented sequence in closed form.**  The term-by-term progression of `range_spec` is
    `range start stop incr`: the `rangeCount` terms `start + k·incr`, `k = 0, 1, …` (⌈(stop-start)/incr⌉
    of them), or "too many" when that count exceeds the limit. -/
theorem range_closed_form (start stop incr : Int) (h0 : incr ≠ 0) (limit : Nat) :
    progWhile start stop incr limit 0 =
      if rangeCount start stop incr ≤ limit then some (range start stop incr) else none :=
  progWhile_eq_range start stop incr h0 limit

/-- `{@range start stop incr}` with the closed form substituted: `<VALUE>` for a zero or contrary
    increment, `<INF>` iff ⌈(stop-start)/incr⌉ > `MAX_ITERATIONS`, else exactly the packed decimal
    renderings of `start, start+incr, …` below (above, for a negative increment) `stop`. -/
theorem range_spec_closed (ctx : Ctx) (sStart sStop sIncr : Stage) (a b c : Bytes) (start stop incr : Int)
    (ha : sStart.run ctx = .ok a) (hb : sStop.run ctx = .ok b) (hc : sIncr.run ctx = .ok c)
    (pa : atoi a = some start) (pb : atoi b = some stop) (pc : atoi c = some incr) :
    (rangeStage sStart sStop sIncr).run ctx =
      .ok (if incr = 0 ∨ (incr > 0 ∧ start > stop) ∨ (incr < 0 ∧ start < stop) then ErrorValue
           else if rangeCount start stop incr ≤ Gen.maxIterations then pack ((range start stop incr).map itoa)
           else InfMarker) := by
  rw [range_spec ctx sStart sStop sIncr a b c start stop incr ha hb hc pa pb pc]
  by_cases h0 : incr = 0
  · simp [h0]
  · rw [range_closed_form start stop incr h0]
    by_cases hl : rangeCount start stop incr ≤ Gen.maxIterations <;> simp [hl]

/-- A non-integer argument gives `<BAD-TYPE>`. -/
theorem range_bad_type (ctx : Ctx) (sStart sStop sIncr : Stage) (a : Bytes)
    (ha : sStart.run ctx = .ok a) (pa : atoi a = none) :
    (rangeStage sStart sStop sIncr).run ctx = .ok ErrorNum := by
  unfold rangeStage
  rw [run_bind_ok ctx _ _ _ ha]; simp only [pa]; rfl

theorem range_builders (a0 a1 a2 : Stage) :
    kfArrayRange [a0] = ok (rangeStage (Stage.lit (ascii "0")) a0 (Stage.lit (ascii "1"))) ∧
    kfArrayRange [a0, a1] = ok (rangeStage a0 a1 (Stage.lit (ascii "1"))) ∧
    kfArrayRange [a0, a1, a2] = ok (rangeStage a0 a1 a2) := ⟨rfl, rfl, rfl⟩

/-! ## @in -/

/-- `{@in v a}` (with `a` constant: its static value is `set`) tests membership of `v` among the
    elements of `a`; the answer is the truthy `"1"` or the empty string. -/
theorem in_spec (ctx : Ctx) (a0 a1 : Stage) (v set : Bytes) (h0 : a0.run ctx = .ok v)
    (h1 : a1.probe = .ok (set, true)) :
    kfArrayIn [a0, a1] = ok (inStage (splitByte ArraySeparator set []) a0) ∧
    (inStage (splitByte ArraySeparator set []) a0).run ctx =
      .ok (if v ∈ elems set then TruthyVal else FalsyVal) := by
  refine ⟨by simp only [kfArrayIn, h1], ?_⟩
  unfold inStage
  rw [run_bind_ok ctx _ _ _ h0, splitByte_eq]
  have : splitGo [ArraySeparator] set 0 [] = elems set := rfl
  simp [this, Comp.run]

/-! ## `{$ ..}` / `{@ ..}` -/

/-- `{@ a₀ a₁ …}` and `{$ a₀ a₁ …}` concatenate their (two or more) arguments in order,
    separated by NUL. -/
theorem concat_spec (ctx : Ctx) (a0 : Stage) (rest : List Stage) (v0 : Bytes) (vs : List Bytes)
    (h0 : a0.run ctx = .ok v0) (hr : rest.map (fun a => a.run ctx) = vs.map Except.ok) :
    (joinArgsStage ArraySeparator a0 rest).run ctx = .ok (pack (v0 :: vs)) := by
  unfold joinArgsStage
  rw [run_bind_ok ctx _ _ _ h0, run_bind]
  obtain ⟨sb', e1, e2⟩ := joinArgsLoop_run ctx ArraySeparator rest vs hr (Sb.write {} v0)
  rw [e1]
  simp [Except.bind, Comp.run, e2, pack, join_cons_tail, ArraySeparator, NUL]

/-- With no argument the result is the empty array, with one argument the argument itself. -/
theorem concat_small (a : Stage) :
    joinArgs ArraySeparator [] = ok (Stage.lit []) ∧ joinArgs ArraySeparator [a] = ok a :=
  ⟨rfl, rfl⟩

/-- `{$ ..}` and `{@ ..}` are the same builder (`kfJoin(ArraySeparator)`) in the function table. -/
theorem concat_table :
    (table.find? (·.1 == "$")).map (·.2) = some (joinArgs ArraySeparator) ∧
    (table.find? (·.1 == "@")).map (·.2) = some (joinArgs ArraySeparator) := ⟨rfl, rfl⟩

/-! ## Well-formed results

"No separators appear that do not delimit an element of the result."  Every array-producing helper
returns `pack ys` for its specified element list `ys` (theorems above).  What that says about
separators, for ANY list `ys`: -/

/-- **Separator census.**  A packed non-empty list contains exactly `ys.length - 1` joints plus the
    separators that are inside its members; nothing leading, trailing or doubled is ever added. -/
theorem wellformed_census (ys : List Bytes) (hy : ys ≠ []) :
    (pack ys).count NUL + 1 = ys.length + (ys.map (List.count NUL)).sum := count_pack ys hy

/-- **Reading back.**  The elements of a packed non-empty list are the elements of its members, in
    order: a member that itself contains separators (it was produced by a sub-expression such as
    `{@ {0} x}`, or handed to `@split` with separators in it) contributes its own elements – this is
    how `{@ arr x}` appends to an array. -/
theorem wellformed_flatten (ys : List Bytes) (hy : ys ≠ []) : elems (pack ys) = ys.flatMap elems :=
  elems_pack_flatMap ys hy

/-- **The exact side condition**: the result reads back as the specified list itself if and only
    if no member contains a separator. -/
theorem wellformed_iff (ys : List Bytes) (hy : ys ≠ []) :
    elems (pack ys) = ys ↔ ∀ y ∈ ys, NUL ∉ y := elems_pack_iff ys hy

/-- Separator-free members ⇒ a well-formed array value (`IsArray`, `Spec/C17Wf.lean`). -/
theorem isArray_pack (ys : List Bytes) (h : ∀ y ∈ ys, NUL ∉ y) : IsArray (pack ys) ys :=
  ⟨rfl, fun e => by subst e; rfl, fun hy => (elems_pack_iff ys hy).mpr h⟩

/-- The elements of any array value are separator-free (so whatever a helper copies from its input
    array – `@filter`, `@slice`, `@select` – cannot introduce a stray separator). -/
theorem elements_separator_free (s : Bytes) : ∀ x ∈ elems s, NUL ∉ x := elems_nul_free s

/-- `@split`: well-formed when the string contains no separator (any delimiter `d ≠ ""`); in general
    it reads back as the pieces iff no piece contains a separator. -/
theorem split_wellformed (ctx : Ctx) (a0 : Stage) (s d : Bytes) (hd : d ≠ []) (h0 : a0.run ctx = .ok s) :
    ∃ out, (splitStage d a0).run ctx = .ok out ∧
      (elems out = splitOn d s ↔ ∀ x ∈ splitOn d s, NUL ∉ x) ∧
      (NUL ∉ s → IsArray out (splitOn d s)) := by
  refine ⟨_, split_spec ctx a0 s d hd h0, ?_, fun hs => isArray_pack _ (splitOn_nul_free d hd s hs)⟩
  exact elems_pack_iff _ (by unfold splitOn; exact splitGo_ne_nil _ _ _ _)

/-- `@map`: reads back as the mapped list iff no value of the sub-expression contains a separator;
    otherwise as the flattening of the values. -/
theorem map_wellformed (ctx : Ctx) (a0 a1 : Stage) (arr : Bytes) (f : Bytes → Bytes → Bytes)
    (h0 : a0.run ctx = .ok arr) (h1 : ∀ v0 v1, a1.run (subCtx ctx v0 v1) = .ok (f v0 v1)) :
    ∃ out, (mapStage a0 a1).run ctx = .ok out ∧
      elems out = ((elems arr).map fun x => f x []).flatMap elems ∧
      (elems out = (elems arr).map (fun x => f x []) ↔ ∀ x ∈ elems arr, NUL ∉ f x []) := by
  have hne : ((elems arr).map fun x => f x []) ≠ [] := by
    simp only [ne_eq, List.map_eq_nil_iff]; unfold elems splitOn; exact splitGo_ne_nil _ _ _ _
  refine ⟨_, map_spec ctx a0 a1 arr f h0 h1, elems_pack_flatMap _ hne, ?_⟩
  rw [elems_pack_iff _ hne]
  simp [List.mem_map]

/-- `@filter`: unconditionally well-formed (the empty selection is the empty array). -/
theorem filter_wellformed (ctx : Ctx) (a0 a1 : Stage) (arr : Bytes) (f : Bytes → Bytes → Bytes)
    (h0 : a0.run ctx = .ok arr) (h1 : ∀ v0 v1, a1.run (subCtx ctx v0 v1) = .ok (f v0 v1)) :
    ∃ out, (filterStage a0 a1).run ctx = .ok out ∧
      IsArray out ((elems arr).filter fun x => truthy (f x [])) :=
  ⟨_, filter_spec ctx a0 a1 arr f h0 h1,
    isArray_pack _ (fun y hy => elems_nul_free arr y (List.mem_filter.mp hy).1)⟩

private theorem slice_subset (xs : List Bytes) (start len : Int) : ∀ y ∈ slice xs start len, y ∈ xs := by
  intro y hy
  unfold slice at hy
  simp only at hy
  split at hy
  · exact List.mem_of_mem_drop hy
  · exact List.mem_of_mem_drop (List.mem_of_mem_take hy)

/-- `@slice`: unconditionally well-formed, for every start and length (this is F8's statement:
    no leading separator when the negative start reaches beyond the first element). -/
theorem slice_wellformed (ctx : Ctx) (a0 a1 : Stage) (rest : List Stage) (arr : Bytes) (start len : Int)
    (hr : rest.length ≤ 1) (hs : evalStageInt a1 = .ok (some start))
    (hn : evalArgInt (a0 :: a1 :: rest) 2 (-1) = .ok (some len))
    (h0 : a0.run ctx = .ok arr) (hl : (arr.length : Int) < maxInt64) :
    ∃ out, (sliceStage start len a0).run ctx = .ok out ∧ IsArray out (slice (elems arr) start len) :=
  ⟨_, (slice_spec ctx a0 a1 rest arr start len hr hs hn h0 hl).2,
    isArray_pack _ (fun y hy => elems_nul_free arr y (slice_subset _ _ _ y hy))⟩

/-- `@select` and `@join` return scalars: a selected element never contains a separator, and a
    joined string contains one only if the delimiter does. -/
theorem select_join_no_separator (i : Int) (arr d : Bytes) (hd : NUL ∉ d) :
    NUL ∉ select (elems arr) i ∧ NUL ∉ join d (elems arr) := by
  constructor
  · have hg : ∀ (l : List Bytes) (n : Nat), l.getD n [] = [] ∨ l.getD n [] ∈ l := by
      intro l n
      rw [List.getD_eq_getElem?_getD]
      cases hg : l[n]? with
      | none => exact Or.inl rfl
      | some x => exact Or.inr (List.mem_of_getElem? hg)
    have hsel : select (elems arr) i =
        (if (if i < 0 then i + ((elems arr).length : Int) else i) < 0 then []
         else (elems arr).getD (if i < 0 then i + ((elems arr).length : Int) else i).toNat []) := rfl
    rw [hsel]
    generalize (if i < 0 then i + ((elems arr).length : Int) else i) = j
    by_cases hj : j < 0
    · simp [hj]
    · rw [if_neg hj]
      rcases hg (elems arr) j.toNat with h | h
      · rw [h]; simp
      · exact elems_nul_free arr _ h
  · have hj : ∀ ys : List Bytes, (∀ y ∈ ys, NUL ∉ y) → NUL ∉ join d ys := by
      intro ys
      induction ys with
      | nil => intro _; simp [join]
      | cons y r ih =>
        intro h
        cases r with
        | nil => simpa [join] using h y (by simp)
        | cons z r =>
          have e : join d (y :: z :: r) = y ++ d ++ join d (z :: r) := rfl
          rw [e]
          simp only [List.mem_append, not_or]
          exact ⟨⟨h y (by simp), hd⟩, ih (fun w hw => h w (by simp [hw]))⟩
    exact hj _ (elems_nul_free arr)

/-- `@range`: unconditionally well-formed – decimal renderings contain no separator; moreover
    every element parses back (`strconv.Atoi`) to the term it renders. -/
theorem range_wellformed (ys : List Int) :
    IsArray (pack (ys.map itoa)) (ys.map itoa) ∧
    (∀ y ∈ ys, minInt64 ≤ y → y ≤ maxInt64 → atoi (itoa y) = some y) :=
  ⟨isArray_pack _ (fun y hy => by
      obtain ⟨v, _, rfl⟩ := List.mem_map.mp hy
      exact itoa_nul_free v),
   fun y _ h1 h2 => atoi_itoa y h1 h2⟩

/-- `@for`: when the loop ends within `MAX_ITERATIONS` with values `ys`, the result reads back as the
    flattening of the values, and as `ys` itself iff no value (start value or value of `next`)
    contains a separator. -/
theorem for_wellformed (ctx : Ctx) (a0 a1 a2 : Stage) (start : Bytes) (fc fn : Bytes → Bytes → Bytes)
    (ys : List Bytes)
    (h0 : a0.run ctx = .ok start)
    (hc : ∀ v0 v1, a1.run (subCtx ctx v0 v1) = .ok (fc v0 v1))
    (hn : ∀ v0 v1, a2.run (subCtx ctx v0 v1) = .ok (fn v0 v1))
    (hy : iterateWhile (fun v k => truthy (fc v (itoa (k : Nat)))) (fun v k => fn v (itoa (k : Nat)))
            Gen.maxIterations 0 start = some ys) :
    (forStage a0 a1 a2).run ctx = .ok (pack ys) ∧
    (ys ≠ [] → elems (pack ys) = ys.flatMap elems ∧ (elems (pack ys) = ys ↔ ∀ y ∈ ys, NUL ∉ y)) ∧
    ((∀ y ∈ ys, NUL ∉ y) → IsArray (pack ys) ys) := by
  refine ⟨?_, fun hne => ⟨elems_pack_flatMap ys hne, elems_pack_iff ys hne⟩, isArray_pack ys⟩
  rw [for_spec ctx a0 a1 a2 start fc fn h0 hc hn, hy]

/-- `{@ ..}` / `{$ ..}` concatenate at the LIST level too: the result reads back as the elements of
    the first argument, then those of the second, … (arguments that are arrays are appended, scalars
    are single elements); it is the list of the argument values themselves iff none contains a
    separator. -/
theorem concat_wellformed (ctx : Ctx) (a0 : Stage) (rest : List Stage) (v0 : Bytes) (vs : List Bytes)
    (h0 : a0.run ctx = .ok v0) (hr : rest.map (fun a => a.run ctx) = vs.map Except.ok) :
    ∃ out, (joinArgsStage ArraySeparator a0 rest).run ctx = .ok out ∧
      elems out = (v0 :: vs).flatMap elems ∧
      (elems out = v0 :: vs ↔ ∀ y ∈ v0 :: vs, NUL ∉ y) :=
  ⟨_, concat_spec ctx a0 rest v0 vs h0 hr, elems_pack_flatMap _ (by simp), elems_pack_iff _ (by simp)⟩

/-! ## Composition laws

What the helpers do when one is handed the result of another.  A result is a VALUE (a string); the next helper
reads it with `elems` again.  Two facts govern every composition: (1) the empty list and the list `[""]` are the
same value (`pack_eq_nil_iff`), so a helper that receives an EMPTY result sees ONE empty element
(`elems_pack_of_free`); (2) a member that contains separators reads back as several elements
(`wellformed_flatten`) – nested arrays do not exist, they flatten. -/

/-- A helper nested INSIDE a sub-expression (`{@map a {@map {0} g}}`): the inner sub-context replaces the outer
    bindings completely – `{0}`/`{1}` are the inner values, never the outer ones – and keys / negative indices
    still come from the enclosing match. -/
theorem sub_context_nested (ctx : Ctx) (a b c d : Bytes) :
    subCtx (subCtx ctx a b) c d = subCtx ctx c d := by
  unfold subCtx
  congr 1
  funext i
  by_cases h : i < 0 <;> simp [h]

/-- `@len` of a packed list of separator-free members is the number of members – except that the list `[""]`
    (one empty element) has length 0: it IS the empty array. -/
theorem len_counts_packed (ys : List Bytes) (h : ∀ y ∈ ys, NUL ∉ y) :
    len (pack ys) = if ys = [[]] then 0 else ys.length := len_pack ys h

/-- **map ∘ map.**  `{@map {@map a f} g}`: `g` runs over the FLATTENED values of `f`; when no value of `f`
    contains a separator this is the fusion law `map g ∘ map f = map (g ∘ f)`. -/
theorem map_map (ctx : Ctx) (a0 f g : Stage) (arr : Bytes) (F G : Bytes → Bytes → Bytes)
    (h0 : a0.run ctx = .ok arr) (hf : ∀ v0 v1, f.run (subCtx ctx v0 v1) = .ok (F v0 v1))
    (hg : ∀ v0 v1, g.run (subCtx ctx v0 v1) = .ok (G v0 v1)) :
    (mapStage (mapStage a0 f) g).run ctx =
      .ok (pack ((((elems arr).map fun x => F x []).flatMap elems).map fun y => G y [])) ∧
    ((∀ x ∈ elems arr, NUL ∉ F x []) →
      (mapStage (mapStage a0 f) g).run ctx = .ok (pack ((elems arr).map fun x => G (F x []) []))) := by
  have hne : ((elems arr).map fun x => F x []) ≠ [] := by
    simp only [ne_eq, List.map_eq_nil_iff]; exact elems_ne_nil arr
  have h1 := map_spec ctx (mapStage a0 f) g _ G (map_spec ctx a0 f arr F h0 hf) hg
  refine ⟨by rw [h1, elems_pack_flatMap _ hne], fun hfree => ?_⟩
  rw [h1, (elems_pack_iff _ hne).mpr (by simpa [List.mem_map] using hfree), List.map_map]
  rfl

/-- **filter ∘ map.**  `{@filter {@map a f} p}` keeps the (flattened) values of `f` that satisfy `p`. -/
theorem filter_map_spec (ctx : Ctx) (a0 f p : Stage) (arr : Bytes) (F P : Bytes → Bytes → Bytes)
    (h0 : a0.run ctx = .ok arr) (hf : ∀ v0 v1, f.run (subCtx ctx v0 v1) = .ok (F v0 v1))
    (hp : ∀ v0 v1, p.run (subCtx ctx v0 v1) = .ok (P v0 v1)) :
    (filterStage (mapStage a0 f) p).run ctx =
      .ok (pack ((((elems arr).map fun x => F x []).flatMap elems).filter fun y => truthy (P y []))) ∧
    ((∀ x ∈ elems arr, NUL ∉ F x []) →
      (filterStage (mapStage a0 f) p).run ctx =
        .ok (pack (((elems arr).map fun x => F x []).filter fun y => truthy (P y [])))) := by
  have hne : ((elems arr).map fun x => F x []) ≠ [] := by
    simp only [ne_eq, List.map_eq_nil_iff]; exact elems_ne_nil arr
  have h1 := filter_spec ctx (mapStage a0 f) p _ P (map_spec ctx a0 f arr F h0 hf) hp
  refine ⟨by rw [h1, elems_pack_flatMap _ hne], fun hfree => ?_⟩
  rw [h1, (elems_pack_iff _ hne).mpr (by simpa [List.mem_map] using hfree)]

/-- **map ∘ filter.**  `{@map {@filter a p} f}` maps the kept elements – and when NOTHING is kept the mapper
    still runs once, on the empty string (the empty array is the array `[""]`): the result is `f("")`, not the
    empty array. -/
theorem map_filter_spec (ctx : Ctx) (a0 f p : Stage) (arr : Bytes) (F P : Bytes → Bytes → Bytes)
    (h0 : a0.run ctx = .ok arr) (hf : ∀ v0 v1, f.run (subCtx ctx v0 v1) = .ok (F v0 v1))
    (hp : ∀ v0 v1, p.run (subCtx ctx v0 v1) = .ok (P v0 v1)) :
    (mapStage (filterStage a0 p) f).run ctx =
      .ok (if (elems arr).filter (fun x => truthy (P x [])) = [] then F [] []
           else pack (((elems arr).filter fun x => truthy (P x [])).map fun x => F x [])) := by
  rw [map_spec ctx (filterStage a0 p) f _ F (filter_spec ctx a0 p arr P h0 hp) hf,
    elems_pack_of_free _ (fun y hy => elems_nul_free arr y (List.mem_filter.mp hy).1)]
  by_cases he : (elems arr).filter (fun x => truthy (P x [])) = []
  · simp only [he, if_true]; rfl
  · simp only [he, if_false]

/-- **len ∘ filter ≤ len.**  Filtering never makes an array longer (in the sense of `@len`). -/
theorem len_filter_le (ctx : Ctx) (a0 p : Stage) (arr : Bytes) (P : Bytes → Bytes → Bytes)
    (h0 : a0.run ctx = .ok arr) (hp : ∀ v0 v1, p.run (subCtx ctx v0 v1) = .ok (P v0 v1)) :
    ∃ out, (filterStage a0 p).run ctx = .ok out ∧ len out ≤ len arr := by
  refine ⟨_, filter_spec ctx a0 p arr P h0 hp, ?_⟩
  have hfree : ∀ y ∈ (elems arr).filter (fun x => truthy (P x [])), NUL ∉ y :=
    fun y hy => elems_nul_free arr y (List.mem_filter.mp hy).1
  by_cases ha : arr = []
  · subst ha
    have : pack ((elems []).filter fun x => truthy (P x [])) = [] :=
      pack_sublist_unit _ (by rw [elems_nil]; exact List.filter_sublist)
    rw [this]; simp [len]
  · rw [len_pack _ hfree, len_pos_eq arr ha]
    have := List.length_filter_le (fun x => truthy (P x [])) (elems arr)
    split <;> omega

private theorem elems_length_le (arr : Bytes) (hl : (arr.length : Int) < maxInt64) :
    ((elems arr).length : Int) ≤ maxInt64 := by
  have hc : arr.count NUL ≤ arr.length := List.count_le_length
  rw [elems_length]; omega

/-- **slice ∘ slice.**  `{@slice {@slice a s₁ l₁} s₂ l₂}` is the list-level composition, for ALL starts and
    lengths (an empty intermediate result included: the empty list and `[""]` slice to the same value). -/
theorem slice_slice_spec (ctx : Ctx) (a0 a1 a2 : Stage) (r1 r2 : List Stage) (arr : Bytes) (s1 l1 s2 l2 : Int)
    (hr1 : r1.length ≤ 1) (hr2 : r2.length ≤ 1)
    (hs1 : evalStageInt a1 = .ok (some s1)) (hn1 : evalArgInt (a0 :: a1 :: r1) 2 (-1) = .ok (some l1))
    (hs2 : evalStageInt a2 = .ok (some s2))
    (hn2 : evalArgInt (sliceStage s1 l1 a0 :: a2 :: r2) 2 (-1) = .ok (some l2))
    (h0 : a0.run ctx = .ok arr) (hl : (arr.length : Int) < maxInt64) :
    (sliceStage s2 l2 (sliceStage s1 l1 a0)).run ctx = .ok (pack (slice (slice (elems arr) s1 l1) s2 l2)) := by
  have hin := (slice_spec ctx a0 a1 r1 arr s1 l1 hr1 hs1 hn1 h0 hl).2
  have hfree : ∀ y ∈ slice (elems arr) s1 l1, NUL ∉ y :=
    fun y hy => elems_nul_free arr y ((slice_sublist _ _ _).subset hy)
  rw [(slice_spec_wrapped ctx (sliceStage s1 l1 a0) a2 r2 _ s2 l2 hr2 hs2 hn2 hin).2]
  obtain ⟨b1, b2⟩ := evalStageInt_range hs2
  have hlen : (((elems (pack (slice (elems arr) s1 l1))).length : Nat) : Int) ≤ maxInt64 := by
    rw [elems_pack_of_free _ hfree]
    have h1 := (slice_sublist (elems arr) s1 l1).length_le
    have h2 := elems_length_le arr hl
    have h3 : 0 < (elems arr).length := List.length_pos_iff.mpr (elems_ne_nil arr)
    split
    · simp only [List.length_singleton]; omega
    · omega
  rw [(wrapped_is_documented _ s2 l2 hlen b1 b2).2, pack_slice_pack _ hfree]

/-- …in closed form for non-negative starts: ONE slice from `s₁ + s₂`, the second length cut to what the
    first left. -/
theorem slice_slice_closed (xs : List Bytes) (s1 l1 s2 l2 : Int) (h1 : 0 ≤ s1) (h2 : 0 ≤ s2) :
    slice (slice xs s1 l1) s2 l2 =
      slice xs (s1 + s2) (if l1 < 0 then l2 else if l2 < 0 then max 0 (l1 - s2) else min l2 (max 0 (l1 - s2))) :=
  slice_slice_nonneg xs s1 l1 s2 l2 h1 h2

/-- **select ∘ map = map at the index.**  `{@select {@map a f} i}` (values of `f` separator-free) is `f` of the
    selected element when position `i` exists, and NOTHING otherwise (`f` is not applied to "nothing"). -/
theorem select_map_spec (ctx : Ctx) (a0 a1 f : Stage) (arr : Bytes) (F : Bytes → Bytes → Bytes) (i : Int)
    (hi : evalStageInt a1 = .ok (some i))
    (h0 : a0.run ctx = .ok arr) (hf : ∀ v0 v1, f.run (subCtx ctx v0 v1) = .ok (F v0 v1))
    (hfree : ∀ x ∈ elems arr, NUL ∉ F x []) (hl : (arr.length : Int) < maxInt64) :
    (selectStage i (mapStage a0 f)).run ctx =
      .ok (if inRange (elems arr).length i then F (select (elems arr) i) [] else []) := by
  have hne : ((elems arr).map fun x => F x []) ≠ [] := by
    simp only [ne_eq, List.map_eq_nil_iff]; exact elems_ne_nil arr
  rw [(select_spec_wrapped ctx (mapStage a0 f) a1 _ i hi (map_spec ctx a0 f arr F h0 hf)).2]
  obtain ⟨b1, b2⟩ := evalStageInt_range hi
  rw [(elems_pack_iff _ hne).mpr (by simpa [List.mem_map] using hfree)]
  rw [(wrapped_is_documented _ i 0 (by simpa using elems_length_le arr hl) b1 b2).1, select_map]

/-- **reduce ∘ map.**  `{@reduce {@map a f} g init}` (values of `f` separator-free) reduces the mapped list;
    with an initial value that is the fused fold `foldl (fun acc x => g acc (f x)) init`. -/
theorem reduce_map_spec (ctx : Ctx) (a0 f g : Stage) (arr init : Bytes) (F G : Bytes → Bytes → Bytes)
    (h0 : a0.run ctx = .ok arr) (hf : ∀ v0 v1, f.run (subCtx ctx v0 v1) = .ok (F v0 v1))
    (hg : ∀ v0 v1, g.run (subCtx ctx v0 v1) = .ok (G v0 v1))
    (hfree : ∀ x ∈ elems arr, NUL ∉ F x []) :
    (reduceStage init (mapStage a0 f) g).run ctx = .ok (reduce G init ((elems arr).map fun x => F x [])) ∧
    (init ≠ [] → (reduceStage init (mapStage a0 f) g).run ctx =
      .ok ((elems arr).foldl (fun acc x => G acc (F x [])) init)) := by
  have hne : ((elems arr).map fun x => F x []) ≠ [] := by
    simp only [ne_eq, List.map_eq_nil_iff]; exact elems_ne_nil arr
  have h1 : (reduceStage init (mapStage a0 f) g).run ctx = .ok (reduce G init ((elems arr).map fun x => F x [])) := by
    rw [reduce_spec ctx (mapStage a0 f) g _ init G (map_spec ctx a0 f arr F h0 hf) hg,
      (elems_pack_iff _ hne).mpr (by simpa [List.mem_map] using hfree)]
  refine ⟨h1, fun hi => ?_⟩
  rw [h1]; simp [reduce, hi, List.foldl_map]

/-- **join ∘ map.**  `{@join {@map a f} d}` (values of `f` separator-free) joins the mapped elements. -/
theorem join_map_spec (ctx : Ctx) (a0 f : Stage) (arr d : Bytes) (F : Bytes → Bytes → Bytes)
    (h0 : a0.run ctx = .ok arr) (hf : ∀ v0 v1, f.run (subCtx ctx v0 v1) = .ok (F v0 v1))
    (hfree : ∀ x ∈ elems arr, NUL ∉ F x []) :
    (joinStage d (mapStage a0 f)).run ctx = .ok (join d ((elems arr).map fun x => F x [])) := by
  have hne : ((elems arr).map fun x => F x []) ≠ [] := by
    simp only [ne_eq, List.map_eq_nil_iff]; exact elems_ne_nil arr
  rw [join_spec ctx (mapStage a0 f) _ d (map_spec ctx a0 f arr F h0 hf),
    (elems_pack_iff _ hne).mpr (by simpa [List.mem_map] using hfree)]

/-- **len ∘ range.**  `{@len {@range start stop incr}}` is the number of terms ⌈(stop-start)/incr⌉ whenever the
    range is valid and within `MAX_ITERATIONS` ("0" for the empty range). -/
theorem len_range_spec (ctx : Ctx) (sStart sStop sIncr : Stage) (a b c : Bytes) (start stop incr : Int)
    (ha : sStart.run ctx = .ok a) (hb : sStop.run ctx = .ok b) (hc : sIncr.run ctx = .ok c)
    (pa : atoi a = some start) (pb : atoi b = some stop) (pc : atoi c = some incr)
    (hv : ¬ (incr = 0 ∨ (incr > 0 ∧ start > stop) ∨ (incr < 0 ∧ start < stop)))
    (hm : rangeCount start stop incr ≤ Gen.maxIterations) :
    (lenStage (rangeStage sStart sStop sIncr)).run ctx = .ok (itoa (rangeCount start stop incr : Nat)) := by
  have h1 := range_spec_closed ctx sStart sStop sIncr a b c start stop incr ha hb hc pa pb pc
  rw [if_neg hv, if_pos hm] at h1
  rw [len_spec_wrapped ctx _ _ h1]
  have hfree : ∀ y ∈ (range start stop incr).map itoa, NUL ∉ y := by
    intro y hy
    obtain ⟨v, _, rfl⟩ := List.mem_map.mp hy
    exact itoa_nul_free v
  by_cases h0 : rangeCount start stop incr = 0
  · have : range start stop incr = [] := List.eq_nil_of_length_eq_zero (by rw [range_length]; exact h0)
    rw [this, h0]
    exact congrArg Except.ok (by decide +kernel)
  · have hne : (range start stop incr).map itoa ≠ [] := by
      intro e
      have := congrArg List.length e
      rw [List.length_map, range_length] at this
      exact h0 (by simpa using this)
    have hp : pack ((range start stop incr).map itoa) ≠ [] := by
      intro e
      rcases (pack_eq_nil_iff _).mp e with e | e
      · exact hne e
      · have : itoa start ∈ ([[]] : List Bytes) := by
          rw [← e]
          have : start ∈ range start stop incr := by
            unfold range
            exact List.mem_map.mpr ⟨0, List.mem_range.mpr (by omega), by simp⟩
          exact List.mem_map.mpr ⟨start, this, rfl⟩
        exact itoa_ne_nil start (by simpa using this)
    rw [if_neg hp, (elems_pack_iff _ hne).mpr hfree, List.length_map, range_length]
    have hM : Gen.maxIterations = 1000000 := rfl
    rw [wrap64_id _ (by unfold minInt64; omega) (by unfold maxInt64; omega)]

/-- **Nested arrays flatten.**  `{@map {@split s d₁} {@split {0} d₂}}` (the inner helper sees ONE piece as
    `{0}`; `s` without separators): the pieces of the pieces, in order, as ONE flat array. -/
theorem nested_split_flattens (ctx : Ctx) (a0 : Stage) (s d1 d2 : Bytes) (hd1 : d1 ≠ []) (hd2 : d2 ≠ [])
    (h0 : a0.run ctx = .ok s) (hs : NUL ∉ s) :
    ∃ out, (mapStage (splitStage d1 a0) (splitStage d2 (Comp.match_ 0))).run ctx = .ok out ∧
      elems out = (splitOn d1 s).flatMap (splitOn d2) := by
  have hin : ∀ v0 v1, (splitStage d2 (Comp.match_ 0)).run (subCtx ctx v0 v1) =
      .ok ((fun x _ => pack (splitOn d2 x)) v0 v1) :=
    fun v0 v1 => split_spec (subCtx ctx v0 v1) (Comp.match_ 0) v0 d2 hd2 rfl
  obtain ⟨out, e1, e2, _⟩ := map_wellformed ctx (splitStage d1 a0) (splitStage d2 (Comp.match_ 0)) _
    (fun x _ => pack (splitOn d2 x)) (split_spec ctx a0 s d1 hd1 h0) hin
  refine ⟨out, e1, ?_⟩
  have hne1 : splitOn d1 s ≠ [] := by unfold splitOn; exact splitGo_ne_nil _ _ _ _
  rw [e2, (elems_pack_iff _ hne1).mpr (splitOn_nul_free d1 hd1 s hs), List.flatMap_map]
  apply flatMap_congr_mem
  intro x hx
  have hx' : NUL ∉ x := splitOn_nul_free d1 hd1 s hs x hx
  exact (elems_pack_iff _ (by unfold splitOn; exact splitGo_ne_nil _ _ _ _)).mpr (splitOn_nul_free d2 hd2 x hx')

/-! ## Builders: arity, static arguments, markers -/

/-- With the right number of arguments (constant where the Go builder requires a constant) each
    builder returns the stage the theorems above talk about, and no compile error. -/
theorem builders_spec (a0 a1 a2 : Stage) (d : Bytes) (hd : d ≠ []) :
    kfArrayLen [a0] = ok (lenStage a0) ∧
    kfArraySplit [a0, Stage.lit d] = ok (splitStage d a0) ∧
    kfArraySplit [a0] = ok (splitStage (ascii " ") a0) ∧
    kfArrayJoin [a0, Stage.lit d] = ok (joinStage d a0) ∧
    kfArrayMap [a0, a1] = ok (mapStage a0 a1) ∧
    kfArrayFilter [a0, a1] = ok (filterStage a0 a1) ∧
    kfArrayReduce [a0, a1] = ok (reduceStage [] a0 a1) ∧
    kfArrayReduce [a0, a1, Stage.lit d] = ok (reduceStage d a0 a1) ∧
    kfArrayFor [a0, a1, a2] = ok (forStage a0 a1 a2) ∧
    joinArgs ArraySeparator (a0 :: a1 :: [a2]) = ok (joinArgsStage ArraySeparator a0 [a1, a2]) := by
  have hl : d.length ≠ 0 := by simpa using hd
  refine ⟨rfl, ?_, ?_, ?_, rfl, rfl, ?_, ?_, rfl, rfl⟩
  · simp [kfArraySplit, argCountBetween, evalStageIndexOrDefault, Comp.probe, Comp.probeN, Stage.lit, hl]
  · have hs : (ascii " ").length ≠ 0 := by decide +kernel
    simp [kfArraySplit, argCountBetween, evalStageIndexOrDefault, hs]
  · simp [kfArrayJoin, argCountBetween, evalStageIndexOrDefault, Comp.probe, Comp.probeN, Stage.lit]
  · simp [kfArrayReduce, argCountBetween, evalStageIndexOrDefault]
  · simp [kfArrayReduce, argCountBetween, evalStageIndexOrDefault, Comp.probe, Comp.probeN, Stage.lit]

/-- Wrong arity gives the `<ARGN>` marker and a compile error; an empty `@split` delimiter gives
    `<EMPTY>`; a non-constant `@select`/`@slice`/`@in` argument gives `<BAD-TYPE>`/`<CONST>`. -/
theorem builders_reject (a0 a1 a2 a3 : Stage) :
    kfArrayLen [] = errArgCount ∧ kfArrayLen [a0, a1] = errArgCount ∧
    kfArraySplit [] = errArgCount ∧ kfArraySplit [a0, a1, a2] = errArgCount ∧
    kfArraySplit [a0, Stage.lit []] = errEmpty ∧
    kfArrayMap [a0] = errArgCount ∧ kfArrayFilter [a0, a1, a2] = errArgCount ∧
    kfArrayReduce [a0] = errArgCount ∧ kfArraySelect [a0] = errArgCount ∧
    kfArraySelect [a0, Comp.match_ 0] = errNum ∧
    kfArraySlice [a0] = errArgCount ∧ kfArraySlice [a0, Comp.key [107]] = errConst ∧
    kfArrayIn [a0, Comp.match_ 1] = errConst ∧
    kfArrayRange [] = errArgCount ∧ kfArrayRange [a0, a1, a2, a3] = errArgCount ∧
    kfArrayFor [a0, a1] = errArgCount := by
  refine ⟨rfl, rfl, rfl, rfl, ?_, rfl, rfl, rfl, rfl, ?_, rfl, ?_, ?_, rfl, rfl, rfl⟩ <;> rfl

/-! ## The pooled sub-contexts

`@map`, `@filter`, `@reduce`, `@for` evaluate their sub-expressions against a `subContext` object taken from the
global `subContextPool` (`pkg/slicepool/objpool.go`).  The theorems above model the helpers WITHOUT a pool
(`Comp.withSub`).  That is sound because (1) the pool never hands out an object that somebody still holds, in any
order of `Get` and `Return` by any number of goroutines or nesting levels (`pool_exclusive`), (2) every helper
overwrites ALL fields of the object it got before it reads any (`no_stale_field`, `pooled_eval_fresh`), and
(3) the source says so (`pool_code_matches_source`, `sub_context_code_matches_source`: regenerated from /repo). -/

/-- **No object is ever handed out twice.**  From `NewObjectPool(n)`, after ANY sequence of `Get`s and of
    `Return`s of checked-out objects IN ANY ORDER (not only last-out-first-in): the object the next `Get` hands
    out is held by nobody, the held objects are pairwise distinct, and none of them lies in the pool. -/
theorem pool_exclusive (n : Nat) (w : World) (h : Reach n w) :
    w.pool.get.1 ∉ w.held ∧ w.held.Nodup ∧ (∀ o ∈ w.held, o ∉ w.pool.free) ∧ w.pool.free.Nodup := by
  obtain ⟨hn, hb⟩ := inv_reach h
  have hd := List.nodup_append.mp hn
  refine ⟨?_, hd.2.1, fun o ho hf => hd.2.2 o hf o ho rfl, hd.1⟩
  cases hl : w.pool.free.getLast? with
  | none =>
    rw [get_of_empty hl]
    intro hm
    exact Nat.lt_irrefl _ (hb _ (List.mem_append_right _ hm))
  | some o =>
    rw [get_of_last hl]
    intro hm
    exact hd.2.2 o (List.mem_of_getLast? hl) o hm rfl

/-- A returned object is the next one handed out, and the pool is as before (`Return` then `Get` is the identity):
    the pool is a stack of the RETURNED objects themselves, not of slots. -/
theorem pool_reuses_returned (p : C17Pool.Pool) (o : Nat) : (p.ret o).get = (o, p) := ret_get p o

/-- The scenario of a two-object pool with an out-of-order return (`g g r0 g`): the third `Get` hands out the
    RETURNED first object, not the second one, which is still held. -/
example : C17Pool.runScript [.get, .get, .ret 0, .get] (C17Pool.Pool.new 2) [] = [1, 0, 1] := by decide

/-- `objpool.go` is the code the pool model mirrors (regenerated from /repo on every run). -/
theorem pool_code_matches_source :
    Gen.C17.objPoolNew = ["ret := &ObjectPool[T]{ pool: make([]*T, size), newer: newer, }",
      "for i := 0; i < size; i++ { ret.pool[i] = newer() }", "return ret"] ∧
    Gen.C17.objPoolGet = ["s.m.Lock()", "defer s.m.Unlock()", "if len(s.pool) == 0 { return s.newer() }",
      "end := len(s.pool) - 1", "ret = s.pool[end]", "s.pool = s.pool[:end]", "return"] ∧
    Gen.C17.objPoolReturn = ["s.m.Lock()", "defer s.m.Unlock()", "s.pool = append(s.pool, obj)"] := by decide

/-- `subContext`'s methods: `Eval` stores BOTH values and only then runs the stage; `GetMatch` reads `parent`
    (negative index) and `vals`; `GetKey` reads `parent` – the three fields `SubObj` has. -/
theorem sub_context_code_matches_source :
    Gen.C17.evalCode = ["s.vals[0] = v0", "s.vals[1] = v1", "return stage(s)"] ∧
    Gen.C17.getMatchCode = ["if idx < 0 { return s.parent.GetMatch(idx) }",
      "if idx < len(s.vals) { return s.vals[idx] }", "return \"\""] ∧
    Gen.C17.getKeyCode = ["return s.parent.GetKey(k)"] := by decide

/-- **No stale field**: every helper that takes a pooled sub-context re-initialises it completely before its
    first `Eval` and returns exactly that object when the evaluation ends; nothing outside the per-evaluation
    closure touches the pool (an object taken once per compiled stage would be shared by all goroutines), and
    no other function of the package uses the pool.  (Access table regenerated from /repo.) -/
theorem no_stale_field :
    (∀ h ∈ Gen.C17.poolEvents, disciplined h.2 = true) ∧
    (Gen.C17.poolEvents.filter (fun h => !h.2.isEmpty)).map (·.1) = ["@map", "@reduce", "@for", "@filter"] ∧
    Gen.C17.otherPoolUsers = [] := by decide

/-- What the discipline buys, on the object's fields: after the overwrite, `Eval` answers what the pool-free
    model (`Comp.withSub`) answers – whatever the previous user left in the object – and the object still points
    at THIS evaluation's context afterwards (so every later `Eval` of the same helper does too). -/
theorem pooled_eval_fresh (stale : SubObj) (ctx : Ctx) (st : Stage) (a b : Bytes) :
    ((stale.reset ctx).eval st a b).1 = (st.withSub a b).run ctx ∧
    ((stale.reset ctx).eval st a b).2.parent = ctx ∧
    ∀ (st' : Stage) (a' b' : Bytes),
      (((stale.reset ctx).eval st a b).2.eval st' a' b').1 = (st'.withSub a' b').run ctx := by
  refine ⟨?_, rfl, fun st' a' b' => ?_⟩
  · rw [withSub_run]; rfl
  · rw [withSub_run]; rfl

/-- Without the overwrite a key look-up is answered by the PREVIOUS user's match (this was F7 for `@for`). -/
theorem pooled_eval_stale_counterexample :
    let old : Ctx := { getMatch := fun _ => [], getKey := fun _ => [111] }
    let cur : Ctx := { getMatch := fun _ => [], getKey := fun _ => [99] }
    ((⟨old, [], []⟩ : SubObj).eval (Comp.key [107]) [] []).1 = .ok [111] ∧
    (((⟨old, [], []⟩ : SubObj).reset cur).eval (Comp.key [107]) [] []).1 = .ok [99] := ⟨rfl, rfl⟩

/-! ## Constants, defaults, arities, documentation (regenerated from /repo) -/

/-- The constants the model uses are the ones in the source: the separator, BOTH iteration limits (`@range`
    has its own `MAX_ITERATIONS`), the defaults of the optional arguments. -/
theorem constants_match_source (a0 : Stage) :
    Gen.C17.arraySeparator = ArraySeparator.toNat ∧
    Gen.C17.maxIterationsRange = Gen.maxIterations ∧ Gen.C17.maxIterationsFor = Gen.maxIterations ∧
    kfArraySplit [a0] = ok (splitStage Gen.C17.splitDefault a0) ∧
    kfArrayJoin [a0] = ok (joinStage Gen.C17.joinDefault a0) ∧
    kfArrayRange [a0] = ok (rangeStage (Stage.lit Gen.C17.rangeDefaultStart) a0 (Stage.lit Gen.C17.rangeDefaultIncr)) ∧
    Gen.C17.reduceDefault = [] := by
  have es : Gen.C17.splitDefault = ascii " " := by decide +kernel
  have ej : Gen.C17.joinDefault = ascii " " := by decide +kernel
  have e0 : Gen.C17.rangeDefaultStart = ascii "0" := by decide +kernel
  have e1 : Gen.C17.rangeDefaultIncr = ascii "1" := by decide +kernel
  refine ⟨by decide, rfl, rfl, ?_, ?_, ?_, rfl⟩
  · rw [es]; exact (builders_spec a0 a0 a0 [32] (by simp)).2.2.1
  · rw [ej]; simp [kfArrayJoin, argCountBetween, evalStageIndexOrDefault]
  · rw [e0, e1]; rfl

/-- Every builder accepts exactly the argument counts the source checks for (tried with 0…5 constant
    arguments): `<ARGN>` outside `lo…hi`, no arity error inside. -/
theorem arity_matches_source :
    ∀ e ∈ Gen.C17.arity, ∀ n ∈ List.range 6,
      (table.find? (·.1 == e.1)).map (fun b => isArgCountErr (b.2 (List.replicate n (Stage.lit [49])))) =
        some (decide (n < e.2.1 ∨ e.2.2 < n)) := by decide +kernel

/-- Every helper of the documentation's array section is modelled, and the model has no helper the
    documentation does not mention. -/
theorem documented_helpers_covered :
    (∀ n ∈ Gen.C17.documentedHelpers, (table.find? (·.1 == n)).isSome = true) ∧
    (∀ e ∈ table, e.1 ∈ Gen.C17.documentedHelpers) ∧
    (∀ n ∈ Gen.C17.documentedHelpers, n ∈ Gen.stdFunctionNames) := by decide

/-- **`MAX_ITERATIONS`, the exact boundary.**  A range with exactly `MAX_ITERATIONS` terms is produced in full;
    one more term and the answer is `<INF>` (the same arguments, stop moved by one). -/
theorem range_limit_boundary (ctx : Ctx) :
    (rangeStage (Stage.lit (ascii "0")) (Stage.lit (ascii "1000000")) (Stage.lit (ascii "1"))).run ctx =
      .ok (pack ((range 0 1000000 1).map itoa)) ∧
    (rangeStage (Stage.lit (ascii "0")) (Stage.lit (ascii "1000001")) (Stage.lit (ascii "1"))).run ctx =
      .ok InfMarker ∧
    (rangeStage (Stage.lit (ascii "0")) (Stage.lit (ascii "-3000000")) (Stage.lit (ascii "-3"))).run ctx =
      .ok (pack ((range 0 (-3000000) (-3)).map itoa)) ∧
    (rangeStage (Stage.lit (ascii "0")) (Stage.lit (ascii "-3000001")) (Stage.lit (ascii "-3"))).run ctx =
      .ok InfMarker := by
  have hM : Gen.maxIterations = 1000000 := rfl
  refine ⟨?_, ?_, ?_, ?_⟩
  · rw [range_spec_closed ctx _ _ _ (ascii "0") (ascii "1000000") (ascii "1") 0 1000000 1 rfl rfl rfl
      (by decide +kernel) (by decide +kernel) (by decide +kernel)]
    have : rangeCount 0 1000000 1 = 1000000 := by decide +kernel
    simp [this, hM]
  · rw [range_spec_closed ctx _ _ _ (ascii "0") (ascii "1000001") (ascii "1") 0 1000001 1 rfl rfl rfl
      (by decide +kernel) (by decide +kernel) (by decide +kernel)]
    have : rangeCount 0 1000001 1 = 1000001 := by decide +kernel
    simp [this, hM]
  · rw [range_spec_closed ctx _ _ _ (ascii "0") (ascii "-3000000") (ascii "-3") 0 (-3000000) (-3) rfl rfl rfl
      (by decide +kernel) (by decide +kernel) (by decide +kernel)]
    have : rangeCount 0 (-3000000) (-3) = 1000000 := by decide +kernel
    simp [this, hM]
  · rw [range_spec_closed ctx _ _ _ (ascii "0") (ascii "-3000001") (ascii "-3") 0 (-3000001) (-3) rfl rfl rfl
      (by decide +kernel) (by decide +kernel) (by decide +kernel)]
    have : rangeCount 0 (-3000001) (-3) = 1000001 := by decide +kernel
    simp [this, hM]

/-- Bounds that only LOOK like numbers (`1.5`, `1e3`, `0x10`, the empty string) are not integers: whichever
    of the three arguments it is, the answer is `<BAD-TYPE>`. -/
theorem range_bad_type_any (ctx : Ctx) (sStart sStop sIncr : Stage) (a b c : Bytes)
    (ha : sStart.run ctx = .ok a) (hb : sStop.run ctx = .ok b) (hc : sIncr.run ctx = .ok c)
    (h : atoi a = none ∨ atoi b = none ∨ atoi c = none) :
    (rangeStage sStart sStop sIncr).run ctx = .ok ErrorNum := by
  unfold rangeStage
  rw [run_bind_ok ctx _ _ _ ha]
  cases pa : atoi a with
  | none => rfl
  | some start =>
    simp only []
    rw [run_bind_ok ctx _ _ _ hb]
    cases pb : atoi b with
    | none => rfl
    | some stop =>
      simp only []
      rw [run_bind_ok ctx _ _ _ hc]
      cases pc : atoi c with
      | none => rfl
      | some incr => simp [pa, pb, pc] at h

example : atoi (ascii "1.5") = none ∧ atoi (ascii "1e3") = none ∧ atoi (ascii "0x10") = none ∧ atoi (ascii " 1") = none := by
  decide +kernel

/-! ## `{select}`, `tab`, and the `kfJoin` the registry finds

`{select s i}` (funcsFuncs.Strings.go `selectField`) numbers WORDS, and NUL is one of its delimiters: pointed at an
array it is a second way of taking an element – a different function from `{@select a i}`.  `tab` is
`kfJoin("\t")`, the builder behind `{$ ..}`/`{@ ..}` with another byte. -/

/-- **`{select s i}` is word selection**, for EVERY string without a double quote and every index: the `i`-th
    maximal run of bytes other than space, tab, newline and NUL (`words`, `Spec/C17Sel.lean`; a string that
    starts with a delimiter has the empty word 0, runs of delimiters count once, trailing ones not at all),
    nothing for an index that is negative or past the last word.  (The loop of `selectField` works on byte
    offsets `wordStart`/`i`; `selLoop_words` is its invariant.) -/
theorem word_select_spec (ctx : Ctx) (a0 a1 : Stage) (s i : Bytes) (idx : Int)
    (h0 : a0.run ctx = .ok s) (h1 : a1.run ctx = .ok i) (hi : atoi i = some idx) (hq : ∀ c ∈ s, c ≠ 34) :
    ∃ st, Funcs.Strings.kfSelect [a0, a1] = ok st ∧ st.run ctx = .ok (selectWord s idx) := by
  refine ⟨_, rfl, ?_⟩
  simp only [bind, pure]
  rw [run_bind_ok ctx _ _ _ h0, run_bind_ok ctx _ _ _ h1]
  simp only [hi, Comp.run]
  rw [selectField_words s idx hq]

/-- The boundary of `word_select_spec`: with a double quote in the string `selectField` is no longer word
    selection – white space (and NUL) between quotes does not separate, and a quote that opens the string stays
    in the answer: `"a b"` has the one word `"a b` for `{select}`, the words `"a` and `b"` for `selectWord`. -/
theorem word_select_quote_boundary :
    Funcs.Strings.selectField [34, 97, 32, 98, 34] 0 = [34, 97, 32, 98] ∧ selectWord [34, 97, 32, 98, 34] 0 = [34, 97] ∧
    Funcs.Strings.selectField [34, 97, 32, 98, 34] 1 = [] ∧ selectWord [34, 97, 32, 98, 34] 1 = [98, 34] := by
  decide +kernel

/-- Words contain no delimiter, and plain words joined by single delimiter bytes (an array of plain elements,
    the result of `tab`, a blank-separated line) are read back as themselves. -/
theorem words_read_back (d : UInt8) (hd : isWordDelim d = true) (ws : List Bytes) (hne : ws ≠ [])
    (hw : ∀ w ∈ ws, IsPlainWord w) :
    words (join [d] ws) = ws ∧ ∀ s, ∀ w ∈ words s, ∀ c ∈ w, isWordDelim c = false :=
  ⟨words_join d hd ws hne (fun w h => ⟨(hw w h).1, fun c hc => ((hw w h).2 c hc).1⟩),
   fun s => wordsGo_free s [] false (by simp)⟩

private theorem plain_no_quote (d : UInt8) (hd : isWordDelim d = true) (ws : List Bytes)
    (hw : ∀ w ∈ ws, IsPlainWord w) : ∀ c ∈ join [d] ws, c ≠ 34 := by
  intro c hc
  rcases mem_join d ws c hc with e | ⟨w, hm, hcw⟩
  · subst e; exact wordDelim_ne_quote c hd
  · exact ((hw w hm).2 c hcw).2

private theorem plain_nul_free (ws : List Bytes) (hw : ∀ w ∈ ws, IsPlainWord w) : ∀ y ∈ ws, NUL ∉ y := by
  intro y hy hn
  have := ((hw y hy).2 NUL hn).1
  simp [isWordDelim, NUL] at this

/-- **Where the two selections agree.**  On an array of plain elements (non-empty, free of white space, NUL and
    quotes) and an index `i ≥ 0`, `{select a i}` and `{@select a i}` both give the `i`-th element (nothing past
    the end). -/
theorem select_agrees_on_plain_arrays (ctx : Ctx) (a0 : Stage) (ws : List Bytes) (i : Bytes) (idx : Int)
    (hne : ws ≠ []) (hw : ∀ w ∈ ws, IsPlainWord w)
    (h0 : a0.run ctx = .ok (pack ws)) (hi : atoi i = some idx) (hpos : 0 ≤ idx)
    (hl : ((pack ws).length : Int) < maxInt64) :
    (∃ st, Funcs.Strings.kfSelect [a0, Stage.lit i] = ok st ∧ st.run ctx = .ok (ws.getD idx.toNat [])) ∧
    kfArraySelect [a0, Stage.lit i] = ok (selectStage idx a0) ∧
    (selectStage idx a0).run ctx = .ok (ws.getD idx.toNat []) := by
  have hd0 : isWordDelim NUL = true := by decide
  have hc : evalStageInt (Stage.lit i) = .ok (some idx) := by
    simp [evalStageInt, Stage.lit, Comp.probe, Comp.probeN, hi]
  refine ⟨?_, ?_⟩
  · obtain ⟨st, e, hr⟩ := word_select_spec ctx a0 (Stage.lit i) (pack ws) i idx h0 rfl hi
      (plain_no_quote NUL hd0 ws hw)
    refine ⟨st, e, ?_⟩
    rw [hr]
    have hneg : ¬ idx < 0 := by omega
    simp only [selectWord, hneg, if_false]
    have : words (pack ws) = ws := (words_read_back NUL hd0 ws hne hw).1
    rw [this]
  · obtain ⟨e, hr⟩ := select_spec ctx a0 (Stage.lit i) (pack ws) idx hc h0 hl
    refine ⟨e, ?_⟩
    rw [hr, select_elems_pack ws (plain_nul_free ws hw)]
    have hneg : ¬ idx < 0 := by omega
    simp [select, hneg]

/-- **Where they differ** (kernel-checked, `{select}` first, `{@select}` second in each pair): an empty element
    is skipped by `{select}` and counted by `{@select}`; a negative index selects nothing / counts from the end;
    an element with a blank is two words; between double quotes the separator does not separate (and the
    opening quote stays in the answer). -/
theorem select_differs_from_at_select :
    (Funcs.Strings.selectField (pack [ascii "a", [], ascii "b"]) 1 = ascii "b" ∧
      select (elems (pack [ascii "a", [], ascii "b"])) 1 = []) ∧
    (Funcs.Strings.selectField (pack [ascii "a", ascii "b"]) (-1) = [] ∧
      select (elems (pack [ascii "a", ascii "b"])) (-1) = ascii "b") ∧
    (Funcs.Strings.selectField (pack [ascii "a b", ascii "c"]) 1 = ascii "b" ∧
      select (elems (pack [ascii "a b", ascii "c"])) 1 = ascii "c") ∧
    (Funcs.Strings.selectField (pack [[34, 97], [98, 34], ascii "c"]) 0 = [34, 97, 0, 98] ∧
      select (elems (pack [[34, 97], [98, 34], ascii "c"])) 0 = [34, 97]) := by
  decide +kernel

/-- **`{tab a b …}`** (two or more arguments) joins the values with a tab; splitting the result at tabs is the
    array `{@ a b …}` of the same values when no value contains a tab. -/
theorem tab_spec (ctx : Ctx) (a0 a1 : Stage) (rest : List Stage) (v0 v1 : Bytes) (vs : List Bytes)
    (h0 : a0.run ctx = .ok v0) (h1 : a1.run ctx = .ok v1)
    (hr : rest.map (fun a => a.run ctx) = vs.map Except.ok) :
    ∃ st, Funcs.Strings.kfJoin [9] (a0 :: a1 :: rest) = ok st ∧ st.run ctx = .ok (join [9] (v0 :: v1 :: vs)) ∧
      ((∀ v ∈ v0 :: v1 :: vs, (9 : UInt8) ∉ v) →
        (splitStage [9] st).run ctx = .ok (pack (v0 :: v1 :: vs))) := by
  have hrun := kfJoin_run ctx [9] a0 (a1 :: rest) v0 (v1 :: vs) h0 (by simp [h1, hr])
  refine ⟨_, rfl, hrun, ?_⟩
  intro hfree
  rw [split_spec ctx _ _ [9] (by simp) hrun]
  rw [split_join_list [9] (by simp) (v0 :: v1 :: vs) (by simp)]
  intro x hx hin
  have : ([9] : Bytes) <:+: x := by simpa using hin
  exact hfree x hx (this.subset (List.mem_singleton.mpr rfl))

/-- **Which `kfJoin` the registry finds.**  `$`, `@` and `tab` resolve to `Funcs.Funcs.Strings.kfJoin` (the
    string-helper table comes first in `stdTable`); `concat_spec` speaks about `Funcs.Range.joinArgs`, a second
    transcription of the same Go function.  For every delimiter byte, every argument list and every context the
    two are the same: same stage result, same panic, same (absent) compile error. -/
theorem concat_models_agree (ctx : Ctx) (d : UInt8) (args : List Stage) :
    lookupTable stdTable "@" = some (Funcs.Strings.kfJoin [ArraySeparator]) ∧
    lookupTable stdTable "$" = some (Funcs.Strings.kfJoin [ArraySeparator]) ∧
    lookupTable stdTable "tab" = some (Funcs.Strings.kfJoin [9]) ∧
    builtRun ctx (Funcs.Strings.kfJoin [d] args) = builtRun ctx (joinArgs d args) :=
  ⟨rfl, rfl, rfl, kfJoin_models_agree ctx d args⟩

/-! ## `@for` at the iteration limit -/

/-- **`MAX_ITERATIONS` of `@for`, the exact boundary, for every `N`.**  A loop whose condition is truthy exactly in
    the rounds `0 … N-1` (only the rounds the loop can reach are constrained: `k ≤ MAX_ITERATIONS`) produces its
    `N` values when `N ≤ MAX_ITERATIONS` – `N = MAX_ITERATIONS` included – and `<INF>` from `N = MAX_ITERATIONS+1`
    on; whatever the values are. -/
theorem for_limit_boundary (ctx : Ctx) (a0 a1 a2 : Stage) (start : Bytes) (fc fn : Bytes → Bytes → Bytes) (N : Nat)
    (h0 : a0.run ctx = .ok start)
    (hc : ∀ v0 v1, a1.run (subCtx ctx v0 v1) = .ok (fc v0 v1))
    (hn : ∀ v0 v1, a2.run (subCtx ctx v0 v1) = .ok (fn v0 v1))
    (hN : ∀ v (k : Nat), k ≤ Gen.maxIterations → truthy (fc v (itoa (k : Nat))) = decide (k < N)) :
    (forStage a0 a1 a2).run ctx =
      .ok (if N ≤ Gen.maxIterations then pack (iterN (fun v k => fn v (itoa (k : Nat))) N 0 start) else InfMarker) ∧
    (iterN (fun v k => fn v (itoa (k : Nat))) N 0 start).length = N := by
  refine ⟨?_, iterN_length _ _ _ _⟩
  rw [for_spec ctx a0 a1 a2 start fc fn h0 hc hn,
    iterateWhile_counted _ _ N Gen.maxIterations 0 start (fun w k' hk' => hN w k' (by omega))]
  by_cases h : N ≤ Gen.maxIterations <;> simp [h]

/-- The hypotheses are satisfiable: the condition `{1} < 3` as a function of the bound values. -/
example : ∀ v (k : Nat), k ≤ Gen.maxIterations →
    truthy ((fun (_ i : Bytes) => if (atoi i).any (· < 3) then [49] else []) v (itoa (k : Nat))) =
      decide (k < 3) := by
  intro v k hk
  have hM : Gen.maxIterations = 1000000 := rfl
  have e := atoi_itoa (k : Int) (by unfold minInt64; omega) (by unfold maxInt64; omega)
  have t1 : truthy [49] = true := by decide
  have t0 : truthy [] = false := by decide
  simp only [e, Option.any_some]
  by_cases h : k < 3
  · have : ((k : Int) < 3) := by omega
    simp [h, this, t1]
  · have : ¬ ((k : Int) < 3) := by omega
    simp [h, this, t0]

/-! ## Nested helpers over ONE shared heap

`Model/C17Heap.lean` is the machine with objects: a pool (`objpool.go`), objects with a `parent` pointer and two
slots, look-ups that chase pointers, and the closures of `@map`/`@filter`/`@reduce`/`@for` doing `Get`, overwrite,
`Eval`, deferred `Return` on that one heap – for templates in which helpers nest in arguments and in
sub-expressions to any depth.  `den` is the same template in the pool-free model the correspondence runs. -/

/-- The pool-free model computes the list reading `val` of every total template, in every context. -/
theorem den_val : ∀ (t : C17Heap.Tm) (ctx : Ctx), Total t → (C17Heap.den t).run ctx = .ok (val t ctx)
  | .scalar c, ctx, ht => run_noPanic ctx c ht
  | .app1 g a, ctx, ht => by
    simp only [C17Heap.den, val]
    rw [run_bind_ok ctx _ _ _ (den_val a ctx ht)]; rfl
  | .app2 g a b, ctx, ht => by
    simp only [C17Heap.den, val]
    rw [run_bind_ok ctx _ _ _ (den_val a ctx ht.1), run_bind_ok ctx _ _ _ (den_val b ctx ht.2)]; rfl
  | .map a f, ctx, ht => by
    simp only [C17Heap.den, val]
    exact map_spec ctx _ _ _ (fun v0 v1 => val f (subCtx ctx v0 v1)) (den_val a ctx ht.1)
      (fun v0 v1 => den_val f (subCtx ctx v0 v1) ht.2)
  | .filter a p, ctx, ht => by
    simp only [C17Heap.den, val]
    exact filter_spec ctx _ _ _ (fun v0 v1 => val p (subCtx ctx v0 v1)) (den_val a ctx ht.1)
      (fun v0 v1 => den_val p (subCtx ctx v0 v1) ht.2)
  | .reduce init a f, ctx, ht => by
    simp only [C17Heap.den, val]
    exact reduce_spec ctx _ _ _ init (fun v0 v1 => val f (subCtx ctx v0 v1)) (den_val a ctx ht.1)
      (fun v0 v1 => den_val f (subCtx ctx v0 v1) ht.2)
  | .for_ s c n, ctx, ht => by
    simp only [C17Heap.den, val]
    exact for_spec ctx _ _ _ _ (fun v0 v1 => val c (subCtx ctx v0 v1)) (fun v0 v1 => val n (subCtx ctx v0 v1))
      (den_val s ctx ht.1) (fun v0 v1 => den_val c (subCtx ctx v0 v1) ht.2.1)
      (fun v0 v1 => den_val n (subCtx ctx v0 v1) ht.2.2)

/-- **The pool is invisible, for whole templates over one shared heap.**  Take ANY heap – the objects in the free
    list hold whatever their last users left (stale parents included), the pool has any size (empty too: `Get`
    then allocates) – whose free list has no duplicates, and any context value `ref` whose parent chain `l`
    consists of distinct checked-out objects (`Good`; the root context and an empty chain for a line's
    evaluation).  For every template `t` (helpers nested in arguments and sub-expressions to any depth; leaves that
    cannot panic) the machine that really takes objects from the pool, overwrites and fills them, evaluates
    sub-expressions against the OBJECT by pointer chasing and returns the object by `defer`,
    * does not run out of stack (`fuel` only has to exceed chain length + nesting depth: no cycle is ever built),
    * answers exactly what the pool-free model `den t` answers in the context the chain denotes, the list
      reading `val t`,
    * and leaves the heap `Frame`d: the free list has no duplicates, holds exactly the objects it held before
      plus freshly allocated ones (every `Get` was matched by its `Return`), and NO checked-out object – the
      enclosing helpers' objects, other goroutines' objects – had any field changed. -/
theorem pooled_template_spec (root : Ctx) (fuel : Nat) (t : C17Heap.Tm) (ht : Total t)
    (ref : C17Heap.Ref) (h : C17Heap.Heap) (l : List Nat) (g : Good h l ref) (hf : l.length + C17Heap.depth t < fuel) :
    ∃ h', C17Heap.ev root fuel t ref h = .ok (val t (ctxOf root h.objs l), h') ∧
      (C17Heap.den t).run (ctxOf root h.objs l) = .ok (val t (ctxOf root h.objs l)) ∧
      Frame h h' [] := by
  obtain ⟨h', e, fr⟩ := ev_val root fuel t ht ref h l g hf
  exact ⟨h', e, den_val t _ ht, fr⟩

/-- The evaluation of a line: root context, a pool in any state. -/
theorem pooled_template_line (root : Ctx) (t : C17Heap.Tm) (ht : Total t) (h : C17Heap.Heap) (hp : PoolOk h.pool) :
    ∃ v h', (C17Heap.den t).run root = .ok v ∧ C17Heap.ev root (C17Heap.depth t + 1) t .root h = .ok (v, h') ∧
      (∀ x, x ∈ h'.pool.free ↔ x ∈ h.pool.free ∨ (h.pool.next ≤ x ∧ x < h'.pool.next)) := by
  obtain ⟨h', e, d, fr⟩ := pooled_template_spec root (C17Heap.depth t + 1) t ht .root h [] (good_root h hp) (by simp)
  exact ⟨_, h', d, e, fr.free⟩

/-- **Every template – sub-expressions that panic included.**  No hypothesis on the template at all: whatever the
    pool-free model does with `t` in the context the chain denotes – a value, or a panic raised by some leaf while
    some element is being processed (elements left to right, the first panic ends the evaluation) – the heap
    machine does the same from every `Good` heap: the same value with a `Frame`d heap, or the same panic.
    (`valE`, Proofs/C17HeapE.lean, is the common value-level reading: `den_valE`, `ev_valE`.) -/
theorem pooled_template_any (root : Ctx) (fuel : Nat) (t : C17Heap.Tm)
    (ref : C17Heap.Ref) (h : C17Heap.Heap) (l : List Nat) (g : Good h l ref) (hf : l.length + C17Heap.depth t < fuel) :
    match (C17Heap.den t).run (ctxOf root h.objs l) with
    | .ok v => ∃ h', C17Heap.ev root fuel t ref h = .ok (v, h') ∧ Frame h h' []
    | .error m => C17Heap.ev root fuel t ref h = .error m := by
  have := ev_valE root fuel t ref h l g hf
  rw [← den_valE] at this
  exact this

/-- **Another evaluation in between changes nothing this one can see.**  Between two steps of an evaluation whose
    context is the chain `l` (its helpers hold those objects), let ANY other total template `t2` be evaluated to
    the end on the same heap – another goroutine's line, with its own root context `root2`.  Afterwards this
    evaluation's chain is intact (same objects, still checked out, same parents) and denotes the same context.
    (Coarse-grained: the other evaluation runs to its end; `Get`/`Return` themselves are atomic by the mutex,
    `pool_exclusive` is the statement for arbitrary orders of those.) -/
theorem pooled_noninterference (root root2 : Ctx) (t2 : C17Heap.Tm) (ht2 : Total t2)
    (ref : C17Heap.Ref) (h : C17Heap.Heap) (l : List Nat) (g : Good h l ref) :
    ∃ v h', C17Heap.ev root2 (C17Heap.depth t2 + 1) t2 .root h = .ok (v, h') ∧
      Good h' l ref ∧ ctxOf root h'.objs l = ctxOf root h.objs l := by
  obtain ⟨h', e, _, fr⟩ := pooled_template_spec root2 (C17Heap.depth t2 + 1) t2 ht2 .root h []
    (good_root h g.pool) (by simp)
  exact ⟨_, h', e, g.frame fr (by simp), ctxOf_frame root g fr (by simp)⟩

/-- **Every pool state the process can be in satisfies the hypotheses of `pooled_template_spec`.**  From
    `NewObjectPool(n)`, after any sequence of `Get`s and `Return`s of checked-out objects in any order (`Reach`,
    the worlds of `pool_exclusive`): the free list has no duplicates and only allocated objects (`PoolOk`), and
    every object somebody holds is `Held` – so any chain of distinct objects held by the evaluating goroutine's
    enclosing helpers is `Good`, whatever the other goroutines hold. -/
theorem reachable_pool_good (n : Nat) (w : World) (h : Reach n w) :
    PoolOk w.pool ∧ ∀ o ∈ w.held, Held w.pool o := by
  obtain ⟨hn, hb⟩ := inv_reach h
  have hna := List.nodup_append.mp hn
  refine ⟨⟨hna.1, fun o ho => hb o (List.mem_append_left _ ho)⟩, fun o ho => ⟨hb o (List.mem_append_right _ ho), ?_⟩⟩
  intro hf
  exact hna.2.2 o hf o ho rfl

/-- The statement order `ev` follows – which helper evaluates its array argument before `Get`, which after; the
    stage and the two values of every `Eval` – is the one in funcsRange.go (regenerated table). -/
theorem heap_machine_matches_source : Gen.C17.helperSteps = C17Heap.sourceOrder := by decide

private def exRoot : Ctx := { getMatch := fun _ => [97, 0, 98], getKey := fun _ => [107] }
/-- `{@map {0} {@map {0} "{0}{k}"}}`: nested helpers, the inner sub-expression reads a key through two objects. -/
private def exNested : C17Heap.Tm :=
  .map (.scalar (Comp.match_ 0)) (.map (.scalar (Comp.match_ 0))
    (.scalar (do let a ← Comp.match_ 0; let k ← Comp.key [107]; pure (a ++ k))))

/-- **Exclusivity is needed** (what `pool_exclusive` provides and the seeded change `C17-objpool-return-reslice`
    breaks): with an object twice in the free list the inner helper of `{@map {0} {@map {0} "{0}{k}"}}` is handed the
    object the outer one holds, the overwrite makes it its own parent, and the key look-up never ends – Go's
    `fatal error: stack overflow`.  From a duplicate-free pool – here with stale garbage in every object, parents
    pointing at themselves – the same template evaluates to `ak␀bk`. -/
theorem pooled_template_needs_exclusive :
    (match C17Heap.ev exRoot 50 exNested .root ⟨⟨[0, 0], 1⟩, fun _ => ⟨.root, [], []⟩⟩ with
      | .error _ => true | .ok _ => false) = true ∧
    (match C17Heap.ev exRoot 50 exNested .root ⟨⟨[0, 1], 2⟩, fun n => ⟨.obj n, [1], [2]⟩⟩ with
      | .ok (v, h') => v == [97, 107, 0, 98, 107] && h'.pool.free == [0, 1] | .error _ => false) = true := by
  decide +kernel

/-- `{@map {0} <a leaf that panics on the element b>}` on `a␀b`: the model panics with the leaf's message while the
    second element is processed, and so does the machine. -/
example :
    (match C17Heap.ev exRoot 50 (.map (.scalar (Comp.match_ 0))
        (.scalar (.getMatch 0 fun v => if v = [98] then .panic "boom" else .ret v))) .root
        ⟨⟨[0, 1], 2⟩, fun n => ⟨.obj n, [1], [2]⟩⟩ with
      | .error m => m == "boom" | .ok _ => false) = true ∧
    (match (C17Heap.den (.map (.scalar (Comp.match_ 0))
        (.scalar (.getMatch 0 fun v => if v = [98] then .panic "boom" else .ret v)))).run exRoot with
      | .error m => m == "boom" | .ok _ => false) = true := by
  decide +kernel

example : Total exNested :=
  ⟨.getMatch _ _ fun _ => .ret _, .getMatch _ _ fun _ => .ret _,
   .getMatch _ _ fun _ => .getKey _ _ fun _ => .ret _⟩
/-- A non-root situation: the object 3 is checked out and heads the chain. -/
example : Good ⟨⟨[0, 1], 4⟩, fun _ => ⟨.root, [5], [6]⟩⟩ [3] (.obj 3) :=
  ⟨⟨by decide, by decide⟩, ⟨rfl, trivial⟩, by simp, by intro o ho; simp at ho; subst ho; exact ⟨by decide, by decide⟩⟩

/-- The splitter, `MakeArray`, and the index arithmetic and loops of `@select` / `@slice` are the code the model
    mirrors (`Splitter.Next`/`Done`, `C17Extra.nextOk`/`makeArrayLoop`, `selectIndex` and the `i == searchIndex`
    loop of `selectStage`, `sliceStart` with its clamp and the guard/body of `sliceStage`), statement by statement,
    regenerated from /repo: the advance by `len(s.Delim)`, the clamp `if realStart < 0 { realStart = 0 }`, the
    comparison `i-realStart < sliceLen` are the repaired forms of F9 and F8. -/
theorem splitter_and_index_code_matches_source :
    Gen.C17.splitterNext = ["if s.next < 0 { return \"\" }", "idx := strings.Index(s.S[s.next:], s.Delim)",
      "if idx < 0 { ret = s.S[s.next:] s.next = -1 return }", "idx += s.next", "ret = s.S[s.next:idx]",
      "s.next = idx + len(s.Delim)", "return"] ∧
    Gen.C17.splitterNextOk = ["ok = !s.Done()", "ret = s.Next()", "return"] ∧
    Gen.C17.splitterDone = ["return s.next < 0"] ∧
    Gen.C17.makeArrayCode = ["var sb strings.Builder",
      "for i := 0; i < len(args); i++ { if i > 0 { sb.WriteRune(ArraySeparator) } sb.WriteString(args[i]) }",
      "return sb.String()"] ∧
    Gen.C17.selectIndexCode = ["if searchIndex < 0 { searchIndex += strings.Count(splitter.S, splitter.Delim) + 1 }",
      "for i := 0; !splitter.Done(); i++ { val := splitter.Next() if i == searchIndex { return val } }"] ∧
    Gen.C17.sliceIndexCode = [
      "if realStart < 0 { realStart += strings.Count(splitter.S, ArraySeparatorString) + 1 if realStart < 0 { realStart = 0 } }",
      "for i := 0; (sliceLen < 0 || i-realStart < sliceLen) && !splitter.Done(); i++ { val := splitter.Next() if i >= realStart { if i > realStart { ret.WriteString(ArraySeparatorString) } ret.WriteString(val) } }"] := by
  decide +kernel

/-! ## … and with the other goroutines running in between

`Model/C17HeapI.lean`: the same machine with an interference oracle applied at every scheduling point (after
`Get`, after the overwrite, after each `Eval`'s stores, after every context look-up, after `Return`); the heap's
clock advances at each point, so the oracle can act differently every time. -/

/-- **Under every schedule.**  Let `env` be ANY interference that obeys `Rely`: at a scheduling point the other
    goroutines may take objects from the pool, allocate, hand back objects that are not this evaluation's, and
    write anything into every object this evaluation has not checked out – as long as the pool stays in order
    (`PoolInv`: no duplicates in the free list, none of this evaluation's objects in it; that the others return
    only what they hold is `pool_exclusive`) and this evaluation's checked-out objects keep their fields.  Then
    for every total template, from every heap and every context chain of checked-out objects, the interleaved
    machine answers what the pool-free model answers – `val t` – never overflows the stack, and afterwards this
    evaluation holds exactly the objects it held before, with their fields untouched. -/
theorem pooled_template_interleaved (env : C17HeapI.HeapI → C17HeapI.HeapI) (henv : ∀ h, Rely h (env h))
    (root : Ctx) (fuel : Nat) (t : C17Heap.Tm) (ht : Total t)
    (ref : C17Heap.Ref) (h : C17HeapI.HeapI) (l : List Nat) (g : GoodI h l ref)
    (hf : l.length + C17Heap.depth t < fuel) :
    ∃ h', C17HeapI.evI env root fuel t ref h = .ok (val t (ctxOf root h.objs l), h') ∧
      (C17Heap.den t).run (ctxOf root h.objs l) = .ok (val t (ctxOf root h.objs l)) ∧
      FrameI h h' [] := by
  obtain ⟨h', e, fr⟩ := evI_val henv root fuel t ht ref h l g hf
  exact ⟨h', e, den_val t _ ht, fr⟩

/-- **Every template under every schedule.**  `pooled_template_interleaved` without its hypothesis on the template:
    whatever the pool-free model does with `t` – a value or a panic of some sub-expression – the interleaved machine
    does the same under every interference that obeys `Rely`. -/
theorem pooled_template_interleaved_any (env : C17HeapI.HeapI → C17HeapI.HeapI) (henv : ∀ h, Rely h (env h))
    (root : Ctx) (fuel : Nat) (t : C17Heap.Tm)
    (ref : C17Heap.Ref) (h : C17HeapI.HeapI) (l : List Nat) (g : GoodI h l ref)
    (hf : l.length + C17Heap.depth t < fuel) :
    match (C17Heap.den t).run (ctxOf root h.objs l) with
    | .ok v => ∃ h', C17HeapI.evI env root fuel t ref h = .ok (v, h') ∧ FrameI h h' []
    | .error m => C17HeapI.evI env root fuel t ref h = .error m := by
  have := evI_valE henv root fuel t ref h l g hf
  rw [← den_valE] at this
  exact this

/-- **What the other goroutines actually do obeys `Rely`.**  The atomic steps of any OTHER evaluation on the shared
    heap – its `Get` (an object leaves the free list, or a fresh one is allocated), the `Return` of an object it
    holds (`o` allocated, not in the free list, not this evaluation's: what `pool_exclusive` guarantees for every
    object somebody else holds), and any write to an object that is not this evaluation's (its overwrite, its
    `Eval` stores) – each satisfy `Rely`; and so does any sequence of them (`Rely` is reflexive and transitive).
    So every real schedule is an interference `pooled_template_interleaved` covers. -/
theorem other_goroutines_obey_rely (h : C17HeapI.HeapI) :
    Rely h { h with pool := h.pool.get.2 } ∧
    (∀ o, o < h.pool.next → o ∉ h.pool.free → h.mine o = false → Rely h { h with pool := h.pool.ret o }) ∧
    (∀ o x, h.mine o = false → Rely h (h.set o x)) ∧
    Rely h h ∧
    (∀ h1 h2, Rely h h1 → Rely h1 h2 → Rely h h2) := by
  refine ⟨?_, ?_, ?_, ⟨id, Nat.le_refl _, fun _ => rfl, fun _ _ => rfl⟩, ?_⟩
  · -- Get
    refine ⟨fun ⟨hn, hb, hm⟩ => ?_, ?_, fun _ => rfl, fun _ _ => rfl⟩
    · cases hl : h.pool.free.getLast? with
      | none =>
        have hf : h.pool.free = [] := List.getLast?_eq_none_iff.mp hl
        rw [show h.pool.get.2 = { h.pool with next := h.pool.next + 1 } from by rw [get_of_empty hl]]
        exact ⟨by simp [hf], by simp [hf], fun o ho => Nat.lt_succ_of_lt (hm o ho)⟩
      | some o =>
        obtain ⟨ys, hy⟩ := List.getLast?_eq_some_iff.mp hl
        have hd : h.pool.free.dropLast = ys := by rw [hy]; simp
        rw [show h.pool.get.2 = { h.pool with free := h.pool.free.dropLast } from by rw [get_of_last hl]]
        have hsub : ∀ x ∈ ys, x ∈ h.pool.free := fun x hx => by rw [hy]; simp [hx]
        refine ⟨?_, fun x hx => ?_, hm⟩
        · show h.pool.free.dropLast.Nodup
          rw [hd]; exact (List.nodup_append.mp (hy ▸ hn)).1
        · have hx' : x ∈ ys := by
            have : x ∈ h.pool.free.dropLast := hx
            rwa [hd] at this
          exact hb x (hsub x hx')
    · cases hl : h.pool.free.getLast? with
      | none => rw [show h.pool.get.2 = { h.pool with next := h.pool.next + 1 } from by rw [get_of_empty hl]]; simp
      | some o => rw [show h.pool.get.2 = { h.pool with free := h.pool.free.dropLast } from by rw [get_of_last hl]]; simp
  · -- Return of somebody else's object
    intro o hlt hnf hmo
    refine ⟨fun ⟨hn, hb, hm⟩ => ⟨?_, fun x hx => ?_, hm⟩, Nat.le_refl _, fun _ => rfl, fun _ _ => rfl⟩
    · show (h.pool.free ++ [o]).Nodup
      refine List.nodup_append.mpr ⟨hn, by simp, ?_⟩
      intro a ha b hb' e
      simp at hb'; subst hb'; subst e; exact hnf ha
    · have hx' : x ∈ h.pool.free ++ [o] := hx
      simp only [List.mem_append, List.mem_singleton] at hx'
      rcases hx' with e | e
      · exact hb x e
      · subst e; exact ⟨hlt, hmo⟩
  · -- a write to an object that is not this evaluation's
    intro o x hmo
    refine ⟨id, Nat.le_refl _, fun _ => rfl, fun y hy => ?_⟩
    have : y ≠ o := fun e => by rw [e, hmo] at hy; cases hy
    simp [C17HeapI.HeapI.set, this]
  · intro h1 h2 r1 r2
    exact ⟨fun hp => r2.inv (r1.inv hp), Nat.le_trans r1.next_le r2.next_le, fun x => by rw [r2.mine x, r1.mine x],
      fun x hx => by rw [r2.keep x (by rw [r1.mine x]; exact hx), r1.keep x hx]⟩

/-- An interference that uses its freedom: at every scheduling point it overwrites EVERY object this evaluation
    has not checked out (parent pointing at the object itself, garbage values) and allocates one more object. -/
private def envScribble (h : C17HeapI.HeapI) : C17HeapI.HeapI :=
  { h with objs := fun n => if h.mine n then h.objs n else ⟨.obj n, [33], [63]⟩,
           pool := { h.pool with next := h.pool.next + 1 } }

example : ∀ h, Rely h (envScribble h) := fun h =>
  ⟨fun ⟨a, b, c⟩ => ⟨a, fun o ho => ⟨Nat.lt_succ_of_lt (b o ho).1, (b o ho).2⟩, fun o ho => Nat.lt_succ_of_lt (c o ho)⟩,
   Nat.le_succ _, fun _ => rfl, fun x hx => by simp [envScribble, hx]⟩

private def exRootI : Ctx := { getMatch := fun _ => [97, 0, 98], getKey := fun _ => [107] }
private def exNestedI : C17Heap.Tm :=
  .map (.scalar (Comp.match_ 0)) (.map (.scalar (Comp.match_ 0))
    (.scalar (do let a ← Comp.match_ 0; let k ← Comp.key [107]; pure (a ++ k))))

/-- **`Rely` is needed, and it is all that is needed** (`{@map {0} {@map {0} "{0}{k}"}}` on `a␀b`, key `k`): under
    the scribbling interference the answer is `ak␀bk` as without any interference; an interference that also
    writes into the objects this evaluation holds changes the answer. -/
theorem interference_must_respect_ownership :
    (match C17HeapI.evI envScribble exRootI 50 exNestedI .root ⟨⟨[0, 1], 2⟩, fun n => ⟨.obj n, [1], [2]⟩, fun _ => false, 0⟩ with
      | .ok (v, _) => v == [97, 107, 0, 98, 107] | .error _ => false) = true ∧
    (match C17HeapI.evI (fun h => { h with objs := fun _ => ⟨.root, [33], [63]⟩ }) exRootI 50 exNestedI .root
        ⟨⟨[0, 1], 2⟩, fun n => ⟨.obj n, [1], [2]⟩, fun _ => false, 0⟩ with
      | .ok (v, _) => v == [97, 107, 0, 98, 107] | .error _ => false) = false := by
  decide +kernel

/-- The initial situation of a line's evaluation satisfies `GoodI`: nothing checked out, a pool in order. -/
example : GoodI ⟨⟨[0, 1], 2⟩, fun n => ⟨.obj n, [1], [2]⟩, fun _ => false, 0⟩ [] .root :=
  goodI_root _ ⟨by decide, by intro o ho; simp at ho; rcases ho with e | e <;> simp [e], by simp⟩

/-! ## `MakeArray` and `Splitter.NextOk` (the two functions of the anchor files no helper calls) -/

/-- `expressions.MakeArray(values…)` – how the commands hand several values to an expression as one array – is
    `pack`: the values in order with one separator between neighbours, nothing for no value, and (as for every
    array) the list is read back exactly when no value contains the separator (`wellformed_iff`). -/
theorem make_array_spec (xs : List Bytes) : C17Extra.makeArray xs = pack xs := makeArray_eq_pack xs

/-- Draining a splitter with `NextOk` (any delimiter `d ≠ ""`) yields exactly the pieces `splitOn d s` – the same
    list `Next`/`Done` give (`splitter_spec`) – within `len(s)+2` rounds; afterwards the splitter is finished and
    stays so: another `Next` answers the empty string and changes nothing. -/
theorem nextok_drain_spec (s d : Bytes) (hd : d ≠ []) :
    ∃ sp', C17Extra.drainOk (s.length + 2) { S := s, Delim := d } [] = some (splitOn d s, sp') ∧
      sp'.Done = true ∧ sp'.Next.1 = [] ∧ sp'.Next.2 = sp' := by
  obtain ⟨sp', e, h⟩ := drainOk_spec (s.length + 2) { S := s, Delim := d } [] hd (by simp [view_init, vlen])
  exact ⟨sp', by simpa [view_init, remaining] using e, h⟩

/-! ## Non-vacuity -/

/-- A concrete context and sub-expression: `{0}` and the key `k` (resolved by the enclosing match). -/
private def exCtx : Ctx := { getMatch := fun _ => [1, 0, 2, 0, 0, 3], getKey := fun _ => [9] }
private def exSub : Stage := do let a ← Comp.match_ 0; let k ← Comp.key [107]; pure (a ++ k)

example : ∀ v0 v1, exSub.run (subCtx exCtx v0 v1) = .ok ((fun a _ => a ++ [9]) v0 v1) := fun _ _ => rfl
/-- `{@map {0} "{0}{k}"}` on `1␀2␀␀3` appends the enclosing match's key to every element, incl. the empty one. -/
example : (mapStage (Comp.match_ 0) exSub).run exCtx = .ok [1, 9, 0, 2, 9, 0, 9, 0, 3, 9] := by
  rw [map_spec exCtx _ exSub [1, 0, 2, 0, 0, 3] (fun a _ => a ++ [9]) rfl (fun _ _ => rfl)]
  exact congrArg Except.ok (by decide)
/-- A two-byte delimiter (F9's input `1ab2ab3`, "ab"): the hypotheses of both inverse laws hold. -/
example : splitOn [97, 98] [49, 97, 98, 50, 97, 98, 51] = [[49], [50], [51]] := by decide
example : ∀ x ∈ ([[49], [50], [51]] : List Bytes), ¬ ([97, 98] : Bytes) <:+: x ++ ([97, 98] : Bytes).dropLast := by
  decide
/-- The side condition of `split_join_list` is needed: "a","x" joined by "aa" is "aaax", which splits as "", "ax". -/
example : splitOn [97, 97] (join [97, 97] [[97], [120]]) = [[], [97, 120]] := by decide
example : elems [1, 0, 2, 0, 0, 3] = [[1], [2], [], [3]] ∧ len [1, 0, 2, 0, 0, 3] = 4 ∧ len [] = 0 := by decide

/-- F8's input: `{@slice {@ a b c} -5}` is the whole array, `-5 2` its first two elements, and a huge length is harmless. -/
example : slice [[97], [98], [99]] (-5) (-1) = [[97], [98], [99]] ∧ slice [[97], [98], [99]] (-5) 2 = [[97], [98]] ∧
    slice [[97], [98], [99]] 1 maxInt64 = [[98], [99]] ∧ select [[97], [98], [99]] (-1) = [99] ∧
    select [[97], [98], [99]] (-4) = [] := by decide

/-- `{@for "" {neq {1} 3} "{0}a"}` (the input whose leading empty element used to be dropped). -/
example : iterateWhile (fun _ k => k != 3) (fun v _ => v ++ [97]) 1000000 0 [] = some [[], [97], [97, 97]] := by
  decide

example : rangeCount 3 10 3 = 3 ∧ range 3 10 3 = [3, 6, 9] ∧ rangeCount 10 3 (-3) = 3 ∧ rangeCount 5 5 1 = 0 ∧
    rangeCount 0 9223372036854775807 1 = 9223372036854775807 := by decide
/-- The term-by-term progression is the closed form; F10's input stops at the last term below `stop`
    instead of wrapping around. -/
example : progWhile 3 10 3 100 0 = some (range 3 10 3) ∧ progWhile 10 3 (-3) 100 0 = some [10, 7, 4] ∧
    progWhile 9223372036854775800 9223372036854775807 5 100 0 =
      some [9223372036854775800, 9223372036854775805] ∧
    progWhile 0 5 1 3 0 = none := by decide

/-! ### Composition laws -/

example : slice (slice [[97], [98], [99], [100]] 1 (-1)) 1 1 = slice [[97], [98], [99], [100]] 2 1 ∧
    slice [[97], [98], [99], [100]] 2 1 = [[99]] ∧
    slice (slice [[97], [98], [99], [100]] 1 2) 1 5 = [[99]] := by decide
/-- The empty list and `[""]` are one value; `@len` says 0 for it and counts every other list. -/
example : len (pack [[]]) = 0 ∧ len (pack [[], []]) = 2 ∧ pack ([] : List Bytes) = pack [[]] ∧
    elems (pack ([] : List Bytes)) = [[]] := by decide
example : select ([[97], [98]].map (fun x => x ++ [33])) (-1) = [98, 33] ∧
    select ([[97], [98]].map (fun x => x ++ [33])) 2 = [] ∧ inRange 2 (-2) = true ∧ inRange 2 (-3) = false := by decide
/-- `{@map {@filter {0} ""} "{0}{k}"}`: nothing is kept, the mapper still runs once, on the empty string. -/
example : (mapStage (filterStage (Comp.match_ 0) (Stage.lit [])) exSub).run exCtx = .ok [9] := by
  rw [map_filter_spec exCtx (Comp.match_ 0) exSub (Stage.lit []) [1, 0, 2, 0, 0, 3] (fun a _ => a ++ [9]) (fun _ _ => [])
    rfl (fun _ _ => rfl) (fun _ _ => rfl)]
  exact congrArg Except.ok (by decide)
/-- `{@map {@split "a,b;c" ";"} {@split {0} ","}}` flattens: `a`, `b`, `c`. -/
example : (splitOn [59] [97, 44, 98, 59, 99]).flatMap (splitOn [44]) = [[97], [98], [99]] := by decide
/-- A reachable world with an out-of-order return (the hypotheses of `pool_exclusive` are satisfiable):
    two `Get`s, then the FIRST object comes back while the second is still out. -/
example : Reach 2 ⟨⟨[1], 2⟩, [0]⟩ := by
  have h1 : Reach 2 ⟨⟨[0], 2⟩, [1]⟩ := Reach.step Reach.init (Step.get (World.new 2))
  have h2 : Reach 2 ⟨⟨[], 2⟩, [0, 1]⟩ := Reach.step h1 (Step.get ⟨⟨[0], 2⟩, [1]⟩)
  exact Reach.step h2 (Step.ret ⟨⟨[], 2⟩, [0, 1]⟩ 1 (by decide))

/-! ### Integer arguments (the hypotheses of `select_spec`, `slice_spec`, `range_spec`, `in_spec`) -/

example : evalStageInt (Stage.lit [45, 50]) = .ok (some (-2)) := rfl
example : atoi (ascii "+5") = some 5 ∧ atoi (ascii "-0") = some 0 ∧ atoi (ascii "007") = some 7 ∧
    atoi (ascii "-9223372036854775808") = some minInt64 ∧ atoi (ascii "9223372036854775808") = none ∧
    atoi (ascii "1.5") = none ∧ atoi (ascii "") = none ∧ atoi (ascii "-") = none := by decide +kernel
/-- `{@select {0} -2}` on `1␀2␀␀3`: the second element from the end is the empty one;
    `{@select {0} 1}` is `2`. -/
example : (selectStage (-2) (Comp.match_ 0)).run exCtx = .ok [] ∧
    (selectStage 1 (Comp.match_ 0)).run exCtx = .ok [2] := by
  have hl : (([1, 0, 2, 0, 0, 3] : Bytes).length : Int) < maxInt64 := by decide
  refine ⟨?_, ?_⟩
  · rw [(select_spec exCtx (Comp.match_ 0) (Stage.lit [45, 50]) [1, 0, 2, 0, 0, 3] (-2)
      rfl rfl hl).2]
    exact congrArg Except.ok (by decide)
  · rw [(select_spec exCtx (Comp.match_ 0) (Stage.lit [49]) [1, 0, 2, 0, 0, 3] 1
      rfl rfl hl).2]
    exact congrArg Except.ok (by decide)
/-- `{@slice {0} -3 2}` and `{@slice {0} -9}` (no length) on `1␀2␀␀3`. -/
example : (sliceStage (-3) 2 (Comp.match_ 0)).run exCtx = .ok [2, 0] ∧
    (sliceStage (-9) (-1) (Comp.match_ 0)).run exCtx = .ok [1, 0, 2, 0, 0, 3] := by
  have hl : (([1, 0, 2, 0, 0, 3] : Bytes).length : Int) < maxInt64 := by decide
  refine ⟨?_, ?_⟩
  · rw [(slice_spec exCtx (Comp.match_ 0) (Stage.lit [45, 51]) [Stage.lit [50]] [1, 0, 2, 0, 0, 3]
      (-3) 2 (by decide) rfl rfl rfl hl).2]
    exact congrArg Except.ok (by decide)
  · rw [(slice_spec exCtx (Comp.match_ 0) (Stage.lit [45, 57]) [] [1, 0, 2, 0, 0, 3]
      (-9) (-1) (by decide) rfl rfl rfl hl).2]
    exact congrArg Except.ok (by decide)
/-- `{@in {k} {@ a "" b}}`: the key's value `[9]` is not a member, the empty string is. -/
example : (inStage (splitByte ArraySeparator [97, 0, 0, 98] []) (Comp.key [107])).run exCtx = .ok FalsyVal ∧
    (inStage (splitByte ArraySeparator [97, 0, 0, 98] []) (Stage.lit [])).run exCtx = .ok TruthyVal := by
  refine ⟨?_, ?_⟩
  · rw [(in_spec exCtx (Comp.key [107]) (Stage.lit [97, 0, 0, 98]) [9] [97, 0, 0, 98] rfl rfl).2]
    exact congrArg Except.ok (by decide +kernel)
  · rw [(in_spec exCtx (Stage.lit []) (Stage.lit [97, 0, 0, 98]) [] [97, 0, 0, 98] rfl rfl).2]
    exact congrArg Except.ok (by decide +kernel)
/-- `{@range 3 10 3}` with literal arguments. -/
example : (rangeStage (Stage.lit (ascii "3")) (Stage.lit (ascii "10")) (Stage.lit (ascii "3"))).run exCtx =
    .ok (pack [ascii "3", ascii "6", ascii "9"]) := by
  rw [range_spec exCtx _ _ _ (ascii "3") (ascii "10") (ascii "3") 3 10 3 rfl rfl rfl
    (by decide +kernel) (by decide +kernel) (by decide +kernel)]
  exact congrArg Except.ok (by decide +kernel)

/-! ### `@reduce`: empty elements, empty accumulators -/

/-- The reducer `"{0}-{1}"`. -/
private def exRed : Stage := do let a ← Comp.match_ 0; let b ← Comp.match_ 1; pure (a ++ [45] ++ b)
private def exRedF : Bytes → Bytes → Bytes := fun a b => a ++ [45] ++ b
example : ∀ v0 v1, exRed.run (subCtx exCtx v0 v1) = .ok (exRedF v0 v1) := fun _ _ => rfl
/-- `{@reduce {0} "{0}-{1}"}` on `␀a␀b` (elements `""`, `a`, `b`): `-a-b`, not `a-b` – the hypotheses of
    `reduce_empty_first` hold and its conclusion is that value. -/
example : elems [0, 97, 0, 98] = [] :: [97] :: [[98]] ∧ [[98]].foldl exRedF (exRedF [] [97]) = [45, 97, 45, 98] := by decide
/-- With the initial value `x` the first element goes through the reducer as well; an empty initial value is
    "no initial value". -/
example : reduce exRedF [120] [[], [97]] = [120, 45, 45, 97] ∧ reduce exRedF [] [[], [97]] = [45, 97] ∧
    reduce exRedF [] [[97]] = [97] ∧ reduce exRedF [] [[]] = [] := by decide
/-- A reducer that returns `""` for some pair (here: keeps `{1}` only when `{0}` is `x`): after `x, y` the
    accumulator is `y`; after `q, y` it is empty, and the next element is still REDUCED (gives `""` again), not
    adopted – `reduce_no_reseed` with `pre = [q, y]`. -/
example : reduce (fun a b => if a = [120] then b else []) [] ([[113], [121]] ++ [[122]]) =
    [[122]].foldl (fun a b => if a = [120] then b else []) (reduce (fun a b => if a = [120] then b else []) [] [[113], [121]]) ∧
    reduce (fun a b => if a = [120] then b else []) [] [[113], [121], [122]] = [] := by decide

/-! ### `@select` / `@slice` on any list -/

example : selectW [[97], [98], [99]] (-1) = [99] ∧ selectW [[97], [98], [99]] (-4) = [] ∧ selectW [[97], [98], [99]] 1 = [98] ∧
    selectW [[97], [98], [99]] 9223372036854775807 = [] := by decide
example : sliceW [[97], [98], [99]] (-5) 2 = [97, 0, 98] ∧ sliceW [[97], [98], [99]] 1 9223372036854775807 = [98, 0, 99] ∧
    sliceW [[97], [98], [99]] 1 0 = [] ∧ sliceW [[97], [], [99]] (-2) (-1) = [0, 99] := by decide
/-- `{@select {0} -2}` / `{@slice {0} -3 2}` on `1␀2␀␀3` through the unconditional theorems. -/
example : (selectStage (-2) (Comp.match_ 0)).run exCtx = .ok [] ∧ (sliceStage (-3) 2 (Comp.match_ 0)).run exCtx = .ok [2, 0] := by
  refine ⟨?_, ?_⟩
  · rw [(select_spec_wrapped exCtx (Comp.match_ 0) (Stage.lit [45, 50]) [1, 0, 2, 0, 0, 3] (-2) rfl rfl).2]
    exact congrArg Except.ok (by decide)
  · rw [(slice_spec_wrapped exCtx (Comp.match_ 0) (Stage.lit [45, 51]) [Stage.lit [50]] [1, 0, 2, 0, 0, 3]
      (-3) 2 (by decide) rfl rfl rfl).2]
    exact congrArg Except.ok (by decide)

/-! ### Well-formedness -/

/-- A member with a separator inside (what `{@map {@ a b} {@ {0} x}}` produces: `a␀x`, `b␀x`): the
    result reads back flattened, has 3 separators = 1 joint + 2 inside members, and is NOT the
    two-element list – the side condition of `wellformed_iff` is exact. -/
example : elems (pack [[97, 0, 120], [98, 0, 120]]) = [[97], [120], [98], [120]] ∧
    (pack [[97, 0, 120], [98, 0, 120]]).count NUL = 3 ∧
    elems (pack [[97, 0, 120], [98, 0, 120]]) ≠ [[97, 0, 120], [98, 0, 120]] := by decide
example : IsArray (pack [[], [97], []]) [[], [97], []] := isArray_pack _ (by decide)
/-- F8's shape: a leading separator would read back as an extra empty first element. -/
example : elems (0 :: pack [[97], [98], [99]]) = [[], [97], [98], [99]] := by decide

/-! ### `{select}` words, `tab`, `@for` at the limit, `MakeArray`, `NextOk` -/

/-- `ab␠␠cd␀e`: a run of delimiters ends one word; NUL separates like a blank. A leading delimiter gives the empty
    word 0, trailing ones nothing. -/
example : words [97, 98, 32, 32, 99, 100, 0, 101] = [[97, 98], [99, 100], [101]] ∧
    words [32, 97] = [[], [97]] ∧ words [97, 0, 0] = [[97]] ∧ words [] = [[]] ∧
    selectWord [97, 98, 32, 32, 99, 100, 0, 101] 2 = [101] ∧ selectWord [97, 98, 32, 32, 99, 100, 0, 101] 3 = [] ∧
    selectWord [97, 98, 32, 32, 99, 100, 0, 101] (-1) = [] := by decide
/-- The hypotheses of `select_agrees_on_plain_arrays` / `words_read_back` hold for `["ab", "é", "-3"]`. -/
example : ∀ w ∈ ([[97, 98], [195, 169], [45, 51]] : List Bytes), IsPlainWord w := by
  intro w hw
  simp only [List.mem_cons, List.not_mem_nil, or_false] at hw
  rcases hw with e | e | e <;> subst e <;> exact ⟨by decide, by decide⟩
example : (∀ c ∈ ([97, 32, 0, 98] : Bytes), c ≠ 34) ∧ isWordDelim 0 = true ∧ isWordDelim 9 = true ∧ isWordDelim 34 = false := by
  decide
/-- `{tab a b}` then `{select … 1}`: the second value. -/
example : Funcs.Strings.selectField (join [9] [[97], [98, 99]]) 1 = [98, 99] := by decide +kernel
/-- Three rounds of `"{0}a"` from `x`. -/
example : iterN (fun v _ => v ++ [97]) 3 0 [120] = [[120], [120, 97], [120, 97, 97]] := by decide
example : C17Extra.makeArray [[97], [], [98]] = [97, 0, 0, 98] ∧ C17Extra.makeArray [] = [] ∧
    (C17Extra.drainOk 7 { S := [97, 97, 97, 97, 97], Delim := [97, 97] } []).map (·.1) = some [[], [], [97]] := by
  decide +kernel

end Rare.C17
