import Rare.Proofs.C18Cal
import Rare.Proofs.C18Layout
import Rare.Proofs.C18Dur
import Rare.Proofs.C18DurFrac
import Rare.Proofs.C18RT
import Rare.Proofs.C18Abbr
import Rare.Proofs.C18Zone
import Rare.Proofs.C18Cache
import Rare.Proofs.C18Hist
import Rare.Proofs.C18Name
import Rare.Proofs.C18Offset
import Rare.Proofs.C18DurRT
import Rare.Gen.C18
/-!
# C18 – Time helpers agree with the calendar and round-trip

Model: `Rare/Model/C18.lean` (rare's `funcsTime.go` after the `fix:` commit for F13, plus an
executable reference of the parts of Go's `time` package it calls).  Reference calendar and
truncation: `Rare/Spec/C18.lean`.  Tables and the `QUARTER` arithmetic are regenerated from
`/repo` into `Rare/Gen/C18.lean` on every run; the theorems below are stated over them.

Level: proof for rare's own logic (tables, prefix matching, quarter, dispatch, markers) and for the
reference calendar / layout formatter–parser as mathematical objects; that Go's `time.Format`,
`time.Parse`, `LoadLocation`, `dateparse` and the host tz database behave like the reference is
covered by correspondence only (see DESIGN.md, C18 "Level").
-/
namespace Rare.C18

/-! ## The generated tables are the ones the model uses -/

/-- The hand copies in the model equal what the translator reads from `funcsTime.go` now. -/
theorem gen_tables_match :
    Gen.C18.timeFormats.map (fun e => (asc e.1, asc e.2)) = timeFormats
    ∧ Gen.C18.bucketTable.map (fun e => (asc e.1, asc e.2)) = bucketTable
    ∧ Gen.C18.attrKeys.map asc = attrKeys
    ∧ asc Gen.C18.defaultTimeFormat = rfc3339
    ∧ (∀ m, Gen.C18.quarter m = quarterExpr m) := by
  refine ⟨by decide, by decide, by decide, by decide, fun m => rfl⟩

/-! ## Quarter -/

/-- For every month the generated `QUARTER` expression is `(m − 1) / 3 + 1`, lies in 1..4, and
January–March are quarter 1 (F13: the expression used to be `month/3 + 1`). -/
theorem quarter_spec (m : Int) (h1 : 1 ≤ m) (h12 : m ≤ 12) :
    Gen.C18.quarter m = quarter m ∧ 1 ≤ Gen.C18.quarter m ∧ Gen.C18.quarter m ≤ 4 ∧
      (m ≤ 3 → Gen.C18.quarter m = 1) ∧ (10 ≤ m → Gen.C18.quarter m = 4) := by
  have h : m = 1 ∨ m = 2 ∨ m = 3 ∨ m = 4 ∨ m = 5 ∨ m = 6 ∨ m = 7 ∨ m = 8 ∨ m = 9 ∨ m = 10 ∨ m = 11 ∨ m = 12 := by omega
  rcases h with h | h | h | h | h | h | h | h | h | h | h | h <;> subst h <;> decide

/-- Months of one quarter are consecutive triples: the specification itself. -/
theorem quarter_months (m : Int) :
    3 * (quarter m - 1) + 1 ≤ m ∧ m ≤ 3 * quarter m := by
  unfold quarter; omega

/-- `{timeattr t quarter}` prints the quarter of the civil month of `t` in the zone. -/
theorem timeattr_quarter (unix off : Int) :
    timeAttr (asc "quarter") unix off = some (itoa (quarter (civilOf unix off).m)) := by
  have hm := civil_month_day (localDays unix off)
  have hq := (quarter_spec (civilFromDays (localDays unix off)).m hm.1 hm.2.1).1
  have : timeAttr (asc "quarter") unix off = some (itoa (quarterExpr (civilFromDays (localDays unix off)).m)) := rfl
  rw [this, ← gen_tables_match.2.2.2.2, hq]
  rfl

/-! ## Named formats -/

/-- What every named format carries (one letter per field token, in layout order; see
`stdLetter`): which hold date + time + numeric offset, and to what precision. -/
theorem named_format_carries :
    Gen.C18.timeFormats.map (fun e => (e.1, String.ofList (carries (tokenize (asc e.2))))) =
      [("", "YMDhmsz"), ("ANSIC", "wMDhmsY"), ("DAY", "D"), ("HOUR", "h"), ("MINUTE", "m"), ("MNTH", "M"),
       ("MONTH", "M"), ("MONTHNAME", "M"), ("NGINX", "DMYhmsz"), ("NTIMEZONE", "z"), ("NTZ", "z"),
       ("RFC1123", "wDMYhmsa"), ("RFC1123Z", "wDMYhmsz"), ("RFC3339", "YMDhmsz"), ("RFC3339N", "YMDhmsfz"),
       ("RFC822", "DMyhma"), ("RFC822Z", "DMyhmz"), ("RUBY", "wMDhmszY"), ("SECOND", "s"), ("TIMEZONE", "a"),
       ("UNIX", "wMDhmsaY"), ("WDAY", "w"), ("WEEKDAY", "w"), ("YEAR", "Y")] := by
  decide

/-- The named formats holding date, time and numeric offset, with the precision each carries. -/
theorem named_format_instants :
    (Gen.C18.timeFormats.filter (fun e => holdsInstant (tokenize (asc e.2)))).map
        (fun e => (e.1, precOf (tokenize (asc e.2)))) =
      [("", .second), ("NGINX", .second), ("RFC1123Z", .second), ("RFC3339", .second), ("RFC3339N", .nano),
       ("RFC822Z", .minute), ("RUBY", .second)] := by
  decide

/-- Lookup is case-insensitive on the name and falls back to the argument itself. -/
theorem named_format_lookup (f : Bytes) :
    namedTimeFormatToFormat timeFormats f =
      match timeFormats.find? (fun e => e.1 == toUpper f) with
      | some e => e.2
      | none => f := by
  unfold namedTimeFormatToFormat lookupB
  cases timeFormats.find? (fun e => e.1 == toUpper f) <;> rfl

/-! ## Buckets -/

/-- Every bucket layout is a prefix (token-wise) of the finest one, and reads wall-clock fields of
its own precision or coarser only. -/
theorem bucket_layout_prefix :
    ∀ e ∈ Gen.C18.bucketTable.map (fun e => (asc e.1, asc e.2)),
      (tokenize e.2).isPrefixOf (tokenize (asc "2006-01-02 15:04:05.999999999")) = true
      ∧ withinPrec (precOf (tokenize e.2)) (tokenize e.2) = true := by
  decide

/-- Bucketing is truncation: the text printed for a bucket is a prefix of the full-precision text,
and it is the same text as for the wall clock truncated to the bucket's precision. -/
theorem bucket_is_truncation (e : Bytes × Bytes) (he : e ∈ bucketTable) (t : TimeV) :
    (formatLayout e.2 t).isPrefixOf (formatLayout (asc "2006-01-02 15:04:05.999999999") t) = true
    ∧ formatLayout e.2 (t.trunc (precOf (tokenize e.2))) = formatLayout e.2 t := by
  have h := bucket_layout_prefix e (by rw [gen_tables_match.2.1]; exact he)
  constructor
  · obtain ⟨r, hr⟩ := List.isPrefixOf_iff_prefix.mp h.1
    unfold formatLayout
    rw [← hr, formatToks_append]
    exact List.isPrefixOf_iff_prefix.mpr ⟨_, rfl⟩
  · exact formatToks_trunc _ _ h.2 t

/-- The bucket names of the documentation resolve to the layouts of their precision; an unknown
name resolves to nothing (`<ENUM>` at compile time). -/
theorem bucket_names :
    [asc "n", asc "s", asc "m", asc "h", asc "d", asc "mo", asc "y", asc "Hour", asc "x", asc "secondss"].map
        (fun n => precOf (tokenize (timeBucketToFormat bucketTable n)))
      = [.nano, .second, .minute, .hour, .day, .month, .year, .hour, .year, .year]
    ∧ timeBucketToFormat bucketTable (asc "x") = [] ∧ timeBucketToFormat bucketTable (asc "secondss") = [] := by
  decide

/-! ## Reference calendar -/

/-- `daysFromCivil ∘ civilFromDays = id`. -/
theorem civil_roundtrip (z : Int) :
    daysFromCivil (civilFromDays z).y (civilFromDays z).m (civilFromDays z).d = z :=
  civil_roundtrip' z

/-- `civilFromDays` yields a date of the calendar: month 1..12, day within the month. -/
theorem civil_valid (z : Int) :
    1 ≤ (civilFromDays z).m ∧ (civilFromDays z).m ≤ 12 ∧ 1 ≤ (civilFromDays z).d ∧
      (civilFromDays z).d ≤ daysIn (civilFromDays z).m (civilFromDays z).y :=
  civil_month_day z

theorem weekday_range (d : Int) : 0 ≤ weekday d ∧ weekday d ≤ 6 := weekday_range' d

/-- One day later is the next weekday. -/
theorem weekday_succ (d : Int) : weekday (d + 1) = (weekday d + 1) % 7 := by
  unfold weekday; omega

theorem yearday_range (z : Int) : 0 ≤ yearDay z ∧ yearDay z ≤ 365 := yearDay_range' z

/-- The day of the year stays below the length of its year (365, or 366 in a leap year). -/
theorem yearday_lt_length (z : Int) :
    yearDay z < (if isLeap (civilFromDays z).y then 366 else 365) := by
  have h := (year_bounds z).2
  rw [yearStart_succ] at h
  unfold yearDay; unfold yearStart at h; omega

/-- The year of a day is the unique year whose interval of day numbers contains it. -/
theorem civil_year_unique (z y : Int) :
    (civilFromDays z).y = y ↔ (daysFromCivil y 1 1 ≤ z ∧ z < daysFromCivil (y + 1) 1 1) := by
  constructor
  · intro h; subst h; exact year_bounds z
  · intro h; exact year_unique z y h.1 h.2

theorem isoweek_range (d : Int) : 1 ≤ (isoYearWeek d).2 ∧ (isoYearWeek d).2 ≤ 53 := by
  have h := yearDay_range' (thursdayOf d)
  simp only [isoYearWeek]
  omega

/-- The Thursday rule: the Thursday of the Monday-to-Sunday week of `d` is a Thursday within three
days of `d`, its Monday is a Monday; the ISO year of `d` is the civil year of that Thursday and the
ISO week is one more than the number of earlier Thursdays of that civil year; all days of the week
get the same answer. -/
theorem isoweek_thursday (d : Int) :
    weekday (thursdayOf d) = 4 ∧ thursdayOf d - 3 ≤ d ∧ d ≤ thursdayOf d + 3 ∧ weekday (thursdayOf d - 3) = 1
    ∧ (isoYearWeek d).1 = (civilFromDays (thursdayOf d)).y
    ∧ (isoYearWeek d).2 = yearDay (thursdayOf d) / 7 + 1
    ∧ isoYearWeek d = isoYearWeek (thursdayOf d)
    ∧ (∀ k, 0 ≤ k → k ≤ 6 → isoYearWeek (thursdayOf d - 3 + k) = isoYearWeek d) := by
  obtain ⟨h1, h2, h3, h4, h5⟩ := thursdayOf_facts d
  refine ⟨h1, h2, h3, h4, rfl, rfl, ?_, ?_⟩
  · simp only [isoYearWeek, h5]
  · intro k hk0 hk6
    have : thursdayOf (thursdayOf d - 3 + k) = thursdayOf d := by
      unfold thursdayOf weekday at *; omega
    simp only [isoYearWeek, this]

/-- ISO-8601's other characterisation: the week containing 4 January is week 1 of that year. -/
theorem isoweek_jan4 (d y : Int) (h : civilFromDays d = ⟨y, 1, 4⟩) : isoYearWeek d = (y, 1) := by
  have hr := civil_roundtrip' d
  rw [h] at hr
  have h3 : d = yearStart y + 3 := by
    rw [← hr]; unfold yearStart daysFromCivil; simp only; omega
  obtain ⟨_, t1, t2, _, _⟩ := thursdayOf_facts d
  have hlen := yearStart_mono y (y + 1) (by omega)
  have hy : (civilFromDays (thursdayOf d)).y = y := year_unique _ y (by omega) (by omega)
  simp only [isoYearWeek, yearDay, hy]
  unfold yearStart at h3 hlen
  congr 1; omega

/-- … and 28 December always lies in the last week (52 or 53) of its own ISO year. -/
theorem isoweek_dec28 (d y : Int) (h : civilFromDays d = ⟨y, 12, 28⟩) :
    (isoYearWeek d).1 = y ∧ 52 ≤ (isoYearWeek d).2 := by
  have hr := civil_roundtrip' d
  rw [h] at hr
  have h3 : d = yearStart (y + 1) - 4 := by
    rw [← hr]; unfold yearStart daysFromCivil
    simp only [show ¬ ((12 : Int) ≤ 2) from by decide, show ((12 : Int) > 2) from by decide, if_true, if_false,
      show ((1 : Int) ≤ 2) = True from by simp, show ¬ ((1 : Int) > 2) from by decide]
    have e1 : (y + 1 - 1) = y := by omega
    rw [e1]; omega
  obtain ⟨_, t1, t2, _, _⟩ := thursdayOf_facts d
  have hs := yearStart_succ y
  have hy : (civilFromDays (thursdayOf d)).y = y := year_unique _ y (by split at hs <;> omega) (by omega)
  simp only [isoYearWeek, yearDay, hy]
  unfold yearStart at h3 hs
  refine ⟨trivial, ?_⟩
  split at hs <;> omega

/-! ## Format / parse round trip -/

/-- For the model formatter/parser: for every layout of the round-trip class `RT` (see
`Rare/Proofs/C18RT.lean`: fixed-width or safely delimited tokens) that holds year, month, day, hour,
minute and a numeric zone, every valid civil date-time with whole seconds, every weekday label and
every whole-minute offset up to ±24:59 – parsing what was formatted gives the date-time truncated to
the precision of the layout, and the instant `wall clock − offset`, whatever the location argument
is.  A two-digit year carries the year only within Go's pivot window 1969..2068.  Round 4: the class
now also admits `January`, `Monday` and `MST` tokens (an abbreviation token next to the numeric zone
needs an abbreviation the parser reads back, `AbbrOK` – see `abbrOK_of_shape`).

Full statement wanted: the same for EVERY layout with those fields.  That is false for Go's
layouts (e.g. `1` month directly followed by `2` day prints `112` for both 1/12 and 11/2; `05.02`
makes the parser read the day as a fraction of the second), hence the class. -/
theorem format_parse_roundtrip (layout : Bytes) (hRT : RT (tokenize layout) = true)
    (hI : holdsInstant (tokenize layout) = true) (t : TimeV) (hv : t.dt.valid) (hns : t.dt.ns = 0)
    (hwd : 0 ≤ t.wd ∧ t.wd ≤ 6) (hoff : OffOK t.off)
    (hy2 : .std .year ∈ tokenize layout → 1969 ≤ t.dt.y ∧ t.dt.y ≤ 2068)
    (habbr : .std .tz ∈ tokenize layout → AbbrOK t.abbr t.off) :
    ∃ p, parseLayout layout (formatLayout layout t) = .ok p
      ∧ p.dt = truncTo (precOf (tokenize layout)) t.dt
      ∧ ∀ locOff locAbbr, instantOf p locOff locAbbr = some (wallSeconds (truncTo (precOf (tokenize layout)) t.dt) - t.off) :=
  roundtrip_core (tokenize layout) hRT hI t ⟨hv, hns, hwd, hoff, hy2, habbr⟩

/-- Every named format that holds date, time and numeric offset is in the round-trip class; only
`RFC822Z` has a two-digit year. -/
theorem named_formats_in_class :
    (Gen.C18.timeFormats.filter (fun e => holdsInstant (tokenize (asc e.2)))).all
        (fun e => RT (tokenize (asc e.2))) = true
    ∧ (Gen.C18.timeFormats.filter (fun e => (tokenize (asc e.2)).contains (.std .year))).map (·.1) = ["RFC822", "RFC822Z"] := by
  decide

/-- The wall clock of an instant denotes that instant again. -/
theorem wall_of_instant (unix off : Int) : wallSeconds (civilOf unix off) - off = unix := by
  have h := civil_roundtrip' (localDays unix off)
  unfold wallSeconds civilOf
  simp only
  rw [h]
  unfold localDays localSecs
  omega

/-- `{time {timeformat u F Z} F Z}` for a named format `F` holding an instant: the result is `u`
for the formats carrying seconds and `u` minus the seconds of the local minute for `RFC822Z`
(stated for the resolved layout, any zone offset of whole minutes, four-digit years). -/
theorem time_timeformat_roundtrip (e : String × String) (he : e ∈ Gen.C18.timeFormats)
    (hI : holdsInstant (tokenize (asc e.2)) = true) (unix off : Int) (abbr : Bytes) (hoff : OffOK off)
    (hy : 0 ≤ (civilOf unix off).y ∧ (civilOf unix off).y ≤ 9999)
    (hy2 : e.1 = "RFC822Z" → 1969 ≤ (civilOf unix off).y ∧ (civilOf unix off).y ≤ 2068) :
    ∃ p, parseLayout (asc e.2) (formatLayout (asc e.2) (timeVOf unix off abbr)) = .ok p
      ∧ ∀ locOff locAbbr, instantOf p locOff locAbbr =
          some (if e.1 = "RFC822Z" then unix - (unix + off) % 60 else unix) := by
  have hmem : e ∈ Gen.C18.timeFormats.filter (fun e => holdsInstant (tokenize (asc e.2))) := List.mem_filter.mpr ⟨he, hI⟩
  have hRT : RT (tokenize (asc e.2)) = true := (List.all_eq_true.mp named_formats_in_class.1) e hmem
  have hprec : precOf (tokenize (asc e.2)) = (if e.1 = "RFC822Z" then Prec.minute else if e.1 = "RFC3339N" then .nano else .second)
      ∧ ((tokenize (asc e.2)).contains (.std .year) = true → e.1 = "RFC822Z") := by
    have hall : ∀ e ∈ Gen.C18.timeFormats.filter (fun e => holdsInstant (tokenize (asc e.2))),
        precOf (tokenize (asc e.2)) = (if e.1 = "RFC822Z" then Prec.minute else if e.1 = "RFC3339N" then .nano else .second)
        ∧ ((tokenize (asc e.2)).contains (.std .year) = true → e.1 = "RFC822Z") := by decide
    exact hall e hmem
  have hnotz : (tokenize (asc e.2)).contains (.std .tz) = false := by
    have hall : ∀ e ∈ Gen.C18.timeFormats.filter (fun e => holdsInstant (tokenize (asc e.2))),
        (tokenize (asc e.2)).contains (.std .tz) = false := by decide
    exact hall e hmem
  have hs : 0 ≤ localSecs unix off ∧ localSecs unix off < 86400 := by unfold localSecs; omega
  have hc := civil_month_day (localDays unix off)
  have hvalid : (timeVOf unix off abbr).dt.valid := by
    simp only [timeVOf, civilOf, DateTime.valid] at hy ⊢
    refine ⟨hy.1, hy.2, hc.1, hc.2.1, hc.2.2.1, hc.2.2.2, ?_, ?_, ?_, ?_, ?_, ?_, by omega, by omega⟩ <;> omega
  obtain ⟨p, hp, hdt, hinst⟩ := format_parse_roundtrip (asc e.2) hRT hI (timeVOf unix off abbr) hvalid rfl
    (weekday_range' _) hoff (fun hm => hy2 (hprec.2 (List.contains_iff_mem.mpr hm)))
    (fun hm => by rw [List.contains_iff_mem.mpr hm] at hnotz; cases hnotz)
  refine ⟨p, hp, fun lo la => ?_⟩
  rw [hinst lo la, hprec.1]
  have hw := wall_of_instant unix off
  by_cases h1 : e.1 = "RFC822Z"
  · simp only [h1, if_true]
    simp only [wallSeconds, truncTo, timeVOf, civilOf, localSecs] at hw ⊢
    congr 1; omega
  · simp only [h1, if_false]
    by_cases h2 : e.1 = "RFC3339N"
    · simp only [h2, if_true, truncTo]
      show some (wallSeconds (civilOf unix off) - off) = some unix
      rw [hw]
    · simp only [h2, if_false]
      simp only [wallSeconds, truncTo, timeVOf, civilOf, localSecs] at hw ⊢
      congr 1

/-- The limit of the two-digit year is real: 1 Jan 2070 00:00 UTC (inside 1970..2100) printed
with `RFC822Z` is `01 Jan 70 00:00 +0000`, which reads back as 1 Jan 1970 – the format carries the
year modulo 100 only (Go's pivot: 69..99 → 19xx, 00..68 → 20xx).  Same behaviour in the real code
(correspondence op `time`); not a defect of rare, recorded as the reason for the hypothesis above. -/
theorem rfc822z_year_counterexample :
    formatLayout (asc "02 Jan 06 15:04 -0700") (timeVOf 3155760000 0 (asc "UTC")) = asc "01 Jan 70 00:00 +0000"
    ∧ (match parseLayout (asc "02 Jan 06 15:04 -0700") (asc "01 Jan 70 00:00 +0000") with
        | .ok p => instantOf p 0 []
        | .error _ => none) = some 0 := by
  decide +kernel


/-! ## Round 4: every named format – what comes back, and which of them carry the instant -/

/-- Every entry of the generated `timeFormats` table (all 24, also the ones with month / weekday
names, a zone abbreviation, a two-digit year or a single field) is in the round-trip class. -/
theorem named_formats_all_in_class :
    Gen.C18.timeFormats.all (fun e => RT (tokenize (asc e.2))) = true := by
  decide

/-- For every layout of the class – whether or not it holds a full instant – parsing what was
formatted succeeds and gives back exactly the fields the layout carries; the others take the
parser's defaults (year 0, 1 January, 00:00:00: `projectDT`).  The zone: with a numeric zone token
the instant is `wall clock − offset` whatever the location; with only an abbreviation it is that
relative to a location in which the abbreviation has that offset; with neither, the location
argument decides (`ZoneSrc.default`). -/
theorem format_parse_fields (layout : Bytes) (hRT : RT (tokenize layout) = true)
    (t : TimeV) (hv : t.dt.valid) (hns : t.dt.ns = 0) (hwd : 0 ≤ t.wd ∧ t.wd ≤ 6) (hoff : OffOK t.off)
    (hy2 : .std .year ∈ tokenize layout → 1969 ≤ t.dt.y ∧ t.dt.y ≤ 2068)
    (habbr : .std .tz ∈ tokenize layout → AbbrOK t.abbr t.off) :
    ∃ p, parseLayout layout (formatLayout layout t) = .ok p
      ∧ p.dt = projectDT (carries (tokenize layout)) t.dt
      ∧ ((carries (tokenize layout)).contains 'z' = true →
          ∀ locOff locAbbr, instantOf p locOff locAbbr = some (wallSeconds p.dt - t.off))
      ∧ ((carries (tokenize layout)).contains 'z' = false → (carries (tokenize layout)).contains 'a' = true →
          instantOf p t.off t.abbr = some (wallSeconds p.dt - t.off))
      ∧ ((carries (tokenize layout)).contains 'z' = false → (carries (tokenize layout)).contains 'a' = false →
          p.zone = .default) :=
  roundtrip_fields (tokenize layout) hRT t ⟨hv, hns, hwd, hoff, hy2, habbr⟩

/-- `{time {timeformat u F Z} F Z}` for EVERY named format `F`: the text parses, and the fields `F`
carries are those of the wall clock of `u` in the zone (to the precision the format carries: the
projection).  Hypotheses: whole-minute offset, four-digit year, a two-digit-year format only inside
the pivot window, an abbreviation of one of the shapes `parseTimeZone` reads (`abbrShape`). -/
theorem named_format_roundtrip (e : String × String) (he : e ∈ Gen.C18.timeFormats)
    (unix off : Int) (abbr : Bytes) (hoff : OffOK off)
    (hy : 0 ≤ (civilOf unix off).y ∧ (civilOf unix off).y ≤ 9999)
    (hy2 : (e.1 = "RFC822" ∨ e.1 = "RFC822Z") → 1969 ≤ (civilOf unix off).y ∧ (civilOf unix off).y ≤ 2068)
    (habbr : abbrShape abbr = true) (hutc : abbr = utcB → off = 0) :
    ∃ p, parseLayout (asc e.2) (formatLayout (asc e.2) (timeVOf unix off abbr)) = .ok p
      ∧ p.dt = projectDT (carries (tokenize (asc e.2))) (civilOf unix off) := by
  have hRT : RT (tokenize (asc e.2)) = true := (List.all_eq_true.mp named_formats_all_in_class) e he
  have hyr : (tokenize (asc e.2)).contains (.std .year) = true → (e.1 = "RFC822" ∨ e.1 = "RFC822Z") := by
    have hall : ∀ e ∈ Gen.C18.timeFormats,
        (tokenize (asc e.2)).contains (.std .year) = true → (e.1 = "RFC822" ∨ e.1 = "RFC822Z") := by decide
    exact hall e he
  have hs : 0 ≤ localSecs unix off ∧ localSecs unix off < 86400 := by unfold localSecs; omega
  have hc := civil_month_day (localDays unix off)
  have hvalid : (timeVOf unix off abbr).dt.valid := by
    simp only [timeVOf, civilOf, DateTime.valid] at hy ⊢
    refine ⟨hy.1, hy.2, hc.1, hc.2.1, hc.2.2.1, hc.2.2.2, ?_, ?_, ?_, ?_, ?_, ?_, by omega, by omega⟩ <;> omega
  obtain ⟨p, hp, hdt, _⟩ := format_parse_fields (asc e.2) hRT (timeVOf unix off abbr) hvalid rfl
    (weekday_range' _) hoff (fun hm => hy2 (hyr (List.contains_iff_mem.mpr hm)))
    (fun _ => abbrOK_of_shape abbr off habbr hutc)
  exact ⟨p, hp, hdt⟩

/-- The decidable classifier: a layout carries the instant when it holds date, time to the second,
a numeric offset and no two-digit year. -/
def carriesInstant (ts : List Tok) : Bool :=
  holdsInstant ts && (carries ts).contains 's' && !(carries ts).contains 'y'

/-- The named formats the classifier accepts (`RFC822Z` is the only one of `named_format_instants`
it rejects). -/
theorem named_formats_lossless :
    (Gen.C18.timeFormats.filter (fun e => carriesInstant (tokenize (asc e.2)))).map (·.1)
      = ["", "NGINX", "RFC1123Z", "RFC3339", "RFC3339N", "RUBY"] := by
  decide

/-- The classifier is sound, for ANY layout of the class (not only the named ones): if it accepts,
`{time {timeformat u L Z} L Z'}` is `u` – whatever the two zone arguments are. -/
theorem instant_classifier_sound (layout : Bytes) (hRT : RT (tokenize layout) = true)
    (hC : carriesInstant (tokenize layout) = true) (unix off : Int) (abbr : Bytes) (hoff : OffOK off)
    (hy : 0 ≤ (civilOf unix off).y ∧ (civilOf unix off).y ≤ 9999)
    (habbr : .std .tz ∈ tokenize layout → AbbrOK abbr off) :
    ∃ p, parseLayout layout (formatLayout layout (timeVOf unix off abbr)) = .ok p
      ∧ ∀ locOff locAbbr, instantOf p locOff locAbbr = some unix := by
  simp only [carriesInstant, Bool.and_eq_true, Bool.not_eq_true'] at hC
  obtain ⟨⟨hI, cs⟩, cy⟩ := hC
  have hs : 0 ≤ localSecs unix off ∧ localSecs unix off < 86400 := by unfold localSecs; omega
  have hc := civil_month_day (localDays unix off)
  have hvalid : (timeVOf unix off abbr).dt.valid := by
    simp only [timeVOf, civilOf, DateTime.valid] at hy ⊢
    refine ⟨hy.1, hy.2, hc.1, hc.2.1, hc.2.2.1, hc.2.2.2, ?_, ?_, ?_, ?_, ?_, ?_, by omega, by omega⟩ <;> omega
  have hnoy : ¬ (.std .year ∈ tokenize layout) := by
    intro hm
    have : 'y' ∈ carries (tokenize layout) := by
      simp only [carries, List.mem_filterMap]
      exact ⟨_, hm, rfl⟩
    rw [List.contains_iff_mem.mpr this] at cy; cases cy
  obtain ⟨p, hp, hdt, hinst⟩ := format_parse_roundtrip layout hRT hI (timeVOf unix off abbr) hvalid rfl
    (weekday_range' _) hoff (fun hm => absurd hm hnoy) habbr
  refine ⟨p, hp, fun lo la => ?_⟩
  rw [hinst lo la]
  have hw := wall_of_instant unix off
  have hprec : precOf (tokenize layout) = .second ∨ precOf (tokenize layout) = .nano := by
    simp only [holdsInstant, Bool.and_eq_true] at hI
    obtain ⟨⟨⟨⟨⟨cY, cM⟩, cD⟩, ch⟩, cm⟩, cz⟩ := hI
    simp only [precOf, cY, cM, cD, ch, cm, cs, Bool.not_true, Bool.false_eq_true, if_false]
    split <;> simp
  rcases hprec with h | h <;> rw [h]
  · simp only [wallSeconds, truncTo, timeVOf, civilOf, localSecs] at hw ⊢
    congr 1
  · show some (wallSeconds (civilOf unix off) - off) = some unix
    rw [hw]

/-- … and complete on the table: every named format it rejects is lossy – two different instants of
1970 (in zones with the same abbreviation, e.g. `MSK` was +03 and +04) are printed as the same
text, so no parser can tell them apart.  With a numeric zone in the format the two instants are one
second apart in one zone (the seconds are not printed); without, they are one hour apart in zones
one hour apart (the offset is not printed). -/
def lossyWitness (ts : List Tok) : (Int × Int) × (Int × Int) :=
  if (carries ts).contains 'z' then ((0, 0), (1, 0)) else ((3600, 0), (0, 3600))

theorem instant_classifier_complete :
    ∀ e ∈ Gen.C18.timeFormats, carriesInstant (tokenize (asc e.2)) = false →
      let w := lossyWitness (tokenize (asc e.2))
      w.1.1 ≠ w.2.1 ∧
      formatLayout (asc e.2) (timeVOf w.1.1 w.1.2 (asc "MSK")) = formatLayout (asc e.2) (timeVOf w.2.1 w.2.2 (asc "MSK")) := by
  decide +kernel

/-- The boundary of the abbreviation class is real: Asia/Kathmandu's abbreviation is `+0545`, which
`RFC1123` prints and Go's `parseTimeZone` then refuses (a signed offset above 23) – the text does
not parse back at all.  Same behaviour in the real code (correspondence op `time`); Go's, not rare's. -/
theorem abbr_numeric_counterexample :
    formatLayout (asc "Mon, 02 Jan 2006 15:04:05 MST") (timeVOf 0 20700 (asc "+0545")) = asc "Thu, 01 Jan 1970 05:45:00 +0545"
    ∧ (match parseLayout (asc "Mon, 02 Jan 2006 15:04:05 MST") (asc "Thu, 01 Jan 1970 05:45:00 +0545") with
        | .ok _ => false
        | .error _ => true) = true
    ∧ abbrShape (asc "+0545") = false := by
  decide +kernel

/-! ## Round 4: zones as transition tables (any table; the harness feeds real IANA transitions) -/

/-- The class of zone abbreviations a layout with `MST` round-trips on (`AbbrOK`, the hypothesis of
`format_parse_roundtrip` / `format_parse_fields`), by shape: three upper-case letters, four or five
ending in `T` (`UTC` only with offset 0), and the numeric abbreviations `±hh`, hh ≤ 23, of the tz
database (`-03`, `+11`).  `abbr_numeric_counterexample` (`+0545`) is just outside. -/
theorem abbr_class (abbr : Bytes) (off : Int)
    (h : (abbrShape abbr = true ∧ (abbr = utcB → off = 0))
      ∨ ∃ s d1 d2, abbr = [s, d1, d2] ∧ (s = 43 ∨ s = 45) ∧ hh2 d1 d2 = true) : AbbrOK abbr off := by
  rcases h with ⟨h1, h2⟩ | ⟨s, d1, d2, e, hs, hh⟩
  · exact abbrOK_of_shape abbr off h1 h2
  · subst e; exact abbrOK_numeric s d1 d2 off hs hh

/-- `Location.lookup` on ANY table returns a segment that contains the instant; on a table with
ascending transitions every instant of that segment gets the same segment (so offset and
abbreviation are constant between two transitions). -/
theorem zone_lookup_spec (z : ZoneTab) (u : Int) :
    inSeg (z.lookup u) u = true
    ∧ (sortedTrans z.trans = true → ∀ v, inSeg (z.lookup u) v = true → z.lookup v = z.lookup u) :=
  ⟨lookup_inSeg z u, fun hs v hv => lookup_same z hs u v hv⟩

/-- `timeattr` relative to any zone table reports the calendar fields of the local wall clock
`u + offset in force at u`: quarter of the civil month, weekday, ISO week and ISO year-week of the
local day. -/
theorem timeattr_in_zone (z : ZoneTab) (u : Int) :
    timeAttrIn z (asc "quarter") u = some (itoa (quarter (civilFromDays (z.wall u / 86400)).m))
    ∧ timeAttrIn z (asc "weekday") u = some (itoa (weekday (z.wall u / 86400)))
    ∧ timeAttrIn z (asc "week") u = some (itoa (isoYearWeek (z.wall u / 86400)).2)
    ∧ timeAttrIn z (asc "yearweek") u =
        some (itoa (isoYearWeek (z.wall u / 86400)).1 ++ [45] ++ itoa (isoYearWeek (z.wall u / 86400)).2) := by
  refine ⟨?_, rfl, rfl, rfl⟩
  have := timeattr_quarter u (z.lookup u).off
  simp only [timeAttrIn, this, civilOf, localDays, ZoneTab.wall]

/-- The zone resolution of `time.Date` inverts the wall clock: for every instant `u` whose wall
clock, read as an instant, still lies in `u`'s own segment (i.e. `u` is at least |offset| away from
the transitions around it), `dateIn` of the wall clock of `u` is `u`. -/
theorem zone_date_roundtrip (z : ZoneTab) (hs : sortedTrans z.trans = true) (u : Int)
    (hin : inSeg (z.lookup u) (z.wall u) = true) : dateIn z (z.wall u) = u :=
  dateIn_roundtrip' z hs u hin

/-- A layout WITHOUT any zone token that carries date and time to the second (ANSIC, `2006-01-02
15:04:05`, …) round-trips relative to the zone table: `{time {timeformat u L Z} L Z}` is `u` for
every instant away from the transitions of `Z` (hypothesis of `zone_date_roundtrip`).  The
counterexamples below show the hypothesis is needed. -/
theorem zoneless_format_roundtrip (layout : Bytes) (hRT : RT (tokenize layout) = true)
    (hc : let c := carries (tokenize layout)
      (c.contains 'Y' && c.contains 'M' && c.contains 'D' && c.contains 'h' && c.contains 'm' && c.contains 's'
        && !c.contains 'y' && !c.contains 'z' && !c.contains 'a') = true)
    (z : ZoneTab) (hs : sortedTrans z.trans = true) (u : Int) (hin : inSeg (z.lookup u) (z.wall u) = true)
    (hoff : OffOK (z.lookup u).off)
    (hy : 0 ≤ (civilOf u (z.lookup u).off).y ∧ (civilOf u (z.lookup u).off).y ≤ 9999) :
    ∃ p, parseLayout layout (formatLayout layout (timeVIn z u)) = .ok p ∧ instantIn z p = some u := by
  simp only [Bool.and_eq_true, Bool.not_eq_true'] at hc
  obtain ⟨⟨⟨⟨⟨⟨⟨⟨cY, cM⟩, cD⟩, ch⟩, cm⟩, cs⟩, cy⟩, cz⟩, ca⟩ := hc
  have hsec : 0 ≤ localSecs u (z.lookup u).off ∧ localSecs u (z.lookup u).off < 86400 := by unfold localSecs; omega
  have hcv := civil_month_day (localDays u (z.lookup u).off)
  have hvalid : (timeVIn z u).dt.valid := by
    simp only [timeVIn, timeVOf, civilOf, DateTime.valid] at hy ⊢
    refine ⟨hy.1, hy.2, hcv.1, hcv.2.1, hcv.2.2.1, hcv.2.2.2, ?_, ?_, ?_, ?_, ?_, ?_, by omega, by omega⟩ <;> omega
  have hnoy : ¬ (.std .year ∈ tokenize layout) := by
    intro hm
    have : 'y' ∈ carries (tokenize layout) := by
      simp only [carries, List.mem_filterMap]; exact ⟨_, hm, rfl⟩
    rw [List.contains_iff_mem.mpr this] at cy; cases cy
  have hnoa : ¬ (.std .tz ∈ tokenize layout) := by
    intro hm
    have : 'a' ∈ carries (tokenize layout) := by
      simp only [carries, List.mem_filterMap]; exact ⟨_, hm, rfl⟩
    rw [List.contains_iff_mem.mpr this] at ca; cases ca
  obtain ⟨p, hp, hdt, _, _, hdef⟩ := format_parse_fields layout hRT (timeVIn z u) hvalid rfl (weekday_range' _) hoff
    (fun hm => absurd hm hnoy) (fun hm => absurd hm hnoa)
  refine ⟨p, hp, ?_⟩
  have hpd : p.dt = civilOf u (z.lookup u).off := by
    rw [hdt]
    simp only [projectDT, cY, cM, cD, ch, cm, cs, Bool.true_or, if_true, timeVIn, timeVOf, civilOf]
  have hw := wall_of_instant u (z.lookup u).off
  have hwall : wallSeconds p.dt = z.wall u := by rw [hpd]; unfold ZoneTab.wall; omega
  simp only [instantIn, hdef cz ca, hwall]
  rw [zone_date_roundtrip z hs u hin]

/-- Europe/Berlin in 2016 as a table (CET, CEST from 27 March 01:00 UTC, CET from 30 October 01:00 UTC). -/
def berlin2016 : ZoneTab := ⟨(3600, asc "CET"), [(1459040400, 7200, asc "CEST"), (1477789200, 3600, asc "CET")]⟩

/-- The hypothesis of `zone_date_roundtrip` marks exactly the trouble spots.  Overlap: 30 Oct 2016
02:30 is shown twice (00:30 UTC in CEST and 01:30 UTC in CET); `time.Date` – hence `{time}` on a
text without zone – answers the later one, so the earlier instant does not round-trip.  Gap: 27 Mar
2016 02:30 is never shown; the resolution answers 01:30 UTC, whose wall clock is 03:30.  And the
local days: 27 March has 23 hours, 30 October 25 (`buckettime … days` puts 82800 resp. 90000
instants into one bucket). -/
theorem zone_gap_overlap_counterexample :
    sortedTrans berlin2016.trans = true
    ∧ berlin2016.wall 1477787400 = berlin2016.wall 1477791000
    ∧ dateIn berlin2016 (berlin2016.wall 1477787400) = 1477791000
    ∧ inSeg (berlin2016.lookup 1477787400) (berlin2016.wall 1477787400) = false
    ∧ dateIn berlin2016 1459045800 = 1459042200 ∧ berlin2016.wall 1459042200 = 1459045800 + 3600
    ∧ (∀ u, berlin2016.wall u ≠ 1459045800)
    ∧ berlin2016.wall 1459033200 = 16887 * 86400 ∧ berlin2016.wall (1459033200 + 82800) = 16888 * 86400
    ∧ berlin2016.wall 1477778400 = 17104 * 86400 ∧ berlin2016.wall (1477778400 + 90000) = 17105 * 86400 := by
  refine ⟨by decide, by decide +kernel, by decide +kernel, by decide +kernel, by decide +kernel, by decide +kernel, ?_,
    by decide +kernel, by decide +kernel, by decide +kernel, by decide +kernel⟩
  intro u
  simp only [ZoneTab.wall, ZoneTab.lookup, berlin2016, lookupFrom]
  split
  · simp only; omega
  · split
    · simp only; omega
    · simp only; omega

/-- The length of a local day across one change of offset: if local midnight of day `d` falls at
`u1` and local midnight of day `d + 1` at `u2`, the day lasts 24 h minus the change of the offset
(23 h when the clocks go forward by one hour, 25 h when they go back) – whatever the table. -/
theorem zone_day_length (z : ZoneTab) (u1 u2 d : Int) (h1 : z.wall u1 = 86400 * d) (h2 : z.wall u2 = 86400 * (d + 1)) :
    u2 - u1 = 86400 - ((z.lookup u2).off - (z.lookup u1).off) := by
  unfold ZoneTab.wall at h1 h2; omega

/-- ISO week across a year boundary in a zone east of UTC: 31 Dec 2020 15:30 UTC is already Friday
1 Jan 2021 in Asia/Tokyo (+09:00), which belongs to ISO week 2020-53, first quarter. -/
theorem zone_isoweek_example :
    let tokyo : ZoneTab := ⟨(32400, asc "JST"), []⟩
    timeAttrIn tokyo (asc "yearweek") 1609428600 = some (asc "2020-53")
    ∧ timeAttrIn tokyo (asc "quarter") 1609428600 = some (asc "1")
    ∧ timeAttrIn tokyo (asc "weekday") 1609428600 = some (asc "5")
    ∧ timeAttr (asc "yearweek") 1609428600 0 = some (asc "2020-53")
    ∧ timeAttr (asc "quarter") 1609428600 0 = some (asc "4") := by
  decide +kernel

/-! ## One compiled stage over a history of instants (round 4c) -/

/-- What the stage closures of `timeformat`, `duration`, `durationformat` and `timeattr` can remember
between two evaluations, regenerated from /repo on every run: they use `args` (and `tz`, `format` /
`attrFunc`) of the enclosing function – each bound once before the closure is built – and no
package-level variable, and contain NO statement that writes anything declared outside the closure
(no assignment, `++`, method call such as `.Store(…)`, `go`, send).  This is what lets the model give
these stages the memory `Unit` (`timeAttrM`, `timeFormatM`); a memo of "the last day seen" or a
cached offset adds a captured variable and a write, and the lists below change. -/
theorem gen_stage_stateless :
    Gen.C18.stageCaptures = [
      ("timeformat", ["args", "format", "tz"]),
      ("duration", ["args"]),
      ("durationformat", ["args"]),
      ("timeattr", ["args", "attrFunc", "tz"])]
    ∧ Gen.C18.stageWrites = [("timeformat", []), ("duration", []), ("durationformat", []), ("timeattr", [])] := by
  decide

/-- `timeattr` is a function of the current instant only.  ONE compiled `{timeattr {0} attr zone}`
evaluated on any history of arguments (a log) – the zone any transition table – answers every
argument as a freshly compiled stage would: (1) the answers are the per-argument answers, in order;
(2) two histories that end in the same argument end in the same answer, whatever came before (the
instants of a 23-hour spring-forward day, of another year, unparseable text …); (3) the answer to a
decimal instant `u` (years 0..9999 in the zone) is the calendar field of the local wall clock
`u + offset in force at u`: weekday / ISO week / ISO year-week / quarter of the local day. -/
theorem timeattr_history_independent (z : ZoneTab) (attr : Bytes) :
    (∀ xs, (timeAttrM z attr).run () xs = xs.map (timeAttrStageIn z attr))
    ∧ (∀ pre pre' a, ((timeAttrM z attr).run () (pre ++ [a])).getLast? = ((timeAttrM z attr).run () (pre' ++ [a])).getLast?)
    ∧ (∀ (xs : List Bytes) (i : Nat) (u : Int), xs[i]? = some (itoa u) → inInt64 u = true → yearInRange u (z.lookup u).off = true →
        (attr = asc "weekday" → ((timeAttrM z attr).run () xs)[i]? = some (Out.val (itoa (weekday (z.wall u / 86400)))))
        ∧ (attr = asc "week" → ((timeAttrM z attr).run () xs)[i]? = some (Out.val (itoa (isoYearWeek (z.wall u / 86400)).2)))
        ∧ (attr = asc "yearweek" → ((timeAttrM z attr).run () xs)[i]? =
            some (Out.val (itoa (isoYearWeek (z.wall u / 86400)).1 ++ [45] ++ itoa (isoYearWeek (z.wall u / 86400)).2)))
        ∧ (attr = asc "quarter" → ((timeAttrM z attr).run () xs)[i]? =
            some (Out.val (itoa (quarter (civilFromDays (z.wall u / 86400)).m))))) := by
  refine ⟨fun xs => run_stateless _ _ _, fun pre pre' a => ?_, fun xs i u hi hu hy => ?_⟩
  · simp only [timeAttrM, run_last]
  · obtain ⟨hq, hw, hk, hyw⟩ := timeattr_in_zone z u
    have key : ∀ b, timeAttrIn z attr u = some b → ((timeAttrM z attr).run () xs)[i]? = some (Out.val b) := by
      intro b hb
      simp only [timeAttrM, run_getElem?, hi, Option.map_some, timeAttrStageIn_num z attr u hu hy b hb]
    exact ⟨fun h => key _ (h ▸ hw), fun h => key _ (h ▸ hk), fun h => key _ (h ▸ hyw), fun h => key _ (h ▸ hq)⟩

/-- The same for `{timeformat {0} layout zone}`: every answer of a history is the layout applied to the
local wall clock, offset and abbreviation the table has at THAT instant. -/
theorem timeformat_history_independent (z : ZoneTab) (layout : Bytes) :
    (∀ xs, (timeFormatM z layout).run () xs = xs.map (timeFormatStageIn z layout))
    ∧ (∀ pre pre' a, ((timeFormatM z layout).run () (pre ++ [a])).getLast? = ((timeFormatM z layout).run () (pre' ++ [a])).getLast?)
    ∧ (∀ (xs : List Bytes) (i : Nat) (u : Int), xs[i]? = some (itoa u) → inInt64 u = true → yearInRange u (z.lookup u).off = true →
        ((timeFormatM z layout).run () xs)[i]? = some (Out.val (formatLayout layout (timeVIn z u)))) := by
  refine ⟨fun xs => run_stateless _ _ _, fun pre pre' a => ?_, fun xs i u hi hu hy => ?_⟩
  · simp only [timeFormatM, run_last]
  · simp only [timeFormatM, run_getElem?, hi, Option.map_some, timeFormatStageIn_num z layout u hu hy]

/-- When may an answer be reused?  Between two instants with the SAME offset in force, `v` lies in the
86400-second window starting at what `u`'s wall clock shows as midnight (`u − (h·3600+m·60+s)`) iff
both fall on the same local day, and then every attribute agrees.  (The hypothesis is what a
"same day" shortcut needs; the counterexample below drops it.) -/
theorem zone_day_window (z : ZoneTab) (u v : Int) (ho : (z.lookup v).off = (z.lookup u).off) :
    ((dayWindowStart z u ≤ v ∧ v < dayWindowStart z u + 86400) ↔ z.wall v / 86400 = z.wall u / 86400)
    ∧ (z.wall v / 86400 = z.wall u / 86400 → ∀ name, timeAttrIn z name v = timeAttrIn z name u) := by
  constructor
  · have := dayWindow_iff u v (z.lookup u).off
    simp only [dayWindowStart, ZoneTab.wall, ho]
    simpa only [localDays] using this
  · intro h name
    exact timeAttr_of_localDays name u v _ _ (by simpa only [ZoneTab.wall, localDays] using h)

/-- America/New_York in 2016 as a table (EST, EDT from 13 March 07:00 UTC, EST from 6 November 06:00 UTC). -/
def newYork2016 : ZoneTab := ⟨(-18000, asc "EST"), [(1457852400, -14400, asc "EDT"), (1478412000, -18000, asc "EST")]⟩

/-- Across a change of offset the window is NOT the local day.  Sunday 13 March 2016 has 23 hours in
New York: counted from an instant before the gap (01:00 EST) the 86400 seconds from "midnight" reach
01:00 EDT of Monday, so Monday 14 March 00:05 EDT lies inside the window of a Sunday instant although
it is another local day – weekday 1 not 0, ISO week 11 not 10, 2016-11 not 2016-10.  (Counted from
an instant after the gap the window starts at 23:00 EST of Saturday instead.)  A stage that reused
an answer by this window would depend on its history; `timeattr_history_independent` says the
stage does not, and the op `zh` runs exactly this history on the real code (corpus r4c). -/
theorem zone_day_window_counterexample :
    sortedTrans newYork2016.trans = true
    ∧ dayWindowStart newYork2016 1457848800 ≤ 1457928300 ∧ 1457928300 < dayWindowStart newYork2016 1457848800 + 86400
    ∧ newYork2016.wall 1457928300 / 86400 = newYork2016.wall 1457848800 / 86400 + 1
    ∧ timeAttrIn newYork2016 (asc "weekday") 1457848800 = some (asc "0")
    ∧ timeAttrIn newYork2016 (asc "weekday") 1457928300 = some (asc "1")
    ∧ timeAttrIn newYork2016 (asc "week") 1457848800 = some (asc "10")
    ∧ timeAttrIn newYork2016 (asc "week") 1457928300 = some (asc "11")
    ∧ timeAttrIn newYork2016 (asc "yearweek") 1457928300 = some (asc "2016-11")
    ∧ (timeAttrM newYork2016 (asc "weekday")).run () [asc "1457848800", asc "1457928300"] = [Out.val (asc "0"), Out.val (asc "1")]
    ∧ dayWindowStart newYork2016 1457870000 = 1457845200 - 3600 := by
  decide +kernel

/-! ## Abbreviations in the text: `Location.lookupName` on the table (round 4c) -/

/-- A layout with an abbreviation token and NO numeric zone that carries date and time to the second
(`UNIX`, `RFC1123`, `2006-01-02 15:04:05 MST` …) round-trips relative to the location given as
transition table + zone list: `{time {timeformat u L Z} L Z}` is `u` for EVERY instant – also inside
an overlap, where the zone-less layouts of `zoneless_format_roundtrip` answer the later instant: the
abbreviation tells the two apart – provided the abbreviation is one the parser reads (`AbbrOK`, see
`abbr_class`) and names ONE offset in the location's zone list (`hall`; EST/EDT, CET/CEST, GMT/BST …).
The counterexample below shows what happens otherwise. -/
theorem abbr_format_roundtrip (layout : Bytes) (hRT : RT (tokenize layout) = true)
    (hc : let c := carries (tokenize layout)
      (c.contains 'Y' && c.contains 'M' && c.contains 'D' && c.contains 'h' && c.contains 'm' && c.contains 's'
        && !c.contains 'y' && !c.contains 'z' && c.contains 'a') = true)
    (z : ZoneTab) (zones : List (Bytes × Int)) (u : Int)
    (hoff : OffOK (z.lookup u).off) (habbr : AbbrOK (z.lookup u).abbr (z.lookup u).off)
    (hy : 0 ≤ (civilOf u (z.lookup u).off).y ∧ (civilOf u (z.lookup u).off).y ≤ 9999)
    (hall : ∀ e ∈ zones, e.1 = (z.lookup u).abbr → e.2 = (z.lookup u).off)
    (hex : ∃ e ∈ zones, e.1 = (z.lookup u).abbr) :
    ∃ p, parseLayout layout (formatLayout layout (timeVIn z u)) = .ok p ∧ instantInN z zones p = u := by
  simp only [Bool.and_eq_true, Bool.not_eq_true'] at hc
  obtain ⟨⟨⟨⟨⟨⟨⟨⟨cY, cM⟩, cD⟩, ch⟩, cm⟩, cs⟩, cy⟩, cz⟩, ca⟩ := hc
  have hsec : 0 ≤ localSecs u (z.lookup u).off ∧ localSecs u (z.lookup u).off < 86400 := by unfold localSecs; omega
  have hcv := civil_month_day (localDays u (z.lookup u).off)
  have hvalid : (timeVIn z u).dt.valid := by
    simp only [timeVIn, timeVOf, civilOf, DateTime.valid] at hy ⊢
    refine ⟨hy.1, hy.2, hcv.1, hcv.2.1, hcv.2.2.1, hcv.2.2.2, ?_, ?_, ?_, ?_, ?_, ?_, by omega, by omega⟩ <;> omega
  have hnoy : ¬ (.std .year ∈ tokenize layout) := by
    intro hm
    have : 'y' ∈ carries (tokenize layout) := by
      simp only [carries, List.mem_filterMap]; exact ⟨_, hm, rfl⟩
    rw [List.contains_iff_mem.mpr this] at cy; cases cy
  obtain ⟨p, hp, hdt, hzone⟩ := roundtrip_abbr (tokenize layout) hRT (timeVIn z u)
    ⟨hvalid, rfl, weekday_range' _, hoff, fun hm => absurd hm hnoy, fun _ => habbr⟩ cz ca
  refine ⟨p, hp, ?_⟩
  have hpd : p.dt = civilOf u (z.lookup u).off := by
    rw [hdt]
    simp only [projectDT, cY, cM, cD, ch, cm, cs, Bool.true_or, if_true, timeVIn, timeVOf, civilOf]
  have hw := wall_of_instant u (z.lookup u).off
  have hwall : wallSeconds p.dt = z.wall u := by rw [hpd]; unfold ZoneTab.wall; omega
  have habbr' : (timeVIn z u).abbr = (z.lookup u).abbr := rfl
  by_cases hu : (z.lookup u).abbr = utcB
  · have h0 : (z.lookup u).off = 0 := (habbr.utc (by rw [hu]; rfl)).2
    simp only [instantInN, hzone, habbr', hu, if_true, hwall]
    unfold ZoneTab.wall; omega
  · have hf := lookupNameFirst_in_force z u zones hall hex
    simp only [instantInN, hzone, habbr', hu, if_false, hwall, lookupNameIn, hf]
    unfold ZoneTab.wall; omega

/-- An abbreviation the location does not know makes a fabricated zone whose offset is NOT applied:
the written wall clock is read as UTC – for `CEST` in New York as for `GMT+3` anywhere (Go's
behaviour, mirrored; the same in the real code, op `zn`). -/
theorem abbr_unknown_is_utc (z : ZoneTab) (zones : List (Bytes × Int)) (p : Parsed) (n : Bytes)
    (hp : p.zone = .name n) (hn : ∀ e ∈ zones, e.1 ≠ n) : instantInN z zones p = wallSeconds p.dt := by
  simp only [instantInN, hp, lookupNameIn_unknown z zones n _ hn]

/-- Europe/Moscow around 2014 as a table – MSK is +03:00, +04:00 from 27 March 2011, +03:00 again from
26 October 2014 – and its zone list in tzfile order (17 entries, three of them `MSK`). -/
def moscow2014 : ZoneTab := ⟨(10800, asc "MSK"), [(1301180400, 14400, asc "MSK"), (1414274400, 10800, asc "MSK")]⟩
def moscowZones : List (Bytes × Int) :=
  [(asc "LMT", 9017), (asc "MMT", 9017), (asc "MST", 12679), (asc "MMT", 9079), (asc "MDST", 16279), (asc "MSD", 14400),
   (asc "MSK", 10800), (asc "MSD", 14400), (asc "+05", 18000), (asc "EET", 7200), (asc "MSK", 10800), (asc "MSD", 14400),
   (asc "EEST", 10800), (asc "EET", 7200), (asc "MSK", 14400), (asc "MSD", 14400), (asc "MSK", 10800)]

/-- The hypothesis "one offset per name" of `abbr_format_roundtrip` is needed.  On 26 October 2014
Moscow went from MSK (+04:00) to MSK (+03:00): 01:59:59 MSK was shown twice and the abbreviation does
not tell the two apart.  `lookupName` tries the first `MSK` entry (+03:00), finds MSK in force one
hour later and answers +03:00: the earlier of the two instants is printed `Sun, 26 Oct 2014 01:59:59
MSK` and parsed back one hour late; the later one round-trips.  (Identical in the real code: corpus r4c.) -/
theorem abbr_overlap_counterexample :
    sortedTrans moscow2014.trans = true
    ∧ formatLayout (asc "Mon, 02 Jan 2006 15:04:05 MST") (timeVIn moscow2014 1414274399) = asc "Sun, 26 Oct 2014 01:59:59 MSK"
    ∧ formatLayout (asc "Mon, 02 Jan 2006 15:04:05 MST") (timeVIn moscow2014 1414277999) = asc "Sun, 26 Oct 2014 01:59:59 MSK"
    ∧ (parseLayout (asc "Mon, 02 Jan 2006 15:04:05 MST") (asc "Sun, 26 Oct 2014 01:59:59 MSK")).toOption.map (instantInN moscow2014 moscowZones)
        = some 1414277999
    ∧ lookupNameIn moscow2014 moscowZones (asc "MSK") (moscow2014.wall 1414274399) = some 10800
    ∧ (moscow2014.lookup 1414274399).off = 14400 := by
  decide +kernel

/-! ## Numeric abbreviations are read by VALUE, not by digit count (round 4d) -/

/-- Go's `leadingInt` on a run of digits (followed by the end or a non-digit): the run is read in full
iff its VALUE is at most 2^63 – the tests `x > 1<<63/10` before and `x > 1<<63` after each
multiplication are both implied by the final value – so zero-padded runs of ANY length are read, and
a 19-digit run above 2^63 is not.  (The model of rounds 2–4c said "more than 19 digits overflow".) -/
theorem leading_int_by_value (ds : Bytes) (hd : ds.all isDigitB = true) (tail : Bytes) (ht : NoDigitHead tail) :
    leadingInt (ds ++ tail) 0 = if digitsVal ds 0 ≤ 9223372036854775808 then some (digitsVal ds 0, tail) else none :=
  leadingInt_exact ds hd 0 tail ht (by omega)

/-- `parseTimeZone` on `GMT±digits` and on `±digits` (the numeric abbreviations of the tz database), for
EVERY run of digits: the digits belong to the abbreviation iff there is one and the value is ≤ 23.
Otherwise `GMT` alone is the abbreviation (3 bytes; the rest then fails to match the layout) and a bare
sign is no abbreviation at all. -/
theorem signed_offset_by_value (s : UInt8) (hs : s = 43 ∨ s = 45) (ds : Bytes) (hd : ds.all isDigitB = true)
    (tail : Bytes) (ht : NoDigitHead tail) :
    parseSignedOffset (s :: (ds ++ tail)) = (if ds ≠ [] ∧ digitsVal ds 0 ≤ 23 then 1 + ds.length else 0)
    ∧ parseTimeZone (asc "GMT" ++ s :: (ds ++ tail)) = some (3 + if ds ≠ [] ∧ digitsVal ds 0 ≤ 23 then 1 + ds.length else 0)
    ∧ (2 ≤ ds.length + tail.length →
        parseTimeZone (s :: (ds ++ tail)) = if ds ≠ [] ∧ digitsVal ds 0 ≤ 23 then some (1 + ds.length) else none) := by
  have hp := parseSignedOffset_exact s hs ds hd tail ht
  have e1 : asc "ChST" = [67, 104, 83, 84] := by decide
  have e2 : asc "MeST" = [77, 101, 83, 84] := by decide
  have e3 : asc "GMT" = [71, 77, 84] := by decide
  refine ⟨hp, ?_, ?_⟩
  · unfold parseTimeZone
    simp [e1, e2, e3, hp]
  · intro hl
    have hlen : ¬ ((s :: (ds ++ tail)).length < 3) := by simp only [List.length_cons, List.length_append]; omega
    have hne : ∀ (x : UInt8) (r : Bytes), x ≠ s → List.take 4 (s :: (ds ++ tail)) ≠ x :: r := by
      intro x r hx h; simp only [List.take_succ_cons] at h; exact hx (List.cons.inj h).1.symm
    have hn1 : List.take 4 (s :: (ds ++ tail)) ≠ asc "ChST" := by
      rw [e1]; exact hne _ _ (by rcases hs with e | e <;> subst e <;> decide)
    have hn2 : List.take 4 (s :: (ds ++ tail)) ≠ asc "MeST" := by
      rw [e2]; exact hne _ _ (by rcases hs with e | e <;> subst e <;> decide)
    have hn3 : List.take 3 (s :: (ds ++ tail)) ≠ asc "GMT" := by
      rw [e3]; intro h; simp only [List.take_succ_cons] at h
      have := (List.cons.inj h).1
      rcases hs with e | e <;> subst e <;> exact absurd this (by decide)
    have hhead : (s :: (ds ++ tail)).head? = some 43 ∨ (s :: (ds ++ tail)).head? = some 45 := by
      rcases hs with e | e <;> subst e <;> simp
    unfold parseTimeZone
    simp only [hlen, if_false, hn1, hn2, false_or, hn3, hhead, if_true, hp]
    by_cases hc : ds ≠ [] ∧ digitsVal ds 0 ≤ 23
    · have : 1 + ds.length > 0 := by omega
      simp only [if_pos hc, this, if_true]
    · simp only [if_neg hc]
      simp

/-- Zero padding of any length in front of an hour ≤ 23 stays inside the abbreviation. -/
theorem gmt_offset_padded (s : UInt8) (hs : s = 43 ∨ s = 45) (k : Nat) (ds : Bytes) (hd : ds.all isDigitB = true)
    (hne : ds ≠ []) (hv : digitsVal ds 0 ≤ 23) (tail : Bytes) (ht : NoDigitHead tail) :
    parseTimeZone (asc "GMT" ++ s :: (List.replicate k 48 ++ ds ++ tail)) = some (4 + k + ds.length) := by
  have hall : (List.replicate k 48 ++ ds).all isDigitB = true := by
    rw [List.all_append, zeros_all k, hd]; rfl
  have h := (signed_offset_by_value s hs (List.replicate k 48 ++ ds) hall tail ht).2.1
  have hne' : List.replicate k 48 ++ ds ≠ [] := by
    intro e; exact hne (List.append_eq_nil_iff.mp e).2
  rw [h, digitsVal_zeros]
  simp only [hne', hv, ne_eq, not_false_eq_true, and_self, if_true, List.length_append, List.length_replicate]
  congr 1; omega

/-- The witness the C08 builder reported: `{time "Fri, 13 Feb 2009 20:01:30 GMT+0000000000000000000007" RFC1123}`.
Go reads the 22 digits as the hour 7 of a 26-byte abbreviation, no location knows that name, so the zone is
fabricated and the wall clock read as UTC: 1234555290 (so does the real code: corpus r4d).  20 digits
whose value passes 2^63 (`GMT+09223372036854775809`) and the hour 24 are refused, whatever the padding;
2^63 itself is still read by `leadingInt`. -/
theorem signed_offset_padded_example :
    (parseLayout (asc "Mon, 02 Jan 2006 15:04:05 MST") (asc "Fri, 13 Feb 2009 20:01:30 GMT+0000000000000000000007")).toOption.map
        (fun p => (p.zone, instantInN ⟨(0, asc "UTC"), []⟩ [] p))
      = some (ZoneSrc.name (asc "GMT+0000000000000000000007"), 1234555290)
    ∧ (parseLayout (asc "Mon, 02 Jan 2006 15:04:05 MST") (asc "Fri, 13 Feb 2009 20:01:30 -0000000000000000000023")).toOption.map
        (fun p => (p.zone, instantInN ⟨(0, asc "UTC"), []⟩ [] p))
      = some (ZoneSrc.name (asc "-0000000000000000000023"), 1234555290)
    ∧ (parseLayout (asc "Mon, 02 Jan 2006 15:04:05 MST") (asc "Fri, 13 Feb 2009 20:01:30 GMT+0000000000000000000024")).toOption = none
    ∧ (parseLayout (asc "Mon, 02 Jan 2006 15:04:05 MST") (asc "Fri, 13 Feb 2009 20:01:30 GMT+09223372036854775809")).toOption = none
    ∧ leadingInt (asc "0009223372036854775808h") 0 = some (9223372036854775808, asc "h")
    ∧ leadingInt (asc "9223372036854775809h") 0 = none := by
  decide +kernel

/-! ## Durations -/

/-- `{duration {durationformat n}} = n` for every whole number of seconds whose nanosecond count
fits int64 (|n| ≤ 9223372036); beyond, `time.Duration(secs) * time.Second` wraps – what comes back
there is stated by `durationformat_roundtrip_wrapped` (round 4d). -/
theorem duration_roundtrip (n : Int) (h1 : -9223372036 ≤ n) (h2 : n ≤ 9223372036) :
    ∃ b, durationFormat (itoa n) = .val b ∧ duration b = .val (itoa n) := by
  obtain ⟨b, hb, hp⟩ := parseDuration_durationString n h1 h2
  have hin : inInt64 n = true := by
    simp only [inInt64, minInt64, maxInt64, Bool.and_eq_true]
    exact ⟨decide_eq_true (by omega), decide_eq_true (by omega)⟩
  have hw : wrap64 (n * 1000000000) = n * 1000000000 := by unfold wrap64; omega
  refine ⟨b, ?_, ?_⟩
  · simp only [durationFormat, atoi_itoa n hin, hw, hb]
  · have hd : Int.tdiv (n * 1000000000) 1000000000 = n := Int.mul_tdiv_cancel _ (by decide)
    have hm : Int.tmod (n * 1000000000) 1000000000 = 0 := Int.mul_tmod_left _ _
    simp only [duration, hp, hd]

/-- What `durationformat` prints for a whole number of seconds in that range: an optional `-`, then
hours (if any), minutes (if any hours or minutes) and seconds of the magnitude, which recompose to it. -/
theorem durationformat_spec (n : Int) (h0 : n ≠ 0) (h1 : -9223372036 ≤ n) (h2 : n ≤ 9223372036) :
    durationFormat (itoa n) = .val (if n < 0 then 45 :: hmsText n.natAbs else hmsText n.natAbs)
    ∧ secondsOfHms (hmsOf n.natAbs).1 (hmsOf n.natAbs).2.1 (hmsOf n.natAbs).2.2 = n.natAbs
    ∧ (hmsOf n.natAbs).1 = n.natAbs / 60 / 60 ∧ (hmsOf n.natAbs).2.1 = n.natAbs / 60 % 60 := by
  have hin : inInt64 n = true := by
    simp only [inInt64, minInt64, maxInt64, Bool.and_eq_true]
    exact ⟨decide_eq_true (by omega), decide_eq_true (by omega)⟩
  have hw : wrap64 (n * 1000000000) = n * 1000000000 := by unfold wrap64; omega
  refine ⟨?_, ?_, ?_, rfl⟩
  · simp only [durationFormat, atoi_itoa n hin, hw, durationString_seconds n h0]
  · simp only [secondsOfHms, hmsOf]; omega
  · simp only [hmsOf]; omega

/-- `ParseDuration ∘ Duration.String = id` on EVERY int64 nanosecond count (round 4d): sub-second
magnitudes in `ns` / `µs` / `ms` (`1.024µs`, `999.999488ms`), fractional seconds (`2562047h47m16.854775807s`),
hour and minute groups, `MinInt64` (`-2562047h47m16.854775808s`, whose magnitude 2^63 only the negative
sign makes acceptable).  The fractions go through the binary64 term of `ParseDuration`; it is exact here
because the printed fraction never has more digits than the unit has decimal places. -/
theorem duration_string_roundtrip (d : Int) (h1 : -9223372036854775808 ≤ d) (h2 : d ≤ 9223372036854775807) :
    ∃ b, durationString d = some b ∧ parseDuration b = .ok d :=
  parseDuration_durationString_all d h1 h2

/-- `{duration {durationformat n}}` for EVERY int64 `n` – also where `time.Duration(n) * time.Second`
wraps: the answer is the whole seconds (toward zero) of the WRAPPED product `n·10^9 mod 2^64`; in
particular `{durationformat n}` is never declined by the model any more (an `n` whose product lands
below one second – `n ≡ j·(5^9)⁻¹ (mod 2^55)`, |512·j| < 10^9 – prints `512ns`, `1.024µs` … and reads back as 0). -/
theorem durationformat_roundtrip_wrapped (n : Int) (hin : inInt64 n = true) :
    ∃ b, durationFormat (itoa n) = .val b
      ∧ parseDuration b = .ok (wrap64 (n * 1000000000))
      ∧ duration b = .val (itoa (Int.tdiv (wrap64 (n * 1000000000)) 1000000000)) := by
  have hr : -9223372036854775808 ≤ wrap64 (n * 1000000000) ∧ wrap64 (n * 1000000000) ≤ 9223372036854775807 := by
    unfold wrap64; omega
  obtain ⟨b, hb, hp⟩ := parseDuration_durationString_all _ hr.1 hr.2
  refine ⟨b, ?_, hp, ?_⟩
  · simp only [durationFormat, atoi_itoa n hin, hb]
  · simp only [duration, hp]

/-- The sub-second branch on concrete values (kernel-evaluated): texts and what `{duration}` reads back. -/
theorem duration_subsecond_example :
    durationString 512 = some (asc "512ns") ∧ durationString (-1024) = some ([45] ++ asc "1.024" ++ [0xC2, 0xB5, 115])
    ∧ durationString 999999488 = some (asc "999.999488ms") ∧ durationString 1000 = some ([49, 0xC2, 0xB5, 115])
    ∧ durationString (-9223372036854775808) = some (asc "-2562047h47m16.854775808s")
    ∧ wrap64 (36028797018963968 * 1000000000) = 0
    ∧ durationFormat (asc "36028797018963968") = .val (asc "0s")
    ∧ parseDuration (asc "999.999488ms") = .ok 999999488
    ∧ parseDuration (asc "-2562047h47m16.854775808s") = .ok (-9223372036854775808) := by
  decide +kernel

/-! ## Durations with a fraction (`1.5h`, `0.25s`) -/

/-- `{duration}` is total and is the truncation toward zero of the parsed duration to whole seconds,
in integer arithmetic, for EVERY text: either `ParseDuration` refuses it (error marker) or the answer
is `d / 10^9` of the nanosecond count `d` – no float is involved any more (7d50a89 in /repo; the
model has no declined case left: fractions are computed with the bit-exact binary64 model). -/
theorem duration_total (arg : Bytes) :
    (parseDuration arg = .err ∧ duration arg = .val errorParsing)
    ∨ ∃ d, parseDuration arg = .ok d ∧ duration arg = .val (itoa (Int.tdiv d 1000000000)) := by
  unfold duration
  cases h : parseDuration arg with
  | err => exact Or.inl ⟨rfl, rfl⟩
  | ok d => exact Or.inr ⟨d, rfl, rfl⟩

/-- A decimal number of hours, minutes or seconds whose fraction is not finer than the unit's decimal
places (`10^k ∣ unit`: up to 9 digits for `s`, 10 for `m`, 11 for `h`) is read EXACTLY – the two
binary64 roundings inside `ParseDuration` are exact there – and `{duration}` answers the whole seconds
of that exact value (truncated): `{duration 1.5h}` = 5400, `{duration 16777216.999999999s}` = 16777216. -/
theorem duration_decimal_exact (v : Nat) (ds : Bytes) (u : UInt8) (unit : Nat)
    (hu : (u = 104 ∧ unit = 3600000000000) ∨ (u = 109 ∧ unit = 60000000000) ∨ (u = 115 ∧ unit = 1000000000))
    (hds : ds.all isDigitB = true) (hk : 10 ^ ds.length ∣ unit)
    (hv : (v + 1) * unit ≤ 9223372036854775807) :
    parseDuration (natDigits v ++ 46 :: (ds ++ [u]))
        = .ok ((v * unit + digitsVal ds 0 * (unit / 10 ^ ds.length) : Nat) : Int)
    ∧ duration (natDigits v ++ 46 :: (ds ++ [u]))
        = .val (itoa (((v * unit + digitsVal ds 0 * (unit / 10 ^ ds.length)) / 1000000000 : Nat) : Int))
    ∧ parseDuration (45 :: (natDigits v ++ 46 :: (ds ++ [u])))
        = .ok (-((v * unit + digitsVal ds 0 * (unit / 10 ^ ds.length) : Nat) : Int)) := by
  obtain ⟨c, r, hcr, hc⟩ := natDigits_head v
  have hs := isDigitB_ne_sign hc
  have hfin : ∀ f d, parseDurLoop (f + 1) [] d = some d := fun f d => by unfold parseDurLoop; rfl
  have hu0 : 0 < unit := by rcases hu with ⟨_, h⟩ | ⟨_, h⟩ | ⟨_, h⟩ <;> subst h <;> decide
  have hflt : digitsVal ds 0 < 10 ^ ds.length := by
    have := digitsVal_lt_pow ds hds 0; simpa using this
  have hterm : digitsVal ds 0 * (unit / 10 ^ ds.length) < unit := by
    obtain ⟨q, hq⟩ := hk
    have hp : 0 < 10 ^ ds.length := Nat.pow_pos (by decide)
    have : unit / 10 ^ ds.length = q := by rw [hq]; exact Nat.mul_div_cancel_left q hp
    rw [this]
    have hq0 : 0 < q := by
      rcases Nat.eq_zero_or_pos q with h | h
      · subst h; simp at hq; omega
      · exact h
    calc digitsVal ds 0 * q < 10 ^ ds.length * q := Nat.mul_lt_mul_of_pos_right hflt hq0
      _ = unit := hq.symm
  have hexp : (v + 1) * unit = v * unit + unit := by rw [Nat.add_mul, Nat.one_mul]
  have hloop : ∀ fuel, parseDurLoop (fuel + 2) (natDigits v ++ 46 :: (ds ++ [u])) 0
      = some (v * unit + digitsVal ds 0 * (unit / 10 ^ ds.length)) := by
    intro fuel
    rw [parseDurLoop_fracGroup (fuel + 1) v 0 ds u unit [] hu hds hk (by omega) (Or.inl rfl), hfin, Nat.zero_add]
  have hlen : (natDigits v ++ 46 :: (ds ++ [u])).length + 1 = ((natDigits v).length + ds.length) + 1 + 2 := by
    simp only [List.length_append, List.length_cons, List.length_nil]; omega
  have hne0 : natDigits v ++ 46 :: (ds ++ [u]) ≠ [48] := by
    intro h; have := congrArg List.length h
    simp only [List.length_append, List.length_cons, List.length_nil] at this; omega
  have hnil : natDigits v ++ 46 :: (ds ++ [u]) ≠ [] := by
    intro h; have := congrArg List.length h
    simp only [List.length_append, List.length_cons, List.length_nil] at this; omega
  have hbig : ¬ (v * unit + digitsVal ds 0 * (unit / 10 ^ ds.length) > 9223372036854775807) := by omega
  have hpos : parseDuration (natDigits v ++ 46 :: (ds ++ [u]))
      = .ok ((v * unit + digitsVal ds 0 * (unit / 10 ^ ds.length) : Nat) : Int) := by
    have hl := hloop ((natDigits v).length + ds.length + 1)
    unfold parseDuration
    rw [hcr] at hne0 hnil hl hlen ⊢
    split
    next neg s1 heq =>
      split at heq
      · next r' h' => exact absurd (List.cons.inj h').1 hs.2
      · next r' h' => exact absurd (List.cons.inj h').1 hs.1
      · cases heq
        simp only [hne0, hnil, if_false, hlen, hl, hbig, Bool.false_eq_true]
  refine ⟨hpos, ?_, ?_⟩
  · simp only [duration, hpos]
    congr 2
  · have hl := hloop ((natDigits v).length + ds.length + 1)
    unfold parseDuration
    simp only [hne0, hnil, if_false, hlen, hl, if_true]

/-- The boundary of that class is real, and it is Go's (`time.ParseDuration` multiplies in binary64):
with more digits than the unit has decimal places the SAME decimal value is read one nanosecond short,
so trailing zeros change the whole seconds: `0.25h` is 900 s but `0.25000000000000h` is 899 s,
`0.05m` is 3 s but `0.05000000000000m` 2 s; `0.00000000005m` is 3 ns but `0.00000000005000m` 2 ns
(same in the real code: ops `dur`, `frac`). -/
theorem duration_fraction_counterexample :
    duration (asc "0.25h") = .val (asc "900") ∧ duration (asc "0.25000000000000h") = .val (asc "899")
    ∧ duration (asc "0.05m") = .val (asc "3") ∧ duration (asc "0.05000000000000m") = .val (asc "2")
    ∧ parseDuration (asc "0.00000000005m") = .ok 3 ∧ parseDuration (asc "0.00000000005000m") = .ok 2
    ∧ fracTerm 5000 60000000000 14 = 2 ∧ 5000 * 60000000000 / 10 ^ 14 = 3 := by
  decide +kernel

/-- Why the whole seconds are now taken in integer arithmetic: at 2^24 s (194 days) the float64 sum
of `Duration.Seconds()` no longer resolves 1 ns below the next second and rounds UP, one second more
than the duration holds (the defect repaired by 7d50a89; witness in corpus/C18/r4b.case), while one
second earlier it still truncated.  The current stage answers 16777216 (`duration_decimal_exact`). -/
theorem duration_float_seconds_counterexample :
    secondsViaFloat 16777216999999999 = 16777217
    ∧ secondsViaFloat 16777215999999999 = 16777215
    ∧ secondsViaFloat (-16777216999999999) = -16777217
    ∧ duration (asc "16777216.999999999s") = .val (asc "16777216")
    ∧ duration (asc "-16777216.999999999s") = .val (asc "-16777216")
    ∧ duration (asc "4660h20m16.999999999s") = .val (asc "16777216") := by
  decide +kernel

/-- Limits of `ParseDuration`, exactly as in Go: the largest duration is 2^63−1 ns, −2^63 ns parses
(only with a sign), digits of a fraction beyond what fits 2^63 are ignored (not an error), a fraction
needs a digit on one side of the point, exponents are not numbers. -/
theorem duration_limits :
    duration (asc "9223372036.854775807s") = .val (asc "9223372036")
    ∧ duration (asc "9223372036.854775808s") = .val errorParsing
    ∧ duration (asc "-9223372036.854775808s") = .val (asc "-9223372036")
    ∧ duration (asc "-9223372036.854775809s") = .val errorParsing
    ∧ duration (asc "1.0000000000000000000000000001s") = .val (asc "1")
    ∧ duration (asc "0.9223372036854775809s") = .val (asc "0")
    ∧ duration (asc ".5h") = .val (asc "1800") ∧ duration (asc "1.s") = .val (asc "1")
    ∧ duration (asc ".s") = .val errorParsing ∧ duration (asc "1e3s") = .val errorParsing
    ∧ duration (asc "1.5") = .val errorParsing ∧ duration (asc "0.5h0.5m0.5s") = .val (asc "1830") := by
  decide +kernel

/-- A quirk of Go's `time.ParseDuration` that `{duration}` inherits (mirrored, and the same in the real
code): the running sum is a uint64 checked against 2^63 only AFTER the addition, so two groups of exactly
2^63 ns wrap to 0 and the text is accepted – `9223372036854775808ns9223372036854775808ns` is 0 s, with
`1s` appended 1 s – although one nanosecond less in the second group is refused.  (Found by the round-4b
generator; out-of-range input is otherwise answered with the error marker, `duration_limits`.) -/
theorem duration_uint64_wrap_counterexample :
    duration (asc "9223372036854775808ns9223372036854775808ns") = .val (asc "0")
    ∧ duration (asc "9223372036854775808ns9223372036854775808ns1s") = .val (asc "1")
    ∧ duration (asc "-9223372036854775808ns9223372036854775808ns") = .val (asc "0")
    ∧ duration (asc "9223372036854775808ns9223372036854775807ns") = .val errorParsing
    ∧ duration (asc "9223372036854775808ns1ns") = .val errorParsing := by
  decide +kernel

/-- Whatever the text, `{duration}` answers the error marker or a whole number of seconds within
±9223372036 (an int64 nanosecond count holds no more): no other text can come out. -/
theorem duration_range (arg : Bytes) :
    duration arg = .val errorParsing
    ∨ ∃ n : Int, -9223372036 ≤ n ∧ n ≤ 9223372036 ∧ duration arg = .val (itoa n) := by
  rcases duration_total arg with ⟨_, h⟩ | ⟨d, hp, hd⟩
  · exact Or.inl h
  · obtain ⟨h1, h2⟩ := parseDuration_range arg d hp
    refine Or.inr ⟨Int.tdiv d 1000000000, ?_, ?_, hd⟩
    · rcases Int.le_total 0 d with h0 | h0
      · rw [Int.tdiv_eq_ediv_of_nonneg h0]; omega
      · have e : d = -(-d) := by omega
        rw [e, Int.neg_tdiv, Int.tdiv_eq_ediv_of_nonneg (by omega)]; omega
    · rcases Int.le_total 0 d with h0 | h0
      · rw [Int.tdiv_eq_ediv_of_nonneg h0]; omega
      · have e : d = -(-d) := by omega
        rw [e, Int.neg_tdiv, Int.tdiv_eq_ediv_of_nonneg (by omega)]; omega

/-- Signs: for a text that parses (and has no sign of its own) `+x` answers the same and `-x` the
negated whole seconds – truncation is toward zero on both sides (`-1.5s` is -1, not -2). -/
theorem duration_sign (c : UInt8) (r : Bytes) (d : Int) (hc : c ≠ 43 ∧ c ≠ 45)
    (h : parseDuration (c :: r) = .ok d) :
    duration (c :: r) = .val (itoa (Int.tdiv d 1000000000))
    ∧ duration (43 :: c :: r) = .val (itoa (Int.tdiv d 1000000000))
    ∧ duration (45 :: c :: r) = .val (itoa (-(Int.tdiv d 1000000000))) := by
  obtain ⟨hm, hp⟩ := parseDuration_sign c r d hc h
  refine ⟨?_, ?_, ?_⟩
  · simp only [duration, h]
  · simp only [duration, hp]
  · simp only [duration, hm, Int.neg_tdiv]

/-! ## Markers -/

/-- Unparseable input yields the error markers: a time text the layout does not accept gives
`<PARSE-ERROR>`, a non-integer unix time gives `<BAD-TYPE>`; an empty text or an undetectable
format in `cache` mode gives `<PARSE-ERROR>` and is not remembered. -/
theorem unparseable_marker (layout str : Bytes) (f : Parsed → Out) (e : String)
    (hy : usesYearDay (tokenize layout) = false) (h : parseLayout layout str = .error e) :
    (∃ b, parseThen layout str f = .val b ∧ b = errorParsing)
    ∧ (∀ st, ∃ b, (cacheStep st [] none f).1 = .val b ∧ b = errorParsing ∧ (cacheStep st [] none f).2 = st)
    ∧ (str ≠ [] → ∃ b, (cacheStep [] str none f).1 = .val b ∧ b = errorParsing ∧ (cacheStep [] str none f).2 = [])
    ∧ (∀ lay loc arg off abbr, atoi arg = none → ∃ b, timeFormatStage lay loc arg off abbr = .val b ∧ b = errorNum)
    ∧ (∀ a loc arg off, atoi arg = none → ∃ b, timeAttrStage a loc arg off = .val b ∧ b = errorNum)
    ∧ (∀ arg, atoi arg = none → ∃ b, durationFormat arg = .val b ∧ b = errorNum)
    ∧ (∀ arg, parseDuration arg = .err → ∃ b, duration arg = .val b ∧ b = errorParsing) := by
  refine ⟨⟨_, ?_, rfl⟩, fun st => ⟨_, rfl, rfl, rfl⟩, fun hs => ⟨_, ?_, rfl, ?_⟩, ?_, ?_, ?_, ?_⟩
  · simp [parseThen, hy, h]
  · simp [cacheStep, hs]
  · simp [cacheStep, hs]
  · intro lay loc arg off abbr ha; exact ⟨_, by simp [timeFormatStage, ha], rfl⟩
  · intro a loc arg off ha; exact ⟨_, by simp [timeAttrStage, ha], rfl⟩
  · intro arg ha; exact ⟨_, by simp [durationFormat, ha], rfl⟩
  · intro arg ha; exact ⟨_, by simp [duration, ha], rfl⟩

/-- The cached layout: set by the first non-empty text whose format is detected, never changed
afterwards, and then used for every later text (whatever `dateparse` would say about it). -/
theorem cache_dispatch (st str : Bytes) (det det' : Option Bytes) (f : Parsed → Out) :
    (st ≠ [] → cacheStep st str det f = cacheStep st str det' f ∧ (cacheStep st str det f).2 = st)
    ∧ (st = [] → str ≠ [] → ∀ live, det = some live → cacheStep st str det f = (parseThen live str f, live)) := by
  constructor
  · intro h
    by_cases hs : str = [] <;> simp [cacheStep, hs, h]
  · intro h hs live hd
    simp [cacheStep, hs, h, hd]

/-- `auto`, `cache` (also the empty format) and explicit formats are told apart case-insensitively;
an explicit format goes through the named-format table. -/
theorem mode_dispatch :
    modeOf timeFormats (asc "AUTO") = .auto ∧ modeOf timeFormats (asc "") = .cache ∧ modeOf timeFormats (asc "Cache") = .cache
    ∧ modeOf timeFormats (asc "nginx") = .explicit (asc "_2/Jan/2006:15:04:05 -0700")
    ∧ modeOf timeFormats (asc "2006") = .explicit (asc "2006") := by
  decide

/-! ## Round 4: the `cache` stage as a function of its history; key-words; compile-time checks; attributes -/

/-- The round-1 step function is the current one for a date expression that yields the empty text
without input (`{0}`). -/
theorem cache_step_current (st str : Bytes) (det : Option Bytes) (f : Parsed → Out) :
    cacheStep st str det f = cacheStepE [] st str det f :=
  cacheStep_eq_E st str det f

/-- Which call histories give which answers.  (1) Once a layout is remembered it never changes and
every later text is answered with it, whatever `dateparse` would detect.  (2) Starting with nothing
remembered, the memory after a history is the layout detected for the FIRST text that is non-empty,
is not `emptyTime` (the value of the date expression without input: parsed, never remembered – the
repairs cb6fa4b / 3acd3a0 / 6998c9c) and has a detectable format; there is none iff nothing is
remembered. -/
theorem cache_history (e : Bytes) (xs : List Inp) :
    (∀ st, st ≠ [] → cacheState e st xs = st ∧ cacheRun e st xs = xs.map (answerWith st))
    ∧ ((∀ x ∈ xs, x.2.1 ≠ some []) → cacheState e [] xs = firstRemembered e xs) :=
  ⟨fun st hst => cache_sticky' e st hst xs, cache_state_first' e xs⟩

/-- Order independence (what makes the lock-free memory safe): when every non-empty text of a history
has the same detected layout `L` and none is `emptyTime`, each answer depends on its own text only –
so any order, and any interleaving of concurrent evaluations, gives the same answers (checked on the
real stage from 8 goroutines: op `seqpar`).  Without the hypotheses the answers do depend on the
order: see the example after it. -/
theorem cache_order_independent (e L : Bytes) (hL : L ≠ []) (xs : List Inp)
    (h : ∀ x ∈ xs, x.1 ≠ e ∧ (x.1 ≠ [] → x.2.1 = some L)) :
    cacheRun e [] xs = xs.map (answerWith L) :=
  cache_order_independent' e L hL xs h [] (Or.inl rfl)

/-- … and the order matters otherwise: two texts of different layouts answer differently depending on
which comes first (the second one is parsed with the layout of the first). -/
theorem cache_order_counterexample :
    let f : Parsed → Out := unixOut .utc 0 []
    let a : Inp := (asc "2016-04-14", some (asc "2006-01-02"), f)
    let b : Inp := (asc "14/04/2016", some (asc "02/01/2006"), f)
    cacheRun [] [] [a, b] = [.val (asc "1460592000"), .val errorParsing]
    ∧ cacheRun [] [] [b, a] = [.val (asc "1460592000"), .val errorParsing] := by
  decide +kernel

/-- `{time now|live|delta}`: the key-words are recognised case-insensitively and exactly. -/
theorem time_keyword_table :
    [asc "now", asc "NOW", asc "Live", asc "delta", asc "DELTA", asc "nowx", asc "no", asc "", asc " now"].map timeKeyword
      = [some .now, some .now, some .live, some .delta, some .delta, none, none, none, none]
    ∧ (∀ w, timeKeyword w = some .now ↔ toLower w = asc "now") := by
  refine ⟨by decide, fun w => ?_⟩
  unfold timeKeyword
  constructor
  · intro h
    by_cases h1 : toLower w = asc "now"
    · exact h1
    · simp only [h1, if_false] at h
      split at h
      · cases h
      · split at h <;> cases h
  · intro h; simp [h]

/-- The key-words and guards the model relies on are the ones in the source now (regenerated on every
run): the `now`/`live`/`delta` cases of `kfTimeParse`, the `auto` / `""`,`cache` cases of
`smartDateParseWrapper`, the `""`,`UTC` / `LOCAL` cases of `parseTimezoneLocation`, and the bodies of
the four attribute functions (source text; `yearweek` pairs the ISO year with the ISO week). -/
theorem gen_guards_match :
    (∀ w, (timeKeyword w).isSome = true ↔ toLower w ∈ Gen.C18.timeKeywords.flatten.map asc)
    ∧ (∀ tbl f, (modeOf tbl f = .auto ↔ toLower f ∈ (Gen.C18.parseModes.getD 0 []).map asc)
        ∧ (modeOf tbl f = .cache ↔ toLower f ∈ (Gen.C18.parseModes.getD 1 []).map asc))
    ∧ (∀ tzf ok, ((parseTimezoneLocation tzf ok).1 = .utc ∧ (parseTimezoneLocation tzf ok).2 = true
          ↔ toUpper tzf ∈ (Gen.C18.zoneKeywords.getD 0 []).map asc)
        ∧ ((parseTimezoneLocation tzf ok).1 = .local ↔ toUpper tzf ∈ (Gen.C18.zoneKeywords.getD 1 []).map asc))
    ∧ Gen.C18.attrBodies = [
        ("QUARTER", "func(ttime.Time)string{month:=int(t.Month())returnstrconv.Itoa((month-1)/3+1)}"),
        ("WEEK", "func(ttime.Time)string{_,week:=t.ISOWeek()returnstrconv.Itoa(week)}"),
        ("WEEKDAY", "func(ttime.Time)string{returnstrconv.Itoa(int(t.Weekday()))}"),
        ("YEARWEEK", "func(ttime.Time)string{year,week:=t.ISOWeek()returnstrconv.Itoa(year)+\"-\"+strconv.Itoa(week)}")] := by
  have e0 : asc "" = ([] : Bytes) := rfl
  have n1 : asc "now" ≠ asc "live" := by decide
  have n2 : asc "now" ≠ asc "delta" := by decide
  have n3 : asc "live" ≠ asc "delta" := by decide
  have n4 : asc "auto" ≠ ([] : Bytes) := by decide
  have n5 : asc "auto" ≠ asc "cache" := by decide
  have n6 : asc "UTC" ≠ ([] : Bytes) := by decide
  have n7 : asc "LOCAL" ≠ ([] : Bytes) := by decide
  have n8 : asc "LOCAL" ≠ asc "UTC" := by decide
  refine ⟨fun w => ?_, fun tbl f => ⟨?_, ?_⟩, fun tzf ok => ⟨?_, ?_⟩, rfl⟩
  · simp only [timeKeyword, Gen.C18.timeKeywords, List.flatten, List.append_nil, List.map, List.cons_append, List.nil_append,
      List.mem_cons, List.not_mem_nil, or_false]
    by_cases h1 : toLower w = asc "now"
    · simp [h1]
    · by_cases h2 : toLower w = asc "live"
      · simp [h2, n1.symm]
      · by_cases h3 : toLower w = asc "delta"
        · simp [h3, n2.symm, n3.symm]
        · simp [h1, h2, h3]
  · simp only [modeOf, Gen.C18.parseModes, List.getD_cons_zero, List.map, List.mem_cons, List.not_mem_nil, or_false]
    by_cases h1 : toLower f = asc "auto"
    · simp [h1]
    · simp only [h1, if_false, iff_false]
      split <;> simp
  · simp only [modeOf, Gen.C18.parseModes, List.getD_cons_succ, List.getD_cons_zero, List.map, List.mem_cons, List.not_mem_nil, or_false, e0]
    by_cases h1 : toLower f = asc "auto"
    · simp [h1, n4, n5]
    · simp only [h1, if_false]
      by_cases h2 : (toLower f = [] ∨ toLower f = asc "cache")
      · simp [h2]
      · simp [h2]
  · simp only [parseTimezoneLocation, Gen.C18.zoneKeywords, List.getD_cons_zero, List.map, List.mem_cons, List.not_mem_nil, or_false, e0]
    by_cases h1 : (toUpper tzf = [] ∨ toUpper tzf = asc "UTC")
    · simp [h1]
    · simp only [h1, if_false, iff_false]
      split
      · simp
      · cases ok <;> simp
  · simp only [parseTimezoneLocation, Gen.C18.zoneKeywords, List.getD_cons_succ, List.getD_cons_zero, List.map, List.mem_cons, List.not_mem_nil, or_false]
    by_cases h1 : (toUpper tzf = [] ∨ toUpper tzf = asc "UTC")
    · have : toUpper tzf ≠ asc "LOCAL" := by
        rcases h1 with h | h
        · rw [h]; exact n7.symm
        · rw [h]; exact n8.symm
      simp [h1, this]
    · simp only [h1, if_false]
      by_cases h2 : toUpper tzf = asc "LOCAL"
      · simp [h2]
      · cases ok <;> simp [h2]

/-- What the stage closures of `timeformat`, `duration`, `durationformat` and `timeattr` return, as
source text regenerated from /repo on every run: first the error marker for a bad argument, then exactly
the expression the model mirrors – `t.Format(format)` (`timeFormatStage`), the INTEGER division
`int64(duration/time.Second)` (`duration`: `itoa (Int.tdiv d 10^9)`; a float64 route such as
`duration.Seconds()` or a rounding idiom changes this text), `(time.Duration(secs)*time.Second).String()`
(`durationFormat`: `durationString (wrap64 (secs * 10^9))`), the attribute function (`timeAttrStage`). -/
theorem gen_stage_returns :
    Gen.C18.stageReturns = [
      ("timeformat", ["returnErrorNum", "returnt.Format(format)"]),
      ("duration", ["returnErrorParsing", "returnstrconv.FormatInt(int64(duration/time.Second),10)"]),
      ("durationformat", ["returnErrorNum", "return(time.Duration(secs)*time.Second).String()"]),
      ("timeattr", ["returnErrorNum", "returnattrFunc(t)"])] := by
  decide

/-- The argument-count windows of the six helpers as the translator reads them from the guards that
open `kfTimeParse` … `kfTimeAttr` (`Gen.C18.argRanges`): `<ARGN>` outside, checked first, and inside the
window with a constant, known second argument and a loadable zone the stage is built. -/
theorem compile_argcount :
    ∀ e ∈ Gen.C18.argRanges,
      ∀ argc c eo zo, ((argc < e.2.1 ∨ argc > e.2.2) → compileCheck e.1 argc c eo zo = some ("func.argcount", "<ARGN>"))
        ∧ (e.2.1 ≤ argc → argc ≤ e.2.2 → c 1 = true → compileCheck e.1 argc c true true = none) := by
  intro e he argc c eo zo
  obtain ⟨fn, lo, hi⟩ := e
  simp only [Gen.C18.argRanges, List.mem_cons, List.not_mem_nil, or_false, Prod.mk.injEq] at he
  rcases he with ⟨a, b, d⟩ | ⟨a, b, d⟩ | ⟨a, b, d⟩ | ⟨a, b, d⟩ | ⟨a, b, d⟩ | ⟨a, b, d⟩ <;> subst a <;> subst b <;> subst d <;>
    simp only [compileCheck, String.reduceEq, if_true, if_false, or_false, false_or, or_self] <;> constructor <;> intro h
  all_goals first
    | (rw [if_pos h]; done)
    | (rw [if_pos (by omega)]; done)
    | (intro h2 hc; rw [if_neg (by omega)]; simp [hc]; done)
    | (intro h2 hc; rw [if_neg (by omega)]; done)

/-- The bucket and attribute names must be constants (`<CONST>`) of the enumeration (`<ENUM>`); an
unknown zone gives `<PARSE-ERROR>` – for `timeattr` before the enumeration check, for `buckettime`
after it (the order of the checks in the source). -/
theorem compile_checks_order :
    compileCheck "buckettime" 4 (fun _ => false) false false = some ("func.const", "<CONST>")
    ∧ compileCheck "buckettime" 4 (fun _ => true) false false = some ("func.enum", "<ENUM>")
    ∧ compileCheck "buckettime" 4 (fun _ => true) true false = some ("func.parsing", "<PARSE-ERROR>")
    ∧ compileCheck "timeattr" 3 (fun _ => false) false false = some ("func.const", "<CONST>")
    ∧ compileCheck "timeattr" 3 (fun _ => true) false false = some ("func.parsing", "<PARSE-ERROR>")
    ∧ compileCheck "timeattr" 3 (fun _ => true) false true = some ("func.enum", "<ENUM>") := by
  decide

/-- Every attribute name, in any letter case: weekday 0..6 (Sunday = 0), ISO week 1..53 WITHOUT zero
padding, `yearweek` = ISO year `-` ISO week (the ISO week-numbering year, not the calendar year),
quarter 1..4; any other name is not an attribute (`<ENUM>` at compile time) – and only those. -/
theorem timeattr_spec (name : Bytes) (unix off : Int) :
    (toUpper name = asc "WEEKDAY" → timeAttr name unix off = some (itoa (weekday (localDays unix off))))
    ∧ (toUpper name = asc "WEEK" → timeAttr name unix off = some (itoa (isoYearWeek (localDays unix off)).2))
    ∧ (toUpper name = asc "YEARWEEK" → timeAttr name unix off =
        some (itoa (isoYearWeek (localDays unix off)).1 ++ [45] ++ itoa (isoYearWeek (localDays unix off)).2))
    ∧ (toUpper name = asc "QUARTER" → timeAttr name unix off = some (itoa (quarter (civilOf unix off).m)))
    ∧ (timeAttr name unix off = none ↔ toUpper name ∉ attrKeys) := by
  have hq := timeattr_quarter unix off
  have hq' : timeAttr (asc "quarter") unix off = some (itoa (quarterExpr (civilFromDays (localDays unix off)).m)) := rfl
  refine ⟨fun h => ?_, fun h => ?_, fun h => ?_, fun h => ?_, ?_⟩
  · simp only [timeAttr, h, if_true]
  · simp only [timeAttr, h, show asc "WEEK" ≠ asc "WEEKDAY" from by decide, if_false, if_true]
  · simp only [timeAttr, h, show asc "YEARWEEK" ≠ asc "WEEKDAY" from by decide, show asc "YEARWEEK" ≠ asc "WEEK" from by decide,
      if_false, if_true]
  · rw [← hq, hq']
    simp only [timeAttr, h, show asc "QUARTER" ≠ asc "WEEKDAY" from by decide, show asc "QUARTER" ≠ asc "WEEK" from by decide,
      show asc "QUARTER" ≠ asc "YEARWEEK" from by decide, if_false, if_true]
  · have d1 : asc "WEEK" ≠ asc "WEEKDAY" := by decide
    have d2 : asc "YEARWEEK" ≠ asc "WEEKDAY" := by decide
    have d3 : asc "YEARWEEK" ≠ asc "WEEK" := by decide
    have d4 : asc "QUARTER" ≠ asc "WEEKDAY" := by decide
    have d5 : asc "QUARTER" ≠ asc "WEEK" := by decide
    have d6 : asc "QUARTER" ≠ asc "YEARWEEK" := by decide
    simp only [timeAttr, attrKeys, List.mem_cons, List.not_mem_nil, or_false]
    by_cases h1 : toUpper name = asc "WEEKDAY"
    · simp [h1]
    · by_cases h2 : toUpper name = asc "WEEK"
      · simp [h2, d1]
      · by_cases h3 : toUpper name = asc "YEARWEEK"
        · simp [h3, d2, d3]
        · by_cases h4 : toUpper name = asc "QUARTER"
          · simp [h4, d4, d5, d6]
          · simp [h1, h2, h3, h4]

/-- The boundary of `duration_roundtrip` is exact: one second further the product
`time.Duration(secs) * time.Second` wraps and `durationformat` prints a NEGATIVE duration (Go's
int64 arithmetic, mirrored; same in the real code, op `durf`). -/
theorem duration_roundtrip_boundary :
    durationFormat (asc "9223372036") = .val (asc "2562047h47m16s")
    ∧ duration (asc "2562047h47m16s") = .val (asc "9223372036")
    ∧ durationFormat (asc "9223372037") = .val (asc "-2562047h47m16.709551616s")
    ∧ durationFormat (asc "-9223372037") = .val (asc "2562047h47m16.709551616s") := by
  decide +kernel

/-! ## Non-vacuity: the hypotheses hold on concrete, non-trivial values -/

/-- 14 Apr 2016 19:12:25 +02:00 (the repo's own test instant) round-trips through NGINX. -/
example : parseLayout (asc "_2/Jan/2006:15:04:05 -0700")
    (formatLayout (asc "_2/Jan/2006:15:04:05 -0700") (timeVOf 1460653945 7200 (asc "CEST")))
      = .ok ⟨⟨2016, 4, 14, 19, 12, 25, 0⟩, .offset 7200⟩ := by rfl

example : formatLayout (asc "_2/Jan/2006:15:04:05 -0700") (timeVOf 1460653945 7200 (asc "CEST"))
    = asc "14/Apr/2016:19:12:25 +0200" := by decide +kernel

example : OffOK 7200 ∧ OffOK (-12600) ∧ (timeVOf 1460653945 7200 (asc "CEST")).dt.valid := by
  refine ⟨by unfold OffOK; decide, by unfold OffOK; decide, by unfold DateTime.valid; decide +kernel⟩

/-- 4 Apr 2016 19:12:25 +02:00 through ANSIC (`Apr  4`: the padding space is swallowed with the
literal) and UNIX (abbreviation `CEST`): all carried fields come back; ANSIC leaves the zone to the
location argument. -/
example : formatLayout (asc "Mon Jan _2 15:04:05 2006") (timeVOf 1459789945 7200 (asc "CEST")) = asc "Mon Apr  4 19:12:25 2016"
    ∧ (match parseLayout (asc "Mon Jan _2 15:04:05 2006") (asc "Mon Apr  4 19:12:25 2016") with
        | .ok p => p == ⟨⟨2016, 4, 4, 19, 12, 25, 0⟩, .default⟩
        | .error _ => false) = true
    ∧ (match parseLayout (asc "Mon Jan _2 15:04:05 MST 2006") (formatLayout (asc "Mon Jan _2 15:04:05 MST 2006") (timeVOf 1459789945 7200 (asc "CEST"))) with
        | .ok p => p == ⟨⟨2016, 4, 4, 19, 12, 25, 0⟩, .name (asc "CEST")⟩
        | .error _ => false) = true
    ∧ projectDT (carries (tokenize (asc "Jan"))) ⟨2016, 4, 4, 19, 12, 25, 0⟩ = ⟨0, 4, 1, 0, 0, 0, 0⟩ := by
  decide +kernel

example : hh2 48 51 = true ∧ hh2 50 51 = true ∧ hh2 50 52 = false ∧ hh2 49 57 = true := by decide

example : abbrShape (asc "CEST") = true ∧ abbrShape (asc "UTC") = true ∧ abbrShape (asc "MSK") = true
    ∧ carriesInstant (tokenize (asc "2006-01-02T15:04:05Z07:00")) = true := by decide

example : quarter 3 = 1 ∧ quarter 12 = 4 ∧ Gen.C18.quarter 3 = 1 ∧ Gen.C18.quarter 12 = 4 := by decide

/-- 1 Jan 2021 is a Friday of ISO week 2020-53; 4 Jan 2021 starts 2021-1. -/
example : weekday 18628 = 5 ∧ isoYearWeek 18628 = (2020, 53) ∧ isoYearWeek 18631 = (2021, 1)
    ∧ civilFromDays 18628 = ⟨2021, 1, 1⟩ := by decide +kernel

/-- `1.5h` and `16777216.999999999s` satisfy the hypotheses of `duration_decimal_exact`. -/
example : natDigits 1 ++ 46 :: (asc "5" ++ [104]) = asc "1.5h" ∧ (asc "5").all isDigitB = true ∧ 10 ^ (asc "5").length ∣ 3600000000000
    ∧ (1 + 1) * 3600000000000 ≤ 9223372036854775807
    ∧ natDigits 16777216 ++ 46 :: (asc "999999999" ++ [115]) = asc "16777216.999999999s"
    ∧ 10 ^ (asc "999999999").length ∣ 1000000000 ∧ duration (asc "1.5h") = .val (asc "5400") := by
  refine ⟨by decide +kernel, by decide, by decide, by decide, by decide +kernel, by decide, by decide +kernel⟩

example : durationFormat (asc "14400") = .val (asc "4h0m0s") ∧ duration (asc "4h0m0s") = .val (asc "14400") := by
  decide +kernel

end Rare.C18
