import Rare.Proofs.C06
import Rare.Props.C01
import Rare.Model.C06Shape
import Rare.Gen.C06
import Rare.Gen.Skeleton
/-!
# C06 — named inputs are each read once, decoded faithfully, and failures are reported

The file system, `filepath.Glob`/`Walk` and `compress/gzip` are oracle parameters (`FsOracle`,
`FileOracle`); the theorems are about the planning / accounting / decision logic rare builds on top
of them, for ALL argument lists, oracle answers, failure placements, reader/worker counts and schedules.

* `plan_once_per_mention`, `plan_stdin` – what is opened, and how often.
* `errors_counted`, `failed_input_exit_2` – read errors = number of failed inputs; any failure ⇒ exit 2.
* `others_unaffected` – whatever the other inputs do (open error, failure after any number of bytes),
  in every terminal state of the goroutine/channel protocol every healthy input's matching lines have
  been delivered exactly (derived from the C01 pipeline theorems).
* `sema_balanced`, `sema_bounded` – every acquired reader slot is released on every path (over the
  regenerated control tree of `OpenFilesToChan`), never more than `--readers` are held, none at the end.
* `exit_code_precedence` – over the regenerated if-chain of `DetermineErrorState`.
* `gunzip_fallback`, `gunzip_decodes` – `-z` on non-gzip content delivers it from its first byte.
* `code_shape` – the regenerated control skeletons equal the ones the model mirrors.
-/
namespace Rare.C06
open Rare.Pipeline Rare.C01

/-! ## Planning -/

/-- Each path argument / glob expansion / file below a `-R` directory is opened exactly once per
    mention: when the oracle's listings are duplicate-free (a glob result, a directory walk), the number of
    times `x` is opened equals the number of arguments whose expansion contains `x`; and every
    argument is expanded on its own (`planFiles` is the concatenation, in argument order). -/
theorem plan_once_per_mention (fs : FsOracle) (recursive : Bool) (args : List Path)
    (hg : ∀ p l, fs.glob p = .found l → l.Nodup) (hw : ∀ p, (fs.walk p).Nodup) (x : Path) :
    (planFiles fs recursive args).count x = Spec.specPlanCount (args.map (expandArg fs recursive)) x ∧
    planFiles fs recursive args = (args.map (expandArg fs recursive)).flatten ∧
    ∀ p ∈ args, (expandArg fs recursive p).Nodup ∧ expandArg fs recursive p ≠ [] ∨ (recursive && fs.isDir p) = true := by
  refine ⟨?_, ?_, ?_⟩
  · unfold planFiles Spec.specPlanCount
    rw [List.count_flatMap, ← List.map_map]
    apply sum_indicator
    intro l hl
    simp only [List.mem_map] at hl
    obtain ⟨p, _, rfl⟩ := hl
    exact expandArg_nodup fs recursive hg hw p
  · simp [planFiles, List.flatMap_def]
  · intro p _
    by_cases hd : (recursive && fs.isDir p) = true
    · exact Or.inr hd
    · refine Or.inl ⟨expandArg_nodup fs recursive hg hw p, ?_⟩
      have hd' : (recursive && fs.isDir p) = false := by simpa using hd
      unfold expandArg
      rw [hd']
      cases hgl : fs.glob p with
      | badPattern => simp
      | found l =>
        by_cases hl : l.length > 0
        · simp only [Bool.false_eq_true, if_false, hl, if_true]
          intro h; simp [h] at hl
        · simp [hl]

/-- An argument that is neither a walked directory nor a matching pattern (no match, or not even a
    valid pattern) is opened literally, exactly once per mention — so a missing file is reported. -/
theorem plan_literal_fallback (fs : FsOracle) (recursive : Bool) (p : Path)
    (hd : (recursive && fs.isDir p) = false) (hg : fs.glob p = .badPattern ∨ fs.glob p = .found []) :
    expandArg fs recursive p = [p] := by
  unfold expandArg
  rcases hg with h | h <;> simp [hd, h]

/-- `-` as first argument, or no argument at all, reads standard input (and nothing else) under the
    name `<stdin>`; otherwise every input is a file of the expansion. -/
theorem plan_stdin (recursive : Bool) (args : List Path) (fs : FsOracle) :
    (args = [] ∨ args.head? = some dash → plan recursive args fs = [.stdin]) ∧
    (args ≠ [] → args.head? ≠ some dash → plan recursive args fs = (planFiles fs recursive args).map .file) ∧
    Source.stdin.name = ascii "<stdin>" := by
  refine ⟨?_, ?_, rfl⟩
  · intro h
    unfold plan usesStdin
    rcases h with h | h <;> simp [h]
  · intro h1 h2
    unfold plan usesStdin
    cases args with
    | nil => exact absurd rfl h1
    | cons a as =>
      have : a ≠ dash := by simpa using h2
      simp [this]

/-! ## Error accounting -/

/-- Read errors = number of failed inputs: over any list of file names, the `incErrors` calls of all reader
    goroutines add up to the number of inputs that could not be opened or failed while being read;
    a healthy input contributes none. -/
theorem errors_counted (gunzip : Bool) (names : List Path) (files : Path → FileOracle) :
    ((names.map fun p => runFile gunzip p (files p)).map (·.errs)).sum
      = Spec.specErrors (names.map fun p => (readOutcome (files p) gunzip).failed) := by
  rw [← sum_errs_eq]
  simp only [List.map_map]
  congr 1
  apply List.map_congr_left
  intro p _
  simp [runFile_errs]

/-- What an input hands to the extractor is exactly the lines of the bytes delivered before the end /
    the failure (nothing lost, nothing duplicated, also for a gzip stream cut in the middle). -/
theorem lines_delivered (gunzip : Bool) (name : Path) (f : FileOracle) :
    (runFile gunzip name f).lines = C04.splitLines (readOutcome f gunzip).delivered ∧
    (runFile gunzip name f).name = name :=
  ⟨runFile_lines gunzip name f, runFile_name gunzip name f⟩

/-- The whole run: the error count is the number of failed planned inputs, and a single failed input
    makes the exit status 2 whatever else happened. -/
theorem failed_input_exit_2 (cfg : Config) (args : List Path) (fs : FsOracle) (files : Path → FileOracle)
    (stdin : Bytes) (hu : usageCheck cfg.batch cfg.readers cfg.gunzip args = none) (hs : usesStdin args = false) :
    (run cfg args fs files stdin).readErrors
      = Spec.specErrors ((planFiles fs cfg.recursive args).map fun p => (readOutcome (files p) cfg.gunzip).failed) ∧
    ((∃ p ∈ planFiles fs cfg.recursive args, (readOutcome (files p) cfg.gunzip).failed = true) →
      (run cfg args fs files stdin).exit = 2) := by
  have herr : (run cfg args fs files stdin).readErrors
      = Spec.specErrors ((planFiles fs cfg.recursive args).map fun p => (readOutcome (files p) cfg.gunzip).failed) := by
    rw [← errors_counted]
    simp [run, hu, plan, hs, Function.comp_def]
  refine ⟨herr, ?_⟩
  intro ⟨p, hp, hf⟩
  have hpos : 0 < (run cfg args fs files stdin).readErrors := by
    rw [herr]
    unfold Spec.specErrors
    apply List.length_pos_of_mem (a := true)
    simp only [List.mem_filter, List.mem_map, id]
    exact ⟨⟨p, hp, hf⟩, trivial⟩
  have hexit : ∀ pe m, (exitCode (run cfg args fs files stdin).readErrors pe m).1 = 2 := by
    intro pe m; unfold exitCode; simp [hpos]
  simp only [run, hu] at hexit hpos ⊢
  exact hexit _ _

/-! ## A failing input does not disturb the others -/

/-- The batches the reader goroutines send for inputs that delivered `datas` (batching by the real
    loop, any batch size, any flush-timer behaviour).  An input that could not be opened delivers
    nothing and sends no batch. -/
def pipelineInputs (batchSize : Nat) (timer : Nat → Nat → Bool) (datas : List Bytes) : List (List (List Line)) :=
  (datas.zipIdx 0).map fun p =>
    (Batcher.run batchSize ((linesOf p.2 p.1).map fun l => (l, timer p.2 l.num))).map (·.lines)

/-- Lines of healthy inputs are delivered completely whatever the other inputs do.  Input `i` reads
    `data` without error; every other input has an ARBITRARY outcome (ok, open error, read error after any
    number of bytes).  Then for every classifier, every reader/worker count, channel capacity, batch size,
    timer behaviour and EVERY schedule: in a terminal state the consumer holds, for source `i`, exactly the
    matching lines of `data` (as a multiset), each with its true line number. -/
theorem others_unaffected (cls : Line → Cls) (R B K W batchSize : Nat) (hW : 1 ≤ W)
    (outcomes : List Outcome) (timer : Nat → Nat → Bool) {s : St Line}
    (hr : Reach cls R B K (init (pipelineInputs batchSize timer (outcomes.map Outcome.delivered)) W) s)
    (hd : s.consDone = true) (i : Nat) (data : Bytes) (hi : outcomes[i]? = some (.ok data)) :
    (s.consumed.filter fun l => decide (l.src = i)).Perm ((linesOf i data).filter (isMatched cls)) := by
  have hfin := (pipeline_final_bytes cls R B K W batchSize hW (outcomes.map Outcome.delivered) timer hr hd).1
  have h1 := hfin.filter (fun l => decide (l.src = i))
  have hget : (outcomes.map Outcome.delivered)[i]? = some data := by
    simp [hi, Outcome.delivered]
  have h2 : (seqMatches cls (allLines (outcomes.map Outcome.delivered))).filter (fun l => decide (l.src = i))
      = (linesOf i data).filter (isMatched cls) := by
    unfold seqMatches
    rw [List.filter_filter, ← filter_src_allLines _ i data hget, List.filter_filter]
    congr 1
    funext l
    exact Bool.and_comm _ _
  rw [h2] at h1
  exact h1

/-- … and the run always gets there: failing inputs never block the pipeline (from every reachable state
    some execution reaches the consumer's end of stream; every step decreases the C01 measure). -/
theorem failing_inputs_terminate (cls : Line → Cls) {R B K : Nat} (hR : 1 ≤ R) (hB : 1 ≤ B) (hK : 1 ≤ K)
    (W batchSize : Nat) (outcomes : List Outcome) (timer : Nat → Nat → Bool) :
    ∃ s, Reach cls R B K (init (pipelineInputs batchSize timer (outcomes.map Outcome.delivered)) W) s ∧
      s.consDone = true :=
  pipeline_reaches_end cls hR hB hK _ _ _ .refl (Nat.le_refl _)

/-! ## Semaphore accounting -/

/-- The spawn loop of `OpenFilesToChan` and the body of the reader goroutine, taken from the
    regenerated control tree. -/
def spawnLoop : Ctl := (firstLoop Gen.C06.openFilesToChanTree).getD .nil
def readerBody : Ctl := (firstGo spawnLoop).getD .nil

/-- Every acquired semaphore slot is released on every path: per file name the spawner acquires exactly
    one slot (`sema <- struct{}{}`) before starting exactly one goroutine, and EVERY execution path of that
    goroutine (the early return after a failed open, and the normal end after reading) runs `<-sema`
    exactly once (the deferred block) and never acquires; no path contains a construct the path semantics
    does not cover.  Both paths also run `wg.Done()` and `stopFileReading` once. -/
theorem sema_balanced :
    (beforeGo spawnLoop).count "send:sema<-struct{}{}" = 1 ∧
    (traces spawnLoop).all (fun t => t.count "send:sema<-struct{}{}" = 1 ∧ t.count "do:<-sema" = 0) = true ∧
    ((paths spawnLoop).all fun p => p.evs.count .spawn = 1) = true ∧
    (traces readerBody).length = 2 ∧
    ∀ t ∈ traces readerBody,
      t.count "do:<-sema" = 1 ∧ t.count "send:sema<-struct{}{}" = 0 ∧ t.count "do:wg.Done()" = 1 ∧
      t.count "do:out.stopFileReading(goFilename)" = 1 ∧ "<unsupported>" ∉ t := by
  decide

/-- The flat synchronisation skeleton used by C01 agrees: one `send:sema`, one `recv:sema`, the receive
    inside the deferred block that opens the goroutine body. -/
theorem sema_skeleton :
    Gen.Skeleton.openFilesToChan.count "send:sema" = 1 ∧ Gen.Skeleton.openFilesToChan.count "recv:sema" = 1 ∧
    (Gen.Skeleton.openFilesToChan.dropWhile (· ≠ "send:sema")).take 7
      = ["send:sema", "call:wg.Add", "call:out.setSourceCount", "go{", "defer{", "recv:sema", "call:wg.Done"] := by
  decide

/-- In the transition system of C01 (start = acquire, finish = release): at every reachable state at most
    `R` (`--readers`) slots are held, and in every terminal state all of them have been released —
    including those of inputs that failed (their goroutine is `active []` and finishes). -/
theorem sema_bounded {α : Type} [DecidableEq α] (cls : α → Cls) (R B K W : Nat) (inputs : List (List (List α)))
    {s : St α} (hr : Reach cls R B K (init inputs W) s) :
    activeCount s ≤ R ∧ (s.consDone = true → W ≥ 1 → activeCount s = 0) := by
  refine ⟨active_le_reach hr (by rw [active_init]; exact Nat.zero_le _), ?_⟩
  intro hd hW
  have hinv := pipeline_invariant cls R B K W inputs hr
  have hrc := (hinv.consdone hd).1
  have hex := hinv.rcclosed hrc
  have hlen := reach_workers_length hr
  have hany : s.workers.any WSt.isExited = true := by
    cases hw : s.workers with
    | nil => rw [hw] at hlen; simp [init] at hlen; omega
    | cons w ws =>
      rw [hw] at hex
      simp only [List.all_cons, Bool.and_eq_true] at hex
      simp [hex.1]
  exact active_zero_of_all_done (hinv.cclosed (hinv.exited hany).1)

/-! ## Exit status -/

/-- Exit status precedence, over the regenerated if-chain of `DetermineErrorState`: 2 if there were read
    errors, else 2 if the aggregator saw unparsable increments, else 1 if nothing matched, else 0; the
    hand model `exitCode` is the same function; the messages are the ones `main` logs. -/
theorem exit_code_precedence (readErrors parseErrors matched : Nat) (agg : Bool) :
    (Gen.C06.determineErrorState readErrors agg parseErrors matched).1
      = Spec.specExit readErrors (if agg then parseErrors else 0) matched ∧
    Gen.C06.determineErrorState readErrors agg parseErrors matched
      = exitCode readErrors (if agg then some parseErrors else none) matched := by
  unfold Gen.C06.determineErrorState Spec.specExit exitCode Gen.C06.exitCodeInvalidUsage Gen.C06.exitCodeNoData
  cases agg <;> simp <;> (repeat' split) <;> simp_all <;> omega

/-- The chain as data, and the constants, are what the theorem above was read against; `main` exits
    with the code carried by the error (and logs its non-empty message). -/
theorem exit_chain_source :
    Gen.C06.chain = [("b.ReadErrors()>0", 2, "Read errors"), ("agg!=nil&&agg.ParseErrors()>0", 2, "Parse errors"),
      ("e.MatchedLines()==0", 1, "")] ∧
    Gen.C06.exitCodeNoData = 1 ∧ Gen.C06.exitCodeInvalidUsage = 2 ∧ Gen.C06.mainFn = Shape.mainFn :=
  ⟨rfl, rfl, rfl, rfl⟩

/-! ## gzip -/

/-- `-z` on content that is not gzip: whatever the header probe consumed, the input is delivered from
    its first byte, completely, without a read error (the `Seek(0)` of the fallback branch). -/
theorem gunzip_fallback (name : Path) (f : FileOracle) (ho : f.canOpen = true) (hd : f.isDir = false)
    (hh : f.gzHeaderOk = false) :
    readOutcome f true = .ok f.content ∧
    (runFile true name f).lines = C04.splitLines f.content ∧
    (runFile true name f).errs = 0 ∧
    (runFile true name f).logs = [.gunzipFallback name] := by
  have h1 : readOutcome f true = .ok f.content := by
    simp [readOutcome, readOutcomeG, openFileToReaderG, ho, hh, streamOf, hd]
  refine ⟨h1, ?_, ?_, ?_⟩
  · rw [runFile_lines, h1]; rfl
  · rw [runFile_errs, h1]; rfl
  · simp [runFile, openFileToReader, openFileToReaderG, ho, hh, streamOf, hd, runStream]

/-- Without the rewind the bytes consumed by the probe would be lost: the seek is what the theorem
    above rests on (`readOutcomeG false` = the code with the `Seek` removed). -/
theorem gunzip_fallback_needs_seek :
    readOutcomeG false ⟨true, false, [104, 105, 10], false, 2, [], false⟩ true = .ok [10] ∧
    readOutcomeG true ⟨true, false, [104, 105, 10], false, 2, [], false⟩ true = .ok [104, 105, 10] := by
  decide

/-- `-z` on gzip content delivers what the gzip reader yields; a stream that fails (truncated, corrupt,
    bad checksum) still delivers every line decoded before the failure and is counted once. -/
theorem gunzip_decodes (name : Path) (f : FileOracle) (ho : f.canOpen = true) (hh : f.gzHeaderOk = true) :
    (runFile true name f).lines = C04.splitLines f.gzDecoded ∧
    (runFile true name f).errs = (if f.gzFails then 1 else 0) := by
  cases hf : f.gzFails with
  | false =>
    have h1 : readOutcome f true = .ok f.gzDecoded := by
      simp [readOutcome, readOutcomeG, openFileToReaderG, ho, hh, streamOf, hf]
    exact ⟨by rw [runFile_lines, h1]; rfl, by rw [runFile_errs, h1]; rfl⟩
  | true =>
    have h1 : readOutcome f true = .readErr f.gzDecoded := by
      simp [readOutcome, readOutcomeG, openFileToReaderG, ho, hh, streamOf, hf]
    exact ⟨by rw [runFile_lines, h1]; rfl, by rw [runFile_errs, h1]; rfl⟩

/-! ## Tie to the source -/

/-- The regenerated control skeletons (every statement and condition of `GlobExpand`, `walkRoot`, `isDir`,
    `openFileToReader` and the if-statements of `BuildBatcherFromArguments`) are the ones the model mirrors. -/
theorem code_shape :
    Gen.C06.globExpand = Shape.globExpand ∧ Gen.C06.walkRoot = Shape.walkRoot ∧ Gen.C06.isDir = Shape.isDir ∧
    Gen.C06.openFileToReader = Shape.openFileToReader ∧ Gen.C06.buildBatcher = Shape.buildBatcher :=
  ⟨rfl, rfl, rfl, rfl, rfl⟩

/-! ## Non-vacuity -/

/-! names as byte lists (`ascii` does not reduce in the kernel) -/
def pD : Path := [100]  -- "d"
def pDa : Path := [100, 47, 97]  -- "d/a"
def pDb : Path := [100, 47, 98]  -- "d/b"
def pStar : Path := [42, 46, 108, 111, 103]  -- "*.log"
def pA : Path := [97, 46, 108, 111, 103]  -- "a.log"
def pB : Path := [98, 46, 108, 111, 103]  -- "b.log"
def pX : Path := [120, 91, 49, 93]  -- "x[1]"
def pBad : Path := [97, 91]  -- "a["
def pOk : Path := [111, 107]  -- "ok"
def pGone : Path := [103, 111, 110, 101]  -- "gone"
def pCut : Path := [99, 117, 116, 46, 103, 122]  -- "cut.gz"

/-- A small oracle file system: `d` is a directory with `d/a`, `d/b`; `*.log` matches two files; `x[1]`
    matches nothing; `a[` is not a pattern. -/
def exFs : FsOracle where
  isDir p := p == pD
  walk p := if p == pD then [pDa, pDb] else []
  glob p :=
    if p == pStar then .found [pA, pB]
    else if p == pBad then .badPattern
    else if p == pA then .found [pA]
    else .found []

/-- `rare -R d '*.log' a.log 'x[1]' 'a[' d`: `a.log` is mentioned by two arguments and opened twice, the
    directory twice, the literal fall-backs once each. -/
example : planFiles exFs true [pD, pStar, pA, pX, pBad, pD]
    = [pDa, pDb, pA, pB, pA, pX, pBad,
       pDa, pDb] := by decide

example : (planFiles exFs true [pD, pStar, pA, pX, pBad, pD]).count (pA) = 2 ∧
    Spec.specPlanCount ([pD, pStar, pA, pX, pBad, pD].map (expandArg exFs true)) (pA) = 2 := by
  decide

/-- the hypotheses of `plan_once_per_mention` hold for this oracle -/
example : (∀ p l, exFs.glob p = .found l → l.Nodup) ∧ (∀ p, (exFs.walk p).Nodup) := by
  constructor
  · intro p l h
    simp only [exFs] at h
    split at h
    · cases h; decide
    · split at h
      · cases h
      · split at h <;> cases h <;> simp
  · intro p
    simp only [exFs]
    split <;> decide

/-- three inputs — healthy, missing, gzip cut after the first line and a half — give 2 read errors, exit 2,
    and the healthy input's lines plus the decoded prefix of the cut one. -/
def exFiles (p : Path) : FileOracle :=
  if p == pOk then ⟨true, false, [108, 49, 10, 108, 50, 10] /- "l1\nl2\n" -/, false, 6, [], false⟩
  else if p == pCut then ⟨true, false, [31, 139, 8], true, 0, [103, 49, 10, 103] /- "g1\ng" -/, true⟩
  else FileOracle.missing

example :
    let r := run ⟨true, false, 3, 1000, .all⟩ [pOk, pGone, pCut]
      ⟨fun _ => false, fun _ => [], fun _ => .found []⟩ exFiles []
    r.readErrors = 2 ∧ r.exit = 2 ∧ r.readLines = 4 ∧
    r.out = [[111, 107, 58, 49, 58, 108, 49] /- ok:1:l1 -/, [111, 107, 58, 50, 58, 108, 50] /- ok:2:l2 -/, [99, 117, 116, 46, 103, 122, 58, 49, 58, 103, 49] /- cut.gz:1:g1 -/, [99, 117, 116, 46, 103, 122, 58, 50, 58, 103] /- cut.gz:2:g -/] := by
  decide

/-- all four exit states are reachable -/
example : (exitCode 1 (some 1) 0).1 = 2 ∧ (exitCode 0 (some 3) 5).1 = 2 ∧ (exitCode 0 (some 0) 0).1 = 1 ∧
    (exitCode 0 none 4).1 = 0 ∧ (exitCode 0 none 0).1 = 1 := by decide

/-- `others_unaffected` is not vacuous: with a failing first input and a missing third one a terminal
    state exists, and there the healthy second input's lines are all consumed. -/
example : ∃ s, Reach (fun _ : Line => Cls.matched) 2 1 5
      (init (pipelineInputs 2 (fun _ _ => false)
        ([Outcome.readErr (ascii "x\ny"), .ok (ascii "a\nb\nc\n"), .openErr].map Outcome.delivered)) 2) s ∧
    s.consDone = true ∧
    (s.consumed.filter fun l => decide (l.src = 1)).Perm
      ((linesOf 1 (ascii "a\nb\nc\n")).filter (isMatched fun _ => Cls.matched)) := by
  obtain ⟨s, hr, hd⟩ := failing_inputs_terminate (fun _ : Line => Cls.matched) (R := 2) (B := 1) (K := 5)
    (by decide) (by decide) (by decide) 2 2 [Outcome.readErr (ascii "x\ny"), .ok (ascii "a\nb\nc\n"), .openErr]
    (fun _ _ => false)
  exact ⟨s, hr, hd, others_unaffected _ 2 1 5 2 2 (by decide) _ _ hr hd 1 _ rfl⟩

end Rare.C06
