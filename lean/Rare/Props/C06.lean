import Rare.Proofs.C06
import Rare.Props.C01
import Rare.Model.C06Shape
import Rare.Gen.C06
import Rare.Gen.Skeleton
import Rare.Model.C06Tree
import Rare.Proofs.C06Match
import Rare.Proofs.C06GlobP
import Rare.Proofs.C06Walk
import Rare.Proofs.C06Gzip
import Rare.Proofs.C06Pipe
import Rare.Proofs.C06ErrTrace
import Rare.Proofs.C06Read
import Rare.Proofs.C06Inflate
import Rare.Model.C06File
import Rare.Model.C06Dispatch
import Rare.Model.C06Exec
/-!
# C06 — named inputs are each read once, decoded faithfully, and failures are reported

Part 1 (below): file contents, read faults and `compress/gzip` are oracle parameters (`FileOracle`), and
so is the file system as far as the planning / accounting / decision theorems are concerned (`FsOracle`):
they hold for ALL argument lists, oracle answers, failure placements, reader/worker counts and schedules.
Part 2 (second half of the file) takes the file-system oracle away: an abstract directory tree, path
resolution, `filepath.Match` / `Glob` / `Walk` / `Clean` / `Join` and `dirwalk.GlobExpand` are Lean
functions mirroring go1.23 / rare, and `match_eq_spec`, `match_sound`, `match_bad_pattern`,
`literal_matches_itself`, `star_no_slash`, `glob_sound_complete`, `glob_expansion_once`, `glob_literal`,
`walk_each_regular_file_once`, `plan_mentions` say what they compute.

* `plan_once_per_mention`, `plan_stdin` – what is opened, and how often.
* Part 3 (end of the file): `gzip_run_is_model`, `gzip_decoded_faithfully`, `gzip_truncated_counted`,
  `gzip_truncated_multi_counted` (several members, every cut point), `gzip_trailing_garbage_counted`,
  `gzip_cut_in_header_is_plain` – the gzip reader (header, DEFLATE, trailer, member loop) is a Lean function of the
  file's bytes; `dispatch_matches_source`, `dispatch_usage_iff`, `dispatch_reader`, `dispatch_plain` – the flag
  plumbing of `BuildBatcherFromArguments`.
* `run_output_complete` – stdout of the whole run is, input by input, the matching lines of what each input delivered.
* `run_exit_status` – the exit status of the whole run from what the planned inputs deliver (read errors > parse errors >
  nothing matched > 0), standard input included.
* `errors_counted`, `failed_input_exit_2` – read errors = number of failed inputs; any failure ⇒ exit 2.
* `others_unaffected` – whatever the other inputs do (open error, failure after any number of bytes),
  in every terminal state of the goroutine/channel protocol every healthy input's matching lines have
  been delivered exactly (derived from the C01 pipeline theorems).
* `sema_balanced`, `sema_bounded` – every acquired reader slot is released on every path (over the
  regenerated control tree of `OpenFilesToChan`), never more than `--readers` are held, none at the end.
* `exit_code_precedence` – over the regenerated if-chain of `DetermineErrorState`.
* `gunzip_fallback`, `gunzip_decodes` – `-z` on non-gzip content delivers it from its first byte.
* `reader_exec_source`, `reader_body_matches_source`, `stdin_body_matches_source` – the reader goroutines of `OpenFilesToChan`
  and `OpenReaderToChan` EXECUTED from their regenerated control trees and interpreted on the observables are `runFile` /
  `runStdin` for every oracle (errors counted, log lines, delivered lines, one slot release / `wg.Done()` / channel close).
* `run_errors_from_source` – the read-error count of the whole run = the `incErrors()` calls those bodies execute, summed over the plan.
* `code_shape` – the regenerated control skeletons equal the ones the model mirrors; `expand_matches_source`,
  `expand_tree_matches_source`, `walkRoot_matches_source`, `isDir_matches_source`, `open_matches_source` – the bodies of
  `GlobExpand`, `walkRoot`, `isDir`, `openFileToReader` regenerated as FUNCTIONS equal the hand model for all inputs.

Part 3 (end of the file; round 2): read faults – `read_fault_counted` (a failing `Read` is counted exactly once whatever
comes with it), `errors_counted_before_close` (pipeline LTS with the error counter: all errors are counted before the
batch channel closes, for every schedule), `error_count_precedes_done` (regenerated control tree), `errtrace_rule_sound`
(the rule checked on event logs of real runs); gzip – `gzip_header_spec` (`gzip.NewReader`'s header parser = the RFC 1952
member header, reserved bits ignored as Go does), `gunzip_decided_by_header`, `gzip_header_quirks`.
-/
namespace Rare.C06
open Rare.Pipeline Rare.C01

/-! ## Planning -/

/-- Each path argument / glob expansion / file below a `-R` directory is opened exactly once per
    mention: when the oracle's listings are duplicate-free (a glob result, a directory walk), the number of
    times `x` is opened equals the number of arguments whose expansion contains `x`; and every
    argument is expanded on its own (`planFiles` is the concatenation, in argument order). -/
theorem plan_once_per_mention (fs : FsOracle) (recursive : Bool) (args : List Path)
    (hg : ∀ p l, fs.glob p = .found l → l.Nodup) (hw : ∀ p, (fs.walk p).Nodup) (x : Path) :
    (planFiles fs recursive args).count x = Spec.specPlanCount (args.map (expandArg fs recursive)) x ∧
    planFiles fs recursive args = (args.map (expandArg fs recursive)).flatten ∧
    ∀ p ∈ args, (expandArg fs recursive p).Nodup ∧ expandArg fs recursive p ≠ [] ∨ (recursive && fs.isDir p) = true := by
  refine ⟨?_, ?_, ?_⟩
  · unfold planFiles Spec.specPlanCount
    rw [List.count_flatMap, ← List.map_map]
    apply sum_indicator
    intro l hl
    simp only [List.mem_map] at hl
    obtain ⟨p, _, rfl⟩ := hl
    exact expandArg_nodup fs recursive hg hw p
  · simp [planFiles, List.flatMap_def]
  · intro p _
    by_cases hd : (recursive && fs.isDir p) = true
    · exact Or.inr hd
    · refine Or.inl ⟨expandArg_nodup fs recursive hg hw p, ?_⟩
      have hd' : (recursive && fs.isDir p) = false := by simpa using hd
      unfold expandArg
      rw [hd']
      cases hgl : fs.glob p with
      | badPattern => simp
      | found l =>
        by_cases hl : l.length > 0
        · simp only [Bool.false_eq_true, if_false, hl, if_true]
          intro h; simp [h] at hl
        · simp [hl]

/-- An argument that is neither a walked directory nor a matching pattern (no match, or not even a
    valid pattern) is opened literally, exactly once per mention — so a missing file is reported. -/
theorem plan_literal_fallback (fs : FsOracle) (recursive : Bool) (p : Path)
    (hd : (recursive && fs.isDir p) = false) (hg : fs.glob p = .badPattern ∨ fs.glob p = .found []) :
    expandArg fs recursive p = [p] := by
  unfold expandArg
  rcases hg with h | h <;> simp [hd, h]

/-- `-` as first argument, or no argument at all, reads standard input (and nothing else) under the
    name `<stdin>`; otherwise every input is a file of the expansion. -/
theorem plan_stdin (recursive : Bool) (args : List Path) (fs : FsOracle) :
    (args = [] ∨ args.head? = some dash → plan recursive args fs = [.stdin]) ∧
    (args ≠ [] → args.head? ≠ some dash → plan recursive args fs = (planFiles fs recursive args).map .file) ∧
    Source.stdin.name = ascii "<stdin>" := by
  refine ⟨?_, ?_, rfl⟩
  · intro h
    unfold plan usesStdin
    rcases h with h | h <;> simp [h]
  · intro h1 h2
    unfold plan usesStdin
    cases args with
    | nil => exact absurd rfl h1
    | cons a as =>
      have : a ≠ dash := by simpa using h2
      simp [this]

/-! ## Error accounting -/

/-- Read errors = number of failed inputs: over any list of file names, the `incErrors` calls of all reader
    goroutines add up to the number of inputs that could not be opened or failed while being read;
    a healthy input contributes none. -/
theorem errors_counted (gunzip : Bool) (names : List Path) (files : Path → FileOracle) :
    ((names.map fun p => runFile gunzip p (files p)).map (·.errs)).sum
      = Spec.specErrors (names.map fun p => (readOutcome (files p) gunzip).failed) := by
  rw [← sum_errs_eq]
  simp only [List.map_map]
  congr 1
  apply List.map_congr_left
  intro p _
  simp [runFile_errs]

/-- What an input hands to the extractor is exactly the lines of the bytes delivered before the end /
    the failure (nothing lost, nothing duplicated, also for a gzip stream cut in the middle). -/
theorem lines_delivered (gunzip : Bool) (name : Path) (f : FileOracle) :
    (runFile gunzip name f).lines = C04.splitLines (readOutcome f gunzip).delivered ∧
    (runFile gunzip name f).name = name :=
  ⟨runFile_lines gunzip name f, runFile_name gunzip name f⟩

/-- The whole run: the error count is the number of failed planned inputs, and a single failed input
    makes the exit status 2 whatever else happened. -/
theorem failed_input_exit_2 (cfg : Config) (args : List Path) (fs : FsOracle) (files : Path → FileOracle)
    (stdin : Bytes) (hu : usageCheck cfg.batch cfg.readers cfg.gunzip args = none) (hs : usesStdin args = false) :
    (run cfg args fs files stdin).readErrors
      = Spec.specErrors ((planFiles fs cfg.recursive args).map fun p => (readOutcome (files p) cfg.gunzip).failed) ∧
    ((∃ p ∈ planFiles fs cfg.recursive args, (readOutcome (files p) cfg.gunzip).failed = true) →
      (run cfg args fs files stdin).exit = 2) := by
  have herr : (run cfg args fs files stdin).readErrors
      = Spec.specErrors ((planFiles fs cfg.recursive args).map fun p => (readOutcome (files p) cfg.gunzip).failed) := by
    rw [← errors_counted]
    simp [run, hu, plan, hs, Function.comp_def]
  refine ⟨herr, ?_⟩
  intro ⟨p, hp, hf⟩
  have hpos : 0 < (run cfg args fs files stdin).readErrors := by
    rw [herr]
    unfold Spec.specErrors
    apply List.length_pos_of_mem (a := true)
    simp only [List.mem_filter, List.mem_map, id]
    exact ⟨⟨p, hp, hf⟩, trivial⟩
  have hexit : ∀ pe m, (exitCode (run cfg args fs files stdin).readErrors pe m).1 = 2 := by
    intro pe m; unfold exitCode; simp [hpos]
  simp only [run, hu] at hexit hpos ⊢
  exact hexit _ _

/-- **Exit status of the whole run, in terms of what the inputs deliver** (any arguments, standard input included, any
    file-system answers, any failures).  The inputs are the planned ones (`plan_stdin`, `plan_once_per_mention`); each hands
    on the lines of the bytes it delivered – all of them when it is healthy, those before the failure otherwise, whatever the
    OTHER inputs do.  Then: read errors = number of failed inputs; the summary counts are those of all delivered lines; and
    the exit status is 2 if an input failed, else 2 if the aggregator (histo) saw a line it cannot parse, else 1 if nothing
    matched, else 0. -/
theorem run_exit_status (cfg : Config) (args : List Path) (fs : FsOracle) (files : Path → FileOracle)
    (stdin : Bytes) (stdinFails : Bool) (hu : usageCheck cfg.batch cfg.readers cfg.gunzip args = none) :
    let r := run cfg args fs files stdin stdinFails
    let inputs := plan cfg.recursive args fs
    let lines := inputs.flatMap fun s => C04.splitLines (s.delivered cfg.gunzip files stdin)
    r.readErrors = Spec.specErrors (inputs.map (Source.failed cfg.gunzip files stdinFails)) ∧
    r.readLines = lines.length ∧
    r.matched = (lines.filter fun l => (cfg.mode.matchText l).isSome).length ∧
    r.exit = Spec.specExit r.readErrors
      (match cfg.mode with | .histo => (lines.filter fun l => (atoi l).isNone).length | _ => 0) r.matched := by
  have hlines : ∀ g : Source → SrcRun, (∀ s, (g s).lines = C04.splitLines (s.delivered cfg.gunzip files stdin)) →
      ((plan cfg.recursive args fs).map g).flatMap (·.lines)
        = (plan cfg.recursive args fs).flatMap fun s => C04.splitLines (s.delivered cfg.gunzip files stdin) := by
    intro g hg
    rw [List.flatMap_map]
    congr 1
    funext s
    exact hg s
  have herrs : ∀ g : Source → SrcRun, (∀ s, (g s).errs = if s.failed cfg.gunzip files stdinFails then 1 else 0) →
      (((plan cfg.recursive args fs).map g).map (·.errs)).sum
        = Spec.specErrors ((plan cfg.recursive args fs).map (Source.failed cfg.gunzip files stdinFails)) := by
    intro g hg
    rw [← sum_errs_eq, List.map_map, List.map_map]
    congr 2
    funext s
    exact hg s
  simp only [run, hu]
  rw [hlines _ (by intro s; cases s <;> first | rfl | exact runFile_lines _ _ _),
    herrs _ (by intro s; cases s <;> first | rfl | exact runFile_errs _ _ _)]
  refine ⟨rfl, rfl, rfl, ?_⟩
  rw [exitCode_spec]
  cases cfg.mode <;> rfl

/-- **What the run prints, input by input** (`filter -e '{src}:{line}:{0}'`): for every planned input, in plan order, one
    line `name:number:match` for every matching line of the bytes that input delivered, numbered from 1 within the input.
    A healthy input delivers its whole content (decompressed under `-z`), so ALL its matching lines are printed whatever
    happens to the other inputs; a failing one contributes the lines before its failure; nothing else is printed.
    (The order across inputs depends on the schedule: `others_unaffected` is the statement for the concurrent pipeline.) -/
theorem run_output_complete (cfg : Config) (args : List Path) (fs : FsOracle) (files : Path → FileOracle)
    (stdin : Bytes) (stdinFails : Bool) (hu : usageCheck cfg.batch cfg.readers cfg.gunzip args = none)
    (hm : cfg.mode ≠ .histo) :
    (run cfg args fs files stdin stdinFails).out
      = (plan cfg.recursive args fs).flatMap fun s =>
          ((C04.splitLines (s.delivered cfg.gunzip files stdin)).zipIdx 1).filterMap fun p =>
            (cfg.mode.matchText p.1).map fun t => s.name ++ [58] ++ itoa p.2 ++ [58] ++ t := by
  have hout : ∀ g : Source → SrcRun,
      (∀ s, (g s).lines = C04.splitLines (s.delivered cfg.gunzip files stdin) ∧ (g s).name = s.name) →
      ((plan cfg.recursive args fs).map g).flatMap (outLines cfg.mode)
        = (plan cfg.recursive args fs).flatMap fun s =>
          ((C04.splitLines (s.delivered cfg.gunzip files stdin)).zipIdx 1).filterMap fun p =>
            (cfg.mode.matchText p.1).map fun t => s.name ++ [58] ++ itoa p.2 ++ [58] ++ t := by
    intro g hg
    rw [List.flatMap_map]
    congr 1
    funext s
    unfold outLines
    rw [(hg s).1, (hg s).2]
  simp only [run, hu]
  rw [hout _ (by
    intro s
    cases s with
    | stdin => exact ⟨rfl, rfl⟩
    | file p => exact ⟨runFile_lines _ _ _, runFile_name _ _ _⟩)]

/-- `rare histo` over a healthy file with a non-numeric line: no read error, exit 2 ("Parse errors"); the same file with
    `filter`: exit 0; a file without any matching line (`filter -m k`): exit 1 -/
example :
    (run ⟨false, false, 1, 1, .histo⟩ [[111, 107]] ⟨fun _ => false, fun _ => [], fun _ => .found []⟩
      (fun _ => ⟨true, false, [49, 10, 120, 10], 0, [], false⟩) []).exit = 2 ∧
    (run ⟨false, false, 1, 1, .histo⟩ [[111, 107]] ⟨fun _ => false, fun _ => [], fun _ => .found []⟩
      (fun _ => ⟨true, false, [49, 10, 120, 10], 0, [], false⟩) []).readErrors = 0 ∧
    (run ⟨false, false, 1, 1, .all⟩ [[111, 107]] ⟨fun _ => false, fun _ => [], fun _ => .found []⟩
      (fun _ => ⟨true, false, [49, 10, 120, 10], 0, [], false⟩) []).exit = 0 ∧
    (run ⟨false, false, 1, 1, .hasByte 107⟩ [[111, 107]] ⟨fun _ => false, fun _ => [], fun _ => .found []⟩
      (fun _ => ⟨true, false, [49, 10, 120, 10], 0, [], false⟩) []).exit = 1 := by
  decide

/-! ## A failing input does not disturb the others -/

/-- The batches the reader goroutines send for inputs that delivered `datas` (batching by the real
    loop, any batch size, any flush-timer behaviour).  An input that could not be opened delivers
    nothing and sends no batch. -/
def pipelineInputs (batchSize : Nat) (timer : Nat → Nat → Bool) (datas : List Bytes) : List (List (List Line)) :=
  (datas.zipIdx 0).map fun p =>
    (Batcher.run batchSize ((linesOf p.2 p.1).map fun l => (l, timer p.2 l.num))).map (·.lines)

/-- Lines of healthy inputs are delivered completely whatever the other inputs do.  Input `i` reads
    `data` without error; every other input has an ARBITRARY outcome (ok, open error, read error after any
    number of bytes).  Then for every classifier, every reader/worker count, channel capacity, batch size,
    timer behaviour and EVERY schedule: in a terminal state the consumer holds, for source `i`, exactly the
    matching lines of `data` (as a multiset), each with its true line number. -/
theorem others_unaffected (cls : Line → Cls) (R B K W batchSize : Nat) (hW : 1 ≤ W)
    (outcomes : List Outcome) (timer : Nat → Nat → Bool) {s : St Line}
    (hr : Reach cls R B K (init (pipelineInputs batchSize timer (outcomes.map Outcome.delivered)) W) s)
    (hd : s.consDone = true) (i : Nat) (data : Bytes) (hi : outcomes[i]? = some (.ok data)) :
    (s.consumed.filter fun l => decide (l.src = i)).Perm ((linesOf i data).filter (isMatched cls)) := by
  have hfin := (pipeline_final_bytes cls R B K W batchSize hW (outcomes.map Outcome.delivered) timer hr hd).1
  have h1 := hfin.filter (fun l => decide (l.src = i))
  have hget : (outcomes.map Outcome.delivered)[i]? = some data := by
    simp [hi, Outcome.delivered]
  have h2 : (seqMatches cls (allLines (outcomes.map Outcome.delivered))).filter (fun l => decide (l.src = i))
      = (linesOf i data).filter (isMatched cls) := by
    unfold seqMatches
    rw [List.filter_filter, ← filter_src_allLines _ i data hget, List.filter_filter]
    congr 1
    funext l
    exact Bool.and_comm _ _
  rw [h2] at h1
  exact h1

/-- … and the run always gets there: failing inputs never block the pipeline (from every reachable state
    some execution reaches the consumer's end of stream; every step decreases the C01 measure). -/
theorem failing_inputs_terminate (cls : Line → Cls) {R B K : Nat} (hR : 1 ≤ R) (hB : 1 ≤ B) (hK : 1 ≤ K)
    (W batchSize : Nat) (outcomes : List Outcome) (timer : Nat → Nat → Bool) :
    ∃ s, Reach cls R B K (init (pipelineInputs batchSize timer (outcomes.map Outcome.delivered)) W) s ∧
      s.consDone = true :=
  pipeline_reaches_end cls hR hB hK _ _ _ .refl (Nat.le_refl _)

/-! ## Semaphore accounting -/

/-- The spawn loop of `OpenFilesToChan` and the body of the reader goroutine, taken from the
    regenerated control tree. -/
def spawnLoop : Ctl := (firstLoop Gen.C06.openFilesToChanTree).getD .nil
def readerBody : Ctl := (firstGo spawnLoop).getD .nil

/-- Every acquired semaphore slot is released on every path: per file name the spawner acquires exactly
    one slot (`sema <- struct{}{}`) before starting exactly one goroutine, and EVERY execution path of that
    goroutine (the early return after a failed open, and the normal end after reading) runs `<-sema`
    exactly once (the deferred block) and never acquires; no path contains a construct the path semantics
    does not cover.  Both paths also run `wg.Done()` and `stopFileReading` once. -/
theorem sema_balanced :
    (beforeGo spawnLoop).count "send:sema<-struct{}{}" = 1 ∧
    (traces spawnLoop).all (fun t => t.count "send:sema<-struct{}{}" = 1 ∧ t.count "do:<-sema" = 0) = true ∧
    ((paths spawnLoop).all fun p => p.evs.count .spawn = 1) = true ∧
    (traces readerBody).length = 2 ∧
    ∀ t ∈ traces readerBody,
      t.count "do:<-sema" = 1 ∧ t.count "send:sema<-struct{}{}" = 0 ∧ t.count "do:wg.Done()" = 1 ∧
      t.count "do:out.stopFileReading(goFilename)" = 1 ∧ "<unsupported>" ∉ t := by
  decide

/-- The flat synchronisation skeleton used by C01 agrees: one `send:sema`, one `recv:sema`, the receive
    inside the deferred block that opens the goroutine body. -/
theorem sema_skeleton :
    Gen.Skeleton.openFilesToChan.count "send:sema" = 1 ∧ Gen.Skeleton.openFilesToChan.count "recv:sema" = 1 ∧
    (Gen.Skeleton.openFilesToChan.dropWhile (· ≠ "send:sema")).take 9
      = ["send:sema", "call:wg.Add", "call:out.setSourceCount", "go{", "defer{", "recv:sema", "call:out.stopFileReading",
         "call:wg.Done", "}"] := by
  decide

/-- In the transition system of C01 (start = acquire, finish = release): at every reachable state at most
    `R` (`--readers`) slots are held, and in every terminal state all of them have been released —
    including those of inputs that failed (their goroutine is `active []` and finishes). -/
theorem sema_bounded {α : Type} [DecidableEq α] (cls : α → Cls) (R B K W : Nat) (inputs : List (List (List α)))
    {s : St α} (hr : Reach cls R B K (init inputs W) s) :
    activeCount s ≤ R ∧ (s.consDone = true → W ≥ 1 → activeCount s = 0) := by
  refine ⟨active_le_reach hr (by rw [active_init]; exact Nat.zero_le _), ?_⟩
  intro hd hW
  have hinv := pipeline_invariant cls R B K W inputs hr
  have hrc := (hinv.consdone hd).1
  have hex := hinv.rcclosed hrc
  have hlen := reach_workers_length hr
  have hany : s.workers.any WSt.isExited = true := by
    cases hw : s.workers with
    | nil => rw [hw] at hlen; simp [init] at hlen; omega
    | cons w ws =>
      rw [hw] at hex
      simp only [List.all_cons, Bool.and_eq_true] at hex
      simp [hex.1]
  exact active_zero_of_all_done (hinv.cclosed (hinv.exited hany).1)

/-! ## Exit status -/

/-- Exit status precedence, over the regenerated if-chain of `DetermineErrorState`: 2 if there were read
    errors, else 2 if the aggregator saw unparsable increments, else 1 if nothing matched, else 0; the
    hand model `exitCode` is the same function; the messages are the ones `main` logs. -/
theorem exit_code_precedence (readErrors parseErrors matched : Nat) (agg : Bool) :
    (Gen.C06.determineErrorState readErrors agg parseErrors matched).1
      = Spec.specExit readErrors (if agg then parseErrors else 0) matched ∧
    Gen.C06.determineErrorState readErrors agg parseErrors matched
      = exitCode readErrors (if agg then some parseErrors else none) matched := by
  unfold Gen.C06.determineErrorState Spec.specExit exitCode Gen.C06.exitCodeInvalidUsage Gen.C06.exitCodeNoData
  cases agg <;> simp <;> (repeat' split) <;> simp_all <;> omega

/-- The chain as data, and the constants, are what the theorem above was read against; `main` exits
    with the code carried by the error (and logs its non-empty message). -/
theorem exit_chain_source :
    Gen.C06.chain = [("b.ReadErrors()>0", 2, "Read errors"), ("agg!=nil&&agg.ParseErrors()>0", 2, "Parse errors"),
      ("e.MatchedLines()==0", 1, "")] ∧
    Gen.C06.exitCodeNoData = 1 ∧ Gen.C06.exitCodeInvalidUsage = 2 ∧ Gen.C06.mainFn = Shape.mainFn :=
  ⟨rfl, rfl, rfl, rfl⟩

/-! ## gzip -/

/-- `-z` on content that is not gzip: whatever the header probe consumed, the input is delivered from
    its first byte, completely, without a read error (the `Seek(0)` of the fallback branch). -/
theorem gunzip_fallback (name : Path) (f : FileOracle) (ho : f.canOpen = true) (hd : f.isDir = false)
    (hh : f.gzHeaderOk = false) :
    readOutcome f true = .ok f.content ∧
    (runFile true name f).lines = C04.splitLines f.content ∧
    (runFile true name f).errs = 0 ∧
    (runFile true name f).logs = [.gunzipFallback name] := by
  have h1 : readOutcome f true = .ok f.content := by
    simp [readOutcome, readOutcomeG, openFileToReaderG, ho, hh, streamOf, hd]
  refine ⟨h1, ?_, ?_, ?_⟩
  · rw [runFile_lines, h1]; rfl
  · rw [runFile_errs, h1]; rfl
  · simp [runFile, openFileToReader, openFileToReaderG, ho, hh, streamOf, hd, runStream]

/-- Without the rewind the bytes consumed by the probe would be lost: the seek is what the theorem
    above rests on (`readOutcomeG false` = the code with the `Seek` removed). -/
theorem gunzip_fallback_needs_seek :
    readOutcomeG false ⟨true, false, [104, 105, 10], 2, [], false⟩ true = .ok [10] ∧
    readOutcomeG true ⟨true, false, [104, 105, 10], 2, [], false⟩ true = .ok [104, 105, 10] := by
  decide

/-- `-z` on gzip content delivers what the gzip reader yields; a stream that fails (truncated, corrupt,
    bad checksum) still delivers every line decoded before the failure and is counted once. -/
theorem gunzip_decodes (name : Path) (f : FileOracle) (ho : f.canOpen = true) (hh : f.gzHeaderOk = true) :
    (runFile true name f).lines = C04.splitLines f.gzDecoded ∧
    (runFile true name f).errs = (if f.gzFails then 1 else 0) := by
  cases hf : f.gzFails with
  | false =>
    have h1 : readOutcome f true = .ok f.gzDecoded := by
      simp [readOutcome, readOutcomeG, openFileToReaderG, ho, hh, streamOf, hf]
    exact ⟨by rw [runFile_lines, h1]; rfl, by rw [runFile_errs, h1]; rfl⟩
  | true =>
    have h1 : readOutcome f true = .readErr f.gzDecoded := by
      simp [readOutcome, readOutcomeG, openFileToReaderG, ho, hh, streamOf, hf]
    exact ⟨by rw [runFile_lines, h1]; rfl, by rw [runFile_errs, h1]; rfl⟩

/-! ## Tie to the source -/

/-- The regenerated control skeletons (every statement and condition of `GlobExpand`, `walkRoot`, `isDir`,
    `openFileToReader` and the if-statements of `BuildBatcherFromArguments`) are the ones the model mirrors. -/
theorem code_shape :
    Gen.C06.globExpand = Shape.globExpand ∧ Gen.C06.walkRoot = Shape.walkRoot ∧ Gen.C06.isDir = Shape.isDir ∧
    Gen.C06.openFileToReader = Shape.openFileToReader ∧ Gen.C06.buildBatcher = Shape.buildBatcher :=
  ⟨rfl, rfl, rfl, rfl, rfl⟩

/-! ## Non-vacuity -/

/-! names as byte lists (`ascii` does not reduce in the kernel) -/
def pD : Path := [100]  -- "d"
def pDa : Path := [100, 47, 97]  -- "d/a"
def pDb : Path := [100, 47, 98]  -- "d/b"
def pStar : Path := [42, 46, 108, 111, 103]  -- "*.log"
def pA : Path := [97, 46, 108, 111, 103]  -- "a.log"
def pB : Path := [98, 46, 108, 111, 103]  -- "b.log"
def pX : Path := [120, 91, 49, 93]  -- "x[1]"
def pBad : Path := [97, 91]  -- "a["
def pOk : Path := [111, 107]  -- "ok"
def pGone : Path := [103, 111, 110, 101]  -- "gone"
def pCut : Path := [99, 117, 116, 46, 103, 122]  -- "cut.gz"

/-- A small oracle file system: `d` is a directory with `d/a`, `d/b`; `*.log` matches two files; `x[1]`
    matches nothing; `a[` is not a pattern. -/
def exFs : FsOracle where
  isDir p := p == pD
  walk p := if p == pD then [pDa, pDb] else []
  glob p :=
    if p == pStar then .found [pA, pB]
    else if p == pBad then .badPattern
    else if p == pA then .found [pA]
    else .found []

/-- `rare -R d '*.log' a.log 'x[1]' 'a[' d`: `a.log` is mentioned by two arguments and opened twice, the
    directory twice, the literal fall-backs once each. -/
example : planFiles exFs true [pD, pStar, pA, pX, pBad, pD]
    = [pDa, pDb, pA, pB, pA, pX, pBad,
       pDa, pDb] := by decide

example : (planFiles exFs true [pD, pStar, pA, pX, pBad, pD]).count (pA) = 2 ∧
    Spec.specPlanCount ([pD, pStar, pA, pX, pBad, pD].map (expandArg exFs true)) (pA) = 2 := by
  decide

/-- the hypotheses of `plan_once_per_mention` hold for this oracle -/
example : (∀ p l, exFs.glob p = .found l → l.Nodup) ∧ (∀ p, (exFs.walk p).Nodup) := by
  constructor
  · intro p l h
    simp only [exFs] at h
    split at h
    · cases h; decide
    · split at h
      · cases h
      · split at h <;> cases h <;> simp
  · intro p
    simp only [exFs]
    split <;> decide

/-- three inputs — healthy, missing, gzip cut after the first line and a half — give 2 read errors, exit 2,
    and the healthy input's lines plus the decoded prefix of the cut one. -/
def exFiles (p : Path) : FileOracle :=
  if p == pOk then ⟨true, false, [108, 49, 10, 108, 50, 10] /- "l1\nl2\n" -/, 6, [], false⟩
  else if p == pCut then ⟨true, false, [31, 139, 8, 0, 0, 0, 0, 0, 0, 255, 75, 55] /- a gzip header and the first bytes of a stream -/, 0, [103, 49, 10, 103] /- "g1\ng" -/, true⟩
  else FileOracle.missing

example :
    let r := run ⟨true, false, 3, 1000, .all⟩ [pOk, pGone, pCut]
      ⟨fun _ => false, fun _ => [], fun _ => .found []⟩ exFiles []
    r.readErrors = 2 ∧ r.exit = 2 ∧ r.readLines = 4 ∧
    r.out = [[111, 107, 58, 49, 58, 108, 49] /- ok:1:l1 -/, [111, 107, 58, 50, 58, 108, 50] /- ok:2:l2 -/, [99, 117, 116, 46, 103, 122, 58, 49, 58, 103, 49] /- cut.gz:1:g1 -/, [99, 117, 116, 46, 103, 122, 58, 50, 58, 103] /- cut.gz:2:g -/] := by
  decide

/-- all four exit states are reachable -/
example : (exitCode 1 (some 1) 0).1 = 2 ∧ (exitCode 0 (some 3) 5).1 = 2 ∧ (exitCode 0 (some 0) 0).1 = 1 ∧
    (exitCode 0 none 4).1 = 0 ∧ (exitCode 0 none 0).1 = 1 := by decide

/-- `others_unaffected` is not vacuous: with a failing first input and a missing third one a terminal
    state exists, and there the healthy second input's lines are all consumed. -/
example : ∃ s, Reach (fun _ : Line => Cls.matched) 2 1 5
      (init (pipelineInputs 2 (fun _ _ => false)
        ([Outcome.readErr (ascii "x\ny"), .ok (ascii "a\nb\nc\n"), .openErr].map Outcome.delivered)) 2) s ∧
    s.consDone = true ∧
    (s.consumed.filter fun l => decide (l.src = 1)).Perm
      ((linesOf 1 (ascii "a\nb\nc\n")).filter (isMatched fun _ => Cls.matched)) := by
  obtain ⟨s, hr, hd⟩ := failing_inputs_terminate (fun _ : Line => Cls.matched) (R := 2) (B := 1) (K := 5)
    (by decide) (by decide) (by decide) 2 2 [Outcome.readErr (ascii "x\ny"), .ok (ascii "a\nb\nc\n"), .openErr]
    (fun _ _ => false)
  exact ⟨s, hr, hd, others_unaffected _ 2 1 5 2 2 (by decide) _ _ hr hd 1 _ rfl⟩

/-! # Glob matching and directory walking inside the model

From here on the file system is no oracle any more: it is an abstract directory tree (`Glob.Node`:
files, symbolic links, directories), path look-up follows path_resolution(7), and Go's
`filepath.Match`, `Glob`, `Walk`, `Clean`, `Join` are Lean functions mirrored from go1.23
(`Rare/Model/C06Glob.lean`); `treeFs root` is the `FsOracle` they compute. -/

open Rare.C06.Glob Rare.C06.Spec

/-! # Tie to the source, function level: `GlobExpand`, `walkRoot`, `isDir`, `openFileToReader`

`code_shape` compares statement texts.  Here the translator (harness/extract/c06fn.go) regenerates the four bodies as Lean
FUNCTIONS over oracle parameters (`os.Stat`, `filepath.Walk`, `filepath.Glob`, `os.Open`, `gzip.NewReader`) and the hand model is
proved equal to them for ALL inputs: a changed condition, a swapped branch, a dropped `Seek`, a send of the wrong variable in
/repo changes the regenerated function and breaks one of these theorems. -/

/-- `walkRoot` of the code = `Glob.walkRoot` of the model, on every byte string (`os.IsPathSeparator` = `/`) -/
theorem walkRoot_matches_source (p : Bytes) : Gen.C06.walkRootFn (· == 47) 47 p = Glob.walkRoot p := by
  unfold Gen.C06.walkRootFn Glob.walkRoot
  cases p with
  | nil => simp
  | cons a l =>
    have : (a :: l).getLast? = some ((a :: l).getLastD 0) := by
      rw [List.getLastD_eq_getLast?]
      cases h : (a :: l).getLast? with
      | none => simp at h
      | some x => rfl
    rw [this]
    by_cases h : (a :: l).getLastD 0 = 47 <;> simp

/-- `isDir` of the code (`os.Stat` succeeds and reports a directory; `os.Lstat` is not used) = `Glob.isDir` over a tree -/
theorem isDir_matches_source (root : Node) (p : Bytes) :
    Gen.C06.isDirFn (fun q => (stat root q).map fun n => match n with | .dir _ => true | _ => false)
      (fun q => (lstat root q).map fun n => match n with | .dir _ => true | _ => false) p = Glob.isDir root p := by
  unfold Gen.C06.isDirFn Glob.isDir
  cases h : stat root p with
  | none => simp [h]
  | some n => cases n <;> simp [h]

def pathErrorMsg : String := "Path error: %v; Reading %s as a plain path"

/-- **One iteration of `GlobExpand`'s loop, regenerated from /repo, is `expandArg`** – for every file-system oracle, flag and
    argument: the same names are sent in the same order (the walk's non-directories under `-R` for a directory; else the glob
    matches; else – no match or a bad pattern – the argument itself), and "Path error" is logged exactly for a bad pattern. -/
theorem expand_matches_source (fs : FsOracle) (recursive : Bool) (p : Path) :
    Gen.C06.globExpandFn fs.isDir id (fun q => (fs.walk q).map fun x => (x, false))
        (fun q => match fs.glob q with | .badPattern => none | .found l => some l) recursive p
      = (expandArg fs recursive p, if expandArgBad fs recursive p then [pathErrorMsg] else []) := by
  unfold Gen.C06.globExpandFn expandArg expandArgBad
  by_cases h : (recursive && fs.isDir p) = true
  · simp [h, List.filter_map, Function.comp_def]
  · simp only [h, Bool.false_eq_true, if_false]
    cases fs.glob p with
    | badPattern => simp [pathErrorMsg]
    | found l => by_cases hl : l.length > 0 <;> simp [hl]

/-- … and over a directory tree, with the regenerated `isDir` and `walkRoot` plugged in, it is `expandArg (treeFs root)`:
    the function all glob / walk theorems of this file are about. -/
theorem expand_tree_matches_source (root : Node) (recursive : Bool) (p : Path) :
    Gen.C06.globExpandFn
        (Gen.C06.isDirFn (fun q => (stat root q).map fun n => match n with | .dir _ => true | _ => false)
          (fun q => (lstat root q).map fun n => match n with | .dir _ => true | _ => false))
        (Gen.C06.walkRootFn (· == 47) 47) (fun q => (Glob.walk root q).map fun x => (x, false))
        (fun q => match glob root q with | .badPattern => none | .ok l => some l) recursive p
      = (expandArg (treeFs root) recursive p, if expandArgBad (treeFs root) recursive p then [pathErrorMsg] else []) := by
  rw [← expand_matches_source]
  have e1 : Gen.C06.isDirFn (fun q => (stat root q).map fun n => match n with | .dir _ => true | _ => false)
      (fun q => (lstat root q).map fun n => match n with | .dir _ => true | _ => false) = Glob.isDir root :=
    funext (isDir_matches_source root)
  have e2 : Gen.C06.walkRootFn (· == 47) 47 = Glob.walkRoot := funext walkRoot_matches_source
  rw [e1, e2]
  unfold Gen.C06.globExpandFn
  simp only [treeFs, globRes, id]
  cases glob root p <;> rfl

/-- **`openFileToReader`, regenerated from /repo, is the model's**: open error ⇒ the error; `-z` and a header
    `gzip.NewReader` accepts ⇒ the gzip reader; `-z` and no such header ⇒ the message is logged and the file is read from
    offset 0 BECAUSE the regenerated function ran `Seek(0)` (without it: from where the probe left off, `f.gzProbed`);
    without `-z` ⇒ the file itself. -/
theorem open_matches_source (f : FileOracle) (gunzip : Bool) :
    openFileToReader f gunzip = (Gen.C06.openFileToReaderFn f.canOpen f.gzHeaderOk gunzip).map fun st =>
      (if st.1 then Rd.gz else Rd.plain (if gunzip && !st.2.1 then f.gzProbed else 0), !st.2.2.isEmpty) := by
  unfold openFileToReader openFileToReaderG Gen.C06.openFileToReaderFn
  generalize f.gzHeaderOk = h
  cases f.canOpen <;> cases gunzip <;> cases h <;> simp

/-- the regenerated functions on concrete values: a directory link without trailing slash gets one; a file that is not gzip
    under `-z` is rewound and the message logged; a bad pattern is sent literally with the log line -/
example : Gen.C06.walkRootFn (· == 47) 47 [108, 100] = [108, 100, 47] ∧ Gen.C06.walkRootFn (· == 47) 47 [108, 47] = [108, 47] ∧
    Gen.C06.openFileToReaderFn true false true = some (false, true, ["Gunzip error for file %s: %v; Reading as plain file"]) ∧
    Gen.C06.openFileToReaderFn true true true = some (true, false, []) ∧ Gen.C06.openFileToReaderFn false true true = none ∧
    Gen.C06.globExpandFn (fun _ => false) id (fun _ => []) (fun _ : Path => none) true pBad = ([pBad], [pathErrorMsg]) := by
  decide

/-! ## `filepath.Match` -/

/-- The algorithmic matcher (chunks, backtracking over `*`) decides exactly the declarative relation, for
    every well-formed pattern and every name without `/` (what a directory entry is) in which no character
    is wider than two bytes — or every name without `/` at all when the pattern consists of literal bytes
    and `*` only (`*.log`).  It never reports an error for a well-formed pattern.
    (Both side conditions are needed for Go's matcher: `match_greedy_needs_side_conditions`.) -/
theorem match_eq_spec (pat name : Bytes) (ast : Pat) (hp : Parses pat ast) (hs : slash ∉ name)
    (hg : NoWide name ∨ FixedWidth ast) :
    (goMatch pat name = .matched true ↔ Matches ast name) ∧ (∃ b, goMatch pat name = .matched b) := by
  refine ⟨⟨?_, ?_⟩, goMatch_total pat name ast hp⟩
  · intro h
    obtain ⟨ast', hp', hm⟩ := goMatch_sound pat name h
    rw [parses_unique hp hp']; exact hm
  · intro hm
    exact goMatch_complete pat name ast hp hm hs hg

/-- Soundness needs no side condition: whenever `Match` says yes — for ANY pattern text and ANY name, `/`
    and invalid UTF-8 included — the pattern is well formed and the declarative relation holds. -/
theorem match_sound (pat name : Bytes) (h : goMatch pat name = .matched true) :
    ∃ ast, Parses pat ast ∧ Matches ast name :=
  goMatch_sound pat name h

/-- Bad patterns.  `ErrBadPattern` is only ever reported for a pattern the grammar rejects; a pattern the
    grammar rejects never matches anything; the fuel of the model is never exhausted; and the grammar
    assigns at most one syntax tree.  (The converse "every rejected pattern gives `ErrBadPattern`" is false for
    `filepath.Match`, see `match_error_depends_on_name`.) -/
theorem match_bad_pattern (pat name : Bytes) :
    (goMatch pat name = .badPattern → ¬ WellFormed pat) ∧
    (¬ WellFormed pat → goMatch pat name = .badPattern ∨ goMatch pat name = .matched false) ∧
    goMatch pat name ≠ .outOfFuel ∧
    (∀ a b, Parses pat a → Parses pat b → a = b) := by
  refine ⟨?_, ?_, goMatch_fuel pat name, fun a b ha hb => parses_unique ha hb⟩
  · intro h ⟨ast, hp⟩
    obtain ⟨b, hb⟩ := goMatch_total pat name ast hp
    rw [hb] at h; cases h
  · intro hwf
    cases h : goMatch pat name with
    | badPattern => exact Or.inl rfl
    | outOfFuel => exact absurd h (goMatch_fuel pat name)
    | matched b =>
      cases b with
      | false => exact Or.inr rfl
      | true =>
        obtain ⟨ast, hp, _⟩ := goMatch_sound pat name h
        exact absurd ⟨ast, hp⟩ hwf

/-- go1.23 `filepath.Match` (unlike `path.Match`) does not look at the part of the pattern it never
    reaches: the malformed `a*[` is an error against `ab` and a plain "no match" against `b`.  (So is
    `filepath.Glob`'s verdict: it depends on the directory contents; rare reads the argument as a literal
    path in both cases, `plan_literal_fallback`.) -/
theorem match_error_depends_on_name :
    ¬ WellFormed [97, 42, 91] ∧ goMatch [97, 42, 91] [97, 98] = .badPattern ∧
    goMatch [97, 42, 91] [98] = .matched false := by
  refine ⟨?_, by decide, by decide⟩
  intro hwf
  have := (match_bad_pattern [97, 42, 91] [97, 98]).1 (by decide)
  exact this hwf

/-- The side conditions of `match_eq_spec` cannot be dropped, because of how Go's matcher works:
    `*` skips BYTES while `?` and classes read characters, and the matcher never returns to an earlier `*`.
    * `*?*[�][�]` does not match `😀` (F0 9F 98 80) although `*`=F0, `?`=9F (a stray byte, U+FFFD),
      `*`=ε, 98 and 80 (two more stray bytes) is a match by the rules;
    * `*[/a]*b` does not match `a/b` although `*`=`a`, `[/a]`=`/`, `*`=ε, `b` is one. -/
theorem match_greedy_needs_side_conditions :
    (goMatch [42, 63, 42, 91, 239, 191, 189, 93, 91, 239, 191, 189, 93] [240, 159, 152, 128] = .matched false ∧
      Matches [.star, .any, .star, .cls false [(65533, 65533)], .cls false [(65533, 65533)]] [240, 159, 152, 128] ∧
      Parses [42, 63, 42, 91, 239, 191, 189, 93, 91, 239, 191, 189, 93]
        [.star, .any, .star, .cls false [(65533, 65533)], .cls false [(65533, 65533)]]) ∧
    (goMatch [42, 91, 47, 97, 93, 42, 98] [97, 47, 98] = .matched false ∧
      Matches [.star, .cls false [(47, 47), (97, 97)], .star, .lit 98] [97, 47, 98] ∧
      Parses [42, 91, 47, 97, 93, 42, 98] [.star, .cls false [(47, 47), (97, 97)], .star, .lit 98]) := by
  refine ⟨⟨by decide, ?_, ?_⟩, ⟨by decide, ?_, ?_⟩⟩
  · refine ⟨[240], [159, 152, 128], rfl, by decide, ?_⟩
    refine ⟨by decide, by decide, ?_⟩
    show Matches _ [152, 128]
    refine ⟨[], [152, 128], rfl, by simp, ?_⟩
    refine ⟨by decide, by decide, ?_⟩
    show Matches _ [128]
    exact ⟨by decide, by decide, rfl⟩
  · have h := scan_parses 20 [63] [42, 91, 239, 191, 189, 93, 91, 239, 191, 189, 93] [.any] _ (by decide) (by decide)
      (Parses.star (scan_parses 20 [91, 239, 191, 189, 93, 91, 239, 191, 189, 93] []
        [.cls false [(65533, 65533)], .cls false [(65533, 65533)]] [] (by decide) (by decide) Parses.nil).1)
    exact Parses.star h.1
  · refine ⟨[97], [47, 98], rfl, by decide, ?_⟩
    refine ⟨by decide, by decide, ?_⟩
    show Matches _ [98]
    exact ⟨[], [98], rfl, by simp, ⟨[], rfl, rfl⟩⟩
  · have h := scan_parses 20 [91, 47, 97, 93] [42, 98] [.cls false [(47, 47), (97, 97)]] _ (by decide) (by decide)
      (Parses.star (Parses.lit 98 (by decide) (by decide) (by decide) (by decide) Parses.nil))
    exact Parses.star h.1

/-- A pattern without metacharacters matches exactly that name (any bytes, `/` and invalid UTF-8 included). -/
theorem literal_matches_itself (pat name : Bytes) (h : hasMeta pat = false) :
    goMatch pat name = .matched (decide (name = pat)) ∧ Parses pat (pat.map Item.lit) ∧
    (Matches (pat.map Item.lit) name ↔ name = pat) := by
  refine ⟨goMatch_noMeta pat name h, noMeta_parses pat h, ?_⟩
  constructor
  · intro hm
    have := matchItems_complete (pat.map Item.lit) (by
      intro it hit; simp only [List.mem_map] at hit; obtain ⟨b, _, rfl⟩ := hit; simp) name [] (by simpa using hm)
    obtain ⟨t, ht, htm⟩ := this
    have ht0 : t = [] := htm
    subst ht0
    simpa using (matchItems_lits pat name []).1 ht
  · intro e
    have := matchItems_sound (pat.map Item.lit) name [] ((matchItems_lits pat name []).2 (by simp [e])) [] rfl
    simpa using this

/-- `*` does not cross `/`: a lone `*` matches exactly the names without `/`, and in general a pattern none
    of whose items admits `/` (no literal `/`, no class containing it – `*` and `?` never do) matches no
    name that contains one; this holds for the algorithm on ALL names. -/
theorem star_no_slash (name : Bytes) :
    goMatch [42] name = .matched (decide (slash ∉ name)) ∧
    (∀ pat ast, Parses pat ast → (∀ it ∈ ast, it.admitsSlash = false) →
      goMatch pat name = .matched true → slash ∉ name) := by
  constructor
  · have : (47 : UInt8) ∈ name ↔ slash ∈ name := Iff.rfl
    by_cases h : slash ∈ name
    · have h' : (47 : UInt8) ∈ name := h
      simp [goMatch, goMatchF, scanChunk, scanLen, h, h']
    · have h' : ¬ (47 : UInt8) ∈ name := h
      simp [goMatch, goMatchF, scanChunk, scanLen, h, h']
  · intro pat ast hp hns hm
    obtain ⟨ast', hp', hm'⟩ := goMatch_sound pat name hm
    rw [← parses_unique hp hp'] at hm'
    exact matches_no_slash ast name hm' hns

/-! ## `filepath.Glob` over a tree -/

/-- **Glob returns exactly the matching paths, each once, in lexical order.**  The pattern is
    `lits/…/c₁/…/c_k`: a (possibly empty) literal directory prefix of proper names followed by pattern
    components of which the first has a metacharacter; every component is a well-formed pattern.  Over a
    well-formed tree `filepath.Glob` then succeeds, and its answer
    * contains `p` iff `p` is `start/n₁/…/n_k` with each `n_i` an entry of the directory `start/n₁/…/n_{i-1}`
      (symbolic links to directories are followed, as `os.Stat` does) that matches `c_i` by the declarative
      semantics (`GlobRel`);
    * is strictly increasing in the lexical order of paths (component by component, bytewise), hence
    * lists every path exactly once — the "read exactly once per mention" clause for glob expansions.
    Side condition inherited from `Match`: the components use only literals and `*`, or no entry name of the
    tree has a character wider than two bytes. -/
theorem glob_sound_complete (root : Node) (hw : root.WF) (lits : List Name) (c1 : Bytes) (more : List Bytes)
    (hl : ∀ x ∈ lits, NormalName x ∧ hasMeta x = false) (hc1 : hasMeta c1 = true)
    (hcs : ∀ c ∈ c1 :: more, c ≠ [] ∧ slash ∉ c ∧ WellFormed c)
    (hlen : (c1 :: more).length < pathSeparatorsLimit)
    (hgreedy : (∀ c ∈ c1 :: more, ∀ ast, Parses c ast → FixedWidth ast) ∨
      (∀ d names n, readDirNames root d = some names → n ∈ names → NoWide n)) :
    ∃ l, glob root (intercalateSlash (lits ++ c1 :: more)) = .ok l ∧
      (∀ p, p ∈ l ↔ GlobRel (treeView root) (if lits = [] then dot else intercalateSlash lits) (c1 :: more).reverse p) ∧
      l.Pairwise pathLt ∧ l.Nodup ∧ ∀ p, l.count p ≤ 1 := by
  have hrev : ((c1 :: more).reverse).reverse = c1 :: more := List.reverse_reverse _
  obtain ⟨L, hL, hmem, _, hord⟩ := globF_spec root hw lits hl (c1 :: more).reverse (by simp)
    (fun c hc => hcs c (List.mem_reverse.1 hc))
    (by
      intro c hc ast hp d names n hr hn
      have hnn := (readDirNames_wf root hw d names hr).1 n hn
      have hg : NoWide n ∨ FixedWidth ast := by
        rcases hgreedy with h | h
        · exact Or.inr (h c (List.mem_reverse.1 hc) ast hp)
        · exact Or.inl (h d names n hr hn)
      exact (match_eq_spec c n ast hp hnn.2.1 hg).1)
    (by
      intro c hc
      rw [List.getLast?_reverse] at hc
      simp only [List.head?_cons, Option.some.injEq] at hc
      subst hc; exact hc1)
    pathSeparatorsLimit (by simpa using hlen)
  rw [hrev] at hL
  have hnd : L.Nodup := by
    apply List.Pairwise.imp _ hord
    intro a b hab e
    subst e
    exact compsLt_irrefl _ hab
  exact ⟨L, hL, hmem, hord, hnd, fun p => List.nodup_iff_count.1 hnd p⟩

/-- A pattern without metacharacters is looked up with `Lstat`: it expands to itself if anything (a file, a
    directory, a symbolic link – dangling or not) has that name, and to nothing otherwise; in both cases rare
    opens exactly that path once (`plan_literal_fallback` for the second). -/
theorem glob_literal (root : Node) (p : Bytes) (h : hasMeta p = false) :
    glob root p = .ok (if (lstat root p).isSome then [p] else []) ∧
    expandArg (treeFs root) false p = [p] := by
  have hg : glob root p = .ok (if (lstat root p).isSome then [p] else []) := by
    unfold glob globF pathSeparatorsLimit
    obtain ⟨b, hb⟩ := goMatch_total p [] _ (noMeta_parses p h)
    simp only [hb, h, Bool.not_false, if_true]
    split <;> rfl
  refine ⟨hg, ?_⟩
  simp only [expandArg, Bool.false_and, Bool.false_eq_true, if_false, treeFs, globRes, hg]
  split <;> simp

/-- … and therefore rare opens every path of a glob expansion exactly once for this mention (and the
    literal pattern text, once, when nothing matches). -/
theorem glob_expansion_once (root : Node) (hw : root.WF) (lits : List Name) (c1 : Bytes) (more : List Bytes)
    (hl : ∀ x ∈ lits, NormalName x ∧ hasMeta x = false) (hc1 : hasMeta c1 = true)
    (hcs : ∀ c ∈ c1 :: more, c ≠ [] ∧ slash ∉ c ∧ WellFormed c)
    (hlen : (c1 :: more).length < pathSeparatorsLimit)
    (hgreedy : (∀ c ∈ c1 :: more, ∀ ast, Parses c ast → FixedWidth ast) ∨
      (∀ d names n, readDirNames root d = some names → n ∈ names → NoWide n)) :
    (expandArg (treeFs root) false (intercalateSlash (lits ++ c1 :: more))).Nodup ∧
    ∀ p, GlobRel (treeView root) (if lits = [] then dot else intercalateSlash lits) (c1 :: more).reverse p →
      (expandArg (treeFs root) false (intercalateSlash (lits ++ c1 :: more))).count p = 1 := by
  obtain ⟨l, hg, hmem, _, hnd, _⟩ := glob_sound_complete root hw lits c1 more hl hc1 hcs hlen hgreedy
  have hexp : expandArg (treeFs root) false (intercalateSlash (lits ++ c1 :: more)) =
      if l.length > 0 then l else [intercalateSlash (lits ++ c1 :: more)] := by
    simp only [expandArg, Bool.false_and, Bool.false_eq_true, if_false, treeFs, globRes, hg]
  rw [hexp]
  constructor
  · split
    · exact hnd
    · simp
  · intro p hp
    have hpl : p ∈ l := (hmem p).2 hp
    have : l.length > 0 := List.length_pos_of_mem hpl
    simp only [this, if_true]
    rw [hnd.count]; simp [hpl]

/-! ## The recursive walk -/

/-- **With `-R` every regular file below a directory argument appears exactly once in the plan.**
    `p` is a directory argument made of proper names (`logs`, `a/b`; symbolic links on the way and `p` itself
    being a link to a directory are followed – the fixed `walkRoot`), `isDir(p)` holds.  Then what rare plans
    for this argument is the list of `p/rel`, where `rel` ranges over the relative paths that lead from the
    directory through REAL directories to a non-directory (`Below`): every such path occurs exactly once, nothing
    else occurs, and the list has no duplicates.  As the code has it, a symbolic link inside the tree is such
    a leaf whatever it points to (it is sent as a file and not descended into). -/
theorem walk_each_regular_file_once (root : Node) (hw : root.WF) (ds : List Name) (hne : ds ≠ [])
    (hds : ∀ x ∈ ds, NormalName x) (hdir : Glob.isDir root (intercalateSlash ds) = true) :
    ∃ e, stat root (intercalateSlash ds) = some (.dir e) ∧
      expandArg (treeFs root) true (intercalateSlash ds) = Glob.walk root (walkRoot (intercalateSlash ds)) ∧
      (∀ rel leaf, Below (.dir e) rel leaf →
        (Glob.walk root (walkRoot (intercalateSlash ds))).count (intercalateSlash (ds ++ rel)) = 1) ∧
      (∀ q ∈ Glob.walk root (walkRoot (intercalateSlash ds)), ∃ rel leaf, Below (.dir e) rel leaf ∧
        q = intercalateSlash (ds ++ rel)) ∧
      (Glob.walk root (walkRoot (intercalateSlash ds))).Nodup := by
  unfold Glob.isDir at hdir
  cases hs : stat root (intercalateSlash ds) with
  | none => simp [hs] at hdir
  | some node =>
    cases node with
    | file => simp [hs] at hdir
    | link t => simp [hs] at hdir
    | dir e =>
      have hwalk := walk_simple root hw ds hne hds e hs
      have hwe : Node.WF (.dir e) := stat_wf root hw _ _ hs
      have hsz : (Node.dir e).size ≤ root.size + 2 := by
        obtain ⟨_, _, _, st, _, hat⟩ := walkRoot_dir root ds hne hds e hs
        have := Node.at_size _ root _ hat; omega
      have hiff := relFiles_iff (root.size + 2) (.dir e) hsz
      have hnd := relFiles_nodup (root.size + 2) (.dir e) hwe
      -- `rel ↦ p/rel` is injective on lists of proper names
      have hinj : ∀ r1 ∈ relFiles (root.size + 2) (.dir e), ∀ r2 ∈ relFiles (root.size + 2) (.dir e),
          intercalateSlash (ds ++ r1) = intercalateSlash (ds ++ r2) → r1 = r2 := by
        intro r1 h1 r2 h2 heq
        obtain ⟨l1, hb1⟩ := (hiff r1).1 h1
        obtain ⟨l2, hb2⟩ := (hiff r2).1 h2
        have hs1 := splitSlash_intercalate (ds ++ r1) (by simp [hne]) (by
          intro x hx
          rcases List.mem_append.1 hx with h | h
          · exact (hds x h).2.1
          · exact (hb1.normal hwe x h).2.1)
        have hs2 := splitSlash_intercalate (ds ++ r2) (by simp [hne]) (by
          intro x hx
          rcases List.mem_append.1 hx with h | h
          · exact (hds x h).2.1
          · exact (hb2.normal hwe x h).2.1)
        rw [heq, hs2] at hs1
        exact (List.append_cancel_left hs1).symm
      have hndw : (Glob.walk root (walkRoot (intercalateSlash ds))).Nodup := by
        rw [hwalk, List.Nodup, List.pairwise_map]
        apply List.Pairwise.imp_of_mem _ hnd
        intro a b ha hb hab e
        exact hab (hinj a ha b hb e)
      refine ⟨e, rfl, ?_, ?_, ?_, hndw⟩
      · simp [expandArg, treeFs, Glob.isDir, hs]
      · intro rel leaf hb
        have hm : intercalateSlash (ds ++ rel) ∈ Glob.walk root (walkRoot (intercalateSlash ds)) := by
          rw [hwalk]
          exact List.mem_map.2 ⟨rel, (hiff rel).2 ⟨leaf, hb⟩, rfl⟩
        rw [hndw.count]; simp [hm]
      · intro q hq
        rw [hwalk] at hq
        obtain ⟨rel, hrel, rfl⟩ := List.mem_map.1 hq
        obtain ⟨leaf, hb⟩ := (hiff rel).1 hrel
        exact ⟨rel, leaf, hb, rfl⟩

/-! ## The plan -/

/-- **The final plan is the concatenation over the arguments, in order**: each argument is expanded on its
    own against the tree, a path is opened as many times as the expansions of the arguments contain it (a file
    mentioned twice – literally, or by two patterns – is read twice), and appending arguments appends their inputs. -/
theorem plan_mentions (root : Node) (recursive : Bool) (args args2 : List Path) (x : Path) :
    planFiles (treeFs root) recursive args = (args.map (expandArg (treeFs root) recursive)).flatten ∧
    (planFiles (treeFs root) recursive args).count x
      = ((args.map (expandArg (treeFs root) recursive)).map (List.count x)).sum ∧
    planFiles (treeFs root) recursive (args ++ args2)
      = planFiles (treeFs root) recursive args ++ planFiles (treeFs root) recursive args2 ∧
    (args ≠ [] → args.head? ≠ some dash →
      plan recursive args (treeFs root) = (planFiles (treeFs root) recursive args).map .file) := by
  refine ⟨by simp [planFiles, List.flatMap_def], ?_, by simp [planFiles], (plan_stdin recursive args _).2.1⟩
  unfold planFiles
  rw [List.count_flatMap, List.map_map]

/-! ## Non-vacuity of the glob / walk theorems -/

/-- `rare -R logs 'logs/*.log' '*/*.log' 'logs/a.log' 'x*'` over the tree
    `logs/{a.log, b.log, sub/{c.log, ln -> ../a.log}, é😀.log}`, `ld -> logs`, `x[1]` -/
def exTree : Node :=
  .dir (.cons [108, 111, 103, 115] (.dir
      (.cons [98, 46, 108, 111, 103] .file
      (.cons [97, 46, 108, 111, 103] .file
      (.cons [115, 117, 98] (.dir
          (.cons [99, 46, 108, 111, 103] .file
          (.cons [108, 110] (.link [46, 46, 47, 97, 46, 108, 111, 103]) .nil)))
      (.cons [195, 169, 240, 159, 152, 128, 46, 108, 111, 103] .file .nil)))))
    (.cons [108, 100] (.link [108, 111, 103, 115])
    (.cons [120, 91, 49, 93] .file .nil)))

def nLogs : Name := [108, 111, 103, 115]          -- "logs"
def nLd : Name := [108, 100]                      -- "ld"
def pStarLog : Bytes := [42, 46, 108, 111, 103]   -- "*.log"

theorem exTree_wf : exTree.WF := by
  simp [exTree, Node.WF, Ents.WF, Ents.names, NormalName, dot, dotdot]

theorem pStarLog_parses : Parses pStarLog [.star, .lit 46, .lit 108, .lit 111, .lit 103] :=
  Parses.star (Parses.lit 46 (by decide) (by decide) (by decide) (by decide)
    (Parses.lit 108 (by decide) (by decide) (by decide) (by decide)
    (Parses.lit 111 (by decide) (by decide) (by decide) (by decide)
    (Parses.lit 103 (by decide) (by decide) (by decide) (by decide) Parses.nil))))

/-- `match_eq_spec` applies to `*.log` and the name `é😀.log` (which has a four-byte character) … -/
example : slash ∉ ([195, 169, 240, 159, 152, 128, 46, 108, 111, 103] : Bytes) ∧
    FixedWidth [.star, .lit 46, .lit 108, .lit 111, .lit 103] ∧
    goMatch pStarLog [195, 169, 240, 159, 152, 128, 46, 108, 111, 103] = .matched true := by
  refine ⟨by decide, ?_, by decide⟩
  intro it hit
  simp only [List.mem_cons, List.mem_nil_iff, or_false] at hit
  rcases hit with rfl | rfl | rfl | rfl | rfl <;> simp
/-- … and, with a class, to names of two-byte characters -/
example : NoWide [195, 169, 97] ∧ goMatch [91, 94, 97, 93, 42] [195, 169, 97] = .matched true := by
  refine ⟨?_, by decide⟩
  intro k
  match k with
  | 0 => decide
  | 1 => decide
  | 2 => decide
  | k + 3 => simp [Rare.C20.decode1]

/-- the hypotheses of `glob_sound_complete` hold for `logs/*.log` over `exTree`, and so do its conclusions -/
example : (∀ x ∈ [nLogs], NormalName x ∧ hasMeta x = false) ∧ hasMeta pStarLog = true ∧
    (∀ c ∈ [pStarLog], c ≠ [] ∧ slash ∉ c ∧ WellFormed c) ∧
    (∀ c ∈ [pStarLog], ∀ ast, Parses c ast → FixedWidth ast) ∧
    glob exTree (intercalateSlash ([nLogs] ++ [pStarLog])) = .ok
      [[108, 111, 103, 115, 47, 97, 46, 108, 111, 103], [108, 111, 103, 115, 47, 98, 46, 108, 111, 103],
       [108, 111, 103, 115, 47, 195, 169, 240, 159, 152, 128, 46, 108, 111, 103]] := by
  refine ⟨?_, by decide, ?_, ?_, by decide +kernel⟩
  · intro x hx
    simp only [List.mem_singleton] at hx; subst hx
    exact ⟨by simp [NormalName, nLogs, dot, dotdot], by decide⟩
  · intro c hc
    simp only [List.mem_singleton] at hc; subst hc
    exact ⟨by decide, by decide, ⟨_, pStarLog_parses⟩⟩
  · intro c hc ast hp
    simp only [List.mem_singleton] at hc; subst hc
    rw [parses_unique hp pStarLog_parses]
    intro it hit
    simp only [List.mem_cons, List.mem_nil_iff, or_false] at hit
    rcases hit with rfl | rfl | rfl | rfl | rfl <;> simp

/-- `glob_expansion_once` on the same pattern: the three matches, once each; and a pattern without a match is
    handed on literally -/
example : expandArg (treeFs exTree) false (intercalateSlash ([nLogs] ++ [pStarLog])) =
      [[108, 111, 103, 115, 47, 97, 46, 108, 111, 103], [108, 111, 103, 115, 47, 98, 46, 108, 111, 103],
       [108, 111, 103, 115, 47, 195, 169, 240, 159, 152, 128, 46, 108, 111, 103]] ∧
    expandArg (treeFs exTree) false [110, 111, 42] = [[110, 111, 42]] := by
  constructor <;> decide +kernel

/-- two levels, through the symbolic link `ld -> logs` as well: `*/*.log` -/
example : glob exTree [42, 47, 42, 46, 108, 111, 103] = .ok
    [[108, 100, 47, 97, 46, 108, 111, 103], [108, 100, 47, 98, 46, 108, 111, 103],
     [108, 100, 47, 195, 169, 240, 159, 152, 128, 46, 108, 111, 103],
     [108, 111, 103, 115, 47, 97, 46, 108, 111, 103], [108, 111, 103, 115, 47, 98, 46, 108, 111, 103],
     [108, 111, 103, 115, 47, 195, 169, 240, 159, 152, 128, 46, 108, 111, 103]] := by decide +kernel

/-- `walk_each_regular_file_once`: `-R ld` (a link to the directory) lists the four non-directories below `logs`
    under the name the user gave; the link `sub/ln` is listed as a file, not followed -/
example : Glob.isDir exTree (intercalateSlash [nLd]) = true ∧
    Glob.walk exTree (walkRoot (intercalateSlash [nLd])) =
      [[108, 100, 47, 97, 46, 108, 111, 103], [108, 100, 47, 98, 46, 108, 111, 103],
       [108, 100, 47, 115, 117, 98, 47, 99, 46, 108, 111, 103], [108, 100, 47, 115, 117, 98, 47, 108, 110],
       [108, 100, 47, 195, 169, 240, 159, 152, 128, 46, 108, 111, 103]] := by
  constructor <;> decide +kernel

example : Below exTree [nLogs, [115, 117, 98], [108, 110]] (.link [46, 46, 47, 97, 46, 108, 111, 103]) :=
  Below.step (e := _) rfl (Below.step rfl (Below.step rfl (Below.here _ rfl)))

/-- the whole plan of `rare -R logs 'x[1]' 'x[1]' 'a['`: the directory walked, the literal fallback of a pattern without
    match twice (two mentions), the bad pattern as a literal path -/
example : planFiles (treeFs exTree) true [nLogs, [120, 91, 49, 93], [120, 91, 49, 93], [97, 91]] =
    [[108, 111, 103, 115, 47, 97, 46, 108, 111, 103], [108, 111, 103, 115, 47, 98, 46, 108, 111, 103],
     [108, 111, 103, 115, 47, 115, 117, 98, 47, 99, 46, 108, 111, 103], [108, 111, 103, 115, 47, 115, 117, 98, 47, 108, 110],
     [108, 111, 103, 115, 47, 195, 169, 240, 159, 152, 128, 46, 108, 111, 103],
     [120, 91, 49, 93], [120, 91, 49, 93], [97, 91]] := by decide +kernel

/-! # Read faults: counted once, and counted before the end of the inputs is visible -/

/-- **A failing read is counted exactly once whatever comes with it** (the scanner under the reader goroutine,
    C04's model of `ImmediateReadAhead` over a scripted reader).  If the first `Read` that returns an error
    returns a failure – with no bytes or WITH bytes, containing a line end or not (what `compress/gzip` does
    for a stream cut inside a line) – then the `OnError` callback (⇒ `incErrors`) has fired exactly once at the
    end of the scan, and the lines handed on are the lines of all the bytes delivered.  So the abstraction
    `runStream name delivered true` used by `runFile` (one error, `splitLines delivered`) is what the code does. -/
theorem read_fault_counted (bufSize : Nat) (data : Bytes) (script : List C04.Step) (h : 1 ≤ bufSize)
    (hf : C04.failsFirst script = true) (name : Bytes) :
    (C04.Imm.run bufSize data script).2.2.errs = 1 ∧
    (C04.Imm.run bufSize data script).1.map (·.2) = C04.splitLines (C04.Imm.run bufSize data script).2.2.delivered ∧
    (runStream name (C04.Imm.run bufSize data script).2.2.delivered true).errs
      = (C04.Imm.run bufSize data script).2.2.errs ∧
    (runStream name (C04.Imm.run bufSize data script).2.2.delivered true).lines
      = (C04.Imm.run bufSize data script).1.map (·.2) := by
  obtain ⟨h1, h2⟩ := C04.imm_fault_counted bufSize data script h hf
  exact ⟨h1, h2, by simp [runStream, h1], by simp [runStream, h2]⟩

/-- the error arrives together with the last bytes, which hold no line end (`k` + failure): one error, the
    partial line is handed on -/
example : C04.failsFirst [⟨1, some .fail⟩] = true ∧
    (C04.Imm.run 16 [107] [⟨1, some .fail⟩]).2.2.errs = 1 ∧
    (C04.Imm.run 16 [107] [⟨1, some .fail⟩]).1.map (·.2) = [[107]] := by decide

/-- **Every read/open error of a source is counted before the batch channel closes** – in the pipeline transition
    system extended with the batcher's error counter (`Model/C06Pipe.lean`): `fails[i]` says that source `i`
    will call `incErrors` (its open fails / its reader fails; once per source by `read_fault_counted` and
    `errors_counted`).  For every reader/worker count, channel capacity and EVERY schedule, in every reachable
    state: a source that is `done` (its goroutine passed `wg.Done()`) has its error counted; counted + still
    pending = number of failing sources; hence as soon as the batch channel is closed – a fortiori when the
    consumer has seen the end of the stream and `DetermineErrorState` reads `ReadErrors()` – the counter equals
    the number of failing sources.  The run projects onto a run of the C01 pipeline (all C01/C06 theorems apply). -/
theorem errors_counted_before_close {α : Type} [DecidableEq α] (cls : α → Cls) (R B K W : Nat)
    (inputs : List (List (List α))) (fails : List Bool) (hl : fails.length = inputs.length)
    {es : Pipe.ESt α} (hr : Pipe.EReach cls R B K (Pipe.einit inputs W fails) es) :
    Reach cls R B K (init inputs W) es.lts ∧
    es.errs + Pipe.pendingCount es.pending = Spec.specErrors fails ∧
    (∀ i : Nat, es.lts.srcs[i]? = some SrcSt.done → es.pending[i]? ≠ some true) ∧
    (es.lts.cClosed = true → es.errs = Spec.specErrors fails) ∧
    (es.lts.consDone = true → W ≥ 1 → es.errs = Spec.specErrors fails) := by
  have hproj : Reach cls R B K (init inputs W) es.lts := Pipe.ereach_proj hr
  have hinv := Pipe.einv_reach hr (Pipe.einv_init inputs W fails hl)
  have hpinv := pipeline_invariant cls R B K W inputs hproj
  have hclosed : es.lts.cClosed = true → es.errs = Spec.specErrors fails := by
    intro hc
    have h0 := Pipe.pending_zero_of_all_done hinv (hpinv.cclosed hc)
    have := hinv.sum
    simp only [Pipe.pendingCount, Spec.specErrors] at this h0 ⊢
    omega
  refine ⟨hproj, ?_, ?_, hclosed, ?_⟩
  · have := hinv.sum
    simpa [Pipe.pendingCount, Spec.specErrors] using this
  · intro i hd hp
    obtain ⟨st, hst, hnd⟩ := hinv.live i hp
    rw [hd] at hst
    cases hst
    simp [SrcSt.isDone] at hnd
  · intro hd hW
    apply hclosed
    have hrc := (hpinv.consdone hd).1
    have hex := hpinv.rcclosed hrc
    have hlen := reach_workers_length hproj
    have hany : es.lts.workers.any WSt.isExited = true := by
      cases hw : es.lts.workers with
      | nil => rw [hw] at hlen; simp [init] at hlen; omega
      | cons w ws =>
        rw [hw] at hex
        simp only [List.all_cons, Bool.and_eq_true] at hex
        simp [hex.1]
    exact (hpinv.exited hany).1

/-- the extended system is not blocked by its guard: a failing source that has sent everything can always count its
    error, and a source without a pending error finishes as in the pipeline -/
theorem error_count_enabled {α : Type} (cls : α → Cls) (R B K : Nat) (es : Pipe.ESt α) (i : Nat)
    (ha : es.lts.srcs[i]? = some (.active [])) :
    (es.pending[i]? = some true →
      Pipe.EStep cls R B K es { es with errs := es.errs + 1, pending := es.pending.set i false }) ∧
    (es.pending[i]? ≠ some true →
      Pipe.EStep cls R B K es { es with lts := { es.lts with srcs := es.lts.srcs.set i .done } }) := by
  refine ⟨fun hp => .count es i [] ha hp, fun hp => ?_⟩
  refine .move es _ (.finish es.lts i ha) ?_
  intro j hj hd
  by_cases e : j = i
  · subst e; exact absurd hj hp
  · simpa [List.getElem?_set_ne (Ne.symm e)] using hd

/-- **The code counts before it signals**: over the control tree regenerated from `OpenFilesToChan`, on every
    execution path of the reader goroutine NOTHING runs after `wg.Done()` – the path ends with the deferred block
    `<-sema; out.stopFileReading(…); wg.Done()` (status display before the WaitGroup, /repo 7025f4b):
    the statements that can count an error – `out.incErrors()` of the open-failure branch and
    `out.syncReaderToBatcher(…)` with its `OnError` callback – all precede it, and the open-failure path does
    count.  (The guard of `Pipe.EStep.move`; in real runs: the `errtrace` op.) -/
theorem error_count_precedes_done :
    ∀ t ∈ traces readerBody,
      t.dropWhile (· ≠ "do:<-sema") = ["do:<-sema", "do:out.stopFileReading(goFilename)", "do:wg.Done()"] ∧
      (t.dropWhile (· ≠ "do:wg.Done()")).drop 1 = [] ∧
      ((t.takeWhile (· ≠ "do:wg.Done()")).contains "do:out.incErrors()" ∨
       (t.takeWhile (· ≠ "do:wg.Done()")).contains "do:out.syncReaderToBatcher(goFilename,file,batchSize)") ∧
      "do:out.incErrors()" ∉ t.dropWhile (· ≠ "do:wg.Done()") := by
  decide

/-- **The trace rule implies the order**: an event log that passes `ErrTrace.check` (no goroutine logs `src.err`
    after its own `sema.rel`, every `sema.rel` precedes `c.wait`, `c.wait` precedes `c.close`) has every `src.err`
    before `c.close`. -/
theorem errtrace_rule_sound (tr : List ErrTrace.TEv) (h : ErrTrace.check tr = true) :
    ∃ c, ErrTrace.posOf tr "cc" = some c ∧ ∀ (k : Nat) (e : ErrTrace.TEv), tr[k]? = some e → e.kind = "se" → k < c := by
  obtain ⟨w, c, _, hc, _, hall⟩ := ErrTrace.check_sound tr h
  refine ⟨c, hc, ?_⟩
  intro k e hk hs
  obtain ⟨_, _, _, _, _, _, _, hlt⟩ := hall k e hk hs
  exact hlt

/-- a log of the unchanged code (missing file after a good one, one reader) passes; the log of the code that counts
    in the deferred block after `wg.Done()` does not -/
example :
    ErrTrace.check [⟨0, "aq", 0⟩, ⟨1, "rs", 0⟩, ⟨1, "so", 0⟩, ⟨1, "rl", 0⟩, ⟨0, "aq", 1⟩, ⟨2, "rs", 1⟩, ⟨2, "se", 9⟩,
      ⟨2, "rl", 1⟩, ⟨1, "sc", 0⟩, ⟨2, "sc", 1⟩, ⟨0, "cw", 9⟩, ⟨0, "cc", 9⟩] = true ∧
    ErrTrace.check [⟨0, "aq", 0⟩, ⟨1, "rs", 0⟩, ⟨1, "so", 0⟩, ⟨1, "rl", 0⟩, ⟨0, "aq", 1⟩, ⟨2, "rs", 1⟩,
      ⟨2, "rl", 1⟩, ⟨1, "sc", 0⟩, ⟨2, "sc", 1⟩, ⟨0, "cw", 9⟩, ⟨0, "cc", 9⟩, ⟨2, "se", 9⟩] = false := by decide

/-- `errors_counted_before_close` is not vacuous: a source that cannot be opened – the run in which it starts, counts
    its error, finishes, and the channel closes -/
example : ∃ es : Pipe.ESt Nat,
    Pipe.EReach (fun _ => Cls.matched) 1 1 1 (Pipe.einit [[]] 1 [true]) es ∧
    es.lts.cClosed = true ∧ es.errs = 1 := by
  have r1 : Pipe.EReach (fun _ : Nat => Cls.matched) 1 1 1 (Pipe.einit [[]] 1 [true]) _ :=
    .step .refl (.move _ _ (.start _ 0 [] rfl (by decide)) (by intro i _ hd; cases i <;> simp [Pipe.einit, init] at hd))
  have r2 := Pipe.EReach.step r1 (.count _ 0 [] rfl rfl)
  have r3 := Pipe.EReach.step r2 (.move _ _ (.finish _ 0 rfl) (by intro i hp _; cases i <;> simp [Pipe.einit] at hp))
  have r4 := Pipe.EReach.step r3 (.move _ _ (.closeC _ (by decide) rfl) (by intro i _ hd; exact hd))
  exact ⟨_, r4, rfl, rfl⟩

/-! # gzip: what IS a gzip file is decided by the model of the header parser -/

/-- **`gzip.NewReader` accepts exactly the RFC 1952 member headers** (as Go reads them: FTEXT and the reserved flag
    bits are not looked at): `readHeader s = ok n` iff `s` begins with the encoding of a header – magic `1f 8b`,
    CM = 8, FLG, six fixed bytes, then, as the FLG bits say, XLEN + extra field, zero-terminated name, zero-terminated
    comment (each at most 511 bytes), CRC16 of all that – and `n` is the length of that encoding, i.e. the offset at
    which the DEFLATE data starts. -/
theorem gzip_header_spec (s : Bytes) (n : Nat) :
    Gz.readHeader s = .ok n ↔ ∃ hd : Gz.Hdr, hd.WF ∧ hd.encode <+: s ∧ n = hd.encode.length := by
  constructor
  · intro h
    unfold Gz.readHeader at h
    cases hr : Gz.readHeaderRest s with
    | error e => simp [hr] at h
    | ok rest =>
      simp only [hr, Gz.HdrRes.ok.injEq] at h
      obtain ⟨hd, hw, hs⟩ := Gz.readHeaderRest_sound s rest hr
      refine ⟨hd, hw, ⟨rest, hs.symm⟩, ?_⟩
      rw [← h, hs]; simp
  · intro ⟨hd, hw, ⟨rest, hs⟩, hn⟩
    unfold Gz.readHeader
    rw [← hs, Gz.readHeaderRest_encode hd hw rest, hn]
    simp

/-- **With `-z` a file is read through the gzip reader iff it begins with such a header; every other file is read
    as it is, from its first byte, without a read error.** -/
theorem gunzip_decided_by_header (name : Path) (f : FileOracle) (ho : f.canOpen = true) (hd : f.isDir = false) :
    (f.gzHeaderOk = true ↔ ∃ hd : Gz.Hdr, hd.WF ∧ hd.encode <+: f.content) ∧
    ((¬ ∃ hd : Gz.Hdr, hd.WF ∧ hd.encode <+: f.content) →
      readOutcome f true = .ok f.content ∧ (runFile true name f).lines = C04.splitLines f.content ∧
      (runFile true name f).errs = 0) := by
  have hiff : f.gzHeaderOk = true ↔ ∃ hd : Gz.Hdr, hd.WF ∧ hd.encode <+: f.content := by
    unfold FileOracle.gzHeaderOk Gz.headerOk
    cases hr : Gz.readHeader f.content with
    | ok n =>
      simp only [true_iff]
      obtain ⟨hd', hw, hp, _⟩ := (gzip_header_spec f.content n).1 hr
      exact ⟨hd', hw, hp⟩
    | err e =>
      simp only [Bool.false_eq_true, false_iff]
      intro ⟨hd', hw, hp⟩
      have := (gzip_header_spec f.content hd'.encode.length).2 ⟨hd', hw, hp, rfl⟩
      rw [hr] at this; cases this
  refine ⟨hiff, fun hn => ?_⟩
  have hh : f.gzHeaderOk = false := by
    cases h : f.gzHeaderOk with
    | false => rfl
    | true => exact absurd (hiff.1 h) hn
  obtain ⟨h1, h2, h3, _⟩ := gunzip_fallback name f ho hd hh
  exact ⟨h1, h2, h3⟩

/-- Go against the letter of RFC 1952: the reserved FLG bits (and FTEXT) are ignored, `1f 8b 08 e1 …` is a gzip
    file for rare; a wrong method byte, a wrong header CRC, a name that does not end, a header cut short are not –
    those files are read as plain files; an empty file is `io.EOF` (also read as a plain, empty, file). -/
theorem gzip_header_quirks :
    Gz.readHeader [0x1f, 0x8b, 8, 0xe1, 0, 0, 0, 0, 0, 3, 3, 0] = .ok 10 ∧
    Gz.readHeader [0x1f, 0x8b, 7, 0, 0, 0, 0, 0, 0, 3, 3, 0] = .err .header ∧
    Gz.readHeader [0x1f, 0x8b, 8, 8, 0, 0, 0, 0, 0, 3, 97, 98] = .err .unexpectedEOF ∧
    Gz.readHeader [0x1f, 0x8b, 8] = .err .unexpectedEOF ∧
    Gz.readHeader [] = .err .eof ∧
    Gz.readHeader [0x1f, 0x8b, 8, 2, 0, 0, 0, 0, 0, 3, 0, 0] = .err .header := by
  decide +kernel

/-- `gzip_header_spec` is not vacuous: a header with an extra field, a name and a header CRC -/
example : (⟨0x0e, [0, 0, 0, 0, 0, 3], [1, 2], [97], []⟩ : Gz.Hdr).WF ∧
    (⟨0x0e, [0, 0, 0, 0, 0, 3], [1, 2], [97], []⟩ : Gz.Hdr).encode
      = [0x1f, 0x8b, 8, 0x0e, 0, 0, 0, 0, 0, 3, 2, 0, 1, 2, 97, 0, 73, 4] ∧
    Gz.readHeader ([0x1f, 0x8b, 8, 0x0e, 0, 0, 0, 0, 0, 3, 2, 0, 1, 2, 97, 0, 73, 4] ++ [3, 0]) = .ok 18 := by
  refine ⟨⟨rfl, by decide, ⟨by decide, by decide⟩, ⟨by decide, by decide⟩⟩, by decide +kernel, by decide +kernel⟩

/-! # gzip: what a gzip file DELIVERS is decided by the model of the decoder -/

theorem ofBytes_headerOk (h : Gz.Hdr) (hw : h.WF) (rest : Bytes) :
    (FileOracle.ofBytes (h.encode ++ rest)).gzHeaderOk = true := by
  unfold FileOracle.gzHeaderOk Gz.headerOk Gz.readHeader
  have e : (FileOracle.ofBytes (h.encode ++ rest)).content = h.encode ++ rest := rfl
  rw [e, Gz.readHeaderRest_encode h hw rest]

/-- **A gzip file is delivered decompressed, completely and without a read error** – for every file that consists of
    gzip members (any header `gzip.NewReader` accepts: extra field, name, comment, header CRC) whose DEFLATE streams are
    sequences of stored blocks: `rare -z` hands on exactly the lines of the concatenated member contents.  Several
    members (`cat a.gz b.gz`) are one input.  (The decoder model also covers fixed and dynamic Huffman blocks; for those
    the model is compared with `compress/gzip` on generated files, op `gunzip`.) -/
theorem gzip_decoded_faithfully (name : Path) (m : Gz.Hdr × List Bytes) (ms : List (Gz.Hdr × List Bytes))
    (hms : Gz.MembersOk (m :: ms)) :
    Gz.gunzip (Gz.fileStored (m :: ms)) = some (Gz.fileData (m :: ms), false) ∧
    (runFile true name (FileOracle.ofBytes (Gz.fileStored (m :: ms)))).lines = C04.splitLines (Gz.fileData (m :: ms)) ∧
    (runFile true name (FileOracle.ofBytes (Gz.fileStored (m :: ms)))).errs = 0 := by
  have hg : Gz.gunzip (Gz.fileStored (m :: ms)) = some (Gz.fileData (m :: ms), false) := by
    have := Gz.gunzip_fileStored m ms hms [] (fun r h => by cases h)
    simpa using this
  have hh : (FileOracle.ofBytes (Gz.fileStored (m :: ms))).gzHeaderOk = true := by
    have := ofBytes_headerOk m.1 (hms m (by simp)).1 (Gz.deflateStored m.2 ++ Gz.trailer m.2.flatten ++ Gz.fileStored ms)
    simpa [Gz.fileStored, Gz.memberStored] using this
  obtain ⟨h1, h2⟩ := gunzip_decodes name (FileOracle.ofBytes (Gz.fileStored (m :: ms))) rfl hh
  refine ⟨hg, ?_, ?_⟩
  · rw [h1]; simp [FileOracle.ofBytes, gzAnswers, hg]
  · rw [h2]; simp [FileOracle.ofBytes, gzAnswers, hg]

/-- **A truncated gzip file is a read error, at every cut point** after the header: the lines of the data that was
    decoded before the cut are handed on (a prefix of the content), the input is counted once as a read error – never
    silently taken for a complete file.  (`compress/flate` reports `io.ErrUnexpectedEOF`, inside a block as well as
    between the last block and the trailer, and inside the trailer.) -/
theorem gzip_truncated_counted (name : Path) (h : Gz.Hdr) (hw : h.WF) (cs : List Bytes) (hok : Gz.ChunksOk cs) (k : Nat)
    (hk1 : h.encode.length ≤ k) (hk2 : k < (Gz.memberStored h cs).length) :
    ∃ d : Bytes, d <+: cs.flatten ∧
      (runFile true name (FileOracle.ofBytes ((Gz.memberStored h cs).take k))).lines = C04.splitLines d ∧
      (runFile true name (FileOracle.ofBytes ((Gz.memberStored h cs).take k))).errs = 1 := by
  obtain ⟨d, hg, hp⟩ := Gz.gunzip_cut h hw cs hok k hk1 hk2
  have hh : (FileOracle.ofBytes ((Gz.memberStored h cs).take k)).gzHeaderOk = true := by
    have e : (Gz.memberStored h cs).take k = h.encode ++ (Gz.deflateStored cs ++ Gz.trailer cs.flatten).take (k - h.encode.length) := by
      unfold Gz.memberStored
      rw [List.append_assoc, List.take_append, List.take_of_length_le hk1]
    rw [e]
    exact ofBytes_headerOk h hw _
  obtain ⟨h1, h2⟩ := gunzip_decodes name (FileOracle.ofBytes ((Gz.memberStored h cs).take k)) rfl hh
  refine ⟨d, hp, ?_, ?_⟩
  · rw [h1]; simp [FileOracle.ofBytes, gzAnswers, hg]
  · rw [h2]; simp [FileOracle.ofBytes, gzAnswers, hg]

/-- **Bytes after the last member that are not a gzip header are a read error** (after all the data has been handed
    on): `gzip.Reader` looks for another member after every trailer. -/
theorem gzip_trailing_garbage_counted (name : Path) (m : Gz.Hdr × List Bytes) (ms : List (Gz.Hdr × List Bytes))
    (hms : Gz.MembersOk (m :: ms)) (tail : Bytes) (hne : tail ≠ []) (ht : Gz.NoHeader tail) :
    (runFile true name (FileOracle.ofBytes (Gz.fileStored (m :: ms) ++ tail))).lines = C04.splitLines (Gz.fileData (m :: ms)) ∧
    (runFile true name (FileOracle.ofBytes (Gz.fileStored (m :: ms) ++ tail))).errs = 1 := by
  have hg := Gz.gunzip_fileStored m ms hms tail ht
  simp only [hne, ne_eq, not_false_eq_true, decide_true] at hg
  have hh : (FileOracle.ofBytes (Gz.fileStored (m :: ms) ++ tail)).gzHeaderOk = true := by
    have := ofBytes_headerOk m.1 (hms m (by simp)).1 (Gz.deflateStored m.2 ++ Gz.trailer m.2.flatten ++ Gz.fileStored ms ++ tail)
    simpa [Gz.fileStored, Gz.memberStored] using this
  obtain ⟨h1, h2⟩ := gunzip_decodes name (FileOracle.ofBytes (Gz.fileStored (m :: ms) ++ tail)) rfl hh
  refine ⟨?_, ?_⟩
  · rw [h1]; simp [FileOracle.ofBytes, gzAnswers, hg]
  · rw [h2]; simp [FileOracle.ofBytes, gzAnswers, hg]

/-- **`rare -z` on ANY file content is the model's `gunzip` of those bytes**: when `gzip.NewReader` refuses the content
    (`gunzip = none`) the lines of the content itself are handed on and nothing is counted; otherwise the lines of what
    the decoder delivers, and one read error iff the stream did not end with `io.EOF`. -/
theorem gzip_run_is_model (name : Path) (s : Bytes) :
    (runFile true name (FileOracle.ofBytes s)).lines
      = C04.splitLines (match Gz.gunzip s with | some (d, _) => d | none => s) ∧
    (runFile true name (FileOracle.ofBytes s)).errs = (match Gz.gunzip s with | some (_, true) => 1 | _ => 0) := by
  cases hr : Gz.readHeaderRest s with
  | error e =>
    have hg : Gz.gunzip s = none := by simp [Gz.gunzip, hr]
    have hh : (FileOracle.ofBytes s).gzHeaderOk = false := by
      show Gz.headerOk s = false
      simp [Gz.headerOk, Gz.readHeader, hr]
    obtain ⟨_, h2, h3, _⟩ := gunzip_fallback name (FileOracle.ofBytes s) rfl rfl hh
    rw [h2, h3, hg]
    exact ⟨rfl, rfl⟩
  | ok r =>
    have hg : Gz.gunzip s = some (Gz.gunzipFrom (s.length + 1) r) := by simp [Gz.gunzip, hr]
    have hh : (FileOracle.ofBytes s).gzHeaderOk = true := by
      show Gz.headerOk s = true
      simp [Gz.headerOk, Gz.readHeader, hr]
    obtain ⟨h1, h2⟩ := gunzip_decodes name (FileOracle.ofBytes s) rfl hh
    rw [h1, h2, hg]
    simp only [FileOracle.ofBytes, gzAnswers, hg]
    generalize Gz.gunzipFrom (s.length + 1) r = p
    obtain ⟨d, e⟩ := p
    cases e <;> simp

/-- **A truncated file of SEVERAL gzip members is a read error at every cut point except exactly between two members.**
    `ms` are the members (`cat a.gz b.gz`, stored blocks, any accepted headers), `k` any cut point that leaves the first
    header intact (`gzip_cut_in_header_is_plain` otherwise).  `k` falls into some member `m` at offset `j`, after the
    complete members `ms1`: the lines of `ms1`'s data and of a PREFIX of `m`'s data are handed on, and the input is
    counted once as a read error – inside `m`'s header as well as inside its DEFLATE stream or trailer – unless `j = 0`:
    a file that ends with a complete member IS a complete gzip file, nothing can tell it was longer. -/
theorem gzip_truncated_multi_counted (name : Path) (ms : List (Gz.Hdr × List Bytes)) (hms : Gz.MembersOk ms) (k : Nat)
    (hk1 : ∀ m, ms.head? = some m → m.1.encode.length ≤ k) (hk2 : k < (Gz.fileStored ms).length) :
    ∃ (ms1 : List (Gz.Hdr × List Bytes)) (m : Gz.Hdr × List Bytes) (ms2 : List (Gz.Hdr × List Bytes)) (j : Nat) (d : Bytes),
      ms = ms1 ++ m :: ms2 ∧ k = (Gz.fileStored ms1).length + j ∧ j < (Gz.memberStored m.1 m.2).length ∧
      d <+: m.2.flatten ∧
      (runFile true name (FileOracle.ofBytes ((Gz.fileStored ms).take k))).lines = C04.splitLines (Gz.fileData ms1 ++ d) ∧
      (runFile true name (FileOracle.ofBytes ((Gz.fileStored ms).take k))).errs = (if j = 0 then 0 else 1) := by
  obtain ⟨ms1, m, ms2, j, h1, h2, h3, h4⟩ := Gz.fileStored_cut_decompose ms k hk2
  have hms' : Gz.MembersOk (ms1 ++ [m]) := by
    intro x hx
    apply hms x
    rw [h1]
    simp only [List.mem_append, List.mem_cons, List.not_mem_nil, or_false] at hx ⊢
    rcases hx with hx | hx
    · exact Or.inl hx
    · exact Or.inr (Or.inl hx)
  have hfirst : ms1 = [] → m.1.encode.length ≤ j := by
    intro e
    subst e
    have := hk1 m (by rw [h1]; rfl)
    simp only [Gz.fileStored, List.length_nil, Nat.zero_add] at h2
    omega
  obtain ⟨d, hd, hg⟩ := Gz.gunzip_cut_file ms1 m hms' j h3 hfirst
  obtain ⟨r1, r2⟩ := gzip_run_is_model name ((Gz.fileStored ms).take k)
  refine ⟨ms1, m, ms2, j, d, h1, h2, h3, hd, ?_, ?_⟩
  · rw [r1, h4, hg]
  · rw [r2, h4, hg]
    by_cases hj : j = 0 <;> simp [hj]

/-- the hypotheses of the three theorems above are satisfiable: two members (one with a name and a header CRC, in two
    blocks, one of them empty), a cut inside the second block's data, a trailing newline as garbage -/
example : Gz.MembersOk [(⟨0x0a, [0, 0, 0, 0, 0, 3], [], [97], []⟩, [[104, 105, 10], [], [120, 10]]), (⟨0, [0, 0, 0, 0, 0, 3], [], [], []⟩, [[]])] ∧
    Gz.NoHeader [10] ∧
    Gz.gunzip ((Gz.memberStored ⟨0, [0, 0, 0, 0, 0, 3], [], [], []⟩ [[104, 105, 10, 120, 10]]).take 19) = some ([104, 105, 10, 120], true) := by
  refine ⟨?_, ?_, by decide +kernel⟩
  · intro m hm
    simp only [List.mem_cons, List.not_mem_nil, or_false] at hm
    rcases hm with rfl | rfl
    · exact ⟨⟨rfl, by decide, ⟨by decide, by decide⟩, ⟨by decide, by decide⟩⟩, by decide, by decide⟩
    · exact ⟨⟨rfl, by decide, ⟨by decide, by decide⟩, ⟨by decide, by decide⟩⟩, by decide, by decide⟩
  · intro r h
    simp [Gz.readHeaderRest, Gz.readFull] at h

/-- `gzip_truncated_multi_counted` on a file of two members (`hi\n` and `x\n`): cut inside the second member's header
    (26 + 4, 26 + 1 bytes), at the member boundary (26 bytes: complete file, no error), inside the second member's block
    header and inside its trailer -/
example :
    let f := Gz.fileStored [(⟨0, [0, 0, 0, 0, 0, 3], [], [], []⟩, [[104, 105, 10]]), (⟨0, [0, 0, 0, 0, 0, 3], [], [], []⟩, [[120, 10]])]
    f.length = 51 ∧ Gz.gunzip (f.take 30) = some ([104, 105, 10], true) ∧ Gz.gunzip (f.take 27) = some ([104, 105, 10], true) ∧
    Gz.gunzip (f.take 26) = some ([104, 105, 10], false) ∧ Gz.gunzip (f.take 38) = some ([104, 105, 10], true) ∧
    Gz.gunzip (f.take 50) = some ([104, 105, 10, 120, 10], true) ∧ Gz.gunzip f = some ([104, 105, 10, 120, 10], false) := by
  decide +kernel

/-- Huffman blocks, checked by the kernel on two real files (`gzip -9`): a fixed-Huffman block with a match, and a
    dynamic-Huffman block (code length code, repeat codes, two code tables) of 150 bytes of text -/
example : Gz.gunzip [31, 139, 8, 0, 0, 0, 0, 0, 2, 3, 115, 119, 13, 81, 208, 79, 228, 114, 135, 80, 0, 160, 157, 184, 148, 14, 0, 0, 0] = some ([71, 69, 84, 32, 47, 97, 10, 71, 69, 84, 32, 47, 97, 10], false) := by decide +kernel

set_option maxRecDepth 100000 in
example : Gz.gunzip [31, 139, 8, 0, 0, 0, 0, 0, 2, 3, 53, 141, 193, 17, 0, 49, 8, 2, 255, 118, 9, 216, 127, 13, 183, 36, 57, 71, 29, 68, 80, 201, 35, 141, 169, 137, 164, 150, 12, 153, 100, 1, 240, 114, 28, 178, 116, 25, 31, 49, 8, 45, 139, 154, 74, 85, 251, 67, 26, 118, 28, 205, 51, 93, 245, 130, 167, 15, 138, 122, 141, 200, 125, 248, 238, 89, 75, 255, 0, 23, 188, 104, 123, 150, 0, 0, 0] = some ([97, 97, 98, 10, 97, 97, 10, 98, 97, 97, 10, 10, 99, 97, 97, 97, 99, 97, 97, 97, 97, 98, 97, 98, 10, 99, 99, 99, 100, 97, 98, 97, 97, 97, 10, 97, 98, 99, 98, 99, 99, 98, 99, 97, 98, 97, 98, 97, 98, 97, 97, 98, 98, 97, 97, 10, 10, 97, 98, 97, 99, 97, 97, 98, 99, 99, 97, 97, 97, 99, 98, 98, 97, 97, 98, 97, 97, 97, 97, 97, 99, 98, 98, 97, 97, 98, 98, 98, 97, 99, 99, 100, 99, 97, 98, 99, 97, 98, 99, 98, 98, 98, 97, 99, 98, 97, 99, 97, 97, 98, 100, 98, 98, 98, 10, 97, 97, 97, 98, 98, 100, 98, 98, 97, 98, 97, 98, 98, 98, 98, 99, 97, 97, 97, 98, 97, 98, 97, 98, 97, 99, 97, 97, 98, 98, 97, 100, 97, 97, 98], false) := by
  decide +kernel

/-- The boundary of `gzip_truncated_counted`: a gzip file cut INSIDE its header (here after 9 of 10 bytes) is not a gzip
    file for `gzip.NewReader` – `rare -z` reads the nine bytes as plain text and counts no error. -/
theorem gzip_cut_in_header_is_plain :
    Gz.gunzip [0x1f, 0x8b, 8, 0, 0, 0, 0, 0, 0] = none ∧
    (runFile true [97] (FileOracle.ofBytes [0x1f, 0x8b, 8, 0, 0, 0, 0, 0, 0])).errs = 0 ∧
    (runFile true [97] (FileOracle.ofBytes [0x1f, 0x8b, 8, 0, 0, 0, 0, 0, 0])).lines = [[0x1f, 0x8b, 8, 0, 0, 0, 0, 0, 0]] := by
  decide +kernel

/-! # Flag plumbing: which reader, with which options -/

/-- **The hand model of `BuildBatcherFromArguments` is the function regenerated from its body**, for all flag
    values and argument lists: same usage error (same message, in the same precedence), same constructor, same evaluated
    arguments (`--readers`, `--batch`, `--batch-buffer`, `-z`, `-R`, `-F`, `--poll`, `-t` reach the parameter they are
    meant for), same warnings. -/
theorem dispatch_matches_source (f : Flags) (args : List Path) :
    Gen.C06.buildBatcherFn f.B f.I args.length (args.head? == some dash) = (dispatch f args).toDecision := by
  have hB : f.B "follow" = f.follow ∧ f.B "reopen" = f.reopen ∧ f.B "tail" = f.tail ∧ f.B "poll" = f.poll ∧
      f.B "gunzip" = f.gunzip ∧ f.B "recursive" = f.recursive := by
    refine ⟨?_, ?_, ?_, ?_, ?_, ?_⟩ <;> simp [Flags.B]
  have hI : f.I "readers" = f.readers ∧ f.I "batch" = f.batch ∧ f.I "batch-buffer" = f.batchBuffer := by
    refine ⟨?_, ?_, ?_⟩ <;> simp [Flags.I]
  obtain ⟨h1, h2, h3, h4, h5, h6⟩ := hB
  obtain ⟨i1, i2, i3⟩ := hI
  have hs : (decide (args.length = 0) || (args.head? == some dash)) = usesStdin args := by
    unfold usesStdin
    cases args <;> simp
  unfold Gen.C06.buildBatcherFn dispatch
  simp only [h1, h2, h3, h4, h5, h6, i1, i2, i3, hs]
  by_cases c1 : f.batch < 1
  · simp [c1, Input.toDecision, Usage.msg]
  by_cases c2 : f.batchBuffer < 0
  · simp [c1, c2, Input.toDecision, Usage.msg]
  by_cases c3 : f.readers < 1
  · simp [c1, c2, c3, Input.toDecision, Usage.msg]
  simp only [c1, c2, c3, decide_false, Bool.false_eq_true, ↓reduceIte]
  cases f.follow <;> cases f.reopen <;> cases f.tail <;> cases f.poll <;> cases f.gunzip <;>
    cases usesStdin args <;> simp [Input.toDecision, Usage.msg]

/-- the flag combinations `BuildBatcherFromArguments` refuses -/
def Flags.Refused (f : Flags) (args : List Path) : Prop :=
  f.batch < 1 ∨ f.batchBuffer < 0 ∨ f.readers < 1 ∨ (f.poll = true ∧ (f.follow || f.reopen) = false) ∨
  (f.tail = true ∧ (f.follow || f.reopen) = false) ∨ (usesStdin args = true ∧ f.gunzip = true)

/-- **Exactly the refused combinations end in a usage error (exit status 2, nothing opened)**: `--batch` < 1,
    `--batch-buffer` < 0, `--readers` < 1, `--poll` or `--tail` without `-f`/`-F`, `-z` with standard input. -/
theorem dispatch_usage_iff (f : Flags) (args : List Path) :
    (∃ u, dispatch f args = .usage u) ↔ f.Refused args := by
  unfold dispatch Flags.Refused
  by_cases c1 : f.batch < 1
  · simp [c1]
  by_cases c2 : f.batchBuffer < 0
  · simp [c1, c2]
  by_cases c3 : f.readers < 1
  · simp [c1, c2, c3]
  simp only [c1, c2, c3, ↓reduceIte, false_or]
  cases f.follow <;> cases f.reopen <;> cases f.tail <;> cases f.poll <;> cases f.gunzip <;>
    cases usesStdin args <;> simp

/-- **Every other combination selects its reader like this**: `-` first or no argument ⇒ standard input (named
    `<stdin>`, `-f` only warned about); else `-f`/`-F` ⇒ the tailing reader over the expanded arguments – all files at once
    whatever `--readers` says, and WITHOUT decompression whatever `-z` says (a warning is all that is left of `-z`);
    else the file reader with `-z`, `-R`, `--readers` as given. -/
theorem dispatch_reader (f : Flags) (args : List Path) (h : ¬ f.Refused args) :
    dispatch f args =
      if usesStdin args then .stdin f.batch f.batchBuffer (f.follow || f.reopen)
      else if f.follow || f.reopen then .tail f.recursive f.batch f.batchBuffer f.reopen f.poll f.tail f.gunzip
      else .files f.recursive f.gunzip f.readers f.batch f.batchBuffer := by
  unfold Flags.Refused at h
  unfold dispatch
  by_cases c1 : f.batch < 1
  · exact absurd (Or.inl c1) h
  by_cases c2 : f.batchBuffer < 0
  · exact absurd (Or.inr (Or.inl c2)) h
  by_cases c3 : f.readers < 1
  · exact absurd (Or.inr (Or.inr (Or.inl c3))) h
  simp only [c1, c2, c3, false_or] at h
  simp only [c1, c2, c3, ↓reduceIte]
  revert h
  cases f.follow <;> cases f.reopen <;> cases f.tail <;> cases f.poll <;> cases f.gunzip <;>
    cases usesStdin args <;> simp

/-- Without the follow flags (the runs the rest of this file is about) the decision is the one `run` uses: the usage
    checks of `usageCheck`, then `plan`'s choice between standard input and the expanded files. -/
theorem dispatch_plain (f : Flags) (args : List Path) (hf : f.follow = false) (hr : f.reopen = false)
    (ht : f.tail = false) (hp : f.poll = false) (hb : 0 ≤ f.batchBuffer) :
    ((usageCheck f.batch f.readers f.gunzip args).isSome ↔ ∃ u, dispatch f args = .usage u) ∧
    (usageCheck f.batch f.readers f.gunzip args = none →
      dispatch f args = if usesStdin args then .stdin f.batch f.batchBuffer false
                        else .files f.recursive f.gunzip f.readers f.batch f.batchBuffer) := by
  have hb' : ¬ f.batchBuffer < 0 := by omega
  unfold usageCheck dispatch
  simp only [hf, hr, ht, hp, hb', Bool.or_self, Bool.false_and, Bool.false_eq_true, ↓reduceIte]
  by_cases c1 : f.batch < 1
  · simp [c1]
  by_cases c3 : f.readers < 1
  · simp [c1, c3]
  simp only [c1, c3, ↓reduceIte]
  cases f.gunzip <;> cases usesStdin args <;> simp

/-- the three readers and two of the refusals on concrete command lines: `rare filter -F -t -z a.log` tails (no
    decompression, warning), `rare filter -z --readers 1 a.log` reads files, `rare filter -f -` reads standard input with a
    warning, `rare filter --tail a.log` and `rare filter -z` are refused -/
example :
    dispatch ⟨false, true, true, false, true, false, 3, 1000, 4⟩ [[97]] = .tail false 1000 4 true false true true ∧
    dispatch ⟨false, false, false, false, true, false, 1, 1000, 4⟩ [[97]] = .files false true 1 1000 4 ∧
    dispatch ⟨true, false, false, false, false, false, 3, 1000, 4⟩ [dash] = .stdin 1000 4 true ∧
    dispatch ⟨false, false, true, false, false, false, 3, 1000, 4⟩ [[97]] = .usage .tailNeedsFollow ∧
    dispatch ⟨false, false, false, false, true, false, 3, 1000, 4⟩ [] = .usage .gunzipStdin := by
  decide

/-! # The reader goroutine of `OpenFilesToChan`, executed from its source text -/

/-- The two executions of the regenerated body of the reader goroutine (`readerBody`, from
    `Gen.C06.openFilesToChanTree`) when the condition `err != nil` is decided by whether `os.Open` failed:
    statement by statement, deferred blocks unrolled at the return / at the end of the body. -/
theorem reader_exec_source (f : FileOracle) :
    exec (readerEnv f) readerBody =
      if f.canOpen then
        ["stmt:varfileio.ReadCloser", "stmt:file,err:=openFileToReader(goFilename,gunzip)",
         "do:out.startFileReading(goFilename)", "do:out.syncReaderToBatcher(goFilename,file,batchSize)",
         "do:file.Close()", "do:<-sema", "do:out.stopFileReading(goFilename)", "do:wg.Done()"]
      else
        ["stmt:varfileio.ReadCloser", "stmt:file,err:=openFileToReader(goFilename,gunzip)",
         "do:logger.Printf(\"Erroropeningfile%s:%v\",goFilename,err)", "do:out.incErrors()",
         "do:<-sema", "do:out.stopFileReading(goFilename)", "do:wg.Done()"] := by
  cases h : f.canOpen
  · have : readerEnv f = fun c => c == "err!=nil" := by funext c; simp [readerEnv, h]
    rw [this]; decide
  · have : readerEnv f = fun _ => false := by funext c; simp [readerEnv, h]
    rw [this]; decide

/-- **The hand model of the reader goroutine IS the source text, interpreted.**  For every file oracle (missing,
    directory, plain, gzip, failing after any number of bytes), `-z` or not: run the regenerated body of the goroutine
    (`exec`, the branch taken by `err != nil` = the open failed) and give each executed statement its meaning on the
    observables (`interpReader`: `out.incErrors()` counts, the two `logger.Printf` log, `syncReaderToBatcher` hands on
    the lines of the opened reader's stream and runs the regenerated `OnError` callback of `Gen.C01` iff the stream
    fails, …; an unknown statement, or `syncReaderToBatcher`/`Close` without an open file, sets `bad`).  The result is
    `runFile`: same number of counted errors, same log lines, same delivered lines – and on BOTH paths exactly one slot
    release, one `stopFileReading`, one `wg.Done()`, and `file.Close()` iff the file was opened.
    A changed condition, a dropped / duplicated / moved `incErrors`, a release that only the success path runs
    (seeded/C06-sema-open-error-leak) change the regenerated tree and break this equality. -/
theorem reader_body_matches_source (gunzip : Bool) (name : Path) (f : FileOracle) :
    let e := interpReader (onErrorBody Gen.C01.scanner_syncReaderToBatcher) gunzip name f (exec (readerEnv f) readerBody)
    let r := runFile gunzip name f
    e.bad = false ∧ r.errs = e.errs ∧ r.logs = e.logs ∧ r.lines = e.lines ∧
    e.released = 1 ∧ e.stopped = 1 ∧ e.done = 1 ∧
    e.started = (if f.canOpen then 1 else 0) ∧ e.closed = e.started := by
  intro e r
  have hcb : (onErrorBody Gen.C01.scanner_syncReaderToBatcher).map classify = [.incErr, .logReadErr] := by decide
  cases ho : f.canOpen
  · have hops : (exec (readerEnv f) readerBody).map classify =
        [.declFile, .openFile, .logOpenErr, .incErr, .release, .stop, .wgDone] := by
      rw [reader_exec_source f, ho]; decide
    have hop : openFileToReader f gunzip = none := by simp [openFileToReader, openFileToReaderG, ho]
    simp only [e, r, interpReader, hops, hcb, List.foldl, interpStmt, runFile, hop]
    simp
  · have hops : (exec (readerEnv f) readerBody).map classify =
        [.declFile, .openFile, .start, .sync, .closeFile, .release, .stop, .wgDone] := by
      rw [reader_exec_source f, ho]; decide
    simp only [e, r, interpReader, hops, hcb, List.foldl, interpStmt, runFile]
    cases hop : openFileToReader f gunzip with
    | none =>
      exfalso
      simp only [openFileToReader, openFileToReaderG, ho] at hop
      revert hop
      cases gunzip <;> cases f.gzHeaderOk <;> simp
    | some p =>
      obtain ⟨rd, fb⟩ := p
      cases hs : streamOf f rd with
      | mk data fails =>
        cases fails <;> cases fb <;> simp [hs, runStream, interpOnError]

/-- the interpretation discriminates: the body of seeded/C06-sema-open-error-leak (release + `stopFileReading` deferred
    only after a successful open) run on a missing file releases no slot and never calls `stopFileReading`; a body without
    `out.incErrors()` in the failure branch counts 0 errors where `runFile` counts 1 -/
example :
    let leak : Ctl := .deferS (.simple "do:wg.Done()" .nil) (.simple "stmt:varfileio.ReadCloser"
      (.simple "stmt:file,err:=openFileToReader(goFilename,gunzip)"
      (.ifS "err!=nil" (.simple "do:logger.Printf(\"Erroropeningfile%s:%v\",goFilename,err)" (.simple "do:out.incErrors()" (.ret "" .nil))) .nil
      (.deferS (.simple "do:file.Close()" .nil) (.simple "do:out.startFileReading(goFilename)"
      (.deferS (.simple "do:<-sema" (.simple "do:out.stopFileReading(goFilename)" .nil))
      (.simple "do:out.syncReaderToBatcher(goFilename,file,batchSize)" .nil)))))))
    let nocount : Ctl := .deferS (.simple "do:<-sema" (.simple "do:out.stopFileReading(goFilename)" (.simple "do:wg.Done()" .nil)))
      (.simple "stmt:file,err:=openFileToReader(goFilename,gunzip)" (.ifS "err!=nil" (.ret "" .nil) .nil .nil))
    let e1 := interpReader [] false [120] FileOracle.missing (exec (readerEnv FileOracle.missing) leak)
    let e2 := interpReader [] false [120] FileOracle.missing (exec (readerEnv FileOracle.missing) nocount)
    e1.released = 0 ∧ e1.stopped = 0 ∧ e1.done = 1 ∧ e1.errs = 1 ∧ e1.bad = false ∧
    e2.errs = 0 ∧ e2.released = 1 ∧ (runFile false [120] FileOracle.missing).errs = 1 := by
  decide


/-! ## The standard-input reader (`OpenReaderToChan`), executed from its source text -/

/-- the body of the goroutine `OpenReaderToChan` starts, from the regenerated control tree -/
def stdinBody : Ctl := (firstGo Gen.C06.openReaderToChanTree).getD .nil

/-- **`-` / no argument: the reader of standard input IS its source text, interpreted.**  The goroutine of
    `OpenReaderToChan` has no branch; its one execution (deferred calls unrolled, last registered first) is
    `startFileReading; syncReaderToBatcherWithTimeFlush; out.close(); reader.Close()`.  Interpreted on the observables
    (the regenerated `OnError` callback of `syncReaderToBatcherWithTimeFlush` from `Gen.C01` runs iff the stream fails)
    it is `runStdin` for every content and failure: same counted errors, log lines, delivered lines; the batch channel
    is closed exactly once and AFTER the error was counted (`errsAtClose` = all errors of the input: the consumer that
    sees the channel closed reads the final `ReadErrors()`), standard input is closed once. -/
theorem stdin_body_matches_source (data : Bytes) (fails : Bool) :
    let ops := exec (fun _ => false) stdinBody
    let e := interpStdin (onErrorBody Gen.C01.scanner_syncReaderToBatcherWithTimeFlush) stdinName data fails ops
    let r := runStdin data fails
    ops = ["do:out.startFileReading(sourceName)",
           "do:out.syncReaderToBatcherWithTimeFlush(sourceName,reader,batchSize,AutoFlushTimeout)",
           "do:out.close()", "do:reader.Close()"] ∧
    e.bad = false ∧ r.errs = e.errs ∧ r.logs = e.logs ∧ r.lines = e.lines ∧
    e.started = 1 ∧ e.chanClosed = 1 ∧ e.errsAtClose = some r.errs ∧ e.closed = 1 := by
  intro ops e r
  have hops : ops = ["do:out.startFileReading(sourceName)",
      "do:out.syncReaderToBatcherWithTimeFlush(sourceName,reader,batchSize,AutoFlushTimeout)",
      "do:out.close()", "do:reader.Close()"] := by decide
  have hcl : ops.map classify = [.startStdin, .syncFlush, .closeChan, .closeReader] := by rw [hops]; decide
  have hcb : (onErrorBody Gen.C01.scanner_syncReaderToBatcherWithTimeFlush).map classify = [.incErr, .logReadErr] := by decide
  refine ⟨hops, ?_⟩
  simp only [e, r, interpStdin, hcl, hcb, List.foldl, interpStdinStmt, runStdin, runStream]
  cases fails <;> simp [interpOnError]

/-- the interpretation discriminates: a body that closes the channel BEFORE reading (`out.close()` not deferred) has
    counted no error yet when the channel closes, although the input fails -/
example :
    let early : Ctl := .deferS (.simple "do:reader.Close()" .nil) (.simple "do:out.startFileReading(sourceName)"
      (.simple "do:out.close()" (.simple "do:out.syncReaderToBatcherWithTimeFlush(sourceName,reader,batchSize,AutoFlushTimeout)" .nil)))
    let e := interpStdin ["do:s.incErrors()"] [60] [97, 10] true (exec (fun _ => false) early)
    e.errs = 1 ∧ e.errsAtClose = some 0 ∧ (runStdin [97, 10] true).errs = 1 := by
  decide

/-! ## The read-error count of the whole run, from the source text of the readers -/

/-- what the source text of the two reader goroutines counts for one planned input -/
def srcErrs (cfg : Config) (files : Path → FileOracle) (stdin : Bytes) (stdinFails : Bool) : Source → Nat
  | .stdin => (interpStdin (onErrorBody Gen.C01.scanner_syncReaderToBatcherWithTimeFlush) stdinName stdin stdinFails
      (exec (fun _ => false) stdinBody)).errs
  | .file p => (interpReader (onErrorBody Gen.C01.scanner_syncReaderToBatcher) cfg.gunzip p (files p)
      (exec (readerEnv (files p)) readerBody)).errs

/-- **`ReadErrors()` of a run = the `incErrors()` calls the regenerated reader bodies execute**, summed over the planned
    inputs (standard input or the expanded file names, once per mention): for every command line that passes the usage
    checks, every file-system / file oracle, `-z`, failing standard input.  With `run_exit_status` this ties the exit status 2
    of the property to the statements of `OpenFilesToChan` / `OpenReaderToChan` / the `OnError` callbacks in /repo. -/
theorem run_errors_from_source (cfg : Config) (args : List Path) (fs : FsOracle) (files : Path → FileOracle)
    (stdin : Bytes) (stdinFails : Bool) (h : usageCheck cfg.batch cfg.readers cfg.gunzip args = none) :
    (run cfg args fs files stdin stdinFails).readErrors
      = ((plan cfg.recursive args fs).map (srcErrs cfg files stdin stdinFails)).sum := by
  unfold run
  rw [h]
  simp only [List.map_map]
  congr 1
  apply List.map_congr_left
  intro s _
  cases s with
  | stdin => exact (stdin_body_matches_source stdin stdinFails).2.2.1
  | file p => exact (reader_body_matches_source cfg.gunzip p (files p)).2.1

/-- the hypothesis is the ordinary case (`rare filter a`, `rare filter -z --readers 3 a b`) -/
example : usageCheck 1000 1 false [[97]] = none ∧ usageCheck 1 3 true [[97], [98]] = none := by decide

end Rare.C06
