import Rare.Proofs.C09C10Std
import Rare.Props.C10
import Rare.Proofs.C09Utf8Char
import Rare.Proofs.C09FuelStd
import Rare.Proofs.C09Frag
import Rare.Proofs.C09FragW
import Rare.Proofs.C09Lookup
import Rare.Proofs.C09Gen
import Rare.Proofs.C09Err
import Rare.Proofs.C09WF
import Rare.Proofs.C09WFB
import Rare.Proofs.C09WFAll
import Rare.Proofs.C09Pos
import Rare.Proofs.C09All
import Rare.Gen.Tables
/-!
Property C09 – template syntax: literals, escapes, quotes and nesting parse as documented.

Model: `Rare.Expr.compile` / `splitArgs` / `stageSimpleVariable` (`Rare/Model/Expr/Core.lean`), the model of
`KeyBuilder.Compile`, `splitTokenizedArguments`, `stageSimpleVariable` in /repo/pkg/expressions.
Spec: `Rare/Spec/C09.lean` (`Expr`, `evalTree`, `escapeLit`, `printTop`, `Piece`/`layout`, `Unterminated`).
Templates are rune lists (`[]rune(template)`).  The step from Go's strings to rune lists is in the model
too: `decodeUtf8` (Go's `[]rune(s)` / `for range s`: every invalid byte becomes one U+FFFD), `encodeUtf8`
(`string([]rune)`), `wellFormed` (Unicode table 3-7, structural) – `Rare/Model/C09Utf8.lean`; the byte-level
entry points are `compileBytes` and `splitArgsBytes` (theorems `utf8_*`, `*_bytes` below).
-/
namespace Rare.C09
open Rare Rare.Expr

/-- Text outside braces: for every string `s` (all of Unicode, control characters, braces, backslashes,
    quotes), every registry, optimiser on or off and every context, the escaped rendering of `s`
    compiles without errors and evaluates to (the UTF-8 of) `s`. -/
theorem escape_roundtrip (reg : Registry) (opt : Bool) (s : List Char) (ctx : Ctx) :
    ∃ stages, compile reg opt (escapeLit s) = .ok (stages, []) ∧ (buildKey stages).run ctx = .ok (utf8 s) := by
  obtain ⟨st, h1, h2⟩ := compileF_escapeLit (escapeLit s).length reg opt s
  exact ⟨st, h1, h2 ctx⟩

/-- The argument splitter splits exactly at unquoted, unbraced white space: for every sequence of
    well-formed pieces (bare words, quoted strings – possibly empty –, braced groups with arbitrary
    balanced content including white space and quotes), separated by arbitrary Unicode white space
    (optional before the first piece and after the last), the result is the list of the pieces'
    values: the word, the string without its quotes, the braced group verbatim. -/
theorem split_spec (l : List (List Char × Piece)) (trail : List Char)
    (hl : LayoutOk true l) (ht : allSpace trail = true) :
    splitArgs (layout l ++ trail) = l.map (·.2.value) :=
  splitArgs_layout l trail hl ht

/-- A quoted `""` yields an empty argument. -/
theorem split_quoted_empty (w0 w1 w2 : List Char) (a b : List Char)
    (h0 : allSpace w0 = true) (h1 : allSpace w1 = true) (h2 : allSpace w2 = true) (n1 : w1 ≠ []) (n2 : w2 ≠ [])
    (ha : bare a = true) (hb : bare b = true) :
    splitArgs (w0 ++ a ++ w1 ++ ['"', '"'] ++ w2 ++ b) = [a, [], b] := by
  have := split_spec [(w0, .bare a), (w1, .quoted []), (w2, .bare b)] []
    ⟨h0, Or.inl rfl, ha, h1, Or.inr n1, rfl, h2, Or.inr n2, hb, trivial⟩ rfl
  simpa [layout, Piece.text, Piece.value] using this

/-- Unterminated statements are reported: whenever the braces of a template do not close
    (`Unterminated`, escapes respected) and `Compile` returns at all (no function builder panicked),
    its error list contains `ErrorUnterminated`. -/
theorem unterminated_reported (reg : Registry) (opt : Bool) (t : List Char) (stages : List Stage) (errs : List CErr)
    (h : compile reg opt t = .ok (stages, errs)) (hu : Unterminated t) :
    ∃ e ∈ errs, e.kind = ErrKind.unterminated :=
  compileF_unterminated t.length reg opt t stages errs h hu

/-- `{}` and `{   }` (any white space) are reported as `ErrorEmptyStatement` at index 0 and produce no stage. -/
theorem empty_statement_reported (reg : Registry) (opt : Bool) (w : List Char) (hw : allSpace w = true) :
    ∃ ctx, compile reg opt ('{' :: (w ++ ['}'])) = .ok ([], [⟨ErrKind.emptyStatement, ctx, 0⟩]) :=
  compileF_empty_statement _ reg opt w hw

/-- An unknown head with at least one argument is reported as `ErrorMissingFunction` (context = the
    statement body, index 0) and evaluates to the `<Err:name>` marker. -/
theorem missing_function_reported (reg : Registry) (opt : Bool)
    (w0 name w1 : List Char) (p1 : Piece) (rest : List (List Char × Piece)) (trail : List Char)
    (hl : LayoutOk true ((w0, .bare name) :: (w1, p1) :: rest)) (ht : allSpace trail = true)
    (hr : reg name = none) :
    ∃ st, compile reg opt ('{' :: ((layout ((w0, .bare name) :: (w1, p1) :: rest) ++ trail) ++ ['}'])) =
        .ok (st, [⟨ErrKind.missingFunction, layout ((w0, .bare name) :: (w1, p1) :: rest) ++ trail, 0⟩]) ∧
      ∀ ctx, (buildKey st).run ctx = .ok (utf8 ("<Err:".toList ++ name ++ ">".toList)) :=
  compileF_missing_function _ reg opt w0 name w1 p1 rest trail hl ht hr

/-- The recursion fuel of `compile` (template length + 1) always suffices: giving the recursive
    compiler any amount of additional fuel never changes its answer, for every template, registry and
    optimiser setting – the nesting depth of `Compile` is bounded by the template length, so the
    out-of-fuel branch of the model is not what decides any result ("never fails to return"). -/
theorem compile_fuel_suffices (reg : Registry) (opt : Bool) (t : List Char) (extra : Nat) :
    compileF (t.length + 1 + extra) reg opt t = compile reg opt t :=
  compileF_fuel_irrelevant reg opt (t.length + 1) t (by omega) _ _ (by omega) (by omega)

/-- …and the out-of-fuel branch itself is never the answer, **optimiser on or off**: for every template and
    every registry whose builders neither fail with the model's out-of-fuel message nor return a stage
    that can panic with it – given argument stages that cannot (`NoMsgReg`; with the optimiser on `Compile`
    probes every stage it built, so a stage's panic message can become `Compile`'s) – `compile` does not
    return "out of fuel".  The hypothesis holds for the standard registry: `compile_never_out_of_fuel_std`. -/
theorem compile_never_out_of_fuel (reg : Registry) (opt : Bool) (hreg : NoMsgReg "out of fuel" reg) (t : List Char) :
    compile reg opt t ≠ .error "out of fuel" :=
  (compileF_good reg opt hreg (t.length + 1) t (by omega) _ (by omega)).1

/-- The standard registry (every builder of every modelled family, plus `unmodelledBuilder` for whatever
    other names the Go side knows) satisfies that hypothesis – each builder only hands on its arguments'
    panic messages or uses one of its own (`unmodelled:…`, `slice bounds out of range`, `hang: …`, `fuel`):
    for every template, optimiser on or off, the standard `Compile` model never answers "out of fuel". -/
theorem compile_never_out_of_fuel_std (known : List String) (opt : Bool) (t : List Char) :
    compile (stdRegistry known) opt t ≠ .error "out of fuel" :=
  compile_never_out_of_fuel _ opt (std_noMsgReg known) t

/-- The optimiser-off case needs less: no builder fails with the out-of-fuel message (whatever its
    arguments) – the statement of the previous round, kept because its hypothesis is weaker. -/
theorem compile_never_out_of_fuel_noopt (reg : Registry) (hreg : NoFuelMsg reg) (t : List Char) :
    compile reg false t ≠ .error "out of fuel" :=
  compileF_ne_out_of_fuel reg hreg (t.length + 1) t (by omega) _ (by omega)

/-- **Print/compile round trip, optimiser on or off.**  An expression tree printed with ANY admissible
    style (white-space runs after `{`, before `}` and between arguments; literal arguments quoted or –
    where legal – bare) compiles without errors and evaluates exactly as the tree dictates, in every
    context – with static optimisation enabled (`opt = true`, rare's default) as well as disabled.

    The registry may be anything as long as every function *called in the tree* is registered with a
    builder that `Implements` the tree's meaning of it at the call's arity: for argument stages that
    evaluate (in every context) it returns, without compile error, a stage that evaluates to `fn f` of
    the argument values (strict like `pureBuilder`, lazy like `{if}`, probing / constant-folding … – see
    `Rare/Proofs/C09C10.lean`; instances from the standard registry in `C09C10Std.lean`).
    Builders of other names are unconstrained (they may panic, be unmodelled, …).

    The optimiser-on case composes the optimiser-off round trip with C10: `optimize` returns because
    stages that evaluate in every context can be probed (`optimize_ok_of_run`), and C10's
    `optimize_preserves` says the optimised stages build the same key – at every nesting level. -/
theorem print_compile (reg : Registry) (fn : List Char → List Bytes → Bytes) (opt : Bool) (σ : Style) (e : C09.Expr)
    (ha : AdmissibleTop e) (hreg : RegSem reg fn e) :
    ∃ stages, compile reg opt (printTop σ e) = .ok (stages, []) ∧
      ∀ ctx, (buildKey stages).run ctx = .ok (evalTree (envOf ctx fn) e) :=
  printTop_ok reg fn opt σ e ha hreg

/-- **The round trip for a general registry hypothesis** (`RegDen`, `Rare/Proofs/C09Den.lean`): the builder of
    every function called in the tree is correct *at its call site* – for argument stages that denote the
    argument trees (`Den`: same value in every context, a literal argument is the constant stage, an argument
    the certificate `D` calls dynamic is not constant under the probe) it returns, without compile error, a
    stage denoting the call.  So a builder may demand constant arguments, type-check constant arguments at
    compile time, or fold constants; and the meaning `sem` of a name may depend on the context beyond the
    argument values (user-defined functions: C10).  `print_compile` is the special case of `Implements`
    builders. -/
theorem print_compile_general (reg : Registry) (sem : Sem) (D : C09.Expr → Bool) (hD : ∀ s, D (.lit s) = false)
    (opt : Bool) (σ : Style) (e : C09.Expr) (ha : AdmissibleTop e) (hreg : RegDen reg sem D e) :
    ∃ stages, compile reg opt (printTop σ e) = .ok (stages, []) ∧
      ∀ ctx, (buildKey stages).run ctx = .ok (evalTree (envC sem ctx) e) :=
  printTop_den reg sem D opt hD σ e ha hreg

/-- **The round trip over a fragment of the STANDARD function table.**  For every tree whose calls are call
    sites of the fragment (`fragOk`: a name of `fragNames` at an admissible arity; where the Go builder
    inspects an argument at compile time, an integer- or float-typed position holds a dynamic expression or
    something evaluating to a number, a constant position holds a literal of the right type –
    `Rare/Spec/C09Frag.lean`), printed with ANY admissible style, the standard registry (whatever other names
    the Go side knows) compiles the print without errors, optimiser on or off, and the compiled expression
    evaluates in every context to the tree's denotation under `stdSem`.

    The fragment: the logic helpers (`coalesce eq neq not and or if unless switch` – lazy ones included), the
    integer folds (`sumi subi multi divi modi maxi mini`, any arity ≥ 2, nested arbitrarily), `isint`,
    `bucket bucketrange clamp expbucket`, the float comparisons and folds (`lt gt lte gte sumf subf multf divf`
    on the binary64 model), `isnum ceil floor sqrt hf`, the string helpers (`len like prefix suffix substr
    select tab $ @ csv hi`), the path helpers, `@len @split @join @in`, and (round 2) `@select @slice` with
    constant indices (on lists of ANY length: `selectW`/`sliceW`, the documented `select`/`slice` below 2^63
    elements – C17's `wrapped_is_documented`), `@range` (C17's closed form), `repeat` / `lookup` / `haskey` with
    their constant text or table, `round` / `percent` / `bytesize` / `bytesizesi` / `downscale` with a constant
    precision (binary64 model), and `upper` / `lower` of an ASCII literal (the model's case mapping is ASCII
    only; anything else is Go's Unicode tables) – `fragment_names`.  Outside this theorem: helpers that evaluate
    an argument in a sub-context (`@map @filter @reduce @for`: `print_compile_binders` below; user functions:
    C10's `call_nested_eq_body`), the libm-backed and time helpers, `format`. -/
theorem print_compile_std_fragment (known : List String) (opt : Bool) (σ : Style) (e : C09.Expr)
    (ha : AdmissibleTop e) (hf : fragOk e = true) :
    ∃ stages, compile (stdRegistry known) opt (printTop σ e) = .ok (stages, []) ∧
      ∀ ctx, (buildKey stages).run ctx = .ok (evalTree (envOf ctx stdSem) e) :=
  printTop_std_fragment known opt σ e ha hf

/-- The fragment, by name (65 of the names of the real function table, `Gen.stdFunctionNames`, regenerated
    from `/repo` on every run; each entry's builder is literally the one the model's standard registry has
    under that name – `fragTable_ok`). -/
theorem fragment_names :
    fragNames = ["coalesce", "eq", "neq", "not", "and", "or", "if", "unless", "switch",
      "sumi", "subi", "multi", "divi", "modi", "maxi", "mini", "isint", "bucket", "bucketrange", "clamp", "expbucket",
      "isnum", "lt", "gt", "lte", "gte", "sumf", "subf", "multf", "divf", "ceil", "floor", "sqrt", "hf",
      "len", "like", "prefix", "suffix", "substr", "select", "tab", "$", "@", "csv", "hi",
      "basename", "dirname", "extname", "@len", "@split", "@join", "@in",
      "@select", "@slice", "@range", "upper", "lower", "repeat", "lookup", "haskey", "round", "percent",
      "bytesize", "bytesizesi", "downscale"] ∧
    (∀ n ∈ fragNames, n ∈ Gen.stdFunctionNames) ∧
    (∀ p ∈ fragTable, lookupTable stdTable p.1 = some p.2.builder) := by
  have h : fragNames = ["coalesce", "eq", "neq", "not", "and", "or", "if", "unless", "switch",
      "sumi", "subi", "multi", "divi", "modi", "maxi", "mini", "isint", "bucket", "bucketrange", "clamp", "expbucket",
      "isnum", "lt", "gt", "lte", "gte", "sumf", "subf", "multf", "divf", "ceil", "floor", "sqrt", "hf",
      "len", "like", "prefix", "suffix", "substr", "select", "tab", "$", "@", "csv", "hi",
      "basename", "dirname", "extname", "@len", "@split", "@join", "@in",
      "@select", "@slice", "@range", "upper", "lower", "repeat", "lookup", "haskey", "round", "percent",
      "bytesize", "bytesizesi", "downscale"] := rfl
  refine ⟨h, ?_, fun p hp => (fragTable_ok p hp).2⟩
  rw [h]; decide

/-- **The complement, by name**: the 20 names of the real function table (`Gen.stdFunctionNames`, 85 names,
    regenerated from `/repo`) that `print_compile_std_fragment` does NOT speak about, and why:
    `@map @filter @reduce @for` evaluate an argument in a sub-context (the tree semantics `evalTree` has no
    binder; their round trip is C10's `call_nested_eq_body` / C17's element-wise theorems); `!` parses its
    arguments with the `sifter` grammar of C19 instead of compiling them; `ln log10 log2 pow` are libm-backed
    (no bit-exact model: `unmodelled` in the correspondence); `time timeformat timeattr buckettime duration
    durationformat` depend on the process's time zone / clock or on Go's layout detection (modelled relative to
    a world in C18, not a function of the argument values alone); `format` (Go's `fmt` verbs), `json` (gjson
    paths), `load` (file system), `bar` / `color` (terminal state: colours on or off) are functions of a world,
    not of their argument values.  A name added to or removed from rare's table changes `Gen.stdFunctionNames`
    and breaks this theorem until the fragment is re-stated. -/
theorem fragment_complement :
    Gen.stdFunctionNames.filter (fun n => !fragNames.contains n) =
      ["!", "@filter", "@for", "@map", "@reduce", "bar", "buckettime", "color", "duration", "durationformat",
       "format", "json", "ln", "load", "log10", "log2", "pow", "time", "timeattr", "timeformat"] ∧
    Gen.stdFunctionNames.length = 85 ∧ fragNames.length = 65 ∧ fragNames.Nodup := by
  refine ⟨by decide +kernel, by decide +kernel, by decide +kernel, by decide +kernel⟩

/-! ### round 4c: the world-relative fragment (format, binders, time helpers) -/

/-- **Print/compile over the WORLD-RELATIVE fragment of the standard table** (`Spec/C09FragW.lean`): the 65
    value-level names of `print_compile_std_fragment` and `format`, the binders `@map @filter @reduce @for`,
    `duration`, `durationformat`, `timeformat`, `timeattr` (UTC) – 74 of the 85 names of the real table
    (`fragment_world_names`, `fragment_world_complement`).

    The world `w` answers what a template cannot say: `unicode.IsPrint` (`%q` of `format`), the time world, the
    value of a library call beyond the model of C18; the only assumption (`w.Ok`) is that such a call returns a
    value without touching the match context.  The function table is `stdTable` + `format` + the time helpers of
    that world (`stdTableW`).  `evalW w` is the tree semantics WITH BINDERS (`evalD`): a call hands the
    DENOTATIONS of its arguments to the meaning of its name, so the body of `@map` / `@filter` (`{0}` = the
    element), of `@reduce` (`{0}` = accumulator, `{1}` = element) and of `@for` (`{0}` = value, `{1}` = round) is
    evaluated in `bindCtx` – keys and negative indices still come from the enclosing context – at every nesting
    depth ("braces nest", for braces that bind).  Any tree of the widened fragment (`fragOkW`), printed in ANY
    admissible style (white space, quoting), optimiser on or off, compiles without error and evaluates in every
    context to exactly what the tree dictates. -/
theorem print_compile_std_fragment_world (w : FragWorld) (hw : w.Ok) (known : List String) (opt : Bool) (σ : Style)
    (e : C09.Expr) (ha : AdmissibleTop e) (hf : fragOkW w e = true) :
    ∃ stages, compile (stdRegistryW w known) opt (printTop σ e) = .ok (stages, []) ∧
      ∀ ctx, (buildKey stages).run ctx = .ok (evalW w e ctx) :=
  printTop_std_fragment_world w hw known opt σ e ha hf

/-- **The binder-free special case is the old semantics**: on trees that only call the 65 value-level names
    (`valueLevel`) the semantics with binders is `evalTree` under `stdSem` – the value
    `print_compile_std_fragment` speaks about – in every world. -/
theorem world_semantics_extends (w : FragWorld) (ctx : Ctx) (e : C09.Expr) (h : valueLevel e = true) :
    evalW w e ctx = evalTree (envOf ctx stdSem) e :=
  evalW_value_level w ctx e h

/-- **The old theorem is an instance**: every tree of the 65-name fragment (`fragOk`) is a tree of the widened
    fragment in EVERY world, with the same value – `print_compile_std_fragment` is `print_compile_std_fragment_world`
    restricted to such trees.  (Side conditions look at their own arguments only: `PreLocal`, all 65 entries.) -/
theorem fragment_world_contains (w : FragWorld) (e : C09.Expr) (h : fragOk e = true) :
    fragOkW w e = true ∧ ∀ ctx, evalW w e ctx = evalTree (envOf ctx stdSem) e :=
  ⟨(old_in_world w e h).2.2, fun ctx => evalW_value_level w ctx e (old_in_world w e h).1⟩

/-- **What the binders mean**, as equations of `evalW` (any world, any argument trees): the helpers of C17's
    specification (`elems`, `pack`, `reduce`, `iterateWhile`) applied to the body's denotation in `bindCtx`. -/
theorem binder_semantics (w : FragWorld) (ctx : Ctx) (arr body init start cond next : C09.Expr) :
    evalW w (.call "@map".toList [arr, body]) ctx =
      Rare.C17.pack ((Rare.C17.elems (evalW w arr ctx)).map fun x => evalW w body (bindCtx ctx x [])) ∧
    evalW w (.call "@filter".toList [arr, body]) ctx =
      Rare.C17.pack ((Rare.C17.elems (evalW w arr ctx)).filter fun x => truthy (evalW w body (bindCtx ctx x []))) ∧
    evalW w (.call "@reduce".toList [arr, body, init]) ctx =
      Rare.C17.reduce (fun m x => evalW w body (bindCtx ctx m x)) (evalW w init ctx) (Rare.C17.elems (evalW w arr ctx)) ∧
    evalW w (.call "@for".toList [start, cond, next]) ctx =
      (match Rare.C17.iterateWhile (fun v k => truthy (evalW w cond (bindCtx ctx v (itoa (k : Nat)))))
          (fun v k => evalW w next (bindCtx ctx v (itoa (k : Nat)))) Gen.maxIterations 0 (evalW w start ctx) with
       | some ys => Rare.C17.pack ys
       | none => Funcs.Range.InfMarker) := by
  refine ⟨?_, ?_, ?_, ?_⟩
  · rw [evalW_call w _ _ FW.mapE rfl]; rfl
  · rw [evalW_call w _ _ FW.filterE rfl]; rfl
  · rw [evalW_call w _ _ FW.reduceE rfl]; rfl
  · rw [evalW_call w _ _ FW.forE rfl]; rfl

/-- The widened fragment, by name: 74 distinct names of the real function table (`Gen.stdFunctionNames`,
    regenerated from `/repo`), the same in every world; each entry's builder is literally the one the world's
    table (`stdTableW`) registers under that name. -/
theorem fragment_world_names (w : FragWorld) (hw : w.Ok) :
    (fragTableW w).map (·.1) = fragNamesW ∧ fragNamesW.length = 74 ∧ fragNamesW.Nodup ∧
    (∀ n ∈ fragNamesW, n ∈ Gen.stdFunctionNames) ∧
    (∀ p ∈ fragTableW w, lookupTable (stdTableW w) p.1 = some p.2.builder) := by
  refine ⟨?_, by decide +kernel, by decide +kernel, by decide +kernel, fun p hp => (fragTableW_ok w hw p hp).2⟩
  simp only [fragTableW, fragTableNew, List.map_append, List.map_map, fragNamesW, fragNames]
  rfl

/-- **The complement, by name**, after widening: 11 names.  `!` parses its arguments with the `sifter` grammar
    of C19 instead of compiling them; `ln log10 log2 pow` are libm-backed; `time` and `buckettime` ask
    `dateparse` for a layout (a per-stage cache cell, C18) or the wall clock (`now`, `live`, `delta`); `json`
    (gjson paths), `load` (file system), `bar` / `color` (terminal state) are C08's `Funcs.Extra` world.  Named
    time zones of `timeformat` / `timeattr` are outside too (side condition `utcName`): they are questions to the
    zone database.  A name added to or removed from rare's table breaks this theorem. -/
theorem fragment_world_complement :
    Gen.stdFunctionNames.filter (fun n => !fragNamesW.contains n) =
      ["!", "bar", "buckettime", "color", "json", "ln", "load", "log10", "log2", "pow", "time"] := by
  decide +kernel

/-- The round trip for registries of syntactically pure builders (`pureBuilder`, the harness's probe
    registry) with the optimiser off – the statement proved before the composition with C10; now a
    special case of `print_compile`. -/
theorem print_compile_noopt (reg : Registry) (fn : List Char → List Bytes → Bytes) (σ : Style) (e : C09.Expr)
    (ha : AdmissibleTop e) (hreg : RegOk reg fn e) :
    ∃ stages, compile reg false (printTop σ e) = .ok (stages, []) ∧
      ∀ ctx, (buildKey stages).run ctx = .ok (evalTree (envOf ctx fn) e) :=
  print_compile reg fn false σ e ha (regSem_of_regOk reg fn e hreg)

/-- Optimiser on and off agree on every printed tree (C10's `optimize_sound` specialised; stated here so
    that the two halves of the round trip are visibly the same value). -/
theorem print_compile_opt_agrees (reg : Registry) (fn : List Char → List Bytes → Bytes) (σ : Style) (e : C09.Expr)
    (ha : AdmissibleTop e) (hreg : RegSem reg fn e) :
    ∃ s1 s0, compile reg true (printTop σ e) = .ok (s1, []) ∧ compile reg false (printTop σ e) = .ok (s0, []) ∧
      ∀ ctx, (buildKey s1).run ctx = (buildKey s0).run ctx := by
  obtain ⟨s1, h1, r1⟩ := print_compile reg fn true σ e ha hreg
  obtain ⟨s0, h0, r0⟩ := Rare.C10.optimize_sound reg (printTop σ e) s1 [] h1
  exact ⟨s1, s0, h1, h0, fun ctx => (r0 ctx).symm⟩


/-! ### "A lone word or integer is a key/group lookup" -/

/-- **What an integer is.**  `strconv.Atoi` as `stageSimpleVariable` uses it (the model's `atoi`) accepts exactly
    the decimal integer literals of `Spec/C09Lookup.lean` – optional `+`/`-`, one or more ASCII digits (leading
    zeros allowed), value within int64 – for ALL byte strings: `{007}`, `{+1}`, `{-1}`, `{-0}` are group
    references; `{1e3}`, `{0x10}`, `{1_0}`, `{9223372036854775808}`, `{٣}`, `{-}`, `{+}` are key look-ups. -/
theorem int_literal_spec (b : Bytes) (v : Int) : atoi b = some v ↔ IntLit b v :=
  atoi_iff_intLit b v

/-- **The lone-argument rule, general form.**  A statement whose body (any balanced, backslash-free text:
    `Inner`) splits into exactly ONE argument `a` – a bare word, a quoted string, even a braced group like
    `{{0}}` – compiles without errors, for every registry, optimiser on or off, to ONE stage; evaluated in any
    context it answers `GetMatch(v)` when `a` is the integer literal `v` and `GetKey(a)` when `a` is not an
    integer literal.  (The optimiser never folds it: both look-ups touch the context.) -/
theorem lone_argument_lookup (reg : Registry) (opt : Bool) (body a : List Char) (hi : Inner body)
    (hs : splitArgs body = [a]) :
    ∃ st, compile reg opt ('{' :: (body ++ ['}'])) = .ok ([st], []) ∧
      ∀ ctx, (∃ v, IntLit (utf8 a) v ∧ (buildKey [st]).run ctx = .ok (ctx.getMatch v)) ∨
             ((∀ v, ¬ IntLit (utf8 a) v) ∧ (buildKey [st]).run ctx = .ok (ctx.getKey (utf8 a))) := by
  refine ⟨stageSimpleVariable a, compileF_lone _ reg opt hi a hs, fun ctx => ?_⟩
  rw [run_simpleVariable]
  cases h : atoi (utf8 a) with
  | some v => exact Or.inl ⟨v, intLit_of_atoi h, rfl⟩
  | none => exact Or.inr ⟨(atoi_none_iff _).mp h, rfl⟩

/-- **A lone bare word** `{ w }` (any Unicode white space around it): group `v` if `w` is the integer literal
    `v`, key `w` otherwise. -/
theorem lone_word_lookup (reg : Registry) (opt : Bool) (lead w trail : List Char)
    (hl : allSpace lead = true) (hw : bare w = true) (ht : allSpace trail = true) :
    ∃ st, compile reg opt ('{' :: (lead ++ w ++ trail ++ ['}'])) = .ok ([st], []) ∧
      ∀ ctx, (∃ v, IntLit (utf8 w) v ∧ (buildKey [st]).run ctx = .ok (ctx.getMatch v)) ∨
             ((∀ v, ¬ IntLit (utf8 w) v) ∧ (buildKey [st]).run ctx = .ok (ctx.getKey (utf8 w))) :=
  lone_argument_lookup reg opt _ w (lone_body lead w trail hl hw ht).1 (lone_body lead w trail hl hw ht).2

/-- **A lone quoted string** `{ "q" }`: the same rule applies to the text between the quotes – quoting does not
    turn an integer into a key (`{"1"}` is group 1), `{"a b"}` looks up the key `a b`, and `{""}` (one empty
    argument – not an empty statement) looks up the empty key. -/
theorem lone_quoted_lookup (reg : Registry) (opt : Bool) (lead q trail : List Char)
    (hl : allSpace lead = true) (hq : plain q = true) (ht : allSpace trail = true) :
    ∃ st, compile reg opt ('{' :: (lead ++ ['"'] ++ q ++ ['"'] ++ trail ++ ['}'])) = .ok ([st], []) ∧
      ∀ ctx, (∃ v, IntLit (utf8 q) v ∧ (buildKey [st]).run ctx = .ok (ctx.getMatch v)) ∨
             ((∀ v, ¬ IntLit (utf8 q) v) ∧ (buildKey [st]).run ctx = .ok (ctx.getKey (utf8 q))) :=
  lone_argument_lookup reg opt _ q (lone_quoted_body lead q trail hl hq ht).1 (lone_quoted_body lead q trail hl hq ht).2

/-- **Seam with C02.**  Against a regex match context – any `ctx` whose `GetMatch` is C02's model of
    `SliceSpaceExpressionContext.GetMatch` on an engine's index slice – the template `{n}` (decimal print of `n`,
    any white space) evaluates to the text of capture group `n` of the leftmost match (`C02.specGroup`), empty
    for a group that does not exist or did not participate. -/
theorem lone_integer_is_regex_group (reg : Registry) (opt : Bool) (lead trail : List Char) (n : Nat)
    (hl : allSpace lead = true) (ht : allSpace trail = true) (hn : (n : Int) ≤ maxInt64)
    (line : Bytes) (indices : List Int) (hwf : C02.WF line indices)
    (hlen : (indices.length : Int) < 4611686018427387904) (ctx : Ctx)
    (hctx : ∀ i, minInt64 ≤ i ∧ i ≤ maxInt64 → C02.getMatch line indices i = .ok (ctx.getMatch i)) :
    ∃ st, compile reg opt ('{' :: (lead ++ decimal n ++ trail ++ ['}'])) = .ok ([st], []) ∧
      (buildKey [st]).run ctx = .ok (C02.specGroup line indices n) := by
  obtain ⟨h1, h2⟩ := lone_body lead (decimal n) trail hl (bare_decimal n) ht
  refine ⟨stageSimpleVariable (decimal n), compileF_lone _ reg opt h1 _ h2, ?_⟩
  rw [run_simpleVariable, atoi_decimal n hn]
  have hr : minInt64 ≤ (n : Int) ∧ (n : Int) ≤ maxInt64 := ⟨by unfold minInt64; omega, hn⟩
  have := hctx n hr
  rw [C02.getMatch_eq_spec line indices n hwf hlen hr] at this
  exact this.symm

/-- **The look-up itself, not just its value**: evaluated against the recording context (`runLog`: every
    `GetMatch(i)` / `GetKey(k)` is logged – the correspondence op `look` observes exactly this on the real code), a
    lone argument performs exactly ONE look-up: `GetMatch(v)` with the literal's value when it is an integer
    literal (negative values and `±0` included), `GetKey` of the argument's bytes otherwise. -/
theorem lone_argument_one_lookup (reg : Registry) (opt : Bool) (body a : List Char) (hi : Inner body)
    (hs : splitArgs body = [a]) :
    ∃ st, compile reg opt ('{' :: (body ++ ['}'])) = .ok ([st], []) ∧
      ((∃ v, IntLit (utf8 a) v ∧ runLog (buildKey [st]) [] = .ok (lookAnswer (.m v), [Look.m v])) ∨
       ((∀ v, ¬ IntLit (utf8 a) v) ∧ runLog (buildKey [st]) [] = .ok (lookAnswer (.k (utf8 a)), [Look.k (utf8 a)]))) := by
  refine ⟨stageSimpleVariable a, compileF_lone _ reg opt hi a hs, ?_⟩
  rw [runLog_simpleVariable]
  cases h : atoi (utf8 a) with
  | some v => exact Or.inl ⟨v, intLit_of_atoi h, rfl⟩
  | none => exact Or.inr ⟨(atoi_none_iff _).mp h, rfl⟩

/-! ### The tokenizer state machines are the source's (translator tie) -/

/-- **`splitTokenizedArguments`, statement by statement.**  `Gen.C09.step` / `init` / `finish` are regenerated from
    the Go AST of `argSplitter.go` on every run (every condition of the if / else-if chain in order, every
    statement of every branch in order, the declarations before the loop and the flush after it; only
    `unicode.IsSpace` is a parameter).  The hand model's `splitStep` is that function on the record of the Go
    locals, and `splitArgs` is the generated `split` – for ALL states, runes and inputs.  Any changed condition,
    constant, statement or branch order in the Go function breaks this theorem. -/
theorem splitter_matches_source :
    (∀ (s : SplitSt) (r : Char), toGen (splitStep s r) = Gen.C09.step isSpaceRune (toGen s) r) ∧
    toGen SplitSt.init = Gen.C09.init ∧
    (∀ t : List Char, splitArgs t = Gen.C09.split isSpaceRune t) :=
  ⟨splitStep_gen, rfl, splitArgs_gen⟩

/-- **`Compile`'s rune loop dispatches as the source's conditions say.**  `Gen.C09.scanConds r i n inStatement` are
    the conditions of the loop's if / else-if chain translated from keyBuilder.go (`r == '\\' && i+1 < len(runes)`,
    `r == '{'`, `r == '}' && inStatement > 0`); for every rune, position, rest of the input and scanner state the
    model's `compileLoop` takes the branch of the FIRST condition that holds (the final `else` when none does):
    escape (consuming the next rune through the generated `unescape` table), open, close, copy. -/
theorem scanner_matches_source (fuel : Nat) (reg : Registry) (opt : Bool) (all : List Char)
    (r : Char) (rest : List Char) (i : Nat) (st : CompSt) :
    compileLoop fuel reg opt all (r :: rest) i st =
      match firstTrue (Gen.C09.scanConds r i (i + 1 + rest.length) st.inStatement), rest with
      | 0, e :: rest' => compileLoop fuel reg opt all rest' (i + 2) { st with sb := st.sb ++ [Gen.C09.unescape e] }
      | 0, [] => .ok st
      | 1, _ =>
        if st.inStatement = 0 then
          compileLoop fuel reg opt all rest (i + 1)
            { st with stages := if st.sb.isEmpty then st.stages else st.stages ++ [Stage.lit (charsToBytes st.sb)],
                      sb := [], startStatement := i, inStatement := 1 }
        else compileLoop fuel reg opt all rest (i + 1) { st with sb := st.sb ++ ['{'], inStatement := st.inStatement + 1 }
      | 2, _ =>
        if st.inStatement = 1 then
          match closeStatement fuel reg opt all i st with
          | .error m => .error m
          | .ok st' => compileLoop fuel reg opt all rest (i + 1) { st' with sb := [], inStatement := 0 }
        else compileLoop fuel reg opt all rest (i + 1) { st with sb := st.sb ++ ['}'], inStatement := st.inStatement - 1 }
      | _, _ => compileLoop fuel reg opt all rest (i + 1) { st with sb := st.sb ++ [r] } :=
  scanner_gen fuel reg opt all r rest i st

/-- `unescape` is the source's switch table (`\n \r \t`; every other rune stands for itself), and the rest of the
    parser's skeleton is what the model mirrors: the loop header, the counter statement of each branch (`i++` in
    the escape branch only), the `len(args)` tests when a statement closes (0 → empty statement, 1 → lone word,
    else call), the four post-loop guards, and `stageSimpleVariable` = `strconv.Atoi` (decimal, no base
    detection) → `GetKey(s)` on failure, `GetMatch(index)` on success. -/
theorem parser_skeleton_matches_source :
    (∀ c, unescape c = Gen.C09.unescape c) ∧
    Gen.C09.unescapeTable = [('n', '\n'), ('r', '\r'), ('t', '\t')] ∧
    Gen.C09.scanLoop = "i := 0; i < len(runes); i++" ∧
    Gen.C09.scanCounters = [["i++"], ["inStatement++"], ["inStatement--"], []] ∧
    (∀ args : List (List Char), Gen.C09.argConds args.length = [args.isEmpty, decide (args.length = 1)]) ∧
    Gen.C09.postConds = ["inStatement != 0", "sb.Len() > 0", "s.autoOptimize", "!errs.empty()"] ∧
    Gen.C09.simpleVariable = ["strconv.Atoi(s)", "err != nil", "context.GetKey(s)", "context.GetMatch(index)"] :=
  ⟨unescape_gen, by decide, by decide, by decide, argConds_gen, by decide, by decide⟩

/-! ### Syntax errors, for ALL templates -/

/-- **`Compile` reports a syntax error iff the template is not well formed – for every template.**
    `WellFormed split known t` (`Spec/C09WF.lean`, no reference to `Compile`) is the grammar "every `{` is closed
    (escapes respected); every statement has at least one argument; a statement with several arguments starts
    with a known function name and each further argument is, recursively, a well-formed template" – arguments
    being what the splitter makes of the statement's text (`split_spec` says what that is on laid-out lists;
    `splitter_matches_source` that it is the source's state machine).  For EVERY template (any text: stray and
    quoted braces, escapes at any level, unbalanced quotes, invalid UTF-8 already decoded), every registry,
    optimiser on or off: whenever `Compile` returns (no builder panicked), its error list is free of
    `ErrorUnterminated` / `ErrorEmptyStatement` / `ErrorMissingFunction` – at every nesting level, inherited errors
    included – IFF the template is well formed w.r.t. the registered names.  So all three clauses of the property
    hold in both directions: each such defect anywhere in a compiled position is reported, and nothing else is
    reported as one.  (Errors of a function builder itself – arity, argument type – are `.func` and are the
    builders' business: C08/C11.  Arguments of an unknown function are not compiled, so defects inside them are
    not reported separately – `WellFormed` does not look there either.) -/
theorem compile_ok_iff_wellformed (reg : Registry) (opt : Bool) (t : List Char) (stages : List Stage)
    (errs : List CErr) (h : compile reg opt t = .ok (stages, errs)) :
    (∀ e ∈ errs, e.kind ≠ .unterminated ∧ e.kind ≠ .emptyStatement ∧ e.kind ≠ .missingFunction) ↔
      WellFormed splitArgs (fun name => (reg name).isSome) t := by
  have hw : SynFree errs ↔ WellFormed splitArgs (fun name => (reg name).isSome) t :=
    compileF_wf reg opt (t.length + 1) t (by omega) _ (by omega) stages errs h
  rw [← hw]
  constructor
  · intro hh e he
    obtain ⟨h1, h2, h3⟩ := hh e he
    cases hk : e.kind <;> simp_all [syntactic]
  · intro hh e he
    have := hh e he
    cases hk : e.kind <;> simp_all [syntactic]

/-- …equivalently: some syntax error is reported iff the template is malformed. -/
theorem syntax_error_iff_malformed (reg : Registry) (opt : Bool) (t : List Char) (stages : List Stage)
    (errs : List CErr) (h : compile reg opt t = .ok (stages, errs)) :
    (∃ e ∈ errs, e.kind = .unterminated ∨ e.kind = .emptyStatement ∨ e.kind = .missingFunction) ↔
      ¬ WellFormed splitArgs (fun name => (reg name).isSome) t := by
  rw [← compile_ok_iff_wellformed reg opt t stages errs h]
  constructor
  · rintro ⟨e, he, hk⟩ hall
    obtain ⟨h1, h2, h3⟩ := hall e he
    rcases hk with hk | hk | hk <;> contradiction
  · intro hn
    apply Classical.byContradiction
    intro hne
    apply hn
    intro e he
    refine ⟨fun hk => hne ⟨e, he, Or.inl hk⟩, fun hk => hne ⟨e, he, Or.inr (Or.inl hk)⟩,
      fun hk => hne ⟨e, he, Or.inr (Or.inr hk)⟩⟩

/-- **No error at all iff well formed**, for registries whose builders never return an error value (`NoBuilderErr`:
    e.g. any registry of pure functions – the probe registry of the correspondence; builders may still panic, then
    `Compile` does not return): for EVERY template, `Compile`'s error list is empty iff the template is well formed.
    (With builders that do report errors – bad arity, bad argument type – those `.func` errors come on top; the
    parser-level kinds are exactly characterised by `compile_ok_iff_wellformed`.) -/
theorem no_errors_iff_wellformed (reg : Registry) (opt : Bool) (hreg : NoBuilderErr reg) (t : List Char)
    (stages : List Stage) (errs : List CErr) (h : compile reg opt t = .ok (stages, errs)) :
    errs = [] ↔ WellFormed splitArgs (fun name => (reg name).isSome) t :=
  errs_nil_iff reg opt hreg t stages errs h

/-- The grammar is decidable, and the program that decides it – `wfB`, brace depth + statement bodies + splitter,
    recursing into the arguments of known functions; it never compiles anything – is what the correspondence op
    `wfck` runs against the real `Compile`'s `errors.Is` answers. -/
theorem wellformed_decidable (known : List Char → Bool) (t : List Char) :
    wfB splitArgs known (t.length + 1) t = true ↔ WellFormed splitArgs known t :=
  wfB_splitArgs known t

/-- Every printed tree is a well-formed template (the documented grammar lies inside `WellFormed`). -/
theorem printed_tree_wellformed (reg : Registry) (fn : List Char → List Bytes → Bytes) (σ : Style) (e : C09.Expr)
    (ha : AdmissibleTop e) (hreg : RegSem reg fn e) :
    WellFormed splitArgs (fun name => (reg name).isSome) (printTop σ e) := by
  obtain ⟨st, h, _⟩ := print_compile reg fn false σ e ha hreg
  exact (compile_ok_iff_wellformed reg false _ st [] h).mp (fun e he => by cases he)

/-! ### Which errors, where, with which text, in which order – for ALL templates -/

/-- **The syntax errors `Compile` records are exactly `synErrs` – for every template.**
    `synErrs split known t` (`Spec/C09Pos.lean`, no reference to `Compile`) lists, for each closed top-level statement
    in order of appearance: `empty statement` with the raw text `{…}` at the rune index of its `{` when it has no
    argument; nothing when it has one; `missing function` with the statement's body at the index of its `{` when the
    head is unknown (arguments not looked at); otherwise the syntax errors of each further argument, compiled as a
    template of its own, in order, each with its own context text and its index moved by the index of the enclosing
    top-level statement's `{` (`CompilerErrors.inherit`); and last `non-terminated statement` with the text from the
    open `{` to the end.  For EVERY template, every registry, optimiser on or off: whenever `Compile` returns, the
    recorded errors of the three parser kinds (`synOf errs`: builder errors dropped, order kept) are that list –
    same kinds, same number, same order, same context texts, same indices, at every nesting level.  This is the
    mechanism "error accumulation with offsets" (`errors.go` `add` / `inherit`) for all inputs; the `_reported`
    theorems above are its single-statement instances. -/
theorem syntax_errors_exact (reg : Registry) (opt : Bool) (t : List Char) (stages : List Stage)
    (errs : List CErr) (h : compile reg opt t = .ok (stages, errs)) :
    synOf errs = synErrs splitArgs (fun name => (reg name).isSome) t :=
  compileF_syn reg opt (t.length + 1) t stages errs h

/-- **The whole error list**, for registries whose builders never return an error value (`NoBuilderErr`, e.g. the
    probe registry): `Compile`'s error list IS `synErrs` (as recorded errors), nothing more, nothing less. -/
theorem all_errors_exact (reg : Registry) (opt : Bool) (hreg : NoBuilderErr reg) (t : List Char)
    (stages : List Stage) (errs : List CErr) (h : compile reg opt t = .ok (stages, errs)) :
    errs = (synErrs splitArgs (fun name => (reg name).isSome) t).map SynErr.toCErr := by
  rw [← syntax_errors_exact reg opt t stages errs h]
  exact synOf_allSyn errs (compileF_allSyn reg opt hreg (t.length + 1) t (by omega) _ (by omega) stages errs h)

/-- **The recursion equation of `synErrs`** (its definition runs on fuel; more fuel than the template has runes is
    always enough, so the equation holds as the spec's header states it): the errors of a template are the errors
    of its closed statements in order – where the errors one level down are again `synErrs` of the argument – followed
    by the error of the open statement, if any. -/
theorem syntax_errors_unfold (known : List Char → Bool) (t : List Char) :
    synErrs splitArgs known t =
      (stmts t).flatMap (stmtErrs splitArgs known (synErrs splitArgs known) t) ++ openErr t :=
  synErrs_unfold_gen splitArgs known (fun _ _ h => splitArgs_length h) t

/-- **The two specifications agree**: the declarative error list is empty exactly for the templates of the grammar
    `WellFormed` – a statement about the specs alone (any set of known names, no `Compile`), so
    `compile_ok_iff_wellformed` is the "= []" instance of `syntax_errors_exact`. -/
theorem syntax_errors_nil_iff_wellformed (known : List Char → Bool) (t : List Char) :
    synErrs splitArgs known t = [] ↔ WellFormed splitArgs known t :=
  synErrs_nil_iff_wf splitArgs known (fun _ _ h => splitArgs_length h) (t.length + 1) t (by omega)

/-! ### round 4c: the complete error list, builder errors included -/

/-- **The COMPLETE error list, builder errors included** – for ALL templates, optimiser on or off, and every
    registry with an arity signature (`HasSig reg sig`: the same names, and every builder's error value is a
    function of the NUMBER of its arguments – rare's "invalid number of arguments"; instances below): whenever
    `Compile` returns, the recorded errors – every one of them, in the order recorded (`repOf` only renames the
    kinds) – ARE `allErrs splitArgs sig t`, the declarative list of `Spec/C09All.lean` (no reference to `Compile`):
    `synErrs` with, for every closed statement whose head is registered, the builder's error AFTER the errors of
    its arguments, carrying the statement's body and the index of its `{` (inherited like every other error). -/
theorem all_errors_exact_arity (reg : Registry) (sig : Sig) (hsig : HasSig reg sig) (opt : Bool) (t : List Char)
    (stages : List Stage) (errs : List CErr) (h : compile reg opt t = .ok (stages, errs)) :
    errs.map repOf = allErrs splitArgs sig t :=
  compileF_all reg opt sig hsig (t.length + 1) t stages errs h

/-- The recursion equation of `allErrs`, as its header says (fuel is irrelevant). -/
theorem all_errors_unfold (sig : Sig) (t : List Char) :
    allErrs splitArgs sig t =
      (stmts t).flatMap (stmtErrsA splitArgs sig (allErrs splitArgs sig) t) ++ (openErr t).map RepErr.ofSyn :=
  allErrs_unfold_gen splitArgs sig (fun _ _ h => splitArgs_length h) t

/-- The two specifications agree: dropping the builder errors from `allErrs` leaves `synErrs` (for the names the
    signature knows) – a statement about the specs alone. -/
theorem all_errors_syntax_part (sig : Sig) (t : List Char) :
    (allErrs splitArgs sig t).filterMap RepErr.synPart = synErrs splitArgs (fun n => (sig n).isSome) t :=
  allErrsF_synPart splitArgs sig (t.length + 1) t

/-- **Registries with an arity signature**: the probe registry of the correspondence (`bad` / `nil` fail whatever
    the arguments), and the STANDARD table restricted to 33 of its names (`arityNames`: the logic family, the
    unary string / number helpers, `like prefix suffix select substr`, `@len @map @filter @for`, the joiners) –
    each builder is literally the one `stdTable` registers, and its only error is `<ARGN>`. -/
theorem arity_signatures :
    HasSig testRegistry testSig ∧ HasSig arityRegistry aritySig ∧
    (∀ p ∈ arityNames, ∃ f, lookupTable stdTable p.1 = some f ∧ ArityOnly f p.2) ∧
    arityNames.length = 33 ∧ (arityNames.map (·.1)).all (Gen.stdFunctionNames.contains ·) = true :=
  ⟨testRegistry_hasSig, arityRegistry_hasSig, arityAll_mem arityNames_all, by decide +kernel, by decide +kernel⟩

/-- **What the positions are.**  The statements `stmts t` of the error spec are the statements of the grammar
    (`bodies`, same order); each starts at a rune that is `{` and ends at a later rune that is `}`; they are listed
    left to right and do not overlap; the open statement (if any) starts at a `{` too, and there is one iff the
    template is `Unterminated`.  So the index of every error of a top-level statement is the rune index of the `{`
    that opens the offending statement, and top-level errors come in text order. -/
theorem statement_positions (t : List Char) :
    (stmts t).map (·.body) = bodies t ∧
    (∀ x ∈ stmts t, t[x.start]? = some '{' ∧ t[x.stop]? = some '}' ∧ x.start < x.stop) ∧
    (stmts t).Pairwise (fun x y => x.stop < y.start) ∧
    (∀ k, openStart t = some k → t[k]? = some '{') ∧
    (openStart t ≠ none ↔ Unterminated t) :=
  ⟨stmts_bodies t, stmts_pos t, stmts_sorted t, openStart_pos t,
    by unfold Unterminated; exact not_congr (openStart_none_iff t)⟩

/-- **Every reported index points inside the template**: each recorded syntax error – top level or inherited from any
    nesting depth, where the starts of the enclosing statements add up – has an index below the template's rune
    count. -/
theorem error_index_inside_template (reg : Registry) (opt : Bool) (t : List Char) (stages : List Stage)
    (errs : List CErr) (h : compile reg opt t = .ok (stages, errs)) :
    ∀ e ∈ errs, (e.kind = .unterminated ∨ e.kind = .emptyStatement ∨ e.kind = .missingFunction) →
      e.index < t.length := by
  intro e he hk
  have hx := syntax_errors_exact reg opt t stages errs h
  have hi := synErrsF_index splitArgs (fun name => (reg name).isSome) (fun _ _ h => splitArgs_length h) (t.length + 1) t
  obtain ⟨k, hk'⟩ : ∃ k, synKindOf e.kind = some k := by
    rcases hk with hk | hk | hk <;> rw [hk] <;> exact ⟨_, rfl⟩
  have hm := mem_synOf he hk'
  rw [hx] at hm
  exact hi _ hm

/-! ### errors.go: what the user sees -/

/-- The texts of the model's error rendering are the source's: the three sentinel messages, the format of
    `DetailedError.Error()` and its arguments, the single-error shortcut and the pieces of the multi-error text. -/
theorem error_texts_match_source :
    msgUnterminated = Gen.C09.msgUnterminated ∧ msgEmptyStatement = Gen.C09.msgEmptyStatement ∧
    msgMissingFunction = Gen.C09.msgMissingFunction ∧
    Gen.C09.detailedFormat = "At `%s` (%d): %v" ∧ Gen.C09.detailedArgs = ["s.Context", "s.Index", "s.Err"] ∧
    Gen.C09.multiShortcut = "len(s.Errors) == 1" ∧
    Gen.C09.multiPieces = ["Compiler Errors in: `", "<s.Expression>", "`\n", "  ", "<e.Error()>", "\n"] := by
  refine ⟨by decide, by decide, by decide, by decide, by decide, by decide, by decide⟩

/-- **Every recorded error is shown to the user**: the text `Compile`'s error value renders (`CompilerErrors.Error()`,
    what `rare` prints) contains, for EVERY recorded error, its full line ``At `<context>` (<index>): <message>`` –
    whether there is one error (the text is exactly that line) or several (header with the whole expression, one
    indented line each); `Compile` returns a nil error exactly when nothing was recorded; and `errors.Is` finds a
    sentinel exactly when an error of that kind was recorded. -/
theorem errors_are_shown (funcMsg : String → String) (expr : Bytes) (errs : List CErr) :
    (compileError funcMsg expr errs = none ↔ errs = []) ∧
    (∀ e, errs = [e] → compileError funcMsg expr errs = some (detailedError funcMsg e)) ∧
    (∀ e ∈ errs, ∃ msg, compileError funcMsg expr errs = some msg ∧ detailedError funcMsg e <:+: msg) ∧
    (∀ k, errorsIs errs k = true ↔ ∃ e ∈ errs, e.kind = k) := by
  refine ⟨?_, ?_, ?_, ?_⟩
  · unfold compileError; cases errs <;> simp
  · rintro e rfl; rfl
  · intro e he
    refine ⟨compilerErrorsError funcMsg expr errs, ?_, detailed_infix funcMsg expr errs e he⟩
    unfold compileError; cases errs with
    | nil => cases he
    | cons _ _ => rfl
  · intro k; simp [errorsIs]

/-! ### UTF-8: from Go strings to rune lists and back -/

/-- `[]rune(string(rs)) = rs` for Unicode scalar values (everything but surrogates and values above
    U+10FFFF, which `string(rune)` itself replaces by U+FFFD). -/
theorem utf8_decode_encode (rs : List Nat) (h : ∀ r ∈ rs, Rare.C20.validScalar r) :
    decodeUtf8 (encodeUtf8 rs) = rs :=
  Rare.C20.decodeUtf8_encodeUtf8 rs h

/-- `string([]rune(b)) = b` for well-formed `b` – `wellFormed` is the decidable, structural predicate
    "concatenation of the byte sequences of Unicode table 3-7"; it does not mention the decoder. -/
theorem utf8_encode_decode (b : Bytes) (h : wellFormed b = true) : encodeUtf8 (decodeUtf8 b) = b :=
  (wellFormed_iff b).mp h

/-- … and only for those: the table is exactly the set of byte strings that survive the round trip. -/
theorem utf8_wellFormed_iff (b : Bytes) : wellFormed b = true ↔ encodeUtf8 (decodeUtf8 b) = b :=
  wellFormed_iff b

/-- **One replacement rune per invalid byte.**  Where no sequence of table 3-7 starts (a stray
    continuation byte, C0/C1/F5..FF, an overlong or surrogate or too large lead/second byte pair, a
    sequence cut short by a non-continuation byte or by the end of the string) the decoder emits ONE
    U+FFFD and resumes at the very next byte. -/
theorem utf8_invalid_byte (b0 : UInt8) (tl : Bytes) (h : seqLen (b0 :: tl) = 0) :
    decodeUtf8 (b0 :: tl) = 0xFFFD :: decodeUtf8 tl :=
  decodeUtf8_bad b0 tl h

/-- Where a sequence of table 3-7 starts the decoder emits the scalar value whose encoding is that
    sequence and resumes right after it.  (With `utf8_invalid_byte` this determines `decodeUtf8`.) -/
theorem utf8_sequence (b0 : UInt8) (tl : Bytes) (h : seqLen (b0 :: tl) ≠ 0) :
    ∃ cp, Rare.C20.validScalar cp ∧ Rare.C20.encodeRune cp = (b0 :: tl).take (seqLen (b0 :: tl)) ∧
      decodeUtf8 (b0 :: tl) = cp :: decodeUtf8 ((b0 :: tl).drop (seqLen (b0 :: tl))) :=
  decodeUtf8_good b0 tl h

/-- The model's rune lists and Go's strings: text written rune by rune (`strings.Builder.WriteRune`, how
    `Compile` and the splitter build every literal and every argument) is read back rune for rune – so
    the nested `Compile(arg string)` sees exactly the rune list the model passes on; and re-encoding
    the runes of ANY byte string gives Go's `string([]rune(s))` (= the string itself iff well-formed). -/
theorem utf8_runes_roundtrip (cs : List Char) (b : Bytes) :
    decodeRunes (encodeRunes cs) = cs ∧ wellFormed (encodeRunes cs) = true ∧
    encodeRunes (decodeRunes b) = encodeUtf8 (decodeUtf8 b) :=
  ⟨decodeRunes_encodeRunes cs, wellFormed_encodeRunes cs, encodeRunes_decodeRunes b⟩

/-- Byte-level literal round trip: for EVERY byte string `text` (valid UTF-8 or not), escaping its runes
    and compiling the resulting template *string* evaluates to `string([]rune(text))` – which is `text`
    itself when `text` is well-formed UTF-8. -/
theorem escape_roundtrip_bytes (reg : Registry) (opt : Bool) (text : Bytes) :
    ∃ stages, compileBytes reg opt (encodeRunes (escapeLit (decodeRunes text))) = .ok (stages, []) ∧
      (∀ ctx, (buildKey stages).run ctx = .ok (encodeUtf8 (decodeUtf8 text))) ∧
      (wellFormed text = true → ∀ ctx, (buildKey stages).run ctx = .ok text) := by
  obtain ⟨st', h1', h2'⟩ := compileF_escapeLit (escapeLit (decodeRunes text)).length reg opt (decodeRunes text)
  refine ⟨st', ?_, fun ctx => ?_, fun hw ctx => ?_⟩
  · rw [compileBytes, decodeRunes_encodeRunes]; exact h1'
  · rw [h2' ctx, utf8_eq_encodeRunes, encodeRunes_decodeRunes]
  · rw [h2' ctx, utf8_eq_encodeRunes, encodeRunes_decodeRunes_wf text hw]

/-- Byte-level print/compile round trip: the printed tree as a Go string. -/
theorem print_compile_bytes (reg : Registry) (fn : List Char → List Bytes → Bytes) (opt : Bool) (σ : Style)
    (e : C09.Expr) (ha : AdmissibleTop e) (hreg : RegSem reg fn e) :
    ∃ stages, compileBytes reg opt (encodeRunes (printTop σ e)) = .ok (stages, []) ∧
      ∀ ctx, (buildKey stages).run ctx = .ok (evalTree (envOf ctx fn) e) := by
  rw [compileBytes, decodeRunes_encodeRunes]
  exact print_compile reg fn opt σ e ha hreg

/-- Byte-level splitter: `splitTokenizedArguments(string)` on a laid-out argument list. -/
theorem split_spec_bytes (l : List (List Char × Piece)) (trail : List Char)
    (hl : LayoutOk true l) (ht : allSpace trail = true) :
    splitArgsBytes (encodeRunes (layout l ++ trail)) = l.map (fun p => encodeRunes p.2.value) := by
  rw [splitArgsBytes, decodeRunes_encodeRunes, split_spec l trail hl ht, List.map_map]
  rfl

/-! ### Non-vacuity: the hypotheses are satisfiable on concrete, non-trivial values -/

/-- `{f "a b" {1} {g {k}} x}` as a tree. -/
def sampleTree : C09.Expr :=
  .call "f".toList [.lit "a b".toList, .group 1, .call "g".toList [.key "k".toList], .lit "x".toList]

def sampleStyle : Style := fun p =>
  { quote := p.length % 2 == 1, lead := [0], trail := if p = [] then [] else [1],
    sep := fun i => (i % 2, if i = 0 then [0] else []) }

/-- A style with Unicode white space: NBSP after `{`, IDEOGRAPHIC SPACE + LF before `}`, EM SPACE / LINE
    SEPARATOR between arguments. -/
def unicodeStyle : Style := fun _ =>
  { quote := false, lead := [7], trail := [24, 2], sep := fun i => (if i % 2 = 0 then 12 else 20, []) }

def sampleFn : List Char → List Bytes → Bytes := probeSem
def sampleReg : Registry := pureRegistry ["f".toList, "g".toList] sampleFn

example : AdmissibleTop sampleTree := by
  simp only [AdmissibleTop, sampleTree, Admissible, AdmissibleArgs]
  decide

example : RegOk sampleReg sampleFn sampleTree := by
  simp [sampleTree, RegOk, RegOkArgs, sampleReg, pureRegistry]

example : printTop sampleStyle sampleTree = "{ f  \"a b\"\t{ 1\t} { g  { k\t}\t}\t\"x\"}".toList := by
  simp [printTop, sampleTree, printArg, printArgs, sampleStyle, Style.child, decimal, ws, sepWs, wsChar, bare,
    special, isSpace, digitChar, spaceRunes]

example : printTop unicodeStyle (.call "f".toList [.key "k".toList, .lit "x".toList]) =
    "{\u00a0f\u2003{\u00a0k\u3000\n}\u2028x\u3000\n}".toList := by
  simp [printTop, printArg, printArgs, unicodeStyle, Style.child, ws, sepWs, wsChar, bare,
    special, isSpace, spaceRunes]

example : LayoutOk true [([' '], .bare ['a']), ([' ', '\t'], .quoted []), (['\n'], .braced "f \"x y\" {1}".toList)] := by
  refine ⟨by decide, Or.inl rfl, (by decide : bare ['a'] = true), by decide, Or.inr (by decide), (by decide : plain [] = true),
    by decide, Or.inr (by decide), ?_, trivial⟩
  show Inner "f \"x y\" {1}".toList
  exact Inner.char 'f' _ (by decide) (Inner.char ' ' _ (by decide) (Inner.quoted "x y".toList _ (by decide)
    (Inner.char ' ' _ (by decide) (Inner.braces ['1'] [] (Inner.char '1' _ (by decide) Inner.nil) Inner.nil))))

example : Unterminated "ab {f {0} \\} c".toList := by unfold Unterminated; decide

example : escapeLit "a{b}\\c\n".toList = "a\\{b\\}\\\\c\\n".toList := by decide

example : sampleReg "nofn".toList = none := by decide

/-- The probe registry satisfies the optimiser-on hypothesis too: a pure builder's stage only runs its
    arguments. -/
example : NoMsgReg "out of fuel" sampleReg := by
  intro name f args h hargs
  simp only [sampleReg, pureRegistry] at h
  split at h
  · cases h
    refine ⟨by simp [pureBuilder], fun b s hb hs => ?_⟩
    simp only [pureBuilder, Except.ok.injEq] at hb
    subst hb; simp only [Option.some.injEq] at hs; subst hs
    refine NoMsg.bind ?_ fun vs => .ret _
    induction args with
    | nil => exact .ret _
    | cons a r ih =>
      exact NoMsg.bind (hargs a (by simp)) fun x =>
        NoMsg.bind (ih fun y hy => hargs y (by simp [hy])) fun y => .ret _
  · cases h

example : NoFuelMsg sampleReg := by
  intro name f args h
  simp only [sampleReg, pureRegistry] at h
  split at h
  · cases h; simp [pureBuilder]
  · cases h

/-- `{if {eq {0} "a b"} {not {k}} no}` over the STANDARD registry satisfies the hypotheses of `print_compile`
    (lazy `if`, folding `eq`, strict `not`; any set of known-but-unmodelled other names). -/
example (known : List String) : AdmissibleTop stdTree ∧ RegSem (stdRegistry known) stdFn stdTree :=
  ⟨by simp only [AdmissibleTop, stdTree, Admissible, AdmissibleArgs]; decide, stdTree_regSem known⟩

example : RegSem sampleReg sampleFn sampleTree :=
  regSem_of_regOk _ _ _ (by simp [sampleTree, RegOk, RegOkArgs, sampleReg, pureRegistry])

/-- `{if {lt {0} 10} {bucket {sumi {multi {0} 2} {len {src}} 7} 5} {substr {k} 0 3}}`: a lazy helper, a float
    comparison of a group with a constant, an integer fold whose arguments are a nested fold, a call and a
    constant, a bucket with a constant size, `substr` with constant indices – a call site of the fragment at
    every node (so `print_compile_std_fragment` applies, any style, optimiser on or off). -/
def fragTree : C09.Expr :=
  .call "if".toList [.call "lt".toList [.group 0, .lit "10".toList],
    .call "bucket".toList [.call "sumi".toList [.call "multi".toList [.group 0, .lit "2".toList],
      .call "len".toList [.key "src".toList], .lit "7".toList], .lit "5".toList],
    .call "substr".toList [.key "k".toList, .lit "0".toList, .lit "3".toList]]

example : fragOk fragTree = true ∧ AdmissibleTop fragTree :=
  ⟨by decide +kernel, by simp only [AdmissibleTop, fragTree, Admissible, AdmissibleArgs]; decide⟩

/-- …and what the fragment excludes: a constant that is not an integer in an integer position (`{sumi abc 1}`
    is a compile error in rare), a non-constant bucket size. -/
example : fragOk (.call "sumi".toList [.lit "abc".toList, .lit "1".toList]) = false ∧
    fragOk (.call "bucket".toList [.group 0, .group 1]) = false := ⟨by decide +kernel, by decide +kernel⟩

example : RegDen (stdRegistry []) (fun _ => stdSem) dynE fragTree := regDen_of_fragOk [] fragTree (by decide +kernel)

/-- "aé€😀": 1-, 2-, 3- and 4-byte sequences. -/
example : wellFormed [0x61, 0xC3, 0xA9, 0xE2, 0x82, 0xAC, 0xF0, 0x9F, 0x98, 0x80] = true := by decide
example : decodeUtf8 [0x61, 0xC3, 0xA9, 0xE2, 0x82, 0xAC, 0xF0, 0x9F, 0x98, 0x80] = [0x61, 0xE9, 0x20AC, 0x1F600] := by decide

/-- Overlong (C0 80, E0 80 80), surrogate (ED A0 80), above U+10FFFF (F4 90 80 80), truncated (E2 82),
    stray continuation (80), F5: nothing starts there, and every byte gets its own U+FFFD. -/
example : seqLen [0xC0, 0x80] = 0 ∧ seqLen [0xE0, 0x80, 0x80] = 0 ∧ seqLen [0xED, 0xA0, 0x80] = 0 ∧
    seqLen [0xF4, 0x90, 0x80, 0x80] = 0 ∧ seqLen [0xE2, 0x82] = 0 ∧ seqLen [0x80] = 0 ∧ seqLen [0xF5, 0x80] = 0 := by decide
example : decodeUtf8 [0xF4, 0x90, 0x80, 0x80, 0x41, 0xE2, 0x82] = [0xFFFD, 0xFFFD, 0xFFFD, 0xFFFD, 0x41, 0xFFFD, 0xFFFD] := by
  decide
example : wellFormed [0xED, 0xA0, 0x80] = false ∧ wellFormed [0xED, 0x9F, 0xBF] = true := by decide

/-- `{007}` `{+1}` `{-1}` `{-0}` `{-9223372036854775808}` are integers … -/
example : IntLit (ascii "007") 7 ∧ IntLit (ascii "+1") 1 ∧ IntLit (ascii "-1") (-1) ∧ IntLit (ascii "-0") 0 ∧
    IntLit (ascii "-9223372036854775808") (-9223372036854775808) := by
  refine ⟨(int_literal_spec _ _).mp ?_, (int_literal_spec _ _).mp ?_, (int_literal_spec _ _).mp ?_,
    (int_literal_spec _ _).mp ?_, (int_literal_spec _ _).mp ?_⟩ <;> decide +kernel
/-- … `{1e3}` `{0x10}` `{1_0}` `{9223372036854775808}` `{-}` `{+}` `{1.0}` `{ 1}`(with the space inside the word), the
    Arabic-Indic digit three are not: they are key look-ups. -/
example : ∀ b ∈ [ascii "1e3", ascii "0x10", ascii "1_0", ascii "9223372036854775808", ascii "-", ascii "+", ascii "1.0",
    ascii " 1", ascii "--1", [0xD9, 0xA3], []], ∀ v, ¬ IntLit b v := by
  intro b hb
  apply (atoi_none_iff b).mp
  revert b; decide +kernel
/-- the hypotheses of `lone_integer_is_regex_group` are satisfiable: line "ab cd", match "b c" with group 1 = "c" -/
example : C02.WF (ascii "ab cd") [1, 4, 3, 4] ∧ C02.specGroup (ascii "ab cd") [1, 4, 3, 4] 1 = ascii "c" ∧
    C02.specGroup (ascii "ab cd") [1, 4, 3, 4] 0 = ascii "b c" ∧ C02.specGroup (ascii "ab cd") [1, 4, 3, 4] 2 = [] := by
  refine ⟨?_, by decide +kernel, by decide +kernel, by decide +kernel⟩
  intro k hk
  have : k = 0 ∨ k = 1 := by simp at hk; omega
  rcases this with rfl | rfl <;> decide +kernel
example : splitArgs "{0}".toList = ["{0}".toList] ∧ Inner "{0}".toList :=
  ⟨by decide, Inner.braces ['0'] [] (Inner.char '0' _ (by decide) Inner.nil) Inner.nil⟩

/-- what the user reads for `ab{}` and for `{nofn x}{`: one error → the bare line, two → header + indented lines -/
example : compileError (fun t => t) (ascii "ab{}") [⟨.emptyStatement, "{}".toList, 2⟩] =
    some (ascii "At `{}` (2): empty statement in expression") := by decide +kernel
example : compileError (fun t => t) (ascii "{nofn x}{")
      [⟨.missingFunction, "nofn x".toList, 0⟩, ⟨.unterminated, "{".toList, 8⟩] =
    some (ascii "Compiler Errors in: `{nofn x}{`\n  At `nofn x` (0): missing function\n  At `{` (8): non-terminated statement in expression\n") := by
  decide +kernel

/-- `{a {0} "x y"}` is well formed when `a` is known … -/
example : WellFormed splitArgs (fun n => n == ['a']) "{a {0} \"x y\"}".toList := by
  refine .mk _ (by decide) fun b hb => ?_
  have hb' : b = "a {0} \"x y\"".toList := by
    have : bodies "{a {0} \"x y\"}".toList = ["a {0} \"x y\"".toList] := by decide
    rw [this] at hb; simpa using hb
  subst hb'
  refine .call _ ['a'] "{0}".toList ["x y".toList] (by decide) rfl fun a ha => ?_
  have ha' : a = "{0}".toList ∨ a = "x y".toList := by simpa using ha
  rcases ha' with rfl | rfl
  · refine .mk _ (by decide) fun b hb => ?_
    have : bodies "{0}".toList = [['0']] := by decide
    rw [this] at hb
    have : b = ['0'] := by simpa using hb
    subst this
    exact .lone _ ['0'] (by decide)
  · refine .mk _ (by decide) fun b hb => ?_
    have : bodies "x y".toList = [] := by decide
    rw [this] at hb; cases hb
/-- … `{a {}}` is not (an empty statement one level down), nor `{nofn x}` (unknown function), nor `{a` (unterminated). -/
example : ¬ WellFormed splitArgs (fun n => n == ['a']) "{a {}}".toList := by
  intro h
  cases h with
  | mk _ _ h2 =>
    have hs : splitArgs "a {}".toList = [['a'], "{}".toList] := by decide
    cases h2 "a {}".toList (by decide) with
    | lone _ a h => rw [hs] at h; cases h
    | call _ n x xs h _ hall =>
      rw [hs] at h; cases h
      cases hall "{}".toList (by simp) with
      | mk _ _ h3 =>
        have hs' : splitArgs ([] : List Char) = [] := by decide
        cases h3 [] (by decide) with
        | lone _ a h => rw [hs'] at h; cases h
        | call _ n x xs h => rw [hs'] at h; cases h
example : ¬ WellFormed splitArgs (fun n => n == ['a']) "{nofn x}".toList := by
  intro h
  cases h with
  | mk _ _ h2 =>
    have hs : splitArgs "nofn x".toList = ["nofn".toList, ['x']] := by decide
    cases h2 "nofn x".toList (by decide) with
    | lone _ a h => rw [hs] at h; cases h
    | call _ n x xs h hk => rw [hs] at h; cases h; revert hk; decide
example : ¬ WellFormed splitArgs (fun n => n == ['a']) "{a".toList := by
  intro h
  cases h with
  | mk _ h1 _ => revert h1; decide

/-- registries of pure functions satisfy `NoBuilderErr` -/
example : NoBuilderErr sampleReg := by
  intro name f args b h hb
  simp only [sampleReg, pureRegistry] at h
  split at h
  · cases h; simp only [pureBuilder, Except.ok.injEq] at hb; subst hb; rfl
  · cases h

/-- `ab{f x {}}`: ONE error, `empty statement`, text `{}` – with index 2 (the `{` of the enclosing statement, inner
    index 0 added), although the text `{}` stands at rune 7: the index of an inherited error is relative to the
    enclosing top-level statement, not a position of the context text (`errors.go` `inherit`; modelled as it is). -/
example : synErrs splitArgs (fun n => n == ['f']) "ab{f x {}}".toList = [⟨.emptyStatement, "{}".toList, 2⟩] := by
  decide +kernel

/-- two levels down the starts add up: `ab{f xx {f yyy {}}}` reports index 2 + 0 + 0; a statement behind text inside
    an argument keeps its inner offset: `{f "ab{nofn x}cd{}"}` reports `missing` at 0 + 2 and `empty` at 0 + 12; quotes do
    not hide braces from `Compile`'s own brace count: `{f "{"}` is unterminated as a whole -/
example : synErrs splitArgs (fun n => n == ['f']) "ab{f xx {f yyy {}}}".toList = [⟨.emptyStatement, "{}".toList, 2⟩] ∧
    synErrs splitArgs (fun n => n == ['f']) "{f \"ab{nofn x}cd{}\"}".toList =
      [⟨.missingFunction, "nofn x".toList, 2⟩, ⟨.emptyStatement, "{}".toList, 12⟩] ∧
    synErrs splitArgs (fun n => n == ['f']) "{f \"{\"}".toList = [⟨.unterminated, "{f \"{\"}".toList, 0⟩] := by
  decide +kernel

/-- order and texts at top level: `a{}b{nofn x}c{ }{` – three closed statements and an open one -/
example : synErrs splitArgs (fun n => n == ['f']) "a{}b{nofn x}c{ }{".toList =
    [⟨.emptyStatement, "{}".toList, 1⟩, ⟨.missingFunction, "nofn x".toList, 4⟩, ⟨.emptyStatement, "{ }".toList, 13⟩,
     ⟨.unterminated, "{".toList, 16⟩] ∧
    stmts "a{}b{nofn x}c{ }{".toList = [⟨1, 2, []⟩, ⟨4, 11, "nofn x".toList⟩, ⟨13, 15, [' ']⟩] ∧
    openStart "a{}b{nofn x}c{ }{".toList = some 16 := by
  decide +kernel

/-! ### examples for the world-relative fragment -/

/-- A world for the examples: every non-ASCII rune printable, no zone database, no `dateparse`, library calls
    beyond the model answer the empty string. -/
def sampleWorld : FragWorld :=
  ⟨fun _ => true,
   { loadOk := fun _ => none, zones := fun _ => [], lookup := fun _ _ => .panic "no zone database",
     detect := fun _ => .ret none, parseAny := fun _ _ => .ret none,
     nowBuild := .ret [], nowLive := .ret [], nowDelta := .ret [], lib := fun _ => .ret [] },
   fun _ => []⟩

example : sampleWorld.Ok := fun _ => rfl

/-- `{@map {@split {1} ","} {format "%s=%q" {0} {@reduce {@split {0} " "} {sumi {0} {1}} "0"}}}`: a binder inside a
    binder, `format` and a literal initial value – inside the widened fragment in every style. -/
def worldTree : C09.Expr :=
  .call "@map".toList [.call "@split".toList [.group 1, .lit ",".toList],
    .call "format".toList [.lit "%s=%q".toList, .group 0,
      .call "@reduce".toList [.call "@split".toList [.group 0, .lit " ".toList],
        .call "sumi".toList [.group 0, .group 1], .lit "0".toList]]]

example : fragOkW sampleWorld worldTree = true ∧ AdmissibleTop worldTree :=
  ⟨by decide +kernel, by simp only [AdmissibleTop, worldTree, Admissible, AdmissibleArgs]; decide⟩

/-- **Shadowing**: inside the body `{0}` is the ELEMENT, not the caller's group 0.  With group 0 = `7`, group 1 =
    `1 2,30` the tree above is `1 2="3"`, NUL, `30="30"` – no `7` anywhere. -/
example : evalW sampleWorld worldTree ⟨fun i => if i = 0 then ascii "7" else if i = 1 then ascii "1 2,30" else [], fun _ => []⟩ =
    ascii "1 2=\"3\"" ++ [0] ++ ascii "30=\"30\"" := by decide +kernel

/-- Keys and negative indices inside a body are the enclosing context's; `{2}` and above are empty. -/
example : evalW sampleWorld (.call "@map".toList [.group 0, .call "$".toList [.group 0, .group 2, .key "k".toList]])
    ⟨fun i => if i = 0 then [97, 0, 98] else ascii "outer", fun _ => ascii "K"⟩ =
    [97, 0, 0, 75, 0, 98, 0, 0, 75] := by decide +kernel

/-- Just outside: a NON-literal initial value of `@reduce` (rare reads it as `""` without an error – the value is
    not the fold from that value), a named zone, a non-ASCII layout, an unknown attribute, `time`. -/
example : fragOkW sampleWorld (.call "@reduce".toList [.group 0, .call "sumi".toList [.group 0, .group 1], .group 1]) = false ∧
    fragOkW sampleWorld (.call "timeformat".toList [.group 0, .lit "DAY".toList, .lit "Europe/Berlin".toList]) = false ∧
    fragOkW sampleWorld (.call "timeformat".toList [.group 0, .lit "é".toList]) = false ∧
    fragOkW sampleWorld (.call "timeattr".toList [.group 0, .lit "month".toList]) = false ∧
    fragOkW sampleWorld (.call "time".toList [.group 0]) = false ∧
    fragOkW sampleWorld (.call "timeformat".toList [.group 0, .lit "DAY".toList, .lit "uTc".toList]) = true ∧
    fragOkW sampleWorld (.call "timeattr".toList [.group 0, .lit "YearWeek".toList]) = true := by
  refine ⟨?_, ?_, ?_, ?_, ?_, ?_, ?_⟩ <;> decide +kernel

/-- `{timeformat 1700000000 "2006-01-02 15:04:05 Mon MST"}` = `2023-11-14 22:13:20 Tue UTC`; `{timeattr … yearweek}`
    = `2023-46`; `{durationformat {duration 1h1m1s}}` = `1h1m1s`. -/
example : evalW sampleWorld (.call "timeformat".toList [.lit "1700000000".toList, .lit "2006-01-02 15:04:05 Mon MST".toList]) emptyCtx =
      ascii "2023-11-14 22:13:20 Tue UTC" ∧
    evalW sampleWorld (.call "timeattr".toList [.lit "1700000000".toList, .lit "yearweek".toList]) emptyCtx = ascii "2023-46" ∧
    evalW sampleWorld (.call "durationformat".toList [.call "duration".toList [.lit "1h1m1s".toList]]) emptyCtx = ascii "1h1m1s" := by
  refine ⟨?_, ?_, ?_⟩ <;> decide +kernel

/-! ### examples for the complete error list -/

/-- `ab{f {bad y {}} {nil 1}}` (probe registry): the argument's own errors first (`{}` inside `bad …`), then the
    builder error of `bad`, then that of `nil` – all three with the index of the top-level `{` (2). -/
example : allErrs splitArgs testSig "ab{f {bad y {}} {nil 1}}".toList =
    [⟨.syn .emptyStatement, "{}".toList, 2⟩, ⟨.builder "argcount", "bad y {}".toList, 2⟩,
     ⟨.builder "argcount", "nil 1".toList, 2⟩] := by decide +kernel

/-- The standard table (arity names): `{not a b}{eq x}{switch {len a b} 1 2 3}{nofn 1 2}{` – two arity errors, the arity
    error of the argument `{len a b}` of a `switch` that itself is fine, an unknown function, an open statement. -/
example : allErrs splitArgs aritySig "{not a b}{eq x}{switch {len a b} 1 2 3}{nofn 1 2}{".toList =
    [⟨.builder "argcount", "not a b".toList, 0⟩, ⟨.builder "argcount", "eq x".toList, 9⟩,
     ⟨.builder "argcount", "len a b".toList, 15⟩,
     ⟨.syn .missingFunction, "nofn 1 2".toList, 39⟩, ⟨.syn .unterminated, "{".toList, 49⟩] := by decide +kernel

end Rare.C09
