import Rare.Proofs.C10
/-!
# C10 — optimisation and user-defined functions never change an expression's value

The model identifies a compiled stage with its *interaction tree* (`Comp`): everything a Go stage
closure can do with its context is `GetMatch`, `GetKey`, panic or return, and a function builder can
observe its argument stages only by running them.  The theorems below hold for **every** registry
of function builders (all helper families, user functions, builders not yet written).
-/
namespace Rare.C10
open Rare.Expr

/-- `EvalStaticStage` reports "constant" only for a stage that makes no look-up at all; such a stage
    is a literal and has the same value in every context (so folding it is sound). -/
theorem probe_constant {α : Type} (c : Comp α) (v : α) (h : c.probe = .ok (v, true)) :
    c = .ret v ∧ ∀ ctx, c.run ctx = .ok v := by
  have := Comp.probe_constant c v h
  exact ⟨this, fun ctx => by rw [this]; rfl⟩

/-- A value defined to vary (`{time live}`, `{time delta}` touch the context with `GetMatch(-1)`)
    is never reported constant, whatever follows the look-up: the optimiser cannot freeze it. -/
theorem varying_not_frozen {α : Type} (i : Int) (k : Bytes → Comp α) (v : α) :
    (Comp.getMatch i k).probe ≠ .ok (v, true) := by
  intro h
  have := Comp.probe_constant _ v h
  cases this

/-- `optimize` (merging statically evaluable stages into literals) does not change the built key. -/
theorem optimize_preserves (stages out : List Stage) (h : optimize stages = .ok out) :
    buildKey out = buildKey stages :=
  optimize_sound stages out h

/-- **Optimisation is invisible.**  For every registry, every template: if compilation with static
    optimisation succeeds then compilation without it succeeds with the same compile errors, and for
    every match context both compiled expressions evaluate to the same result (same string, or both
    panic). -/
theorem optimize_sound (reg : Registry) (t : List Char) (s : List Stage) (e : List CErr)
    (h : compile reg true t = .ok (s, e)) :
    ∃ s', compile reg false t = .ok (s', e) ∧ ∀ ctx, (buildKey s').run ctx = (buildKey s).run ctx := by
  obtain ⟨s', h1, h2⟩ := compile_opt_sound reg t s e h
  exact ⟨s', h1, fun ctx => by rw [h2]⟩

/-- **A user function behaves like its body.**  Calling `{name a₀ a₁ …}` evaluates the body in a
    context where `{i}` is the value of `aᵢ` in the caller's match, missing arguments are empty and
    named keys are the caller's — for every body, every argument list and every context in which
    the arguments evaluate. -/
theorem call_eq_body (body : List Stage) (args : List Stage) (ctx : Ctx) (vals : List Bytes)
    (hargs : args.map (·.run ctx) = vals.map .ok) :
    ∃ st, userFunction body args = .ok ⟨some st, none⟩ ∧
      st.run ctx = (buildKey body).run (argCtx ctx args.length vals) :=
  ⟨_, rfl, withArgs_run args ctx vals hargs _⟩

/-- …and so does a call compiled with or without optimisation (the body itself was compiled when
    the file was loaded; the call site goes through `optimize_sound`). -/
theorem call_opt_eq (reg : Registry) (name : List Char) (body : List Stage) (t : List Char)
    (s : List Stage) (e : List CErr) (h : compile (extend reg name (userFunction body)) true t = .ok (s, e)) :
    ∃ s', compile (extend reg name (userFunction body)) false t = .ok (s', e) ∧
      ∀ ctx, (buildKey s').run ctx = (buildKey s).run ctx :=
  optimize_sound _ t s e h

/-- **Layout of a definitions file is irrelevant.**  Comments (`#` to end of line), blank lines and
    surrounding white space may appear anywhere, also between the lines of a `\`-continued
    definition: the phrases are those of the cleaned non-blank lines, a line ending in `\` being
    joined with the next one. -/
theorem loader_layout (text : Bytes) :
    joinPhrases (scanLines text) [] =
      groupCont (((scanLines text).map clean).filter fun l => !l.isEmpty) [] :=
  joinPhrases_eq_groupCont _ _

/-- A definition is a name, one space, and the expression. -/
theorem loader_split (name expr : Bytes) (hn : 32 ∉ name) :
    splitName (name ++ 32 :: expr) = some (name, expr) := by
  induction name with
  | nil => simp [splitName]
  | cons b r ih =>
    have hb : b ≠ 32 := fun e => hn (by simp [e])
    have hr : 32 ∉ r := fun e => hn (by simp [e])
    simp [splitName, hb, ih hr]

/-- Non-vacuity: a definitions file with a comment, a continuation with an interleaved comment, and
    a blank line yields the two expected phrases. -/
example : joinPhrases (scanLines [102, 32, 120, 92, 10, 35, 99, 10, 32, 121, 32, 35, 122, 10, 10, 103, 32, 49, 10]) []
    = [[102, 32, 120, 121], [103, 32, 49]] := by decide

end Rare.C10
