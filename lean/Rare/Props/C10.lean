import Rare.Proofs.C10
import Rare.Proofs.C10Tree
import Rare.Proofs.C10State
import Rare.Proofs.C10Src
import Rare.Proofs.C10Fold
import Rare.Proofs.C10Conc
import Rare.Proofs.C10ConcG
import Rare.Gen.C10
/-!
# C10 — optimisation and user-defined functions never change an expression's value

The model identifies a compiled stage with its *interaction tree* (`Comp`): everything a Go stage
closure can do with its context is `GetMatch`, `GetKey`, panic or return, and a function builder can
observe its argument stages only by running them.  The theorems below hold for **every** registry
of function builders (all helper families, user functions, builders not yet written).
-/
namespace Rare.C10
open Rare Rare.Expr Rare.C09

/-- `EvalStaticStage` reports "constant" only for a stage that makes no look-up at all; such a stage
    is a literal and has the same value in every context (so folding it is sound). -/
theorem probe_constant {α : Type} (c : Comp α) (v : α) (h : c.probe = .ok (v, true)) :
    c = .ret v ∧ ∀ ctx, c.run ctx = .ok v := by
  have := Comp.probe_constant c v h
  exact ⟨this, fun ctx => by rw [this]; rfl⟩

/-- A value defined to vary (`{time live}`, `{time delta}` touch the context with `GetMatch(-1)`)
    is never reported constant, whatever follows the look-up: the optimiser cannot freeze it. -/
theorem varying_not_frozen {α : Type} (i : Int) (k : Bytes → Comp α) (v : α) :
    (Comp.getMatch i k).probe ≠ .ok (v, true) := by
  intro h
  have := Comp.probe_constant _ v h
  cases this

/-- `optimize` (merging statically evaluable stages into literals) does not change the built key. -/
theorem optimize_preserves (stages out : List Stage) (h : optimize stages = .ok out) :
    buildKey out = buildKey stages :=
  optimize_sound stages out h

/-- **Optimisation is invisible.**  For every registry, every template: if compilation with static
    optimisation succeeds then compilation without it succeeds with the same compile errors, and for
    every match context both compiled expressions evaluate to the same result (same string, or both
    panic). -/
theorem optimize_sound (reg : Registry) (t : List Char) (s : List Stage) (e : List CErr)
    (h : compile reg true t = .ok (s, e)) :
    ∃ s', compile reg false t = .ok (s', e) ∧ ∀ ctx, (buildKey s').run ctx = (buildKey s).run ctx := by
  obtain ⟨s', h1, h2⟩ := compile_opt_sound reg t s e h
  exact ⟨s', h1, fun ctx => by rw [h2]⟩

/-- **A user function behaves like its body.**  Calling `{name a₀ a₁ …}` evaluates the body in a
    context where `{i}` is the value of `aᵢ` in the caller's match, missing arguments are empty and
    named keys are the caller's — for every body, every argument list and every context in which
    the arguments evaluate. -/
theorem call_eq_body (body : List Stage) (args : List Stage) (ctx : Ctx) (vals : List Bytes)
    (hargs : args.map (·.run ctx) = vals.map .ok) :
    ∃ st, userFunction body args = .ok ⟨some st, none⟩ ∧
      st.run ctx = (buildKey body).run (argCtx ctx args.length vals) :=
  ⟨_, rfl, withArgs_run args ctx vals hargs _⟩

/-- …and so does a call compiled with or without optimisation (the body itself was compiled when
    the file was loaded; the call site goes through `optimize_sound`). -/
theorem call_opt_eq (reg : Registry) (name : List Char) (body : List Stage) (t : List Char)
    (s : List Stage) (e : List CErr) (h : compile (extend reg name (userFunction body)) true t = .ok (s, e)) :
    ∃ s', compile (extend reg name (userFunction body)) false t = .ok (s', e) ∧
      ∀ ctx, (buildKey s').run ctx = (buildKey s).run ctx :=
  optimize_sound _ t s e h

/-- **Substitution composes ("doubly inlined").**  A function `outer` whose body calls `inner` with the
    argument stages `innerArgs` (which mention `outer`'s own parameters `{0}`, `{1}`, …), called with
    `outerArgs`: the stage is the inner body with ITS parameters replaced by `innerArgs` in which `outer`'s
    parameters have been replaced by `outerArgs` – literally, as interaction trees.  (A forwarded parameter
    is resolved against the caller's arguments, never against the match; the seeded change
    `C10-nested-userfn-unwrap` breaks exactly this.) -/
theorem call_inline_compose {α : Type} (outerArgs innerArgs : List Stage) (body : Comp α) :
    withArgs outerArgs (withArgs innerArgs body) = withArgs (innerArgs.map (withArgs outerArgs)) body :=
  withArgs_compose outerArgs innerArgs body

/-- **Nested user functions, every depth, any bodies.**  `levels` lists the argument stages of a chain of
    calls from the innermost (made in the body of the function one level out) to the outermost (made by the
    template); `Levels ctx levels inner` says `inner` is the context built level by level: each level's
    arguments evaluated in the context of the level OUTSIDE it (`argCtx`).  Then the whole nest evaluates, in
    the caller's match `ctx`, to the innermost body evaluated in `inner`; named keys and negative indices
    are the outermost caller's at every level; at every level an index beyond that level's arguments is the
    empty string. -/
theorem call_nested_eq_body_stages {α : Type} (ctx inner : Ctx) (levels : List (List Stage)) (body : Comp α)
    (h : Levels ctx levels inner) :
    (nest body levels).run ctx = body.run inner ∧ inner.getKey = ctx.getKey ∧
      (∀ i : Int, i < 0 → inner.getMatch i = ctx.getMatch i) ∧
      (∀ (as : List Stage) (outer : List (List Stage)) (i : Nat), levels = as :: outer → as.length ≤ i →
        inner.getMatch i = []) := by
  refine ⟨nest_run ctx levels inner body h, (levels_passthrough h).1, (levels_passthrough h).2, ?_⟩
  intro as outer i hl hi
  subst hl
  cases h with
  | cons mid _ _ vals _ _ => exact (argCtx_facts mid as.length vals).2.2.1 i hi

/-- **A call equals its inlined body, at every depth of nesting – on templates.**  A definitions file whose
    bodies are expression trees over the standard fragment of C09 and the functions defined EARLIER in the
    file (`DefsOk`; any print style per definition), loaded by the `LoadDefinitions` model into the standard
    registry (induction over the definition order, as the loader builds the registry): every definition is
    added, and every tree `e` over the fragment and the file's functions, printed with any style, compiles
    without errors – optimiser on or off – and evaluates in every match context to `evalTree` under `semDefs`,
    i.e. with every funcs-file call replaced by its body, `{i}` bound to the call's argument values
    (`call_body_unfold`), the body's own calls unfolded the same way. -/
theorem call_nested_eq_body (known : List String) (defs : List (Def × Style)) (hok : DefsOk (fun _ => stdSem) [] defs)
    (opt : Bool) (σ : Style) (e : C09.Expr) (ha : AdmissibleTop e)
    (hf : fragOkS (semDefs (fun _ => stdSem) (defs.map (·.1))) ((defs.map (·.1.1)).reverse) e = true) :
    ∃ fs, loadDefs (stdRegistry known) (defs.map phrase) = .ok (withFuncs (stdRegistry known) fs, fs) ∧
      ∃ stages, compile (withFuncs (stdRegistry known) fs) opt (printTop σ e) = .ok (stages, []) ∧
        ∀ ctx, (buildKey stages).run ctx = .ok (evalTree (envC (semDefs (fun _ => stdSem) (defs.map (·.1))) ctx) e) :=
  call_nested_tree known defs hok opt σ e ha hf

/-- What `semDefs` says about a call of the function just defined: the body tree where `{i}` is the value of
    the call's `i`-th argument in the caller's match, an index beyond the arguments is empty, named keys and
    negative indices are the caller's – and the names inside the body mean what they meant before this
    definition (so a body cannot call itself or a later function: see `loader_rejects_unknown_callee`). -/
theorem call_body_unfold (sem : Sem) (n : List Char) (B : C09.Expr) (ctx : Ctx) (args : List C09.Expr) :
    let vals := evalArgs (envC (semAdd sem (n, B)) ctx) args
    let inner := argCtx ctx args.length vals
    evalTree (envC (semAdd sem (n, B)) ctx) (.call n args) = evalTree (envC sem inner) B ∧
    inner.getKey = ctx.getKey ∧ (∀ i : Int, i < 0 → inner.getMatch i = ctx.getMatch i) ∧
    (∀ i : Nat, args.length ≤ i → inner.getMatch i = []) ∧
    (∀ i : Nat, i < args.length → inner.getMatch i = vals.getD i []) := by
  intro vals inner
  exact ⟨semAdd_call sem n B ctx args, argCtx_facts ctx args.length vals⟩

/-- **What the loader adds to the registry.**  `LoadDefinitions` succeeds with `(r, fs)` iff `fs` is the
    list of accepted definitions in file order (`Loaded`: a phrase without expression is skipped; a phrase
    whose expression has a compile error – or whose name is not well-formed UTF-8, hence uncallable – is
    skipped; every other phrase adds `userFunction` of its expression compiled, optimiser on, against the
    registry extended by exactly the functions added BEFORE it) and `r` is the registry extended by `fs` in
    that order (later definitions shadow earlier ones and builtins). -/
theorem loader_registry (reg r : Registry) (defs : List (Option (Bytes × Bytes))) (fs : List (List Char × Builder)) :
    loadDefs reg defs = .ok (r, fs) ↔ Loaded reg defs fs ∧ r = withFuncs reg fs := by
  constructor
  · exact loadDefs_spec defs reg r fs
  · rintro ⟨h, rfl⟩; exact loadDefs_of_loaded h

/-- **No forward references, no recursion.**  A definition whose body is a call `{g …}` of a name unknown
    at that point of the file – not a builtin, not defined earlier: its own name, or a name defined later –
    is a compile error (`ErrorMissingFunction`), is logged and NOT added; the loader continues as if the line
    were absent. -/
theorem loader_rejects_unknown_callee (reg : Registry) (name : Bytes) (w0 g w1 : List Char) (p1 : C09.Piece)
    (more : List (List Char × C09.Piece)) (trail : List Char) (rest : List (Option (Bytes × Bytes)))
    (hl : LayoutOk true ((w0, .bare g) :: (w1, p1) :: more)) (ht : allSpace trail = true) (hg : reg g = none) :
    loadDefs reg (some (name, encodeRunes ('{' :: ((layout ((w0, .bare g) :: (w1, p1) :: more) ++ trail) ++ ['}']))) :: rest)
      = loadDefs reg rest :=
  loadDefs_unknown_callee reg name w0 g w1 p1 more trail rest hl ht hg

/-- **Layout of a definitions file is irrelevant.**  Comments (`#` to end of line), blank lines and
    surrounding white space may appear anywhere, also between the lines of a `\`-continued
    definition: the phrases are those of the cleaned non-blank lines, a line ending in `\` being
    joined with the next one. -/
theorem loader_layout (text : Bytes) :
    joinPhrases (scanLines text) [] =
      groupCont (((scanLines text).map clean).filter fun l => !l.isEmpty) [] :=
  joinPhrases_eq_groupCont _ _

/-- A definition is a name, one space, and the expression. -/
theorem loader_split (name expr : Bytes) (hn : 32 ∉ name) :
    splitName (name ++ 32 :: expr) = some (name, expr) := by
  induction name with
  | nil => simp [splitName]
  | cons b r ih =>
    have hb : b ≠ 32 := fun e => hn (by simp [e])
    have hr : 32 ∉ r := fun e => hn (by simp [e])
    simp [splitName, hb, ih hr]

/-! ## Hidden state (round 4): the date-layout cache of `{time}` / `{buckettime}`, pooled context objects

`Model/C10State.lean` lists every closure of the expression packages that keeps something between calls.  The only
state an evaluation changes observably is the layout cache of the `cache` date stage; a stage is then a
state-passing interaction tree (`SStage`, told whether it serves a static analysis), its life a list of events
(`Ev`): evaluations on real matches and static-analysis evaluations (`EvalStaticStage`: the optimiser's and those of
enclosing builders). -/

/-- **Static analysis leaves no trace the input can see.**  For every date library (`detect` =
    `dateparse.ParseFormat`, `parse` = `time.ParseInLocation` + formatting), every stateless date expression, every
    cache content and every history: the answers on the real matches are those of the history with every
    static-analysis evaluation removed – however many there are and wherever they occur. -/
theorem time_cache_probe_invisible {L : Type} (lib : TimeLib L) (date : Stage) (st : TimeSt L) (evs : List Ev) :
    runEvents (timeCache lib date) st evs = runEvents (timeCache lib date) st (evs.filter Ev.isReal) :=
  time_probe_invisible lib date evs st

/-- **`optimize_sound` for the stateful date stage.**  What the optimiser makes of the stage (a literal if its
    probe made no look-up, the stage otherwise; the probe runs on the fresh cache) answers every history – real
    matches and further static analyses in any order – exactly like the unoptimised stage from the fresh cache. -/
theorem time_cache_optimize_sound {L : Type} (lib : TimeLib L) (date : Stage) (evs : List Ev) :
    runEvents (optimizeS (timeCache lib date) TimeSt.fresh) ((timeCache lib date).probeStep TimeSt.fresh).2 evs
      = runEvents (timeCache lib date) TimeSt.fresh evs :=
  time_optimize_events lib date evs

/-- …in particular on every list of matches (`--no-optimize` = the right-hand side). -/
theorem time_cache_optimize_sound_real {L : Type} (lib : TimeLib L) (date : Stage) (h : List Ctx) :
    runReal (optimizeS (timeCache lib date) TimeSt.fresh) ((timeCache lib date).probeStep TimeSt.fresh).2 h
      = runReal (timeCache lib date) TimeSt.fresh h :=
  time_optimize_events lib date _

/-- **The same through sub-contexts.**  A `cache` stage `{time {0}}` evaluated by a binder on every element of an
    array (`{@map <arr> "{time {0}}"}`) or by a funcs-file function on its argument (`ts {time {0}}`,
    `{ts "2020-01-{0}"}`), the values being ANY stages of the caller's context – constant, dynamic or mixed: static
    analysis of the enclosing stage is invisible in every history (sub-contexts pass `InStaticAnalysis` on). -/
theorem time_cache_subcontext_probe_invisible {L : Type} (lib : TimeLib L) (elems : List Stage) (st : TimeSt L)
    (evs : List Ev) :
    runEvents (timeMapStage .cur lib elems) st evs = runEvents (timeMapStage .cur lib elems) st (evs.filter Ev.isReal) :=
  timeMap_probe_invisible lib elems evs st

/-- **Why b6010cd was needed (histories that differ, upstream code).**  With every detected layout remembered, the
    optimiser's probe of `{time "ab{0}"}` caches the layout of `"ab"`; the first real line then fails to parse
    while the unoptimised stage parses it (toy library: the layout of a date is its length). -/
theorem time_cache_v0_counterexample :
    runReal (optimizeS (timeCacheRev .v0 toyLib toyDate) TimeSt.fresh)
        ((timeCacheRev .v0 toyLib toyDate).probeStep TimeSt.fresh).2 [toyCtx [99]] = [.ok ErrorParsing] ∧
      runReal (timeCacheRev .v0 toyLib toyDate) TimeSt.fresh [toyCtx [99]] = [.ok [97, 98, 99]] := by
  constructor <;>
  simp [runReal, runEvents, SComp.step, SComp.probeStep, optimizeS, timeCacheRev, toyDate, Comp.bind, Comp.run,
    Comp.probe, Comp.probeN, toyCtx, timeStep, timeTouches, touchIf, constOf, toyLib, TimeLib.parseOr, emptyOf,
    TimeSt.fresh]

/-- **Why cb6fa4b was needed (b6010cd's own defect).**  Answering `<PARSE-ERROR>` for the static-analysis value
    made every CONSTANT date an error although the library detects and parses it; the present code parses it. -/
theorem time_cache_v1_counterexample :
    runReal (timeCacheRev .v1 toyLib (.ret [97, 98])) TimeSt.fresh [toyCtx [99]] = [.ok ErrorParsing] ∧
      toyLib.detect [97, 98] = some 2 ∧ toyLib.parse 2 [97, 98] = some [97, 98] ∧
      runReal (timeCache toyLib (.ret [97, 98])) TimeSt.fresh [toyCtx [99]] = [.ok [97, 98]] := by
  refine ⟨?_, rfl, rfl, ?_⟩ <;>
  simp [runReal, runEvents, SComp.step, timeCache, timeCacheRev, Comp.bind, Comp.run, Comp.probe, Comp.probeN, toyCtx,
    timeStep, timeTouches, touchIf, constOf, toyLib, TimeLib.parseOr, emptyOf, TimeSt.fresh]

/-- **Why 3acd3a0 was needed (cb6fa4b's code, `{ts "2020-01-{0}"}` / `{@map {@ {0} 2020-01-01} "{time {0}}"}`).**
    Through a sub-context the probe's value is not the date expression's own static-analysis value: with one cell
    for both worlds the probe of `[{0}, "99"]` caches the constant's layout; the first real line's first element
    then fails to parse, while without optimisation it decides the layout and the constant fails.  With the cell
    of its own (the code as it is) both answer the same. -/
theorem time_cache_v2_counterexample :
    runReal (optimizeS (timeMapStage .v2 toyLib [Comp.match_ 0, Stage.lit [57, 57]]) TimeSt.fresh)
        ((timeMapStage .v2 toyLib [Comp.match_ 0, Stage.lit [57, 57]]).probeStep TimeSt.fresh).2 [toyCtx [55]]
      = [.ok (ErrorParsing ++ [57, 57])] ∧
    runReal (timeMapStage .v2 toyLib [Comp.match_ 0, Stage.lit [57, 57]]) TimeSt.fresh [toyCtx [55]]
      = [.ok (55 :: ErrorParsing)] ∧
    runReal (optimizeS (timeMapStage .cur toyLib [Comp.match_ 0, Stage.lit [57, 57]]) TimeSt.fresh)
        ((timeMapStage .cur toyLib [Comp.match_ 0, Stage.lit [57, 57]]).probeStep TimeSt.fresh).2 [toyCtx [55]]
      = [.ok (55 :: ErrorParsing)] := by
  refine ⟨?_, ?_, ?_⟩ <;>
  simp [runReal, runEvents, SComp.step, SComp.probeStep, optimizeS, timeMapStage, timeOnElems, Comp.match_, Comp.bind,
    Comp.run, Comp.probe, Comp.probeN, toyCtx, timeStep, timeTouches, touchIf, toyLib, TimeLib.parseOr, Stage.lit,
    TimeSt.fresh]

/-- **Why 6998c9c was needed (folding a constant array; the code of 6998c9c is `TimeRev.v3`).**  A static analysis
    that remembers nothing parses every constant by its own layout; on input the first one decides.  With the two
    cells the folded value of `["99", "7"]` is what the first evaluation on input computes.  (Since 1dba502 the
    stage is not folded at all – last conjunct – because the next theorems show that no folded value can be right
    for the real library.) -/
theorem time_cache_fold_const_array :
    ((timeMapStage .v3 toyLib [Stage.lit [57, 57], Stage.lit [55]]).probeStep TimeSt.fresh).1
      = .ok ([57, 57] ++ ErrorParsing, true) ∧
    runReal (timeMapStage .v3 toyLib [Stage.lit [57, 57], Stage.lit [55]]) TimeSt.fresh [toyCtx [1], toyCtx [2]]
      = [.ok ([57, 57] ++ ErrorParsing), .ok ([57, 57] ++ ErrorParsing)] ∧
    ((timeMapStage .cur toyLib [Stage.lit [57, 57], Stage.lit [55]]).probeStep TimeSt.fresh).1
      = .ok ([57, 57] ++ ErrorParsing, false) := by
  refine ⟨?_, ?_, ?_⟩ <;>
  simp [runReal, runEvents, SComp.step, SComp.probeStep, timeMapStage, timeOnElems, Comp.bind,
    Comp.run, Comp.probe, Comp.probeN, toyCtx, timeStep, timeTouches, touchIf, toyLib, TimeLib.parseOr, Stage.lit,
    TimeSt.fresh]

/-- **Pooled sub-contexts: stale content is never observed.**  Whatever objects lie in `subContextPool` (left by
    earlier evaluations of ANY expression – the pool is global), one sub-evaluation of a binder
    (`Get; *sub = subContext{parent: context}; sub.Eval(stage, a, b); Return`) answers what the stateless model
    (`Comp.withSub`) says, and hands exactly one object back. -/
theorem pool_stale_independent (pool : Pool) (ctx : Ctx) (inner : Stage) (a b : Bytes) :
    (evalSubPooled true pool ctx inner a b).1 = (inner.withSub a b).run ctx ∧
      (evalSubPooled true pool ctx inner a b).2.length = max pool.length 1 := by
  constructor
  · rw [withSub_run']; simp [evalSubPooled]
  · simp only [evalSubPooled, Pool.get, Pool.ret]
    cases h : pool.reverse with
    | nil => simp [List.reverse_eq_nil_iff.mp h]
    | cons o r =>
      have : pool.length = r.length + 1 := by
        have := congrArg List.length h; simpa using this
      simp [this]

/-- …and the reset line is what makes it so: without `*sub = subContext{parent: context}` (as `@for` once was,
    DESIGN.md F7) the answer depends on what the previous user of the object left in it. -/
theorem pool_no_reset_counterexample :
    (evalSubPooled false [⟨toyCtx [1], [], []⟩] (toyCtx [2]) (Comp.match_ (-1)) [] []).1 = .ok [1] ∧
      (evalSubPooled false [] (toyCtx [2]) (Comp.match_ (-1)) [] []).1 = .ok [] ∧
      (evalSubPooled true [⟨toyCtx [1], [], []⟩] (toyCtx [2]) (Comp.match_ (-1)) [] []).1 = .ok [2] := ⟨rfl, rfl, rfl⟩

/-- **Pooled call-site contexts of funcs-file functions.**  Whatever `sub` the pooled `lazySubContext` still holds
    from an earlier call, the call answers `withArgs args body` in the caller's context (`call_eq_body`). -/
theorem userfn_pool_stale_independent (stale : LazyObj) (args : List Stage) (body : Stage) (ctx : Ctx) :
    (evalArgsPooled stale args body ctx).1 = (withArgs args body).run ctx := rfl

/-- **Duplicate names and names of builtins: the last definition wins.**  After loading, a name defined several
    times (or naming a builtin) means its LAST accepted definition; every other name is untouched by it. -/
theorem loader_last_wins (reg : Registry) (fs : List (List Char × Builder)) (n : List Char) (b : Builder) :
    withFuncs reg (fs ++ [(n, b)]) n = some b ∧
      ∀ m, m ≠ n → withFuncs reg (fs ++ [(n, b)]) m = withFuncs reg fs m := by
  simp only [withFuncs, List.foldl_append, List.foldl_cons, List.foldl_nil, extend]
  exact ⟨by simp, fun m hm => by simp [hm]⟩

/-- File shapes: CRLF line ends, a last line without newline, a continuation on the last line (joined with
    nothing after it), a lone `\` line – the phrases of `f {0}\r\n`, `g x\` + CRLF + ` y` (no final newline) and of
    `h 1\` at the very end. -/
example : joinPhrases (scanLines [102, 32, 123, 48, 125, 13, 10, 103, 32, 120, 92, 13, 10, 32, 121]) []
      = [[102, 32, 123, 48, 125], [103, 32, 120, 121]] ∧
    joinPhrases (scanLines [104, 32, 49, 92]) [] = [[104, 32, 49]] ∧
    joinPhrases (scanLines [92, 10, 104, 32, 49, 10, 92]) [] = [[104, 32, 49]] := by decide

/-- Non-vacuity: a definitions file with a comment, a continuation with an interleaved comment, and
    a blank line yields the two expected phrases. -/
example : joinPhrases (scanLines [102, 32, 120, 92, 10, 35, 99, 10, 32, 121, 32, 35, 122, 10, 10, 103, 32, 49, 10]) []
    = [[102, 32, 120, 121], [103, 32, 49]] := by decide

/-! ### Non-vacuity of the nesting theorems -/

/-- `double {sumi {0} {0}}`, `quad {double {double {0}}}`, `wrap {if {1} {double {0}} {src}}` – three levels of
    nesting, a forwarded parameter, a named key, an argument that may be missing. -/
def exStyle : Style := fun p =>
  { quote := p.length % 2 == 1, lead := [0], trail := if p = [] then [] else [24, 1],
    sep := fun i => (i % 2, if i = 0 then [12] else []) }

def exDefs : List (Def × Style) :=
  [(("double".toList, .call "sumi".toList [.group 0, .group 0]), exStyle),
   (("quad".toList, .call "double".toList [.call "double".toList [.group 0]]), exStyle),
   (("wrap".toList, .call "if".toList [.group 1, .call "quad".toList [.group 0], .key "src".toList]), exStyle)]

example : DefsOk (fun _ => stdSem) [] exDefs := by
  refine ⟨by decide +kernel, ?_, by decide +kernel, by decide +kernel, ?_, by decide +kernel, by decide +kernel, ?_,
    by decide +kernel, trivial⟩ <;>
  · simp only [AdmissibleTop, Admissible, AdmissibleArgs]; decide

/-- `{wrap 5 x}` = 20, `{wrap 5}` (argument missing at the outer level) = the caller's `src` key. -/
example : evalTree (envC (semDefs (fun _ => stdSem) (exDefs.map (·.1))) ⟨fun _ => ascii "9", fun _ => ascii "f.log"⟩)
      (.call "wrap".toList [.lit "5".toList, .lit "x".toList]) = ascii "20" ∧
    evalTree (envC (semDefs (fun _ => stdSem) (exDefs.map (·.1))) ⟨fun _ => ascii "9", fun _ => ascii "f.log"⟩)
      (.call "wrap".toList [.lit "5".toList]) = ascii "f.log" := by decide +kernel

example : fragOkS (semDefs (fun _ => stdSem) (exDefs.map (·.1))) ((exDefs.map (·.1.1)).reverse)
    (.call "wrap".toList [.group 0, .call "quad".toList [.key "k".toList]]) = true := by decide +kernel

/-- Two levels: `{outer a b}` with body `{inner {1} {0}}` – the contexts of `call_nested_eq_body_stages`. -/
example : Levels ⟨fun _ => [1], fun _ => [2]⟩ [[Comp.match_ 1, Comp.match_ 0], [Stage.lit [7], Stage.lit [8]]]
    (argCtx (argCtx ⟨fun _ => [1], fun _ => [2]⟩ 2 [[7], [8]]) 2 [[8], [7]]) :=
  .cons _ _ _ _ [[8], [7]] (.cons _ _ _ _ [[7], [8]] (.nil _) rfl) rfl

/-- `f {f {0}}` with no earlier `f`: rejected (recursion); so is `f {g {0}}` with `g` defined later. -/
example : LayoutOk true [([], .bare "f".toList), ([' '], .braced "0".toList)] ∧ allSpace [] = true :=
  ⟨⟨rfl, Or.inl rfl, (by decide : bare "f".toList = true), by decide, Or.inr (by decide),
    Inner.char '0' _ (by decide) Inner.nil, trivial⟩, rfl⟩

/-! ## A cache stage behind a binder or a funcs-file function is folded only when it cannot remember (round 4b, 1dba502) -/

/-- **`optimize_sound` for the stateful date stage reached through sub-contexts – unconditional.**
    `{@map <arr> "{time {0}}"}` (any binder) or a funcs-file function `ts {time {0}}` called on any arguments: for
    EVERY date library (in particular the real one, whose `time.Parse` accepts under a remembered layout values
    `dateparse.ParseFormat` cannot detect), ANY element stages (constant, dynamic, mixed, panicking), any cell
    contents the optimiser's static analysis starts from, and every history of evaluations on input and static
    analyses in any order: what `optimize` makes of the stage answers exactly like the unoptimised stage.
    (Round 4b had this only for constant arrays and only under the hypothesis `hlib` – "the library never parses by
    a remembered layout what it cannot detect" – which the real library violates: known finding `fold-lenient`,
    repaired by /repo 1dba502.  Nothing remains: the hypothesis is gone and the values need not be constants.) -/
theorem time_cache_fold_sound {L : Type} (lib : TimeLib L) (elems : List Stage) (st : TimeSt L) (evs : List Ev) :
    runEvents (optimizeS (timeMapStage .cur lib elems) st) ((timeMapStage .cur lib elems).probeStep st).2 evs
      = runEvents (timeMapStage .cur lib elems) st evs :=
  timeMap_optimize lib elems st evs

/-- **What `optimize` makes of such a stage IS the stage.**  As a state-passing function the optimised stage equals the
    unoptimised one – it is left alone, or it is replaced by a literal it was equal to (it never consulted its
    memory).  Hence everything that shares the hidden state with it sees the same in both modes: the other call sites
    of the same funcs-file function (`{ts "2020-01-01"}|{ts {0}}` share the closure of `ts`'s body – `seqS`), in any
    number and order. -/
theorem time_cache_optimize_is_identity {L : Type} (lib : TimeLib L) (elems : List Stage) (st : TimeSt L) :
    optimizeS (timeMapStage .cur lib elems) st = timeMapStage .cur lib elems ∧
    ∀ (other : SStage (TimeSt L)),
      seqS (optimizeS (timeMapStage .cur lib elems) st) other = seqS (timeMapStage .cur lib elems) other ∧
      seqS other (optimizeS (timeMapStage .cur lib elems) st) = seqS other (timeMapStage .cur lib elems) := by
  have h := timeMap_optimizeS_eq lib elems st
  exact ⟨h, fun other => ⟨by rw [h], by rw [h]⟩⟩

/-- **Why that matters (second face of `fold-lenient`, found while repairing it; the code of 6998c9c = `TimeRev.v3`).**
    No lenient parser is needed when call sites share the closure: `{ts "99"}|{ts {0}}` on the line `7` (toy library:
    layout = length).  Without optimisation the constant call decides the layout and the line fails to parse; the
    old optimiser folded the constant call, so the line's own layout was remembered and it parsed.  (Real code:
    `tb {buckettime {0} day}`, `{tb "2014-04-26 17:24:37.123"}|{tb {0}}` on the line `oct 7, 1970`.)  The code as it
    is does not fold the constant call: both modes answer alike. -/
theorem time_cache_shared_closure_counterexample :
    runReal (seqS (optimizeS (timeMapStage .v3 toyLib [Stage.lit [57, 57]]) TimeSt.fresh)
        (timeMapStage .v3 toyLib [Comp.match_ 0]))
        ((timeMapStage .v3 toyLib [Stage.lit [57, 57]]).probeStep TimeSt.fresh).2 [toyCtx [55]]
      = [.ok [57, 57, 55]] ∧
    runReal (seqS (timeMapStage .v3 toyLib [Stage.lit [57, 57]]) (timeMapStage .v3 toyLib [Comp.match_ 0]))
        TimeSt.fresh [toyCtx [55]]
      = [.ok ([57, 57] ++ ErrorParsing)] ∧
    runReal (seqS (optimizeS (timeMapStage .cur toyLib [Stage.lit [57, 57]]) TimeSt.fresh)
        (timeMapStage .cur toyLib [Comp.match_ 0]))
        ((timeMapStage .cur toyLib [Stage.lit [57, 57]]).probeStep TimeSt.fresh).2 [toyCtx [55]]
      = [.ok ([57, 57] ++ ErrorParsing)] := by
  refine ⟨?_, ?_, ?_⟩ <;>
  simp [runReal, runEvents, SComp.step, SComp.probeStep, optimizeS, seqS, timeMapStage, timeOnElems, Comp.match_,
    Comp.bind, Comp.run, Comp.probe, Comp.probeN, toyCtx, timeStep, timeTouches, touchIf, toyLib, TimeLib.parseOr,
    Stage.lit, TimeSt.fresh]

/-- **What is still folded, and why that is right.**  Over constant values the stage is reported constant only if
    every value is the empty string (first part: one non-empty value and the static analysis says "not constant",
    whatever the library and the cells); and a stage the static analysis does report constant is a literal without
    memory – every evaluation, static or on input, from any cells, answers that value and leaves the cells alone. -/
theorem time_cache_folded_only_without_memory {L : Type} (lib : TimeLib L) :
    (∀ (vals : List Bytes) (st : TimeSt L), (∃ v ∈ vals, v ≠ []) →
      ∀ r, ((timeMapStage .cur lib (vals.map Stage.lit)).probeStep st).1 ≠ .ok (r, true)) ∧
    (∀ (elems : List Stage) (st st1 : TimeSt L) (v : Bytes), timeMapStage .cur lib elems true st = .ret (v, st1) →
      timeMapStage .cur lib elems = fun _ st' => .ret (v, st')) :=
  ⟨fun vals st h => timeMap_nonempty_not_constant lib vals st h,
   fun elems st st1 v h => timeMap_static_ret lib elems st v st1 h⟩

/-- Non-vacuity of both: the lenient library on `[" 7", "7"]`, a static analysis between two lines – the first line
    cannot detect `" 7"`, the second parses it by the layout `"7"` left behind, optimised and unoptimised alike; and
    `["", ""]` IS folded (to two error markers). -/
example :
    runEvents (timeMapStage .cur lenientLib [Stage.lit [32, 55], Stage.lit [55]]) TimeSt.fresh
        [.real (toyCtx [1]), .probe, .real (toyCtx [2])] = [.ok (ErrorParsing ++ [55]), .ok [55, 55]] ∧
    ((timeMapStage .cur lenientLib [Stage.lit [], Stage.lit []]).probeStep TimeSt.fresh).1
      = .ok (ErrorParsing ++ ErrorParsing, true) := by
  constructor <;>
  simp [runEvents, SComp.step, SComp.probeStep, timeMapStage, timeOnElems, Comp.bind, Comp.run, Comp.probe,
    Comp.probeN, toyCtx, timeStep, timeTouches, touchIf, lenientLib, TimeLib.parseOr, Stage.lit, TimeSt.fresh]

/-- **Why 1dba502 was needed (finding `fold-lenient`, the code of 6998c9c = `TimeRev.v3`).**  A library whose parser
    is more lenient than its detector – as the real one is: `dateparse.ParseFormat` rejects `"oct 7,  1970"` (two
    spaces) while `time.Parse` with the layout of `"oct 7, 1970"` accepts it.  The constant array `[" 7", "7"]`: the
    static analysis of the old code (like the first line) cannot detect the first value and folds `<PARSE-ERROR>7`
    for every line; without optimisation the second line parses it by the layout the second value left behind.
    Optimised ≠ unoptimised from the second line on – the unoptimised value of a "constant" depends on the history,
    so NO folded value can be right.  The code as it is does not fold the stage: both answer alike (last conjunct). -/
theorem time_cache_fold_const_array_counterexample :
    lenientLib.detect [32, 55] = none ∧ lenientLib.parse 1 [32, 55] = some [55] ∧
    runReal (optimizeS (timeMapStage .v3 lenientLib [Stage.lit [32, 55], Stage.lit [55]]) TimeSt.fresh)
        ((timeMapStage .v3 lenientLib [Stage.lit [32, 55], Stage.lit [55]]).probeStep TimeSt.fresh).2
        [toyCtx [1], toyCtx [2]]
      = [.ok (ErrorParsing ++ [55]), .ok (ErrorParsing ++ [55])] ∧
    runReal (timeMapStage .v3 lenientLib [Stage.lit [32, 55], Stage.lit [55]]) TimeSt.fresh [toyCtx [1], toyCtx [2]]
      = [.ok (ErrorParsing ++ [55]), .ok [55, 55]] ∧
    runReal (optimizeS (timeMapStage .cur lenientLib [Stage.lit [32, 55], Stage.lit [55]]) TimeSt.fresh)
        ((timeMapStage .cur lenientLib [Stage.lit [32, 55], Stage.lit [55]]).probeStep TimeSt.fresh).2
        [toyCtx [1], toyCtx [2]]
      = [.ok (ErrorParsing ++ [55]), .ok [55, 55]] := by
  refine ⟨by decide, by decide, ?_, ?_, ?_⟩ <;>
  simp [runReal, runEvents, SComp.step, SComp.probeStep, optimizeS, timeMapStage, timeOnElems, Comp.bind,
    Comp.run, Comp.probe, Comp.probeN, toyCtx, timeStep, timeTouches, touchIf, lenientLib, TimeLib.parseOr, Stage.lit,
    TimeSt.fresh]

/-! ## The code the theorems above rest on, regenerated from /repo (round 4b) -/

/-- **`Comp.probe` is `EvalStaticStage`.**  The model's probe equals running the stage against a counting context
    whose `GetMatch` / `GetKey` are the bodies of `monitorContext`'s methods as they stand in /repo (count every
    look-up, answer ""), starting from the zero monitor, with `ok` the comparison written in `EvalStaticStage`. -/
theorem probe_is_eval_static_stage {α : Type} (c : Comp α) :
    c.probe = evalStatic Gen.C10.monitorGetMatch Gen.C10.monitorGetKey Gen.C10.evalStaticInit Gen.C10.evalStaticOk c :=
  (evalStatic_probe c).symm

/-- **`timeStep` / `timeTouches` are the closure in /repo.**  The closure of `smartDateParseWrapper`'s cache mode,
    translated statement by statement (`Gen.C10.cacheClosure : CProg`, semantics `execProg`), computes for every
    library, every `emptyTime`, constant or not date expression, both worlds, every date string and every cache
    content exactly what the hand model says – answer and cells (`timeStep .cur`) and the touches of the context
    (`timeTouches .cur`: `GetMatch(-1)` once, under static analysis, when the date expression is not constant by
    itself, past the empty check; none otherwise – in particular none on input); the clause is the one for
    `""`/`cache`, both cells start empty and `emptyTime, constTime` are the two results of
    `EvalStaticStage(dateStage)` (`emptyOf`, `constOf`).  A dropped guard (`strTime != emptyTime`, `!constTime`), a
    dropped `format = &staticFormat` or touch, a changed order of statements in /repo changes the program and
    breaks this proof. -/
theorem time_step_matches_source {L : Type} (lib : TimeLib L) (emptyTime : Bytes) (constTime static : Bool) (s : Bytes)
    (st : TimeSt L) :
    cacheStepOf Gen.C10.cacheClosure lib emptyTime constTime static s st
        = some ((timeStep .cur lib emptyTime static s st).1, (timeStep .cur lib emptyTime static s st).2,
            if timeTouches .cur constTime static s then [-1] else []) ∧
      Gen.C10.cacheLabels = ["", "cache"] ∧
      Gen.C10.cacheInit = ["stmt:varatomicFormat,staticFormatatomic.Value", "do:atomicFormat.Store(\"\")",
        "do:staticFormat.Store(\"\")", "stmt:emptyTime,constTime:=EvalStaticStage(dateStage)"] :=
  ⟨cacheStepOf_expected lib emptyTime constTime static s st, by decide, by decide⟩

/-- **`subContext` in the model is `subContext` in /repo.**  `GetMatch` of the pooled object (`SubObj.ctx`) and the
    re-interpretation of look-ups by `Comp.withSub` resolve an index as the method's if-chain in /repo does
    (`idx < 0` to the parent, `idx < len(vals)` an element with `vals [2]string`, "" otherwise); `GetKey` goes to the parent. -/
theorem sub_context_from_source (o : SubObj) (i : Int) (v0 v1 : Bytes) {α : Type} (k : Bytes → Comp α) :
    o.ctx.getMatch i = o.resolve (Gen.C10.subContextGetMatch Gen.C10.subContextVals i) ∧
    Gen.C10.subContextGetKey = .parent ∧
    (Comp.getMatch i k).withSub v0 v1 =
      (match Gen.C10.subContextGetMatch Gen.C10.subContextVals i with
       | .parent j => .getMatch j fun b => (k b).withSub v0 v1
       | r => (k (SubObj.resolve ⟨emptyCtx, v0, v1⟩ r)).withSub v0 v1) := by
  refine ⟨?_, rfl, ?_⟩
  · simp only [SubObj.ctx, Gen.C10.subContextGetMatch, Gen.C10.subContextVals]
    by_cases h0 : i < 0
    · simp [h0, SubObj.resolve]
    · by_cases h1 : i = 0
      · subst h1; simp [SubObj.resolve]
      · by_cases h2 : i = 1
        · subst h2; simp [SubObj.resolve]
        · have : ¬ i < 2 := by omega
          simp [h0, h1, h2, this, SubObj.resolve]
  · simp only [Comp.withSub, Gen.C10.subContextGetMatch, Gen.C10.subContextVals]
    by_cases h0 : i < 0
    · simp [h0]
    · by_cases h1 : i = 0
      · subst h1; simp [SubObj.resolve]
      · by_cases h2 : i = 1
        · subst h2; simp [SubObj.resolve]
        · have : ¬ i < 2 := by omega
          simp [h0, h1, h2, this, SubObj.resolve]

/-- **`lazySubContext` in the model is `lazySubContext` in /repo.**  `withArgs` (the tree transformer) and `argCtx`
    (the context of `call_eq_body`) resolve `{i}` as `(*lazySubContext).GetMatch` in /repo does: negative to the caller,
    `idx >= len(args)` empty, else the argument stage evaluated in the caller's context; `GetKey` goes to the caller. -/
theorem lazy_context_from_source (args : List Stage) (i : Int) {α : Type} (k : Bytes → Comp α) (ctx : Ctx)
    (vals : List Bytes) :
    withArgs args (.getMatch i k) =
      (match Gen.C10.lazySubContextGetMatch args.length i with
       | .parent j => .getMatch j fun b => withArgs args (k b)
       | .arg n => (args.getD n (.ret [])).bind fun v => withArgs args (k v)
       | _ => withArgs args (k [])) ∧
    (argCtx ctx args.length vals).getMatch i =
      (match Gen.C10.lazySubContextGetMatch args.length i with
       | .parent j => ctx.getMatch j
       | .arg n => vals.getD n []
       | _ => []) ∧
    Gen.C10.lazySubContextGetKey = .parent := by
  refine ⟨?_, ?_, rfl⟩
  · simp only [withArgs, Gen.C10.lazySubContextGetMatch]
    by_cases h0 : i < 0
    · simp [h0]
    · by_cases h1 : i ≥ (args.length : Int)
      · simp [h0, h1]
      · simp [h0, h1]
  · simp only [argCtx, Gen.C10.lazySubContextGetMatch]
    by_cases h0 : i < 0
    · simp [h0]
    · by_cases h1 : i ≥ (args.length : Int)
      · simp [h0, h1]
      · simp [h0, h1]

/-- **The touch of `{time live}` / `{time delta}` reaches the root through every wrapper.**  The closures of `live`
    and `delta` in /repo begin with `context.GetMatch(i)` for one index `i` (that of `now` does not touch), and both
    wrapping contexts of /repo, whatever their size, pass that index on to their parent – so the monitor counts it
    (`varying_not_frozen`) also inside binders and funcs-file functions (seeded change `C10-time-touch-zero`). -/
theorem varying_touch_reaches_root :
    ∃ i : Int, Gen.C10.liveTouch = some i ∧ Gen.C10.deltaTouch = some i ∧ Gen.C10.nowTouch = none ∧
      ∀ n : Nat, Gen.C10.subContextGetMatch n i = .parent i ∧ Gen.C10.lazySubContextGetMatch n i = .parent i :=
  ⟨-1, rfl, rfl, rfl, fun n => ⟨by simp [Gen.C10.subContextGetMatch], by simp [Gen.C10.lazySubContextGetMatch]⟩⟩

/-- **`InStaticAnalysis` is the root's answer through any chain of sub-contexts.**  The list of ALL context types of
    /repo: three wrap another context – `subContext` and `lazySubContext` forward the question,
    `trackingExpressionContext` (`rare expression --stats`, wraps the command's own context on real data) does not
    answer; of the six roots only `monitorContext` answers true.  Hence for every chain of `subContext` /
    `lazySubContext` objects of any length over any root, `expressions.InStaticAnalysis` is true iff the root is the
    monitor – the assumption of `time_cache_subcontext_probe_invisible` (`static` handed down unchanged). -/
theorem static_analysis_forwarded :
    (Gen.C10.contextTypes.filter (·.wraps)).map (fun c => (c.name, c.static))
      = [("trackingExpressionContext", .absent), ("lazySubContext", .forward), ("subContext", .forward)] ∧
    (Gen.C10.contextTypes.filter (fun c => !c.wraps)).map (fun c => (c.name, c.static))
      = [("accumulatorGroupSortContext", .absent), ("exprAccumulatorContext", .absent), ("KeyBuilderContextArray", .absent),
         ("monitorContext", .const true), ("SliceSpaceExpressionContext", .absent), ("formatExpressionContext", .absent)] ∧
    ∀ (ws : List CtxImpl) (root : CtxImpl),
      (∀ w ∈ ws, w ∈ Gen.C10.contextTypes ∧ (w.name = "subContext" ∨ w.name = "lazySubContext")) →
      root ∈ Gen.C10.contextTypes → root.wraps = false →
      inStaticChain Gen.C10.inStaticDefault (ws.map (·.static) ++ [root.static]) = decide (root.name = "monitorContext") := by
  refine ⟨by decide, by decide, ?_⟩
  intro ws root hws hroot hw
  have hf : ∀ w ∈ Gen.C10.contextTypes, (w.name = "subContext" ∨ w.name = "lazySubContext") → w.static = .forward := by
    decide
  rw [inStaticChain_forwards]
  · have : ∀ r ∈ Gen.C10.contextTypes, r.wraps = false →
        inStaticChain Gen.C10.inStaticDefault [r.static] = decide (r.name = "monitorContext") := by decide
    exact this root hroot hw
  · intro a ha
    obtain ⟨w, hw1, rfl⟩ := List.mem_map.mp ha
    exact hf w (hws w hw1).1 (hws w hw1).2

/-- **Every `Pool.Get()` of the expression packages is followed by a reset of everything an earlier user left.**
    The six sites of /repo; at each, `defer pool.Return(obj)` follows and every field of the object type is overwritten
    (`*obj = T{…}`) or the same in every object of the pool (`args`, given by `newer`); and the stale-independence
    theorems instantiated with what the source says (`resetsAll` read off the site): removing a reset line in /repo
    makes `resetsAll` false and this proof fail (cf. `pool_no_reset_counterexample`). -/
theorem pool_sites_from_source :
    Gen.C10.poolSites.map (fun s => (s.fn, s.pool, s.objType))
      = [("keyBuilderToFunction", "ctxPool", "lazySubContext"), ("kfMath", "ctxPool", "keyBuilderContextWrapper"),
         ("kfArrayMap", "subContextPool", "subContext"), ("kfArrayReduce", "subContextPool", "subContext"),
         ("kfArrayFor", "subContextPool", "subContext"), ("kfArrayFilter", "subContextPool", "subContext")] ∧
    (∀ s ∈ Gen.C10.poolSites, s.resetsAll = true) ∧
    (∀ s ∈ Gen.C10.poolSites, s.objType = "subContext" → ∀ (pool : Pool) (ctx : Ctx) (inner : Stage) (a b : Bytes),
      (evalSubPooled s.resetsAll pool ctx inner a b).1 = (inner.withSub a b).run ctx) ∧
    (∀ s ∈ Gen.C10.poolSites, s.objType = "lazySubContext" → ∀ (stale : LazyObj) (args : List Stage) (body : Stage) (ctx : Ctx),
      (evalArgsPooledR s.resetsAll stale args body ctx).1 = (withArgs args body).run ctx) := by
  have hall : ∀ s ∈ Gen.C10.poolSites, s.resetsAll = true := by decide
  refine ⟨by decide, hall, ?_, ?_⟩
  · intro s hs _ pool ctx inner a b
    rw [hall s hs]
    exact (pool_stale_independent pool ctx inner a b).1
  · intro s hs _ stale args body ctx
    rw [hall s hs]
    rfl

/-- Control skeletons (every statement with its conditions, in source order) of the functions the model mirrors by
    hand: `EvalStaticStage`, `InStaticAnalysis`, `(*subContext).Eval`, `optimize` (`optimizeGo`), `BuildKey` / `joinStages`
    (`buildKey`), `keyBuilderToFunction` (`userFunction`, `evalArgsPooledR`). -/
theorem control_skeletons_are_source :
    Gen.C10.evalStaticStageCtl = ["stmt:varmonitormonitorContext", "stmt:ret=stage(&monitor)", "stmt:ok=(monitor.keyLookups==0)", "return:"] ∧
    Gen.C10.inStaticAnalysisCtl = ["if:aware,ok:=context.(StaticAnalysisAware);ok{", "return:aware.InStaticAnalysis()", "}", "return:false"] ∧
    Gen.C10.subContextEvalCtl = ["stmt:s.vals[0]=v0", "stmt:s.vals[1]=v1", "return:stage(s)"] ∧
    Gen.C10.optimizeCtl = ["stmt:ret:=&CompiledKeyBuilder{stages:make([]KeyBuilderStage,0,len(s.stages)),}", "stmt:varsbstrings.Builder", "range:s.stages{", "if:constVal,ok:=EvalStaticStage(stage);ok{", "do:sb.WriteString(constVal)", "}else{", "if:sb.Len()>0{", "stmt:ret.stages=append(ret.stages,stageLiteral(sb.String()))", "do:sb.Reset()", "}", "stmt:ret.stages=append(ret.stages,stage)", "}", "}", "if:sb.Len()>0{", "stmt:ret.stages=append(ret.stages,stageLiteral(sb.String()))", "}", "return:ret"] ∧
    Gen.C10.buildKeyCtl = ["if:len(s.stages)==0{", "return:\"\"", "}", "if:len(s.stages)==1{", "return:s.stages[0](context)", "}", "stmt:varsbstrings.Builder", "range:s.stages{", "do:sb.WriteString(stage(context))", "}", "return:sb.String()"] ∧
    Gen.C10.joinStagesCtl = ["if:len(s.stages)==0{", "return:stageLiteral(\"\")", "}", "if:len(s.stages)==1{", "return:s.stages[0]", "}", "return:KeyBuilderStage(func(contextKeyBuilderContext)string{varsbstrings.Builderfor_,stage:=ranges.stages{sb.WriteString(stage(context))}returnsb.String()})"] ∧
    Gen.C10.keyBuilderToFunctionCtl = ["return:func(args[]expressions.KeyBuilderStage)(expressions.KeyBuilderStage,error){ctxPool:=slicepool.NewObjectPoolEx(5,func()*lazySubContext{return&lazySubContext{args:args,}})returnfunc(kbcexpressions.KeyBuilderContext)string{subCtx:=ctxPool.Get()deferctxPool.Return(subCtx)subCtx.sub=kbcreturnstage.BuildKey(subCtx)},nil}"] := by
  exact ⟨rfl, rfl, rfl, rfl, rfl, rfl, rfl⟩

/-! ## Several workers on one compiled expression (`Model/C10Conc.lean`) -/

/-- **The call-site pool under EVERY schedule.**  Any number of workers evaluate one compiled call `{name args…}` of a
    funcs-file function, each with its own context `ctxs w`; every atomic action (`ctxPool.Get()`, `subCtx.sub = kbc`,
    ONE look-up of the body through the pooled object reading `sub` at that moment, the deferred `Return`) of one
    worker may be followed by any actions of the others (`sched` is an arbitrary list of worker numbers); the pool
    starts with any distinct objects carrying arbitrary stale `sub` fields.  Then at every moment: no object is
    checked out by two workers, no checked-out object lies in the free list, the free list has no duplicates, the
    object a worker evaluates against carries THAT worker's context – and every worker that has returned has
    returned what the stateless model answers in its own context (`withArgs args body`, which `call_nested_eq_body`
    equates with the body written inline). -/
theorem userfn_pool_all_schedules (args : List Stage) (body : Stage) (ctxs : Nat → Ctx) (st : Conc.St) (hs : Conc.Start st)
    (sched : List Nat) :
    let st' := Conc.exec true args body ctxs sched st
    (∀ w w' o, (st'.pcs w).holds = some o → (st'.pcs w').holds = some o → w = w') ∧
    (∀ w o, (st'.pcs w).holds = some o → o ∉ st'.free) ∧
    st'.free.Nodup ∧
    (∀ w o c, st'.pcs w = .run o c → st'.sub o = ctxs w) ∧
    (∀ w r, st'.pcs w = .done r → r = (withArgs args body).run (ctxs w)) := by
  have h := Conc.exec_inv (args := args) (body := body) (ctxs := ctxs) sched (Conc.start_inv hs)
  exact ⟨h.excl, fun w o e => (h.held w o e).2, h.nodup, fun w o c e => (h.run w o c e).1, h.done⟩

/-- **Nobody is starved or blocked.**  The pool never blocks (`Get` makes a new object when none is free), so a
    worker needs exactly the actions of its own sequential run – `Get`, the store, one per look-up of the body, the
    answer, `Return` – however the others are interleaved: in every schedule that gives worker `w` that many turns,
    `w` has returned, with the stateless model's answer. -/
theorem userfn_pool_every_worker_returns (args : List Stage) (body : Stage) (ctxs : Nat → Ctx) (st : Conc.St)
    (hs : Conc.Start st) (sched : List Nat) (w : Nat) (hw : Conc.stepsLeft args (ctxs w) body + 3 ≤ sched.count w) :
    (Conc.exec true args body ctxs sched st).pcs w = .done ((withArgs args body).run (ctxs w)) := by
  have hi := Conc.start_inv (args := args) (body := body) (ctxs := ctxs) hs
  have hl := Conc.exec_left w sched hi
  rw [hs.idle w] at hl
  have h0 : ((Conc.exec true args body ctxs sched st).pcs w).left args body (ctxs w) = 0 := by
    rw [hl]; simp only [Conc.Pc.left]; omega
  obtain ⟨r, hr⟩ := Conc.left_zero h0
  rw [hr, (Conc.exec_inv sched hi).done w r hr]

/-- A worker that has not returned can always act, and its action moves it on (with or without the store of `sub`). -/
theorem userfn_pool_never_blocks (install : Bool) (args : List Stage) (body : Stage) (ctxs : Nat → Ctx) (w : Nat) (st : Conc.St)
    (h : ∀ r, st.pcs w ≠ .done r) : (Conc.step install args body ctxs w st).pcs w ≠ st.pcs w :=
  Conc.step_progress install args body ctxs w st h

/-- The hypotheses are satisfiable and the machine does what the code does: two workers, the pool holding ONE object with
    a stale context; worker 0 takes it, worker 1 finds the pool empty and gets a new object (number 1), both look `{0}`
    up in turn, both return; each has its own line, and both objects are back in the pool (in the order of the
    `Return`s).  Without the store `subCtx.sub = kbc` worker 0 answers from the stale context. -/
example :
    let ctxs : Nat → Ctx := fun w => if w = 0 then toyCtx [1] else toyCtx [2]
    let st0 : Conc.St := ⟨[0], 1, fun _ => toyCtx [9], fun _ => .idle⟩
    Conc.Start st0 ∧
    (match (Conc.exec true [Comp.match_ 0] (Comp.match_ 0) ctxs [0, 1, 0, 1, 1, 0, 1, 0, 1, 0] st0).pcs 0 with
      | .done r => r = .ok [1] | _ => False) ∧
    (match (Conc.exec true [Comp.match_ 0] (Comp.match_ 0) ctxs [0, 1, 0, 1, 1, 0, 1, 0, 1, 0] st0).pcs 1 with
      | .done r => r = .ok [2] | _ => False) ∧
    (Conc.exec true [Comp.match_ 0] (Comp.match_ 0) ctxs [0, 1, 0, 1, 1, 0, 1, 0, 1, 0] st0).free = [1, 0] ∧
    (match (Conc.exec false [Comp.match_ 0] (Comp.match_ 0) ctxs [0, 1, 0, 1, 1, 0, 1, 0, 1, 0] st0).pcs 0 with
      | .done r => r = .ok [9] | _ => False) :=
  ⟨⟨fun _ => rfl, by simp, by simp⟩, rfl, rfl, rfl, rfl⟩

/-- **One pool shared by workers that evaluate DIFFERENT stages** (`Model/C10ConcG.lean`): worker `w` overwrites the object it
    checked out with its own context `ctxs w` and its own values / argument stages `argsOf w`, and evaluates its own body
    `bodyOf w` – the situation of the process-wide `subContextPool`, which all binder stages of all compiled expressions
    (and all workers) share.  Under every schedule, from every pool content: exclusive ownership, nothing checked out in the
    free list, every returned answer the stateless one, and a worker that gets the turns of its own sequential run has
    returned.  (`userfn_pool_all_schedules` is the instance with constant `argsOf`, `bodyOf`.) -/
theorem shared_pool_all_schedules (argsOf : Nat → List Stage) (bodyOf : Nat → Stage) (ctxs : Nat → Ctx) (st : ConcG.St)
    (hs : ConcG.Start st) (sched : List Nat) :
    let st' := ConcG.exec true argsOf bodyOf ctxs sched st
    (∀ w w' o, (st'.pcs w).holds = some o → (st'.pcs w').holds = some o → w = w') ∧
    (∀ w o, (st'.pcs w).holds = some o → o ∉ st'.free) ∧
    st'.free.Nodup ∧
    (∀ w r, st'.pcs w = .done r → r = (withArgs (argsOf w) (bodyOf w)).run (ctxs w)) ∧
    (∀ w, Conc.stepsLeft (argsOf w) (ctxs w) (bodyOf w) + 3 ≤ sched.count w →
      st'.pcs w = .done ((withArgs (argsOf w) (bodyOf w)).run (ctxs w))) := by
  have hi := ConcG.start_inv (argsOf := argsOf) (bodyOf := bodyOf) (ctxs := ctxs) hs
  have h := ConcG.exec_inv sched hi
  refine ⟨h.excl, fun w o e => (h.held w o e).2, h.nodup, h.done, fun w hw => ?_⟩
  have hl := ConcG.exec_left w sched hi
  rw [hs.idle w] at hl
  have h0 : ((ConcG.exec true argsOf bodyOf ctxs sched st).pcs w).left (argsOf w) (bodyOf w) (ctxs w) = 0 := by
    rw [hl]; simp only [Conc.Pc.left]; omega
  obtain ⟨r, hr⟩ := ConcG.left_zero h0
  rw [hr, h.done w r hr]

/-- **The binders' global pool under every schedule.**  Worker `w` evaluates the inner stage `inner w` of ITS binder on the
    element values `a w`, `b w` in its context (`sub.Eval(stage, a, b)` on a pooled `subContext{parent, vals}`); all of them
    take their objects from one pool.  Whatever the schedule and the stale contents, a worker returns `Comp.withSub` – the
    stateless sub-evaluation `pool_stale_independent` speaks about sequentially (and which `optimize_sound` / the inlining
    theorems are stated for). -/
theorem binder_pool_all_schedules (inner : Nat → Stage) (a b : Nat → Bytes) (ctxs : Nat → Ctx) (st : ConcG.St)
    (hs : ConcG.Start st) (sched : List Nat) (w : Nat) (r : Except String Bytes)
    (h : (ConcG.exec true (fun w => [.ret (a w), .ret (b w)]) inner ctxs sched st).pcs w = .done r) :
    r = ((inner w).withSub (a w) (b w)).run (ctxs w) := by
  rw [ConcG.withSub_eq_withArgs]
  exact (shared_pool_all_schedules (fun w => [.ret (a w), .ret (b w)]) inner ctxs st hs sched).2.2.2.1 w r h

/-- The two atomic actions of the machine are atomic in the code: `ObjectPool.Get` and `Return` run under the pool's
    mutex from their first statement to their return; `Get` pops the LAST free object or calls `newer()`, `Return`
    appends (`Conc.step`: `getLast?`/`dropLast`, `next`, `free ++ [o]`); and the closure's statements come in the
    machine's order – `Get`, `defer Return`, `subCtx.sub = kbc`, the body. -/
theorem pool_actions_are_source :
    Gen.C10.objectPoolGetCtl = ["do:s.m.Lock()", "defer:s.m.Unlock()", "if:len(s.pool)==0{", "return:s.newer()", "}",
      "stmt:end:=len(s.pool)-1", "stmt:ret=s.pool[end]", "stmt:s.pool=s.pool[:end]", "return:"] ∧
    Gen.C10.objectPoolReturnCtl = ["do:s.m.Lock()", "defer:s.m.Unlock()", "stmt:s.pool=append(s.pool,obj)"] ∧
    Gen.C10.keyBuilderToFunctionCtl = ["return:func(args[]expressions.KeyBuilderStage)(expressions.KeyBuilderStage,error){ctxPool:=slicepool.NewObjectPoolEx(5,func()*lazySubContext{return&lazySubContext{args:args,}})returnfunc(kbcexpressions.KeyBuilderContext)string{subCtx:=ctxPool.Get()deferctxPool.Return(subCtx)subCtx.sub=kbcreturnstage.BuildKey(subCtx)},nil}"] :=
  ⟨rfl, rfl, rfl⟩

/-- **The layout cell under every schedule.**  Any number of workers evaluate one `{time {0}}`-like stage (layout
    remembered in `atomicFormat`), worker `w` on the date `dates w`; `Load` and `Store` are separate atomic actions and
    the workers interleave arbitrarily.  Whatever the schedule, an answer is never torn or foreign: it is
    `<PARSE-ERROR>` for an empty or undetectable date, and otherwise the date parsed by the layout of SOME worker's
    non-empty date (its own, or one another worker stored first). -/
theorem time_cache_workers_any_schedule {L : Type} (lib : TimeLib L) (dates : Nat → Bytes) (sched : List Nat) (w : Nat) (v : Bytes)
    (h : (Conc.texec lib dates sched Conc.TSt.fresh).pcs w = .done v) : Conc.Good lib dates w v :=
  (Conc.texec_inv sched (Conc.tfresh_inv lib dates)).done w v h

/-- **One log format: every schedule is sequential.**  If all non-empty dates have the same layout (the situation the
    cache is made for) then under every schedule every worker answers exactly what a sequential evaluation answers –
    whether it comes first (empty cell) or after others (the cell holds that layout). -/
theorem time_cache_workers_same_layout {L : Type} (lib : TimeLib L) (dates : Nat → Bytes) (l0 : L)
    (hl : ∀ w, dates w ≠ [] → lib.detect (dates w) = some l0) (sched : List Nat) (w : Nat) (v : Bytes)
    (h : (Conc.texec lib dates sched Conc.TSt.fresh).pcs w = .done v) :
    v = (timeStep .cur lib [] false (dates w) TimeSt.fresh).1 ∧
    v = (timeStep .cur lib [] false (dates w) ⟨some l0, none⟩).1 := by
  have hg := time_cache_workers_any_schedule lib dates sched w v h
  by_cases he : dates w = []
  · rcases hg with ⟨_, hv⟩ | ⟨_, hv⟩ | ⟨hne, _⟩
    · simp [timeStep, he, hv]
    · simp [timeStep, he, hv]
    · exact absurd he hne
  · have hdw := hl w he
    rcases hg with ⟨h1, _⟩ | ⟨h1, _⟩ | ⟨_, w', l, hn, hd, hv⟩
    · exact absurd h1 he
    · rw [hdw] at h1; cases h1
    · have : l = l0 := by have := hl w' hn; rw [hd] at this; exact Option.some.inj this
      subst this
      simp [timeStep, he, hv, hdw, TimeSt.fresh]

/-- **… and with two formats it is not, by design** (the code's comment: "may end up run by a few different
    threads").  Toy library (the layout of a date is its length), worker 0 on `7`, worker 1 on `99`: when both `Load`
    the empty cell before either `Store`s, each parses its date by its own layout – both succeed; evaluated one after
    the other, in either order, the second is `<PARSE-ERROR>` (the first one's layout is remembered).  So the answers
    of this schedule are those of NO sequential order: the concurrency clause of C10 cannot hold for an expression that
    remembers a layout when the input mixes formats – it holds for every schedule when it does not
    (`time_cache_workers_same_layout`), and for every stage without memory (`userfn_pool_all_schedules`). -/
theorem time_cache_two_workers_counterexample :
    let dates : Nat → Bytes := fun w => if w = 0 then [55] else [57, 57]
    let both := Conc.texec toyLib dates [0, 1, 0, 1, 0, 1] Conc.TSt.fresh
    let seq01 := Conc.texec toyLib dates [0, 0, 0, 1, 1, 1] Conc.TSt.fresh
    let seq10 := Conc.texec toyLib dates [1, 1, 1, 0, 0, 0] Conc.TSt.fresh
    ((both.pcs 0).answer, (both.pcs 1).answer) = (some [55], some [57, 57]) ∧
    ((seq01.pcs 0).answer, (seq01.pcs 1).answer) = (some [55], some ErrorParsing) ∧
    ((seq10.pcs 0).answer, (seq10.pcs 1).answer) = (some ErrorParsing, some [57, 57]) ∧
    Conc.seqAnswers toyLib [55] [57, 57] = ([55], ErrorParsing) ∧
    Conc.seqAnswers toyLib [57, 57] [55] = ([57, 57], ErrorParsing) := by
  decide +kernel

/-- The machine's sequential schedules are the sequential model: worker `a` to the end, then worker `b`, answers what
    `timeStep .cur` (the closure read from /repo, `time_step_matches_source`) answers on the two dates in that order. -/
theorem time_cache_sequential_schedule {L : Type} (lib : TimeLib L) (dates : Nat → Bytes) (a b : Nat) (hab : a ≠ b) :
    let st := Conc.texec lib dates [a, a, a, b, b, b] Conc.TSt.fresh
    (st.pcs a).answer = some (Conc.seqAnswers lib (dates a) (dates b)).1 ∧
    (st.pcs b).answer = some (Conc.seqAnswers lib (dates a) (dates b)).2 := by
  have hba : b ≠ a := Ne.symm hab
  by_cases ha : dates a = [] <;> by_cases hb : dates b = [] <;>
    cases hda : lib.detect (dates a) <;> cases hdb : lib.detect (dates b) <;>
    simp [Conc.texec, Conc.tstep, Conc.TSt.setPc, Conc.TSt.fresh, Conc.TPc.answer, Conc.seqAnswers, timeStep, TimeSt.fresh,
      ha, hb, hda, hdb, hab, hba]

/-- **The funcs files are loaded after every global output switch is in force** (main.go, `app.Before`): `--nocolor` /
    `--color`, `--noformat`, `--notrim`, `--nounicode`, `--noload` are applied first, then the `--funcs` /
    `RARE_FUNC_FILES` definitions are compiled (with the optimiser folding their constant sub-expressions) – so a
    constant `{hi 1234567}`, `{color red x}`, `{load f}` inside a funcs-file body is folded under the same switches as the
    same text written inline, which the command compiles later (seeded change `C10-funcs-before-switches`). -/
theorem before_hook_switches_then_funcs :
    Gen.C10.beforeHookCtl = ["if:c.Bool(\"nocolor\"){", "stmt:color.Enabled=false", "}else{", "if:c.Bool(\"color\"){", "stmt:color.Enabled=true", "}", "}", "if:c.Bool(\"noformat\"){", "stmt:humanize.Enabled=false", "}", "if:c.Bool(\"notrim\"){", "stmt:multiterm.AutoTrim=false", "}", "if:c.Bool(\"nounicode\"){", "stmt:termunicode.UnicodeEnabled=false", "}", "if:c.Bool(\"noload\"){", "stmt:stdlib.DisableLoad=true", "}", "if:funcs:=c.StringSlice(\"funcs\");len(funcs)>0{", "stmt:cmplr:=funclib.NewKeyBuilder()", "range:funcs{", "do:funclib.TryAddFunctions(funcfile.LoadDefinitionsFile(cmplr,ff))", "}", "}", "return:nil"] := rfl

end Rare.C10
