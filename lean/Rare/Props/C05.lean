import Rare.Proofs.AggLoop
import Rare.Proofs.Pipeline
import Rare.Model.Lockset
import Rare.Proofs.Lockset
import Rare.Proofs.LocksetHB
import Rare.Proofs.C05Status
import Rare.Model.PipelineSkeleton
import Rare.Gen.Skeleton
import Rare.Proofs.AggLoopTrace
import Rare.Proofs.C05Signal
import Rare.Proofs.C05Logger
import Rare.Proofs.C05Close
import Rare.Proofs.C05CloseProg
import Rare.Proofs.C05CloseInv
import Rare.Proofs.C05SignalTrace
import Rare.Proofs.C05HB
import Rare.Proofs.C05HBTable
import Rare.Proofs.C05HBChan
import Rare.Proofs.C05HBChanDemo
import Rare.Proofs.C05Spawner
/-!
# C05 — race-free, atomic renders, complete final render

* Aggregation loop (`RunAggregationLoop`), for every stream of match batches, every arrival timing
  and every interleaving of main goroutine, ticker goroutine and extractor: mutual exclusion of
  rendering and sampling, no deadlock, the ticker is stopped before the final render, the final
  render sees every match, every intermediate render sees a prefix of the final sample history.
* Pipeline (with C01): termination/no deadlock/no send on closed, and the matched counter is never
  below the number of matches handed to the consumer.
* Data races: lockset discipline over the access tables regenerated from /repo – all fields of every
  shared object, referents of reference-typed fields included (aliases, escapes), the variables
  `RunAggregationLoop` shares with its ticker, the monitor behind `outputMutex` (partial: the tables are
  syntactic; the Go memory model is used in the form written down in Model/Lockset.lean; that the three
  disciplines of the check – common mutex with one side exclusive, both atomic, `go` edge – exclude data races is
  proved over abstract trace models in Proofs/LocksetHB.lean and Proofs/C05HB.lean).
* Close-after-WaitGroup: a closed batch channel implies a complete status (readers as programs whose exit block is
  read off the regenerated skeleton); signal path incl. trace inclusion of real SIGINT runs; pkg/logger.
-/
namespace Rare.C05
open Rare.AggLoop

variable {κ : Type}

/-- A render never runs while a match is being sampled, and vice versa, in every reachable state. -/
theorem render_sample_exclusive (stream : List (List κ)) {s : St κ} (hr : Reach (init stream) s) :
    ¬ (s.ticker = .rendering ∧ s.main.isSampling = true) := by
  have h := inv_reach hr
  rintro ⟨ht, hm⟩
  have h1 := h.tickOwns.mp ht
  have h2 := h.mainOwns.mp hm
  rw [h1] at h2; cases h2

/-- While a periodic render runs, the aggregator it reads does not change. -/
theorem render_sees_frozen_state (stream : List (List κ)) {s : St κ} (hr : Reach (init stream) s)
    (ht : s.ticker = .rendering) : s.snap = s.sampled :=
  (inv_reach hr).frozen ht

/-- No deadlock: until the final render has happened some goroutine can move. -/
theorem aggloop_progress (stream : List (List κ)) {s : St κ} (hr : Reach (init stream) s)
    (hf : s.main ≠ .finished) : ∃ s', Step s s' :=
  progress (inv_reach hr) hf

/-- Termination under fairness: every step of main or of the extractor strictly decreases a
    measure; the only other steps are the ticker's, which change neither main nor the aggregator.
    (So an execution can be infinite only by scheduling the ticker for ever.) -/
theorem aggloop_measure {s s' : St κ} (hs : Step s s') :
    measure s' < measure s ∨ (measure s' = measure s ∧ s'.main = s.main ∧ s'.sampled = s.sampled) :=
  step_measure hs

/-- The final render happens after the last match was sampled and after the ticker stopped:
    when main is about to do / has done the last `writeOutput()`, every match of the stream has been
    sampled, in order, nothing is left in the channel, the ticker goroutine has returned and nobody
    holds the mutex. -/
theorem final_render_after_last_sample (stream : List (List κ)) {s : St κ} (hr : Reach (init stream) s)
    (hm : s.main = .finalRender ∨ s.main = .finished) :
    s.sampled = stream.flatten ∧ s.rc = [] ∧ s.future = [] ∧ s.ticker = .stopped ∧ s.mutex = .none := by
  have h := inv_reach hr
  have hd := h.drained (by rcases hm with h | h <;> simp [h])
  have hst := h.stopped.mpr hm
  refine ⟨hd.1, hd.2.1, hd.2.2, hst, ?_⟩
  cases hmu : s.mutex with
  | none => rfl
  | main =>
    have := h.mainOwns.mpr hmu
    rcases hm with h' | h' <;> rw [h'] at this <;> cases this
  | ticker =>
    have := h.tickOwns.mpr hmu
    rw [hst] at this; cases this

/-- Final output reflects all matches: the last completed render saw the whole stream. -/
theorem final_render_sees_all (stream : List (List κ)) {s : St κ} (hr : Reach (init stream) s)
    (hm : s.main = .finished) : s.renders.getLast? = some stream.flatten :=
  (inv_reach hr).last hm

/-- Every render (intermediate or final) saw a prefix of the final sample history; hence, for
    count-style aggregation, the per-key counts it displays do not exceed the final counts. -/
theorem intermediate_counts_le_final [DecidableEq κ] (stream : List (List κ)) {s : St κ}
    (hr : Reach (init stream) s) :
    ∀ r ∈ s.renders, r <+: stream.flatten ∧ ∀ k, r.count k ≤ stream.flatten.count k := by
  intro r hmem
  have hp := (inv_reach hr).prefixes r hmem
  exact ⟨hp, fun k => hp.sublist.count_le k⟩

/-- What has been sampled (hence displayed) never exceeds what main has received from the extractor. -/
theorem sampled_le_received (stream : List (List κ)) {s : St κ} (hr : Reach (init stream) s) :
    s.sampled.length ≤ s.received.length := by
  have := (inv_reach hr).hand
  rw [← this]; simp

/-- …and what the consumer has received never exceeds the extractor's matched counter
    (pipeline invariant): a render's displayed total is never above the matched total. -/
theorem matched_ge_sum_displayed {α : Type} [DecidableEq α] (cls : α → Pipeline.Cls) (R B K W : Nat)
    (inputs : List (List (List α))) {s : Pipeline.St α}
    (hr : Pipeline.Reach cls R B K (Pipeline.init inputs W) s) :
    s.consumed.length ≤ s.nMatched :=
  Pipeline.matched_ge_consumed (Pipeline.inv_reach (Pipeline.inv_init cls B K inputs W) hr)

/-- **Final output reflects all matches – of the INPUT** (pipeline ∘ aggregation loop).  Composition at the seam
    `readChan`: the pipeline's consumer IS the loop's main goroutine, so the batches the loop receives (`stream`)
    are, concatenated, what the pipeline model's consumer holds when it has seen the channel closed (`hseam`; on
    real runs the `atrace` op checks exactly this equation between the two halves of one event log).  Then, for
    every schedule of readers, workers, main and ticker, every batch size, every channel capacity: the last render
    shows a permutation of the matched lines of a sequential pass over the input – so for count-style aggregation
    by any key function the final per-key counts are the sequential counts – and the matched total shown next to it
    is the number of those lines. -/
theorem final_render_reflects_input {α : Type} [DecidableEq α] (cls : α → Pipeline.Cls) (R B K W : Nat) (hW : 1 ≤ W)
    (inputs : List (List (List α))) {ps : Pipeline.St α}
    (hp : Pipeline.Reach cls R B K (Pipeline.init inputs W) ps) (hd : ps.consDone = true)
    (stream : List (List α)) (hseam : stream.flatten = ps.consumed)
    {s : St α} (hr : Reach (init stream) s) (hm : s.main = .finished) :
    ∃ r, s.renders.getLast? = some r ∧
      r.Perm ((inputs.flatMap List.flatten).filter (Pipeline.isMatched cls)) ∧
      r.length = ps.nMatched ∧
      ∀ {κ' : Type} [DecidableEq κ'] (key : α → κ') (k : κ'),
        (r.map key).count k = (((inputs.flatMap List.flatten).filter (Pipeline.isMatched cls)).map key).count k := by
  have hinv := Pipeline.inv_reach (Pipeline.inv_init cls B K inputs W) hp
  have hne : ps.workers ≠ [] := by
    intro h
    have hlen := Pipeline.reach_workers_length hp
    rw [h] at hlen; simp [Pipeline.init] at hlen; omega
  have hfin := Pipeline.final_state hinv hne hd
  have hperm : stream.flatten.Perm ((inputs.flatMap List.flatten).filter (Pipeline.isMatched cls)) := by
    rw [hseam]; exact List.perm_iff_count.mpr hfin.1
  refine ⟨stream.flatten, final_render_sees_all stream hr hm, hperm, ?_, ?_⟩
  · rw [hperm.length_eq]; exact hfin.2.2.1.symm
  · intro κ' _ key k
    exact (hperm.map key).count_eq k

/-- Non-vacuity of `final_render_reflects_input`: one source with the two lines 1 (matched) and 2 (unmatched) in one
    batch, one worker; the pipeline run to the end, the loop run to the end on the one batch it receives. -/
example : ∃ (ps : Pipeline.St Nat) (s : St Nat),
    Pipeline.Reach (fun x => if x = 1 then .matched else .unmatched) 1 1 1 (Pipeline.init [[[1, 2]]] 1) ps ∧
    ps.consDone = true ∧ [[1]].flatten = ps.consumed ∧ Reach (init [[1]]) s ∧ s.main = .finished := by
  have hp : Pipeline.Reach (fun x => if x = 1 then Pipeline.Cls.matched else .unmatched) 1 1 1 (Pipeline.init [[[(1 : Nat), 2]]] 1) _ :=
    .step (.step (.step (.step (.step (.step (.step (.step (.step (.step (.step (.step .refl
      (.start _ 0 [[1, 2]] rfl (by decide))) (.send _ 0 [1, 2] [] rfl (by decide))) (.finish _ 0 rfl))
      (.closeC _ rfl rfl)) (.wrecv _ 0 [1, 2] [] rfl rfl)) (.wproc _ 0 1 [2] [] rfl)) (.wproc _ 0 2 [] _ rfl))
      (.wsend _ 0 [1] rfl (by decide) (by decide))) (.wexit _ 0 rfl rfl rfl)) (.closeRC _ rfl rfl))
      (.crecv _ [1] [] rfl rfl)) (.cdone _ rfl rfl rfl)
  have hr : Reach (init [[(1 : Nat)]]) _ :=
    .step (.step (.step (.step (.step (.step (.step (.step (.step (.refl (s0 := init [[(1 : Nat)]]))
    (.arrive _ [1] [] rfl)) (.close _ rfl rfl)) (.recv _ [1] [] rfl rfl)) (.mlock _ [1] rfl rfl))
    (.sample _ 1 [] rfl)) (.munlock _ rfl)) (.eof _ rfl rfl rfl))
    (.handshake _ rfl rfl)) (.final _ rfl)
  exact ⟨_, _, hp, rfl, rfl, hr, rfl⟩

/-! ## The signal path: Ctrl-C / SIGINT

`RunAggregationLoop` registers `signal.Notify(exitSignal, os.Interrupt)` and its processing loop selects between
`readChan` and `exitSignal`; a signal leaves the loop like the end of the input does (same hand-shake, same final
`writeOutput()`), without stopping the extractor.  `Model/C05Signal.lean`: the transition system above plus the step
`signal` (enabled whenever main is in its select).  With a signal the run still ends with a complete render – of
what has been RECEIVED, not of the whole input. -/

/-- Mutual exclusion of rendering and sampling holds on the signal path too. -/
theorem signal_render_sample_exclusive (stream : List (List κ)) {s : SSt κ} (hr : SReach (sinit stream) s) :
    ¬ (s.base.ticker = .rendering ∧ s.base.main.isSampling = true) := by
  have h := sinv_reach hr
  rintro ⟨ht, hm⟩
  have h1 := h.tickOwns.mp ht
  have h2 := h.mainOwns.mp hm
  rw [h1] at h2; cases h2

/-- No deadlock: until the final render has happened some goroutine can move (in particular main blocked in
    `outputDone <- true` after a signal is always released: the ticker finishes its render and takes the hand-shake). -/
theorem signal_progress (stream : List (List κ)) {s : SSt κ} (hr : SReach (sinit stream) s)
    (hf : s.base.main ≠ .finished) : ∃ s', SStep s s' :=
  sprogress (sinv_reach hr) hf

/-- Termination under ticker fairness, signal included: every step other than the ticker's (and, after a signal,
    the extractor's, whose output nobody reads any more) strictly decreases a measure; those steps change neither
    main nor the aggregator. -/
theorem signal_measure (stream : List (List κ)) {s s' : SSt κ} (hr : SReach (sinit stream) s) (hs : SStep s s') :
    smeasure s' < smeasure s ∨ (smeasure s' = smeasure s ∧ s'.base.main = s.base.main ∧ s'.base.sampled = s.base.sampled) :=
  sstep_measure hs (sinv_reach hr).sig

/-- Ends with a complete render, signal or not: when main has finished, the ticker goroutine has returned, nobody
    holds the mutex, the last `writeOutput()` saw the aggregator's final state, that state holds EVERY match main
    took off the channel (no batch is half-sampled), it is a prefix of the matches of the input – and it is all of
    them when no signal arrived. -/
theorem signal_final_render (stream : List (List κ)) {s : SSt κ} (hr : SReach (sinit stream) s)
    (hm : s.base.main = .finished) :
    s.base.ticker = .stopped ∧ s.base.mutex = .none ∧ s.base.renders.getLast? = some s.base.sampled ∧
    s.base.sampled = s.base.received ∧ s.base.sampled <+: stream.flatten ∧
    (s.signalled = false → s.base.sampled = stream.flatten) := by
  have h := sinv_reach hr
  have hst := h.stopped.mpr (Or.inr hm)
  refine ⟨hst, ?_, h.last hm, sampled_eq_received h (Or.inr (Or.inr (Or.inl hm))), ssampled_prefix h,
    fun hs => (h.drained (Or.inr (Or.inr hm)) hs).1⟩
  cases hmu : s.base.mutex with
  | none => rfl
  | main => have := h.mainOwns.mpr hmu; rw [hm] at this; cases this
  | ticker => have := h.tickOwns.mpr hmu; rw [hst] at this; cases this

/-- Every render on the signal path saw a prefix of the input's matches (counts never exceed the full counts). -/
theorem signal_renders_are_prefixes [DecidableEq κ] (stream : List (List κ)) {s : SSt κ} (hr : SReach (sinit stream) s) :
    ∀ r ∈ s.base.renders, r <+: stream.flatten ∧ ∀ k, r.count k ≤ stream.flatten.count k := by
  intro r hmem
  have hp := (sinv_reach hr).prefixes r hmem
  exact ⟨hp, fun k => hp.sublist.count_le k⟩

/-- The runs without a signal are exactly the runs of the transition system of the first section (so everything
    proved there – the final render sees ALL matches – is about them). -/
theorem signal_free_runs_are_base (stream : List (List κ)) (b : St κ) :
    SReach (sinit stream) ⟨b, false⟩ ↔ Reach (init stream) b :=
  ⟨fun h => sreach_unsignalled h rfl, reach_sreach⟩

/-- Boundary: with a signal "final output reflects all matches" does NOT hold (and is not claimed by the code): a
    signal right after the first batch ends the run with a final render of that batch only. -/
theorem signal_final_partial_counterexample :
    ∃ s : SSt Nat, SReach (sinit [[1], [2]]) s ∧ s.base.main = .finished ∧ s.signalled = true ∧
      s.base.renders.getLast? = some [1] ∧ s.base.sampled ≠ [[1], [2]].flatten := by
  have hr : SReach (sinit [[(1 : Nat)], [2]]) _ :=
    .step (.step (.step (.step (.step (.step (.step (.step (.refl (s0 := sinit [[(1 : Nat)], [2]]))
    (.base _ _ (.arrive _ [1] [[2]] rfl))) (.base _ _ (.recv _ [1] [] rfl rfl))) (.base _ _ (.mlock _ [1] rfl rfl)))
    (.base _ _ (.sample _ 1 [] rfl))) (.base _ _ (.munlock _ rfl))) (.signal _ rfl))
    (.base _ _ (.handshake _ rfl rfl))) (.base _ _ (.final _ rfl))
  exact ⟨_, hr, rfl, rfl, by decide, by decide⟩

/-! ## pkg/logger: errors reported by several goroutines while the terminal is live

`Model/C05Logger.lean`: any number of printing goroutines (`RLock; logger.Print…; RUnlock`), one goroutine calling
`DeferLogs` / `ImmediateLogs` (`Lock; …; Unlock`), every interleaving of their atomic steps. -/

/-- Exclusion: while `DeferLogs` / `ImmediateLogs` holds the lock (switching the logger, flushing the buffer to
    stderr) no goroutine is between its `RLock` and `RUnlock`, i.e. nobody prints into the buffer being flushed. -/
theorem logger_flush_excludes_printers (script : Nat → List String) (ctl : List C05Logger.Ctl) {s : C05Logger.St}
    (hr : C05Logger.Reach (C05Logger.init script ctl) s) (hw : s.writer.isSome = true) : ∀ i, (s.pr i).pc = 0 :=
  (C05Logger.inv_reach hr).excl hw

/-- Atomicity / nothing lost: in every reachable state stderr followed by the deferred buffer is exactly the
    messages printed so far, whole and in the order they were printed; the buffer is empty unless logs are deferred;
    and for every goroutine, what it has printed followed by what it still has to print is what it was given –
    no message is lost, duplicated or reordered within a goroutine, however many goroutines report errors. -/
theorem logger_nothing_lost (script : Nat → List String) (ctl : List C05Logger.Ctl) {s : C05Logger.St}
    (hr : C05Logger.Reach (C05Logger.init script ctl) s) :
    s.err ++ s.buf = s.emitted ∧ (s.deferred = false → s.buf = []) ∧
    ∀ i, C05Logger.printedBy s.emitted i ++ (s.pr i).todo = script i :=
  let h := C05Logger.inv_reach hr
  ⟨h.emit, h.bufNil, h.per⟩

/-- The deferred log is printed completely: once every goroutine has printed what it had to and the logger is back
    in immediate mode (`ImmediateLogs` in the command's `After` hook), stderr holds every message of every goroutine,
    each goroutine's messages in its program order, and the buffer is empty. -/
theorem logger_final_flush_complete (script : Nat → List String) (ctl : List C05Logger.Ctl) {s : C05Logger.St}
    (hr : C05Logger.Reach (C05Logger.init script ctl) s) (hdone : ∀ i, (s.pr i).todo = [])
    (himm : s.deferred = false) : s.buf = [] ∧ s.err = s.emitted ∧ ∀ i, C05Logger.printedBy s.err i = script i := by
  have h := C05Logger.inv_reach hr
  have hb := h.bufNil himm
  have he : s.err = s.emitted := by have := h.emit; rw [hb] at this; simpa using this
  refine ⟨hb, he, fun i => ?_⟩
  have := h.per i
  rw [hdone i] at this
  rw [he]; simpa using this

/-- `ImmediateLogs` itself: the whole buffer goes to stderr in one piece, behind what is already there, and the
    logger is in immediate mode afterwards. -/
theorem logger_immediate_flushes (s : C05Logger.St) :
    (C05Logger.ctlBody s .immediate).err ++ (C05Logger.ctlBody s .immediate).buf = s.err ++ s.buf ∧
    (C05Logger.ctlBody s .immediate).deferred = false ∧
    (s.deferred = true → (C05Logger.ctlBody s .immediate).buf = []) :=
  C05Logger.ctlBody_immediate s

/-- Non-vacuity: DeferLogs; goroutine 0 reports "e1" (it lands in the buffer, stderr stays empty); ImmediateLogs:
    the message is on stderr, the buffer is empty, everybody is done. -/
example : C05Logger.Reach C05Logger.Demo.t0 C05Logger.Demo.t7 ∧ (∀ i, (C05Logger.Demo.t7.pr i).todo = []) ∧
    C05Logger.Demo.t7.deferred = false ∧ C05Logger.Demo.t7.err = [(0, "e1")] ∧ C05Logger.Demo.t7.buf = [] ∧
    C05Logger.Demo.t4.buf = [(0, "e1")] ∧ C05Logger.Demo.t4.err = [] :=
  C05Logger.Demo.demo

/-! ## Close-after-WaitGroup, and what the status line shows once the batch channel is closed

`OpenFilesToChan` / `TailFilesToChan`: a reader goroutine's deferred exit block is `out.stopFileReading(name)` and
THEN `wg.Done()`; the spawner does `wg.Wait(); out.close()`.  `Model/C05Close.lean`.

Until /repo 7025f4b the two calls stood in the other order and the statement below did NOT hold (finding "closelag",
reproduced on the real `OpenFilesToChan`: about 1 run in 300 showed `[5/6] … | f5` right after the batch channel was
closed); `close_status_lag_counterexample` keeps that fact as a theorem about the OLD order, the corpus case
`C05 closelag 6 3 6000` re-runs the search on the real code. -/

/-- **A closed batch channel implies a complete status**, for any number of readers and any interleaving: with the
    exit block of the source (`stopFileReading`, then `wg.Done()`; `close` only after every `wg.Done()`), once the
    channel is closed no file is listed as active and all `n` are counted as read. -/
theorem close_status_complete (n : Nat) {s : C05Close.St}
    (hr : C05Close.Reach C05Close.code (C05Close.init n) s) (hc : s.closed = true) :
    C05Close.active C05Close.code s = 0 ∧ C05Close.readCount C05Close.code s = n :=
  C05Close.closed_status_complete (by decide) hr hc

/-- Whatever the order of the two exit actions: the status is complete once every reader goroutine has left its
    exit block (this is all that held of the old order). -/
theorem close_status_complete_when_quiescent (c : C05Close.Cfg) (hc : c.stoppedAt ≤ 2) (n : Nat) {s : C05Close.St}
    (hr : C05Close.Reach c (C05Close.init n) s)
    (hq : ∀ p ∈ s.pcs, p = 2) : C05Close.active c s = 0 ∧ C05Close.readCount c s = n :=
  C05Close.quiescent_status_complete c hc hr hq

/-- Counterexample for the OLD order (`wg.Done()`, then `stopFileReading`; the source before /repo 7025f4b): two
    readers; both have called `wg.Done()`, the channel gets closed, one of them has not yet reached
    `stopFileReading`: the status shows one active file and 1/2 read after the close. -/
theorem close_status_lag_counterexample :
    ∃ s : C05Close.St, C05Close.Reach C05Close.oldOrder (C05Close.init 2) s ∧ s.closed = true ∧
      C05Close.active C05Close.oldOrder s = 1 ∧ C05Close.readCount C05Close.oldOrder s = 1 := by
  have r1 : C05Close.Reach C05Close.oldOrder (C05Close.init 2) ⟨[1, 0], false⟩ :=
    .step .refl (.adv (C05Close.init 2) 0 (by decide) (by decide))
  have r2 : C05Close.Reach C05Close.oldOrder (C05Close.init 2) ⟨[1, 1], false⟩ :=
    .step r1 (.adv ⟨[1, 0], false⟩ 1 (by decide) (by decide))
  have r3 : C05Close.Reach C05Close.oldOrder (C05Close.init 2) ⟨[1, 1], true⟩ :=
    .step r2 (.close ⟨[1, 1], false⟩ rfl (by decide))
  have r4 : C05Close.Reach C05Close.oldOrder (C05Close.init 2) ⟨[2, 1], true⟩ :=
    .step r3 (.adv ⟨[1, 1], true⟩ 0 (by decide) (by decide))
  exact ⟨_, r4, rfl, by decide, by decide⟩

/-- Non-vacuity of `close_status_complete`: the same two readers under the order of the source – the channel can
    only be closed in the state in which both have finished the whole exit block. -/
example : ∃ s : C05Close.St, C05Close.Reach C05Close.code (C05Close.init 2) s ∧ s.closed = true ∧ s.pcs = [2, 2] := by
  have r1 : C05Close.Reach C05Close.code (C05Close.init 2) ⟨[1, 0], false⟩ :=
    .step .refl (.adv (C05Close.init 2) 0 (by decide) (by decide))
  have r2 : C05Close.Reach C05Close.code (C05Close.init 2) ⟨[1, 1], false⟩ :=
    .step r1 (.adv ⟨[1, 0], false⟩ 1 (by decide) (by decide))
  have r3 : C05Close.Reach C05Close.code (C05Close.init 2) ⟨[2, 1], false⟩ :=
    .step r2 (.adv ⟨[1, 1], false⟩ 0 (by decide) (by decide))
  have r4 : C05Close.Reach C05Close.code (C05Close.init 2) ⟨[2, 2], false⟩ :=
    .step r3 (.adv ⟨[2, 1], false⟩ 1 (by decide) (by decide))
  exact ⟨_, .step r4 (.close ⟨[2, 2], false⟩ rfl (by decide)), rfl, rfl⟩

/-- The order the model's `code` configuration stands for is the order in the source, in both batchers: the
    deferred exit block is `[<-sema;] out.stopFileReading(…); wg.Done()` and these are the only calls of the two
    in the function; and both channels (`Batcher.c`, `Extractor.readChan`) are closed right after `wg.Wait()` by
    the goroutine that waited – the only `close` of each (no send on a closed channel: senders are counted by the
    WaitGroup).  Swapping the two calls back breaks this theorem. -/
theorem close_after_waitgroup_skeleton :
    ["defer{", "recv:sema", "call:out.stopFileReading", "call:wg.Done", "}"] <:+: Gen.Skeleton.openFilesToChan ∧
    ["defer{", "call:out.stopFileReading", "call:wg.Done", "}"] <:+: Gen.Skeleton.tailFilesToChan ∧
    Gen.Skeleton.openFilesToChan.count "call:wg.Done" = 1 ∧ Gen.Skeleton.openFilesToChan.count "call:out.stopFileReading" = 1 ∧
    Gen.Skeleton.tailFilesToChan.count "call:wg.Done" = 1 ∧ Gen.Skeleton.tailFilesToChan.count "call:out.stopFileReading" = 1 ∧
    ["call:wg.Wait", "call:out.close"] <:+: Gen.Skeleton.openFilesToChan ∧
    ["call:wg.Wait", "call:out.close"] <:+: Gen.Skeleton.tailFilesToChan ∧
    ["call:wg.Wait", "close:extractor.readChan"] <:+: Gen.Skeleton.extractorNew ∧
    Gen.Skeleton.batcherClose = ["close:s.c"] ∧
    (Gen.Skeleton.openFilesToChan.filter (· == "call:out.close")).length = 1 ∧
    (Gen.Skeleton.tailFilesToChan.filter (· == "call:out.close")).length = 1 ∧
    (Gen.Skeleton.extractorNew.filter (· == "close:extractor.readChan")).length = 1 := by
  refine ⟨by decide, by decide, by decide, by decide, by decide, by decide, by decide, by decide, by decide, rfl,
    by decide, by decide, by decide⟩

/-! ### The whole reader goroutine as a program of bookkeeping actions (`Model/C05CloseProg.lean`)

A reader's program = its body (`incErrors` | `startFileReading`, then `send batch; incReadBytes` per batch) followed
by the deferred exit block, and the exit block is READ OFF the regenerated skeleton (`C05Prog.exitOf`).  The status
observables are a fold over the executed actions, faithful to `stopFileReading`.  Correspondence: op `closeord`
(the real batchers under a forced schedule, observed on the spawner goroutine right before `close(s.c)`). -/

/-- The deferred exit block of the reader goroutines in both batchers, as the source has it. -/
theorem close_exit_block_from_source :
    C05Prog.exitOf Gen.Skeleton.openFilesToChan = [.stop, .done] ∧
    C05Prog.exitOf Gen.Skeleton.tailFilesToChan = [.stop, .done] := by
  refine ⟨by decide, by decide⟩

/-- … and the bodies: a failed open is `incErrors; return`, otherwise `startFileReading` and the sync loop, in which
    every send on the batch channel is directly followed by its `incReadBytes` (both loops, both sends). -/
theorem close_reader_body_skeleton :
    ["}", "call:out.incErrors", "return", "defer:file.Close", "call:out.startFileReading", "call:out.syncReaderToBatcher", "}"]
      <:+: Gen.Skeleton.openFilesToChan ∧
    ["}", "call:out.incErrors", "return", "call:out.incErrors", "call:out.startFileReading",
      "call:out.syncReaderToBatcherWithTimeFlush", "}"] <:+: Gen.Skeleton.tailFilesToChan ∧
    Gen.Skeleton.syncReaderToBatcher.drop 3 =
      ["for{", "call:readahead.Scan", "send:s.c", "call:s.incReadBytes", "}", "send:s.c", "call:s.incReadBytes"] ∧
    Gen.Skeleton.syncReaderToBatcherWithTimeFlush = Gen.Skeleton.syncReaderToBatcher := by
  refine ⟨by decide, by decide, by decide, by decide⟩

/-- **Closed ⇒ every reader has executed ALL its bookkeeping**, whatever its body did (open error, drain error, read
    errors, any number of batches), for any number of readers and every interleaving: with the exit block of the
    source, once the batch channel is closed each reader's executed actions are its whole program. -/
theorem close_all_bookkeeping_complete (skel : List String)
    (hsk : skel = Gen.Skeleton.openFilesToChan ∨ skel = Gen.Skeleton.tailFilesToChan)
    (bodies : List (List C05Prog.Act)) (hb : ∀ b ∈ bodies, C05Prog.Act.done ∉ b) {s : C05Prog.St}
    (hr : C05Prog.Reach (C05Prog.init (bodies.map (· ++ C05Prog.exitOf skel))) s) (hc : s.closed = true) :
    s.rs.map (·.exec) = bodies.map (· ++ [.stop, .done]) ∧ ∀ r ∈ s.rs, r.todo = [] := by
  have he : C05Prog.exitOf skel = [.stop, .done] := by
    rcases hsk with rfl | rfl
    · exact close_exit_block_from_source.1
    · exact close_exit_block_from_source.2
  rw [he] at hr
  refine C05Prog.closed_all_executed ?_ hr hc
  intro p hp
  obtain ⟨b, hbm, rfl⟩ := List.mem_map.mp hp
  refine ⟨b ++ [.stop], by simp, ?_⟩
  have := hb b hbm
  simp [this]

/-- **Closed ⇒ complete status, all of it**: for any set of sources (`none` = the open fails, `some bs` = read as
    batches of `bs` bytes) once the batch channel is closed no file is listed as active, every opened source is
    counted as read, every failed open as an error, and `readBytes` is the bytes of all batches – all of which
    have been handed to the channel. -/
theorem close_program_complete (skel : List String)
    (hsk : skel = Gen.Skeleton.openFilesToChan ∨ skel = Gen.Skeleton.tailFilesToChan)
    (fs : List C05Prog.Src) {s : C05Prog.St}
    (hr : C05Prog.Reach (C05Prog.init (fs.map (C05Prog.prog (C05Prog.exitOf skel)))) s) (hc : s.closed = true) :
    C05Prog.active s = 0 ∧ C05Prog.readCount s = C05Prog.present fs ∧ C05Prog.errors s = C05Prog.missing fs ∧
    C05Prog.readBytes s = C05Prog.totalBytes fs ∧ C05Prog.sentBytes s = C05Prog.totalBytes fs := by
  have he : C05Prog.exitOf skel = [.stop, .done] := by
    rcases hsk with rfl | rfl
    · exact close_exit_block_from_source.1
    · exact close_exit_block_from_source.2
  rw [he] at hr
  exact C05Prog.closed_status_complete fs hr hc

/-- **While the readers run** (every reachable state, not only the closed ones): the byte counter of the status line
    is never ahead of the bytes that have been handed to the batch channel (`incReadBytes` follows its send: with an
    unbuffered channel the consumer has received at least `readBytes` bytes – op `closeord`, field `ahead`), and
    listed-as-active plus counted-as-read never exceeds the number of sources (no source is shown in both roles or
    counted twice). -/
theorem close_running_status_bounds (skel : List String)
    (hsk : skel = Gen.Skeleton.openFilesToChan ∨ skel = Gen.Skeleton.tailFilesToChan)
    (fs : List C05Prog.Src) {s : C05Prog.St}
    (hr : C05Prog.Reach (C05Prog.init (fs.map (C05Prog.prog (C05Prog.exitOf skel)))) s) :
    C05Prog.readBytes s ≤ C05Prog.sentBytes s ∧ C05Prog.active s + C05Prog.readCount s ≤ fs.length := by
  have he : C05Prog.exitOf skel = [.stop, .done] := by
    rcases hsk with rfl | rfl
    · exact close_exit_block_from_source.1
    · exact close_exit_block_from_source.2
  rw [he] at hr
  exact C05Prog.running_status_bounds [.stop, .done] (by simp) fs hr

/-- Boundary, for EVERY set of sources: with the exit block in the order before /repo 7025f4b (`wg.Done()`, then
    `stopFileReading`) there is a run that closes the channel while every opened source is still listed as active
    and none is counted as read – the schedule op `closeord` forces on the real code (`lag=6` of 6 there). -/
theorem close_old_order_lags_all_readers (fs : List C05Prog.Src) :
    ∃ s, C05Prog.Reach (C05Prog.init (fs.map (C05Prog.prog [.done, .stop]))) s ∧ s.closed = true ∧
      C05Prog.active s = C05Prog.present fs ∧ C05Prog.readCount s = 0 :=
  C05Prog.old_order_lags fs

/-- Non-vacuity: two sources (one read as two batches, one that cannot be opened) – a closed state is reachable with
    the program of the source, and it shows 0 active, 1 read, 1 error, 12 bytes. -/
example : ∃ s, C05Prog.Reach (C05Prog.init ([some [5, 7], none].map (C05Prog.prog (C05Prog.exitOf Gen.Skeleton.openFilesToChan)))) s ∧
    s.closed = true ∧ C05Prog.readCount s = 1 ∧ C05Prog.errors s = 1 ∧ C05Prog.readBytes s = 12 := by
  have h0 : C05Prog.Reach (C05Prog.init ([some [5, 7], none].map (C05Prog.prog (C05Prog.exitOf Gen.Skeleton.openFilesToChan))))
      ⟨[] ++ ⟨[], [.opened, .send 5, .inc 5, .send 7, .inc 7, .stop, .done] ++ []⟩ :: [⟨[], [.err, .stop, .done]⟩], false⟩ := .refl
  have h1 := C05Prog.reach_run _ _ _ _ _ _ h0
  have h2 : C05Prog.Reach _ ⟨[⟨[.opened, .send 5, .inc 5, .send 7, .inc 7, .stop, .done], []⟩] ++
      ⟨[], [.err, .stop, .done] ++ []⟩ :: [], false⟩ := h1
  have h3 := C05Prog.reach_run _ _ _ _ _ _ h2
  have h4 := C05Prog.Reach.step h3 (.close _ rfl (by decide))
  have hc := close_program_complete _ (.inl rfl) [some [5, 7], none] h4 rfl
  exact ⟨_, h4, rfl, hc.2.1, hc.2.2.1, hc.2.2.2.1⟩

/-! ### `[read/total]`: the spawner side of the status line (Model/C05Spawner.lean, Proofs/C05Spawner.lean)

The goroutine of `OpenFilesToChan` that starts the readers: names reach `bufferedFilenames` (`push`), the range loop
receives one (`recv`), `out.setSourceCount(readCount + len(bufferedFilenames))` (`measure`: the length is whatever it
is at that moment), `go` (`spawn`); readers run `stopFileReading` (`finish`); `wg.Wait(); out.close()` (`close`).
All interleavings, any number `n` of names. -/

/-- **The prefix `[read/total]` never shows more files read than there are**: in every reachable state
    `readCount ≤ readers that stopped ≤ readers started ≤ sourceCount ≤ names that reached the buffer ≤ n`. -/
theorem status_read_le_total {n : Nat} {s : C05Spawner.St} (h : C05Spawner.Reach n s) :
    s.read ≤ s.stopped ∧ s.stopped ≤ s.spawned ∧ s.spawned ≤ s.total ∧ s.total ≤ s.pushed ∧ s.pushed ≤ n := by
  have hi := C05Spawner.inv_reach h
  exact ⟨hi.rs, hi.ss, C05Spawner.spawned_le_total h, hi.totp, hi.pn⟩

/-- **Neither number of the prefix ever goes down**: every step keeps or raises `sourceCount` (the measured
    `readCount + len(bufferedFilenames)` is the number of names that reached the buffer so far) and `readCount`. -/
theorem status_total_monotone {n : Nat} {s s' : C05Spawner.St} (h : C05Spawner.Reach n s)
    (hs : C05Spawner.Step n s s') : s.total ≤ s'.total ∧ s.read ≤ s'.read := by
  refine ⟨C05Spawner.total_mono h hs, ?_⟩
  cases hs <;> simp

/-- **At the close the prefix is complete**: once the batch channel is closed, `sourceCount` = the number of names,
    every reader was started and has run `stopFileReading` (the prefix reads `[opened files/n]`). -/
theorem status_total_complete {n : Nat} {s : C05Spawner.St} (h : C05Spawner.Reach n s) (hc : s.closed = true) :
    s.total = n ∧ s.spawned = n ∧ s.stopped = n ∧ s.read ≤ n := by
  obtain ⟨h1, h2, h3, h4⟩ := C05Spawner.closed_only_by_close h hc
  have hi := C05Spawner.inv_reach h
  have := hi.top h1
  have := hi.totp; have := hi.rs
  omega

/-- The loop body in the regenerated skeleton: semaphore, `wg.Add`, `setSourceCount`, then the `go` statement – the
    count is published BEFORE the reader it counts can stop (hence `spawned ≤ total`); one `setSourceCount` call. -/
theorem status_spawner_skeleton :
    ["range:bufferedFilenames{", "send:sema", "call:wg.Add", "call:out.setSourceCount", "go{"] <:+:
      Gen.Skeleton.openFilesToChan ∧
    Gen.Skeleton.openFilesToChan.count "call:out.setSourceCount" = 1 ∧
    ["call:wg.Wait", "call:out.close", "}", "return"] <:+ Gen.Skeleton.openFilesToChan := by
  refine ⟨by decide, by decide, by decide⟩

/-- Boundary: publishing the count AFTER the `go` statement would break `read ≤ total` – the hypothesis `Reach` (whose
    `spawn` needs `pc = measured`) matters: the state "one reader started and stopped, nothing measured yet" violates the
    bound and is not reachable. -/
example : ¬ C05Spawner.Reach 1 { pushed := 1, taken := 1, spawned := 1, stopped := 1, read := 1, pc := .received } := by
  intro h
  have := (status_read_le_total h).2.2.1
  simp at this

/-- Non-vacuity: a run over two names (one opened, one missing), the second name arriving after the first measurement:
    the total goes 0 → 1 → 2, the run closes with `[1/2]`. -/
example : ∃ s : C05Spawner.St, C05Spawner.Reach 2 s ∧ s.closed = true ∧ s.total = 2 ∧ s.read = 1 := by
  have h := C05Spawner.Reach.step (.step (.step (.step (.step (.step (.step (.step (.step (.step (.step
    (C05Spawner.Reach.init (n := 2))
    (.push _ (by decide))) (.recv _ rfl (by decide))) (.measure _ rfl)) (.spawn _ rfl))
    (.push _ (by decide))) (.finish _ true (by decide))) (.recv _ rfl (by decide))) (.measure _ rfl)) (.spawn _ rfl))
    (.finish _ false (by decide))) (.close _ rfl rfl rfl rfl rfl)
  exact ⟨_, h, rfl, rfl, rfl⟩

/-- The aggregation-loop skeleton regenerated from /repo is the one the transition system models. -/
theorem skeleton_matches_source :
    Gen.Skeleton.runAggregationLoop = PipelineSkeleton.runAggregationLoop := rfl

/-- … and in it the signal branch is what `SStep.signal` models: a `select` case on `exitSignal` (a channel of
    capacity 1, as `signal.Notify` needs) that only leaves the loop, sitting next to the `readChan` case; the
    hand-shake and the final `writeOutput()` follow the loop whichever case left it. -/
theorem skeleton_signal_branch :
    ["select{", "recv:exitSignal", "break:PROCESSING_LOOP", "recv:reader"] <:+: Gen.Skeleton.runAggregationLoop ∧
    ["send:outputDone", "call:writeOutput"] <:+ Gen.Skeleton.runAggregationLoop ∧
    "makechan:1" ∈ Gen.Skeleton.runAggregationLoop := by
  refine ⟨by decide, by decide, by decide⟩

/-! ## Data races: lockset discipline over the access tables regenerated from /repo

`Gen.Access` (harness/extract/access.go, go/types): every field of every object that more than one
goroutine touches, every access site with the object accessed (the field variable or its REFERENT –
backing array / map / pointee / closure – directly, through a local alias, or by a reference that
escapes the function), the mutex held at that site, atomicity, and ordering edges.  `Model/Lockset.lean`
says what the check means and why it implies data-race freedom in the Go memory model. -/

/-- Lockset discipline: every conflicting pair of accesses (same field variable or same referent region,
    at least one a write) to the shared state of `Batcher`, `Extractor`, `ExpressionIgnoreSet`,
    `ObjectPool`, the logger and `pkg/multiterm`'s package state is atomic on both sides, or holds the
    common mutex (at least one side exclusively) at the site of the access, or is ordered by a `go`
    statement / terminating hand-shake; and the same for the variables `RunAggregationLoop` shares with its
    ticker goroutine.  All fields are covered (the extractor enumerates them with go/types). -/
theorem lockset_ok :
    Lockset.raceFree Gen.Access.batcherCtors Gen.Access.batcher = true ∧
    Lockset.raceFree Gen.Access.extractorCtors Gen.Access.extractor = true ∧
    Lockset.raceFree Gen.Access.ignoreSetCtors Gen.Access.ignoreSet = true ∧
    Lockset.raceFree Gen.Access.objectPoolCtors Gen.Access.objectPool = true ∧
    Lockset.raceFree Gen.Access.loggerCtors Gen.Access.logger = true ∧
    Lockset.raceFree Gen.Access.multitermGlobalsCtors Gen.Access.multitermGlobals = true ∧
    Lockset.raceFreeRoles Gen.Access.aggLoop = true := by
  refine ⟨by decide +kernel, by decide +kernel, by decide +kernel, by decide +kernel, by decide +kernel,
    by decide +kernel, by decide +kernel⟩

/-- State shared by all workers evaluating one compiled expression: every variable a stage builder of
    pkg/expressions/stdlib or pkg/expressions/funcfile hands to the closure it returns (argument stages, parsed
    constants, per-stage context pools, the cached date format) is, inside the closures – which every worker
    runs, concurrently with itself –, only read, or touched through sync/atomic, or through an `ObjectPool`
    (race free by its own table above); and the same for the package-level state of pkg/expressions/stdlib
    (`subContextPool`, the function tables).  The builders' own bodies run at compile time, before the closure
    exists for anybody else. -/
theorem lockset_stage_state :
    Lockset.raceFreeClosures Gen.Access.stageState = true ∧
    Lockset.raceFreeClosures Gen.Access.stageStateFuncfile = true ∧
    Lockset.raceFree Gen.Access.stdlibGlobalsCtors Gen.Access.stdlibGlobals = true ∧
    Gen.Access.stdlibGlobalsCtors = ["init"] ∧
    Lockset.raceFreeClosures Gen.Access.stageStateExpressions = true ∧
    Lockset.raceFreeClosures Gen.Access.stageStateStdmath = true ∧
    Lockset.raceFree Gen.Access.compiledKeyBuilderCtors Gen.Access.compiledKeyBuilder = true ∧
    Gen.Access.compiledKeyBuilderCtors = ["KeyBuilder.Compile", "optimize"] ∧
    Lockset.raceFree Gen.Access.expressionsGlobalsCtors Gen.Access.expressionsGlobals = true ∧
    Lockset.raceFree Gen.Access.stdmathGlobalsCtors Gen.Access.stdmathGlobals = true ∧
    Gen.Access.expressionsGlobalsCtors = ["init"] ∧ Gen.Access.stdmathGlobalsCtors = ["init"] := by
  refine ⟨by decide +kernel, by decide +kernel, by decide +kernel, rfl, by decide +kernel, by decide +kernel,
    by decide +kernel, rfl, by decide +kernel, by decide +kernel, rfl, rfl⟩

/-- EVERY closure-captured variable of the expression stages (pkg/expressions/stdlib, funcfile, pkg/expressions,
    stdmath; captured at build time, used at evaluation time, variables of builder literals nested in a factory
    included) follows one of three disciplines at evaluation time: it is only read (`immutable`), or it is a context
    pool whose only writes are `ObjectPool.Get/Return` (`pooled`: exactly the `{! …}` pool and the user-function
    pool; `subContextPool` of @map/@reduce/@for/@filter is package state, below), or every write goes through
    sync/atomic (`atomic`: exactly the two date-format memories of {time}).  No captured variable is `mutable`
    (plainly written at evaluation time).  The captured variables that are declared inside a stage, hence made
    afresh by every evaluation (per-call locals holding a pooled object), are exactly `kfArrayMap.mapperContext`;
    and these packages start no goroutine, so a per-call closure never reaches a second goroutine.
    (seeded/C05-map-shared-subcontext turns `mapperContext` from per-call into a captured per-build variable whose
    pointee is written by `Eval` at evaluation time; seeded/C10-joinstages-shared-buf adds the captured `scratch`.) -/
theorem lockset_stage_classes :
    Lockset.ofClass Gen.Access.stageStateFields Gen.Access.stageState "mutable" = [] ∧
    Lockset.ofClass Gen.Access.stageStateFuncfileFields Gen.Access.stageStateFuncfile "mutable" = [] ∧
    Lockset.ofClass Gen.Access.stageStateExpressionsFields Gen.Access.stageStateExpressions "mutable" = [] ∧
    Lockset.ofClass Gen.Access.stageStateStdmathFields Gen.Access.stageStateStdmath "mutable" = [] ∧
    Lockset.ofClass Gen.Access.stageStateFields Gen.Access.stageState "pooled" = ["kfMath.ctxPool"] ∧
    Lockset.ofClass Gen.Access.stageStateFuncfileFields Gen.Access.stageStateFuncfile "pooled" = ["keyBuilderToFunction.ctxPool"] ∧
    Lockset.ofClass Gen.Access.stageStateFields Gen.Access.stageState "atomic" =
      ["smartDateParseWrapper.atomicFormat", "smartDateParseWrapper.staticFormat"] ∧
    Lockset.ofClass Gen.Access.stageStateFuncfileFields Gen.Access.stageStateFuncfile "atomic" = [] ∧
    (Lockset.stageClasses Gen.Access.stageStateExpressionsFields Gen.Access.stageStateExpressions).all (fun p => p.2 == "immutable") = true ∧
    Gen.Access.stageStatePerCall = ["kfArrayMap.mapperContext"] ∧ Gen.Access.stageStateFuncfilePerCall = [] ∧
    Gen.Access.stageStateExpressionsPerCall = [] ∧ Gen.Access.stageStateStdmathPerCall = [] ∧
    Gen.Access.spawns.lookup "pkg/expressions/stdlib" = some [] ∧ Gen.Access.spawns.lookup "pkg/expressions/funcfile" = some [] ∧
    Gen.Access.spawns.lookup "pkg/expressions" = some [] ∧ Gen.Access.spawns.lookup "pkg/expressions/stdmath" = some [] := by
  refine ⟨by decide +kernel, by decide +kernel, by decide +kernel, by decide +kernel, by decide +kernel, by decide +kernel,
    by decide +kernel, by decide +kernel, by decide +kernel, rfl, rfl, rfl, rfl, by decide +kernel, by decide +kernel,
    by decide +kernel, by decide +kernel⟩

/-- What a class means for the race check (for all tables, not only the generated ones): a closure table none of
    whose captured variables is `mutable` … has no plain write at evaluation time at all. -/
theorem stage_class_not_mutable_iff (accs : List Gen.Access.Acc) (f : String) :
    Lockset.stageClass accs f ≠ "mutable" ↔
      ∀ a ∈ accs, a.depth ≠ 0 → a.field = f → a.write = true → a.atomic = true :=
  Lockset.stageClass_not_mutable_iff accs f

/-- The package state the stages share (`subContextPool`, the function / format tables of stdlib, the operator
    tables of stdmath, the error values of pkg/expressions): outside `init` the only writes are the
    `ObjectPool.Get/Return` calls on `subContextPool`; and the compiled expression itself (`CompiledKeyBuilder.stages`)
    is written by nothing but `Compile` and `optimize`, which build it. -/
theorem lockset_stage_globals :
    ((Lockset.shared Gen.Access.stdlibGlobalsCtors Gen.Access.stdlibGlobals).all fun a =>
      !a.write || (a.field == "subContextPool" && a.atomic && a.how.startsWith "call:slicepool.ObjectPool.")) = true ∧
    ((Lockset.shared Gen.Access.stdmathGlobalsCtors Gen.Access.stdmathGlobals).all fun a => !a.write || a.atomic) = true ∧
    ((Lockset.shared Gen.Access.expressionsGlobalsCtors Gen.Access.expressionsGlobals).all fun a => !a.write) = true ∧
    ((Lockset.shared Gen.Access.compiledKeyBuilderCtors Gen.Access.compiledKeyBuilder).all fun a => !a.write) = true := by
  refine ⟨by decide +kernel, by decide +kernel, by decide +kernel, by decide +kernel⟩

/-- Non-vacuity / boundary: with the access records the two seeded changes produce (the table rows the extractor
    emits on those trees) the class of the variable becomes `mutable` and the race check fails, naming it. -/
example :
    Lockset.stageClass (⟨"kfArrayMap$2", "kfArrayMap.mapperContext", "kfArrayMap.mapperContext", "ref", true, false, "", "", "", 1, "direct", [], 149⟩
      :: Gen.Access.stageState) "kfArrayMap.mapperContext" = "mutable" ∧
    Lockset.raceFreeClosures (⟨"kfArrayMap$2", "kfArrayMap.mapperContext", "kfArrayMap.mapperContext", "ref", true, false, "", "", "", 1, "direct", [], 149⟩
      :: Gen.Access.stageState) = false ∧
    Lockset.stageClass (⟨"CompiledKeyBuilder.joinStages$1", "CompiledKeyBuilder.joinStages.scratch", "CompiledKeyBuilder.joinStages.scratch", "var", true, false, "", "", "", 1, "direct", [], 204⟩
      :: Gen.Access.stageStateExpressions) "CompiledKeyBuilder.joinStages.scratch" = "mutable" ∧
    Lockset.raceFreeClosures (⟨"CompiledKeyBuilder.joinStages$1", "CompiledKeyBuilder.joinStages.scratch", "CompiledKeyBuilder.joinStages.scratch", "var", true, false, "", "", "", 1, "direct", [], 204⟩
      :: Gen.Access.stageStateExpressions) = false := by
  refine ⟨by decide +kernel, by decide +kernel, by decide +kernel, by decide +kernel⟩

/-- Non-vacuity: the stage tables do contain shared writes that need (and have) protection – the context
    pools' Get/Return and nothing unprotected –, and a stage that wrote a captured variable plainly
    (a memo) would be flagged. -/
example : (Gen.Access.stageState.any fun a => a.depth != 0 && a.write && a.atomic) = true ∧
    Lockset.raceFreeClosures (⟨"kfX$1", "kfX.memo", "kfX.memo", "var", true, false, "", "", "", 1, "direct", [], 1⟩
      :: Gen.Access.stageState) = false := by
  refine ⟨by decide +kernel, by decide +kernel⟩

/-- Calls through a shared reference into another component are classified by a syntactic "does the method
    write state reachable from its receiver" scan of the callee's source (`CompiledKeyBuilder.BuildKey`,
    `IgnoreSet.IgnoreMatch`, `matchers.Factory.CreateInstance`, `Extractor.ReadChan` … come out read-only,
    `Aggregator.Sample` comes out writing); the only call taken on trust is the logger's `OsExit` hook. -/
theorem lockset_assumptions : Gen.Access.assumedReadOnly = ["logger:func:OsExit"] := rfl

/-- The constructors exempted above are the ones the tables were made for (an added "constructor" in the
    extractor's configuration would otherwise silently exempt a function). -/
theorem lockset_constructors :
    Gen.Access.batcherCtors = ["newBatcher"] ∧ Gen.Access.extractorCtors = ["New"] ∧
    Gen.Access.ignoreSetCtors = ["NewIgnoreExpressions"] ∧
    Gen.Access.objectPoolCtors = ["NewObjectPoolEx", "NewObjectPool"] ∧
    Gen.Access.loggerCtors = ["init"] ∧ Gen.Access.multitermGlobalsCtors = ["init"] ∧
    Gen.Access.aggLoopCtors = [] := by
  refine ⟨rfl, rfl, rfl, rfl, rfl, rfl, rfl⟩

/-- Referents: every access to the CONTENTS of a reference-typed shared field (slice elements, map,
    pointee, closure – directly, through an alias, or through a reference that left the function) holds
    a mutex, or is atomic, or is ordered with every role that writes the contents, or the contents are
    never written once the object is shared.  (A slice header copied under the lock and read through
    after the unlock – seeded/C05-status-unlocked-join – is an unlocked referent read.) -/
theorem lockset_referents_guarded :
    Lockset.referentGuarded Gen.Access.batcherCtors Gen.Access.batcher = true ∧
    Lockset.referentGuarded Gen.Access.extractorCtors Gen.Access.extractor = true ∧
    Lockset.referentGuarded Gen.Access.ignoreSetCtors Gen.Access.ignoreSet = true ∧
    Lockset.referentGuarded Gen.Access.objectPoolCtors Gen.Access.objectPool = true ∧
    Lockset.referentGuarded Gen.Access.loggerCtors Gen.Access.logger = true :=
  ⟨Lockset.raceFree_referentGuarded _ _ lockset_ok.1,
   Lockset.raceFree_referentGuarded _ _ lockset_ok.2.1,
   Lockset.raceFree_referentGuarded _ _ lockset_ok.2.2.1,
   Lockset.raceFree_referentGuarded _ _ lockset_ok.2.2.2.1,
   Lockset.raceFree_referentGuarded _ _ lockset_ok.2.2.2.2.1⟩

/-- What `lockset_ok` gives for any two access sites of the Batcher table (the unfolded reading): if they
    touch the same location and one writes, both are atomic, or both hold the same mutex (one exclusively),
    or one is ordered with the other's role. -/
theorem lockset_batcher_pairs (a b : Gen.Access.Acc)
    (ha : a ∈ Lockset.shared Gen.Access.batcherCtors Gen.Access.batcher)
    (hb : b ∈ Lockset.shared Gen.Access.batcherCtors Gen.Access.batcher)
    (hc : Lockset.conflict a b = true) :
    (a.atomic = true ∧ b.atomic = true) ∨
    (a.lock ≠ "" ∧ b.lock ≠ "" ∧ a.mutex = b.mutex ∧ (a.lock = "W" ∨ b.lock = "W")) ∨
    (b.fn ∈ a.ord ∨ a.fn ∈ b.ord) :=
  Lockset.safePair_cases ((Lockset.raceFree_iff _ _).mp lockset_ok.1 a ha b hb hc)

/-- Non-vacuity of `lockset_batcher_pairs`: the table does contain conflicting pairs of referent accesses made
    by different functions (the append in `startFileReading` against the `strings.Join` in `StatusString`). -/
example : ((Lockset.shared Gen.Access.batcherCtors Gen.Access.batcher).any fun a =>
    (Lockset.shared Gen.Access.batcherCtors Gen.Access.batcher).any fun b =>
      Lockset.conflict a b && a.fn != b.fn && a.obj == "ref") = true := by decide +kernel

/-- The monitor behind `outputMutex`: in `RunAggregationLoop` every call into the aggregator / the render
    callback (referent region `aggstate`) holds `outputMutex` exclusively, or is made by the body after the
    hand-shake that ended the ticker goroutine `go1`. -/
theorem lockset_aggloop_entries :
    (Gen.Access.aggLoop.all fun a =>
      !(a.region == "aggstate" && a.obj == "ref") ||
      (a.lock == "W" && a.mutex == "outputMutex") || (a.fn == "main" && a.ord.contains "go1")) = true ∧
    Gen.Access.aggLoop.any (fun a => a.fn == "go1" && a.region == "aggstate" && a.obj == "ref") = true ∧
    Gen.Access.aggLoop.any (fun a => a.fn == "main" && a.region == "aggstate" && a.obj == "ref" && a.lock == "") = true := by
  refine ⟨by decide +kernel, by decide +kernel, by decide +kernel⟩

/-- … and the objects inside that monitor (aggregators, terminal writers, renderers: all structs of
    pkg/aggregation, pkg/multiterm, pkg/multiterm/termrenderers, every field) stay inside it: no `go`
    statement in those packages, no mutex / atomic of their own, no reference to their state sent on a
    channel, handed to a goroutine or parked in a package-level variable. -/
theorem lockset_monitors_confined :
    Lockset.monitorOk Gen.Access.aggregation = true ∧ Lockset.monitorOk Gen.Access.multiterm = true ∧
    Lockset.monitorOk Gen.Access.termrenderers = true ∧
    Gen.Access.spawns.lookup "pkg/aggregation" = some [] ∧ Gen.Access.spawns.lookup "pkg/multiterm" = some [] ∧
    Gen.Access.spawns.lookup "pkg/multiterm/termrenderers" = some [] := by
  refine ⟨by decide +kernel, by decide +kernel, by decide +kernel, by decide +kernel, by decide +kernel, by decide +kernel⟩

/-- Coverage: every struct type declared in pkg/extractor, pkg/extractor/batchers, pkg/slicepool,
    pkg/logger, cmd/helpers, pkg/aggregation, pkg/multiterm(/termrenderers) has a sharing class (shared with
    its own table, monitor, confined to one goroutine, message, value) – a new struct shows up as
    "unclassified"; `extractorInstance` is confined by a syntactic check; the packages type-check. -/
theorem lockset_census_classified :
    Gen.Access.census.all (fun p => p.2 != "unclassified") = true ∧
    Gen.Access.extractorInstanceConfined = true ∧ Gen.Access.typeErrors = [] := by
  refine ⟨by decide +kernel, rfl, rfl⟩

/-- The status bookkeeping the render goroutine reads (model `C05Status`, run against the real Batcher by the
    `status` correspondence op): `stopFileReading`'s in-place removal loop removes exactly the first equal
    entry and counts it; and as long as no source is opened twice, no state of the active list ever contains a
    name twice – a status line showing `b.log, b.log` (what a torn read of the backing array shows) is a state
    that never existed. -/
theorem status_stop_removes_first (s : C05Status.St) (n : String) :
    C05Status.step s (.stop n) =
      if n ∈ s.active then { s with active := s.active.erase n, readCount := s.readCount + 1 } else s :=
  C05Status.step_stop s n

theorem status_never_shows_a_name_twice (ops : List C05Status.Op) (s : C05Status.St)
    (h : s.active.Nodup) (hf : C05Status.FreshStarts s ops) :
    ∀ st ∈ C05Status.states s ops, st.active.Nodup :=
  C05Status.states_nodup ops s h hf

/-- Non-vacuity: the schedule of the seeded change (three sources, each finishing and being re-opened). -/
example : C05Status.FreshStarts {} [.start "a", .start "b", .start "c", .stop "a", .start "a", .stop "b", .start "b"] ∧
    (C05Status.run {} [.start "a", .start "b", .start "c", .stop "a", .start "a", .stop "b", .start "b"]).active = ["c", "a", "b"] := by
  refine ⟨?_, by decide⟩
  simp only [C05Status.FreshStarts, C05Status.step_start, C05Status.step_stop]
  decide

/-- The step from "both accesses hold the same mutex" to "ordered by happens-before", which the reading of
    `lockset_ok` rests on, proved over an abstract trace semantics of exclusive mutexes (Proofs/LocksetHB:
    events of a sequentially consistent interleaving, `Exec` = sync.Mutex semantics, `HB` = transitive
    closure of program order and Unlock→later Lock): if every access to a location is made while the
    accessing thread holds the location's guard, no two conflicting accesses of different threads are
    unordered – the execution has no data race.  (RWMutex, atomics and `go` edges: `lockset_disciplines_sound`
    below; the link from "lock held at the site" in the table to `hs k (guard x) = some tid` is the
    syntactic must-hold analysis.) -/
theorem lockset_mutex_rule_sound {tr : List Lockset.HB.Ev} {hs : Nat → Lockset.HB.Holders}
    (hex : Lockset.HB.Exec tr hs) (guard : Nat → Nat)
    (hdisc : ∀ k e x w, tr[k]? = some e → e.op = .acc x w → hs k (guard x) = some e.tid) :
    ¬ Lockset.HB.Race tr :=
  Lockset.HB.lockset_no_race hex guard hdisc

/-- … and the two accesses of any such pair are ordered whichever mutex it is they share. -/
theorem lockset_mutex_orders {tr : List Lockset.HB.Ev} {hs : Nat → Lockset.HB.Holders}
    (hex : Lockset.HB.Exec tr hs) {i j : Nat} {a b : Lockset.HB.Ev} (hij : i < j)
    (ha : tr[i]? = some a) (hb : tr[j]? = some b) {m : Nat}
    (h1 : hs i m = some a.tid) (h2 : hs j m = some b.tid) : Lockset.HB.HB tr i j :=
  Lockset.HB.mutex_orders hex hij ha hb h1 h2

/-- **All three disciplines of the race check, over a trace semantics that has them** (Proofs/C05HB.lean: `sync.RWMutex`
    with `Lock`/`Unlock`/`RLock`/`RUnlock`, atomic and plain accesses, `go` statements; happens-before = program
    order, `Unlock` → later `Lock`/`RLock`, `RUnlock` → later `Lock`, `go` → the started goroutine; a data race = two
    conflicting accesses, not both atomic, of different threads, unordered).  If every conflicting pair either
    holds a common mutex – at least one side exclusively, exactly the `a.lock = "W" ∨ b.lock = "W"` of
    `lockset_batcher_pairs` – or is separated by the `go` statement that started the later access's goroutine, the
    execution has no data race; pairs of atomic accesses are no race by definition.  (Not in this model: channel
    edges, i.e. the `outputDone` hand-shake `raceFreeRoles` uses for `aggLoop`; the link from "lock held at the site"
    in the tables to `Holds` is the syntactic must-hold analysis.) -/
theorem lockset_disciplines_sound {tr : List Lockset.HB2.Ev} {hs : Nat → Lockset.HB2.Locks}
    (hex : Lockset.HB2.Exec tr hs)
    (hdisc : ∀ i j a b, i < j → tr[i]? = some a → tr[j]? = some b → Lockset.HB2.Conflict a b → a.tid ≠ b.tid →
      (∃ m la lb, Lockset.HB2.Holds (hs i) m a.tid la ∧ Lockset.HB2.Holds (hs j) m b.tid lb ∧ (la = true ∨ lb = true)) ∨
      (∃ k c, i ≤ k ∧ k < j ∧ tr[k]? = some c ∧ c.tid = a.tid ∧ c.op = .spawn b.tid)) :
    ¬ Lockset.HB2.Race tr :=
  Lockset.HB2.discipline_no_race hex hdisc

/-- The RWMutex rule by itself: two events whose threads hold the same mutex, at least one of them exclusively
    (the logger: printers under `RLock`, `DeferLogs`/`ImmediateLogs` under `Lock`), are ordered by happens-before. -/
theorem lockset_rw_mutex_orders {tr : List Lockset.HB2.Ev} {hs : Nat → Lockset.HB2.Locks}
    (hex : Lockset.HB2.Exec tr hs) {i j : Nat} {a b : Lockset.HB2.Ev} (hij : i < j)
    (ha : tr[i]? = some a) (hb : tr[j]? = some b) {m : Nat} {la lb : Bool}
    (h1 : Lockset.HB2.Holds (hs i) m a.tid la) (h2 : Lockset.HB2.Holds (hs j) m b.tid lb)
    (hx : la = true ∨ lb = true) : Lockset.HB2.HB tr i j :=
  Lockset.HB2.rw_mutex_orders hex hij ha hb h1 h2 hx

/-- Boundary: "at least one side exclusively" cannot be dropped – two goroutines that both hold `RLock` of the same
    mutex, one writing and one reading the same location, form an execution WITH a data race. -/
theorem lockset_two_readers_race_counterexample :
    Lockset.HB2.Exec Lockset.HB2.rrDemo (Lockset.HB2.statesOf Lockset.HB2.rrDemo) ∧
    Lockset.HB2.Holds (Lockset.HB2.statesOf Lockset.HB2.rrDemo 2) 0 1 false ∧
    Lockset.HB2.Holds (Lockset.HB2.statesOf Lockset.HB2.rrDemo 3) 0 2 false ∧
    Lockset.HB2.Race Lockset.HB2.rrDemo :=
  Lockset.HB2.rr_race

/-- Non-vacuity of `lockset_disciplines_sound`: a logger-shaped execution (write under `Lock`, reads under `RLock`
    by two goroutines, a location written before the `go` and read by the started goroutine without a lock, an
    atomic counter) satisfies the hypotheses – and does contain conflicting pairs of each kind. -/
example : Lockset.HB2.Exec Lockset.HB2.logDemo (Lockset.HB2.statesOf Lockset.HB2.logDemo) ∧
    ¬ Lockset.HB2.Race Lockset.HB2.logDemo ∧
    Lockset.HB2.conflictB ⟨1, .acc 7 true false⟩ ⟨2, .acc 7 false false⟩ = true ∧
    Lockset.HB2.conflictB ⟨1, .acc 8 true false⟩ ⟨2, .acc 8 false false⟩ = true ∧
    Lockset.HB2.conflictB ⟨2, .acc 9 true true⟩ ⟨1, .acc 9 false true⟩ = false :=
  ⟨Lockset.HB2.logDemo_exec, Lockset.HB2.logDemo_no_race, by decide, by decide, by decide⟩

/-- **From the check on a table to the executions** (Proofs/C05HBTable.lean).  What the extractor's syntactic analysis is
    trusted for is written down as the hypothesis `Abstracts`: every access of the execution is made at a site of the
    table (outside the constructors); accesses to one location are sites the table calls conflicting; a site marked
    atomic is an atomic access; a site marked "W" / "R" runs while its thread holds that mutex exclusively / as a
    reader; a site the table orders with another role is ordered with it by happens-before.  Under that hypothesis
    any table that passes `raceFree` – the Batcher, Extractor, ignore-set, ObjectPool, logger and multiterm tables of
    `lockset_ok` – has only data-race-free executions.  (This is the exact content of "partial" for the first clause of
    C05: the theorem is unconditional about tables and traces; the link between them is this hypothesis.) -/
theorem lockset_tables_sound_given_abstraction (ctors : List String) (accs : List Gen.Access.Acc)
    (hrf : Lockset.raceFree ctors accs = true)
    {tr : List Lockset.HB2.Ev} {hs : Nat → Lockset.HB2.Locks} {site : Nat → Option Gen.Access.Acc} {mid : String → Nat}
    (hex : Lockset.HB2.Exec tr hs)
    (habs : Lockset.HB2.Abstracts tr hs (Lockset.shared ctors accs) site mid) : ¬ Lockset.HB2.Race tr :=
  Lockset.HB2.table_no_race hex habs ((Lockset.raceFree_iff _ _).mp hrf)

/-- … instantiated with the regenerated tables of the Batcher (status shared between readers and renderer) and of the
    logger (printers under `RLock`, `DeferLogs`/`ImmediateLogs` under `Lock`). -/
theorem lockset_batcher_logger_executions_race_free
    {tr : List Lockset.HB2.Ev} {hs : Nat → Lockset.HB2.Locks} {site : Nat → Option Gen.Access.Acc} {mid : String → Nat}
    (hex : Lockset.HB2.Exec tr hs)
    (habs : Lockset.HB2.Abstracts tr hs (Lockset.shared Gen.Access.batcherCtors Gen.Access.batcher) site mid ∨
            Lockset.HB2.Abstracts tr hs (Lockset.shared Gen.Access.loggerCtors Gen.Access.logger) site mid) :
    ¬ Lockset.HB2.Race tr := by
  rcases habs with h | h
  · exact lockset_tables_sound_given_abstraction _ _ lockset_ok.1 hex h
  · exact lockset_tables_sound_given_abstraction _ _ lockset_ok.2.2.2.2.1 hex h

/-- Non-vacuity: the hypothesis `Abstracts` is satisfiable – a logger-shaped execution (write under `Lock`, read by
    another goroutine under `RLock`) and the two table rows it abstracts to; the rows pass the check, the execution
    is race free. -/
example : Lockset.HB2.Abstracts Lockset.HB2.tblDemo (Lockset.HB2.statesOf Lockset.HB2.tblDemo)
    [Lockset.HB2.rowW, Lockset.HB2.rowR] Lockset.HB2.tblSite (fun _ => 0) ∧ ¬ Lockset.HB2.Race Lockset.HB2.tblDemo :=
  ⟨Lockset.HB2.tblDemo_abstracts, Lockset.HB2.tblDemo_no_race⟩

/-! ### Channel edges: the `outputDone` hand-shake in the happens-before model (Proofs/C05HBChan.lean)

The trace semantics of `lockset_disciplines_sound` extended with unbuffered channels (`sendB` – send chosen for the
rendezvous, `recv`, `sendE` – send completed, `close`, `recvClosed`); happens-before gets the three channel rules of
go.dev/ref/mem (send → corresponding receive; receive from an unbuffered channel → completion of the corresponding
send; close → receive that returns because the channel is closed). -/

/-- **The terminating hand-shake orders the final render after every periodic render.**  If only goroutine `t` (the
    ticker) receives from the unbuffered channel `c` (`outputDone`) and does nothing after a receive from it
    (`case <-outputDone: return`), then EVERYTHING `t` ever did – every periodic `writeOutput()` included – happens
    before everything the sender does from the completion of its send on (`outputDone <- true`, then the final
    `writeOutput()` that takes no lock).  All executions, any number of other goroutines and channels. -/
theorem handshake_orders_final_render {tr : List Lockset.HBC.CEv} {hs : Nat → Lockset.HB2.Locks}
    {cs : Nat → Nat → Lockset.HBC.ChSt} (hex : Lockset.HBC.ExecC tr hs cs)
    {k : Nat} {e : Lockset.HBC.CEv} {c t : Nat} (hk : tr[k]? = some e) (hop : e.op = .sendE c)
    (honly : ∀ (r : Nat) (er : Lockset.HBC.CEv), tr[r]? = some er → er.op = .recv c → er.tid = t)
    (hlast : ∀ (r r' : Nat) (er e' : Lockset.HBC.CEv), tr[r]? = some er → er.op = .recv c → r < r' →
      tr[r']? = some e' → e'.tid ≠ t)
    {i j : Nat} {a b : Lockset.HBC.CEv} (ha : tr[i]? = some a) (hat : a.tid = t) (hb : tr[j]? = some b)
    (hbt : b.tid = e.tid) (hkj : k ≤ j) : Lockset.HBC.HBc tr i j :=
  Lockset.HBC.handshake_orders hex hk hop honly hlast ha hat hb hbt hkj

/-- A completed send on an unbuffered channel has its receive: another goroutine received before, and that receive
    happens before the completion of the send (so a sender that got past `outputDone <- true` knows the ticker took
    the value – with the buffered channel of seeded/C05-buffered-done `sendE` needs no `recv` at all). -/
theorem handshake_send_has_receive {tr : List Lockset.HBC.CEv} {hs : Nat → Lockset.HB2.Locks}
    {cs : Nat → Nat → Lockset.HBC.ChSt} (hex : Lockset.HBC.ExecC tr hs cs)
    {k : Nat} {e : Lockset.HBC.CEv} {c : Nat} (hk : tr[k]? = some e) (hop : e.op = .sendE c) :
    ∃ r er, r < k ∧ tr[r]? = some er ∧ er.op = .recv c ∧ er.tid ≠ e.tid ∧ Lockset.HBC.HBc tr r k :=
  Lockset.HBC.handshake_recv hex hk hop

/-- **All disciplines of the role check, channel edge included**: if every conflicting pair of accesses of different
    goroutines (not both atomic) holds a common mutex with at least one side exclusive, or is separated by the `go`
    statement that started the later one's goroutine, or by a terminating hand-shake (the later one's goroutine
    completed a send on an unbuffered channel only the earlier one's goroutine receives from, and that goroutine does
    nothing after receiving), the execution has no data race. -/
theorem lockset_disciplines_chan_sound {tr : List Lockset.HBC.CEv} {hs : Nat → Lockset.HB2.Locks}
    {cs : Nat → Nat → Lockset.HBC.ChSt} (hex : Lockset.HBC.ExecC tr hs cs)
    (hdisc : ∀ i j a b, i < j → tr[i]? = some a → tr[j]? = some b → Lockset.HBC.ConflictC a b → a.tid ≠ b.tid →
      (∃ m la lb, Lockset.HB2.Holds (hs i) m a.tid la ∧ Lockset.HB2.Holds (hs j) m b.tid lb ∧ (la = true ∨ lb = true)) ∨
      Lockset.HBC.GoSep tr i j a b ∨ Lockset.HBC.Handshake tr j a b) :
    ¬ Lockset.HBC.RaceC tr :=
  Lockset.HBC.discipline_no_race_chan hex hdisc

/-- **From the role table of `RunAggregationLoop` to its executions.**  `AbstractsC` is the trusted link for a role
    table (one goroutine per role): as `Abstracts`, except that an `ord` mark is NOT assumed to mean "ordered by
    happens-before" but only what the extractor checks syntactically – the two sites are separated by the `go`
    statement, or by a hand-shake on an unbuffered channel whose only receiver returns after the receive; the
    happens-before order is then DERIVED (`handshake_orders_final_render`).  Any role table passing `raceFreeRoles`
    has only data-race-free executions; instantiated with the regenerated table of `RunAggregationLoop`. -/
theorem lockset_roles_sound_given_abstraction (accs : List Gen.Access.Acc)
    (hrf : Lockset.raceFreeRoles accs = true)
    {tr : List Lockset.HBC.CEv} {hs : Nat → Lockset.HB2.Locks} {cs : Nat → Nat → Lockset.HBC.ChSt}
    {site : Nat → Option Gen.Access.Acc} {mid : String → Nat}
    (hex : Lockset.HBC.ExecC tr hs cs) (habs : Lockset.HBC.AbstractsC tr hs accs site mid) :
    ¬ Lockset.HBC.RaceC tr :=
  Lockset.HBC.roles_no_race hex habs ((Lockset.raceFreeRoles_iff _).mp hrf)

theorem lockset_aggloop_executions_race_free
    {tr : List Lockset.HBC.CEv} {hs : Nat → Lockset.HB2.Locks} {cs : Nat → Nat → Lockset.HBC.ChSt}
    {site : Nat → Option Gen.Access.Acc} {mid : String → Nat}
    (hex : Lockset.HBC.ExecC tr hs cs) (habs : Lockset.HBC.AbstractsC tr hs Gen.Access.aggLoop site mid) :
    ¬ Lockset.HBC.RaceC tr :=
  lockset_roles_sound_given_abstraction _ lockset_ok.2.2.2.2.2.2 hex habs

/-- **Boundary (seeded/C05-outputdone-close): `close(outputDone)` in place of the send gives no such order.**  The
    run "the ticker locks `outputMutex` and renders · main closes the channel and renders without the lock · the
    ticker unlocks and observes the closed channel" is an execution of the model; the ticker holds the mutex
    exclusively during its render; the close IS synchronised before the ticker's receive (event 3 → event 6) – and
    the periodic render and the final render are a data race: the edge of a `close` points from main to the ticker,
    the edge of the unbuffered send pointed from the ticker to main. -/
theorem handshake_close_race_counterexample :
    Lockset.HBC.ExecC Lockset.HBC.closeDemo (Lockset.HB2.statesOf (Lockset.HBC.closeDemo.map Lockset.HBC.proj))
      (Lockset.HBC.cstatesOf Lockset.HBC.closeDemo) ∧
    Lockset.HB2.Holds (Lockset.HB2.statesOf (Lockset.HBC.closeDemo.map Lockset.HBC.proj) 2) 0 2 true ∧
    Lockset.HBC.HBc Lockset.HBC.closeDemo 3 6 ∧
    Lockset.HBC.RaceC Lockset.HBC.closeDemo :=
  Lockset.HBC.close_race

/-- The syntactic side conditions of the hand-shake, read off the regenerated sources: `outputDone` is made without
    capacity (first statement), the ticker goroutine's `select` has the case `<-outputDone` whose body only returns,
    there is exactly one receive from and one send on `outputDone`, the send is directly followed by the final
    `writeOutput()`; and in the role table the writes made WITHOUT a lock are exactly main's two – making the channel
    (before the `go`) and the final `writeOutput()` (after the hand-shake) –, both marked as ordered with `go1`. -/
theorem handshake_skeleton :
    Gen.Skeleton.runAggregationLoop.head? = some "makechan:0" ∧
    ["go{", "for{", "select{", "recv:outputDone", "return"] <:+: Gen.Skeleton.runAggregationLoop ∧
    Gen.Skeleton.runAggregationLoop.count "recv:outputDone" = 1 ∧
    Gen.Skeleton.runAggregationLoop.count "send:outputDone" = 1 ∧
    ["send:outputDone", "call:writeOutput"] <:+ Gen.Skeleton.runAggregationLoop ∧
    ((Gen.Access.aggLoop.filter fun a => a.write && a.lock == "").map fun a => (a.fn, a.field, a.obj, a.ord)) =
      [("main", "outputDone", "var", ["go1"]), ("main", "writeOutput", "ref", ["go1"])] := by
  refine ⟨by decide, by decide, by decide, by decide, by decide, by decide⟩

/-- Non-vacuity of `lockset_roles_sound_given_abstraction` / `lockset_disciplines_chan_sound`: the hand-shake run
    (spawn · periodic render · send begins · the ticker receives and does nothing more · send completes · final render)
    is an execution, satisfies `AbstractsC` with the two `writeOutput` rows (shaped as the rows of the regenerated
    table), the rows pass the role check – and the run is race free although neither render holds a lock in it. -/
example : Lockset.HBC.ExecC Lockset.HBC.hsDemo (Lockset.HB2.statesOf (Lockset.HBC.hsDemo.map Lockset.HBC.proj))
      (Lockset.HBC.cstatesOf Lockset.HBC.hsDemo) ∧
    Lockset.HBC.AbstractsC Lockset.HBC.hsDemo (Lockset.HB2.statesOf (Lockset.HBC.hsDemo.map Lockset.HBC.proj))
      [Lockset.HBC.rowTick, Lockset.HBC.rowFinal] Lockset.HBC.hsSite (fun _ => 0) ∧
    ¬ Lockset.HBC.RaceC Lockset.HBC.hsDemo :=
  ⟨Lockset.HBC.hsDemo_exec, Lockset.HBC.hsDemo_abstracts, Lockset.HBC.hsDemo_no_race⟩

/-- Non-vacuity: two threads that each lock, write the same location and unlock form an execution that
    satisfies the hypotheses. -/
example : ¬ Lockset.HB.Race Lockset.HB.demo :=
  lockset_mutex_rule_sound Lockset.HB.demo_exec (fun _ => 0) Lockset.HB.demo_disc

/-- Non-vacuity of `lockset_ok`: the Batcher table with the one record the seeded change
    C05-status-unlocked-join produces (the active-file list read through a local alias after `Unlock`)
    is NOT race free; and the role table without the hand-shake edge (C05-buffered-done) is not either. -/
example : Lockset.raceFree Gen.Access.batcherCtors
    (⟨"StatusString", "activeFiles", "activeFiles", "ref", false, false, "", "", "", 0, "arg:strings.Join@activeFiles", [], 142⟩
      :: Gen.Access.batcher) = false := by decide +kernel

example : Lockset.raceFreeRoles (Gen.Access.aggLoop.map fun a =>
    { a with ord := if a.how == "call:func" then [] else a.ord }) = false := by
  decide +kernel

/-- Non-vacuity: a finished state is reachable for a concrete stream, and it rendered everything. -/
example : ∃ s : St Nat, Reach (init [[1, 2]]) s ∧ s.main = .finished ∧ s.renders.getLast? = some [1, 2] := by
  have hr : Reach (init [[1, 2]]) _ :=
    .step (.step (.step (.step (.step (.step (.step (.step (.step (.step (.refl (s0 := init [[(1 : Nat), 2]]))
    (.arrive _ [1, 2] [] rfl)) (.close _ rfl rfl)) (.recv _ [1, 2] [] rfl rfl)) (.mlock _ [1, 2] rfl rfl))
    (.sample _ 1 [2] rfl)) (.sample _ 2 [] rfl)) (.munlock _ rfl)) (.eof _ rfl rfl rfl))
    (.handshake _ rfl rfl)) (.final _ rfl)
  exact ⟨_, hr, rfl, final_render_sees_all _ hr rfl⟩

/-- The matched/read/ignored counters are bumped inside `processLineSync`, which `asyncWorker` calls for
    every line of a batch BEFORE it sends the batch's matches on `readChan` — the order the pipeline
    model's `wproc`/`wsend` steps assume and `matched_ge_sum_displayed` rests on.  (A counter update moved
    after the send changes one of the two regenerated skeletons.) -/
theorem counters_before_send_skeleton :
    Gen.Skeleton.asyncWorker = PipelineSkeleton.asyncWorker ∧
    Gen.Skeleton.processLineSync = PipelineSkeleton.processLineSync ∧
    PipelineSkeleton.asyncWorker.idxOf "call:si.processLineSync" < PipelineSkeleton.asyncWorker.idxOf "send:s.readChan" ∧
    "atomic.AddUint64:&s.matchedLines" ∈ PipelineSkeleton.processLineSync ∧
    "atomic.AddUint64:&s.matchedLines" ∉ PipelineSkeleton.asyncWorker := by
  refine ⟨rfl, rfl, by decide, by decide, by decide⟩

/-! ## Trace inclusion: the event log of a real run of `RunAggregationLoop` is a path of the transition system

`Rare.AggLoopTrace` (Model/AggLoopTrace.lean, Model/C01C05TraceOrder.lean): the `verif` hooks log the
ticker's tick / lock / render / unlock / done and main's receive / lock / unlock / end-of-stream / done
hand-shake / final render; the harness' aggregator and render callback log every `Sample` and every render.
The checker accepts a log when some admissible reordering of it replays through the named transition
function `AggLoop.apply` from `init stream` to `main = finished`. -/

section Trace
open Rare.TraceOrder Rare.AggLoopTrace

/-- The named transition function the trace checker executes is exactly the transition relation. -/
theorem trace_labels_are_steps (s s' : St κ) : Step s s' ↔ ∃ l, AggLoop.apply s l = some s' :=
  ⟨apply_complete, fun ⟨_, h⟩ => apply_sound h⟩

/-- `accepts_sound`: an accepted log has an admissible reordering that is a labelled path of the
    transition system from `init stream` (labels = event by event the transitions the logged events stand
    for, environment steps inserted just in time) ending with main finished; the end state is reachable. -/
theorem trace_accepts_sound (stream : List (List Bytes)) (L : Lin ASt) (tr : Array Ev)
    (h : TraceOrder.accepts machine L (initSt stream) tr = true) :
    ∃ sched labels as, Admissible tr sched ∧
      EvPath (initSt stream) (sched.map (evAt tr)) labels as ∧
      LPath (init stream) labels as.lts ∧ Reach (init stream) as.lts ∧ as.lts.main = .finished := by
  obtain ⟨sched, as, hadm, hrep, hfin⟩ := TraceOrder.accepts_sound h
  obtain ⟨labels, hev⟩ := replay_evpath _ _ _ hrep
  have hl := hev.lpath
  refine ⟨sched, labels, as, hadm, hev, hl, hl.reach .refl, ?_⟩
  simp only [machine] at hfin
  cases hm : as.lts.main <;> simp [hm, isFinished] at hfin ⊢

/-- Every state the accepted run goes through is reachable, hence: a render never overlaps a sample,
    a running periodic render sees a frozen aggregator, and every render so far saw a prefix of the
    stream — in the states of the REAL run, at the granularity of the logged events. -/
theorem trace_states_invariant (stream : List (List Bytes)) (evs : List Ev) (as : ASt)
    (h : replay machine (initSt stream) evs = some as) (k : Nat) :
    ∃ ask, replay machine (initSt stream) (evs.take k) = some ask ∧ Reach (init stream) ask.lts ∧
      ¬ (ask.lts.ticker = .rendering ∧ ask.lts.main.isSampling = true) ∧
      (ask.lts.ticker = .rendering → ask.lts.snap = ask.lts.sampled) ∧
      (∀ r ∈ ask.lts.renders, r <+: stream.flatten) := by
  rw [← List.take_append_drop k evs] at h
  obtain ⟨ask, h1, _⟩ := replay_append _ _ _ _ _ h
  obtain ⟨labels, hev⟩ := replay_evpath _ _ _ h1
  have hr : Reach (init stream) ask.lts := hev.lpath.reach .refl
  exact ⟨ask, h1, hr, render_sample_exclusive stream hr, render_sees_frozen_state stream hr,
    fun r hmem => (intermediate_counts_le_final stream hr r hmem).1⟩

/-- An accepted log ends after a final render that saw every match of the stream, with the ticker
    stopped and the mutex free. -/
theorem trace_final (stream : List (List Bytes)) (L : Lin ASt) (tr : Array Ev)
    (h : TraceOrder.accepts machine L (initSt stream) tr = true) :
    ∃ as : ASt, Reach (init stream) as.lts ∧ as.lts.renders.getLast? = some stream.flatten ∧
      as.lts.sampled = stream.flatten ∧ as.lts.ticker = .stopped ∧ as.lts.mutex = .none := by
  obtain ⟨_, _, as, _, _, _, hr, hm⟩ := trace_accepts_sound stream L tr h
  have hf := final_render_after_last_sample stream hr (Or.inr hm)
  exact ⟨as, hr, final_render_sees_all stream hr hm, hf.1, hf.2.2.2.1, hf.2.2.2.2⟩

/-- Non-vacuity: a small real-shaped log (one batch of two keys; a periodic render between the receive
    and the end of the stream; the ticker logs its `done` late, after main's final render) is accepted;
    the log order itself is not a path (main's `mt` needs the hand-shake first). -/
example : TraceOrder.accepts machine lin (initSt (streamOf exampleLog)) exampleLog.toArray = true ∧
    replay machine (initSt (streamOf exampleLog)) exampleLog = none := by
  constructor <;> decide

/-- … and the same log with the final render's callback removed (a skipped final `writeOutput`) is
    rejected. -/
example : TraceOrder.accepts machine lin (initSt (streamOf exampleLog))
    (exampleLog.filter fun e => !(e.g == 0 && (e.kind == "rb" || e.kind == "rn"))).toArray = false := by
  decide

/-! ### … and on the signal path (`Model/C05SignalTrace.lean`): the event `ms` (hook `m.signal`) is the step `SStep.signal` -/

/-- An accepted log of a real run – ended by SIGINT or by the end of the input – has an admissible reordering that
    replays through the signal machine to a state that is REACHABLE in the signal transition system from
    `sinit stream`, with main finished; the machine's flag says whether the log contains a signal; and so
    (`signal_final_render`) the run ended with the ticker stopped, the mutex free, and a last render that shows
    exactly what was sampled = everything main received, a prefix of the stream – all of it without a signal.
    Correspondence: op `strace` (real `RunAggregationLoop`, SIGINT raised inside a Sample or inside a render). -/
theorem signal_trace_accepts_sound (stream : List (List Bytes)) (L : Lin SASt) (tr : Array Ev)
    (h : TraceOrder.accepts smachine L (sinitSt stream) tr = true) :
    ∃ sched s, Admissible tr sched ∧ replay smachine (sinitSt stream) (sched.map (evAt tr)) = some s ∧
      SReach (sinit stream) s.sst ∧ s.a.lts.main = .finished ∧
      s.signalled = (sched.map (evAt tr)).any (fun e => e.kind = "ms") ∧
      s.a.lts.ticker = .stopped ∧ s.a.lts.mutex = .none ∧ s.a.lts.renders.getLast? = some s.a.lts.sampled ∧
      s.a.lts.sampled = s.a.lts.received ∧ s.a.lts.sampled <+: stream.flatten ∧
      (s.signalled = false → s.a.lts.sampled = stream.flatten) := by
  obtain ⟨sched, s, hadm, hrep, hfin⟩ := TraceOrder.accepts_sound h
  have hr : SReach (sinit stream) s.sst := sreplay_reach _ _ _ hrep .refl
  have hm : s.a.lts.main = .finished := by
    simp only [smachine] at hfin
    cases hm : s.a.lts.main <;> simp [hm, isFinished] at hfin ⊢
  have hsig := sreplay_signalled _ _ _ hrep
  have hf := signal_final_render stream hr hm
  refine ⟨sched, s, hadm, hrep, hr, hm, ?_, hf.1, hf.2.1, hf.2.2.1, hf.2.2.2.1, hf.2.2.2.2.1, hf.2.2.2.2.2⟩
  simpa [sinitSt] using hsig

/-- Non-vacuity: a real-shaped log with a signal is accepted by the signal machine (and says so); the machine
    without the signal step rejects it (main cannot reach the hand-shake without having seen the channel closed);
    and the same log without its `ms` event, or without the final render's callback, is rejected. -/
example : TraceOrder.accepts smachine slin (sinitSt (streamOf exampleSignalLog)) exampleSignalLog.toArray = true ∧
    (match TraceOrder.verdict smachine slin (sinitSt (streamOf exampleSignalLog)) exampleSignalLog.toArray with
      | .accepted s _ => s.signalled && s.a.lts.sampled == [[97], [98]] | .rejected .. => false) = true ∧
    TraceOrder.accepts machine lin (initSt (streamOf exampleSignalLog)) exampleSignalLog.toArray = false ∧
    TraceOrder.accepts smachine slin (sinitSt (streamOf exampleSignalLog))
      (exampleSignalLog.filter fun e => e.kind != "ms").toArray = false ∧
    TraceOrder.accepts smachine slin (sinitSt (streamOf exampleSignalLog))
      (exampleSignalLog.filter fun e => !(e.kind == "rb" || e.kind == "rn")).toArray = false := by
  refine ⟨by decide, by decide, by decide, by decide, by decide⟩

/-- … and the logs without a signal are judged exactly as before: on a log with no `ms` event the signal machine
    replays like the machine of the first part. -/
theorem signal_trace_conservative (evs : List Ev) (hno : ∀ e ∈ evs, e.kind ≠ "ms") (s : SASt) :
    replay smachine s evs = (replay machine s.a evs).map fun a => ⟨a, s.signalled⟩ := by
  induction evs generalizing s with
  | nil => simp [replay]
  | cons e es ih =>
    have hk : e.kind ≠ "ms" := hno e (by simp)
    have hs : smachine.step s e = (machine.step s.a e).map fun a => ⟨a, s.signalled⟩ := by
      simp [smachine, machine, sastep, hk]
    simp only [replay, hs]
    cases hm : machine.step s.a e with
    | none => simp
    | some a' =>
      simp only [Option.map_some, Option.bind_some]
      exact ih (fun e he => hno e (by simp [he])) ⟨a', s.signalled⟩

end Trace

end Rare.C05
