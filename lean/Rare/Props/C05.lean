import Rare.Proofs.AggLoop
import Rare.Proofs.Pipeline
import Rare.Model.Lockset
import Rare.Model.PipelineSkeleton
import Rare.Gen.Skeleton
/-!
# C05 — race-free, atomic renders, complete final render

* Aggregation loop (`RunAggregationLoop`), for every stream of match batches, every arrival timing
  and every interleaving of main goroutine, ticker goroutine and extractor: mutual exclusion of
  rendering and sampling, no deadlock, the ticker is stopped before the final render, the final
  render sees every match, every intermediate render sees a prefix of the final sample history.
* Pipeline (with C01): termination/no deadlock/no send on closed, and the matched counter is never
  below the number of matches handed to the consumer.
* Data races: lockset discipline over the access table regenerated from /repo (partial: the table
  is syntactic; the Go memory model is not formalised).
-/
namespace Rare.C05
open Rare.AggLoop

variable {κ : Type}

/-- A render never runs while a match is being sampled, and vice versa, in every reachable state. -/
theorem render_sample_exclusive (stream : List (List κ)) {s : St κ} (hr : Reach (init stream) s) :
    ¬ (s.ticker = .rendering ∧ s.main.isSampling = true) := by
  have h := inv_reach hr
  rintro ⟨ht, hm⟩
  have h1 := h.tickOwns.mp ht
  have h2 := h.mainOwns.mp hm
  rw [h1] at h2; cases h2

/-- While a periodic render runs, the aggregator it reads does not change. -/
theorem render_sees_frozen_state (stream : List (List κ)) {s : St κ} (hr : Reach (init stream) s)
    (ht : s.ticker = .rendering) : s.snap = s.sampled :=
  (inv_reach hr).frozen ht

/-- No deadlock: until the final render has happened some goroutine can move. -/
theorem aggloop_progress (stream : List (List κ)) {s : St κ} (hr : Reach (init stream) s)
    (hf : s.main ≠ .finished) : ∃ s', Step s s' :=
  progress (inv_reach hr) hf

/-- Termination under fairness: every step of main or of the extractor strictly decreases a
    measure; the only other steps are the ticker's, which change neither main nor the aggregator.
    (So an execution can be infinite only by scheduling the ticker for ever.) -/
theorem aggloop_measure {s s' : St κ} (hs : Step s s') :
    measure s' < measure s ∨ (measure s' = measure s ∧ s'.main = s.main ∧ s'.sampled = s.sampled) :=
  step_measure hs

/-- The final render happens after the last match was sampled and after the ticker stopped:
    when main is about to do / has done the last `writeOutput()`, every match of the stream has been
    sampled, in order, nothing is left in the channel, the ticker goroutine has returned and nobody
    holds the mutex. -/
theorem final_render_after_last_sample (stream : List (List κ)) {s : St κ} (hr : Reach (init stream) s)
    (hm : s.main = .finalRender ∨ s.main = .finished) :
    s.sampled = stream.flatten ∧ s.rc = [] ∧ s.future = [] ∧ s.ticker = .stopped ∧ s.mutex = .none := by
  have h := inv_reach hr
  have hd := h.drained (by rcases hm with h | h <;> simp [h])
  have hst := h.stopped.mpr hm
  refine ⟨hd.1, hd.2.1, hd.2.2, hst, ?_⟩
  cases hmu : s.mutex with
  | none => rfl
  | main =>
    have := h.mainOwns.mpr hmu
    rcases hm with h' | h' <;> rw [h'] at this <;> cases this
  | ticker =>
    have := h.tickOwns.mpr hmu
    rw [hst] at this; cases this

/-- Final output reflects all matches: the last completed render saw the whole stream. -/
theorem final_render_sees_all (stream : List (List κ)) {s : St κ} (hr : Reach (init stream) s)
    (hm : s.main = .finished) : s.renders.getLast? = some stream.flatten :=
  (inv_reach hr).last hm

/-- Every render (intermediate or final) saw a prefix of the final sample history; hence, for
    count-style aggregation, the per-key counts it displays do not exceed the final counts. -/
theorem intermediate_counts_le_final [DecidableEq κ] (stream : List (List κ)) {s : St κ}
    (hr : Reach (init stream) s) :
    ∀ r ∈ s.renders, r <+: stream.flatten ∧ ∀ k, r.count k ≤ stream.flatten.count k := by
  intro r hmem
  have hp := (inv_reach hr).prefixes r hmem
  exact ⟨hp, fun k => hp.sublist.count_le k⟩

/-- What has been sampled (hence displayed) never exceeds what main has received from the extractor. -/
theorem sampled_le_received (stream : List (List κ)) {s : St κ} (hr : Reach (init stream) s) :
    s.sampled.length ≤ s.received.length := by
  have := (inv_reach hr).hand
  rw [← this]; simp

/-- …and what the consumer has received never exceeds the extractor's matched counter
    (pipeline invariant): a render's displayed total is never above the matched total. -/
theorem matched_ge_sum_displayed {α : Type} [DecidableEq α] (cls : α → Pipeline.Cls) (R B K W : Nat)
    (inputs : List (List (List α))) {s : Pipeline.St α}
    (hr : Pipeline.Reach cls R B K (Pipeline.init inputs W) s) :
    s.consumed.length ≤ s.nMatched :=
  Pipeline.matched_ge_consumed (Pipeline.inv_reach (Pipeline.inv_init cls B K inputs W) hr)

/-- The aggregation-loop skeleton regenerated from /repo is the one the transition system models. -/
theorem skeleton_matches_source :
    Gen.Skeleton.runAggregationLoop = PipelineSkeleton.runAggregationLoop := rfl

/-- Lockset discipline over the regenerated access tables: every conflicting pair of accesses to
    the shared state of `Batcher`, `Extractor`, `ObjectPool` and the logger is either atomic on both
    sides or protected by the common mutex. -/
theorem lockset_ok :
    Lockset.raceFree ["newBatcher"] Gen.Access.batcher = true ∧
    Lockset.raceFree ["New"] Gen.Access.extractor = true ∧
    Lockset.raceFree ["NewObjectPoolEx", "NewObjectPool"] Gen.Access.objectPool = true ∧
    Lockset.raceFree ["init"] Gen.Access.logger = true := by
  refine ⟨by decide, by decide, by decide, by decide⟩

/-- Non-vacuity: a finished state is reachable for a concrete stream, and it rendered everything. -/
example : ∃ s : St Nat, Reach (init [[1, 2]]) s ∧ s.main = .finished ∧ s.renders.getLast? = some [1, 2] := by
  have hr : Reach (init [[1, 2]]) _ :=
    .step (.step (.step (.step (.step (.step (.step (.step (.step (.step (.refl (s0 := init [[(1 : Nat), 2]]))
    (.arrive _ [1, 2] [] rfl)) (.close _ rfl rfl)) (.recv _ [1, 2] [] rfl rfl)) (.mlock _ [1, 2] rfl rfl))
    (.sample _ 1 [2] rfl)) (.sample _ 2 [] rfl)) (.munlock _ rfl)) (.eof _ rfl rfl rfl))
    (.handshake _ rfl rfl)) (.final _ rfl)
  exact ⟨_, hr, rfl, final_render_sees_all _ hr rfl⟩

end Rare.C05
