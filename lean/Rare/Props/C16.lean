import Rare.Proofs.C16Utf8
import Rare.Gen.C16
/-!
Property C16: the JSON views `{.}`, `{#}`, `{.#}` of a match are valid, faithful and deterministic.

`Rare.Gen.C16.*` is regenerated from pkg/minijson/minijson.go on every run; the first group of
theorems is about those generated definitions.  The model (`Rare/Model/C16.lean`) mirrors the code
after the `fix:` commits listed in known_findings/C16.json.
-/
namespace Rare.C16

/-! ### the generated table and literals -/

set_option maxRecDepth 100000 in
/-- Every byte RFC 8259 forbids raw inside a string (control characters, `"` and `\`) has an
entry in the source's `escapeLookup`.  (False before the fix: only 7 of the 34 were mapped.) -/
theorem escape_complete : ∀ n, n < 256 → (n < 0x20 ∨ n = 0x22 ∨ n = 0x5c) →
    n < Gen.C16.escapeLookup.length ∧ Gen.C16.escapeLookup.getD n [] ≠ [] := by
  decide

set_option maxRecDepth 100000 in
/-- Conversely only those bytes are mapped, so all other bytes (UTF-8 sequences included) pass
through unchanged. -/
theorem escape_only_needed : ∀ n, n < Gen.C16.escapeLookup.length → Gen.C16.escapeLookup.getD n [] ≠ [] →
    (n < 0x20 ∨ n = 0x22 ∨ n = 0x5c) := by
  decide

set_option maxRecDepth 100000 in
/-- The hand-written table of the model is the table in the source. -/
theorem escape_table_is_source : Gen.C16.escapeLookup = escapeLookup := by
  decide

set_option maxRecDepth 100000 in
/-- The literal pieces the model's builder writes are the ones in the source. -/
theorem builder_literals_are_source :
    Gen.C16.openLits = [[0x7b]] ∧ Gen.C16.closeLits = [[0x7d]] ∧
    Gen.C16.writeKeyLits = [[0x2c, 0x20], [0x22], [0x22, 0x3a, 0x20]] ∧
    Gen.C16.writeStringLits = [[0x22], [0x22]] ∧
    Gen.C16.inferredFoldLits = [litTrue, litFalse] ∧ Gen.C16.inferredLiterals = [litTrue, litFalse] := by
  decide

/-- Each entry of the source's table is an escape sequence that the RFC 8259 string grammar reads
back as exactly the byte it stands for. -/
theorem escape_entries_decode (c : UInt8) (tail : Bytes)
    (h : c.toNat < Gen.C16.escapeLookup.length ∧ Gen.C16.escapeLookup.getD c.toNat [] ≠ []) :
    strBody .norm (Gen.C16.escapeLookup.getD c.toNat [] ++ tail) =
      (strBody .norm tail).map fun p => (c :: p.1, p.2) := by
  rw [escape_table_is_source] at h ⊢
  have hl : lookup c = escapeLookup.getD c.toNat [] := by simp [lookup, h.1]
  have := strBody_esc1 c tail
  rw [esc1, if_pos (by rw [hl]; exact h.2), hl] at this
  exact this

/-! ### strings, keys, numbers -/

/-- `escape` is exact for ALL byte strings: written between quotes it reads back as the original
bytes (arbitrary bytes, not only valid UTF-8). -/
theorem escape_roundtrip (s tail : Bytes) : strBody .norm (escape s ++ 0x22 :: tail) = some (s, tail) :=
  strBody_escape s tail

/-- Member names go through `escape` (false before the fix), so any name – quotes, backslashes,
control bytes – is read back unchanged. -/
theorem key_escaped (j : JB) (key tail : Bytes) :
    (j.writeKey key).sb =
      (if 0 < j.keyCount then j.sb ++ [0x2c, 0x20] else j.sb) ++ [0x22] ++ escape key ++ [0x22, 0x3a, 0x20] ∧
    strBody .norm (escape key ++ 0x22 :: tail) = some (key, tail) :=
  ⟨rfl, strBody_escape key tail⟩

/-- Whatever `isNumeric` accepts is a JSON number (RFC 8259 grammar) whose value is the decimal
reading of the text.  (False before the fix: `007`.) -/
theorem isNumeric_subset_json (s : Bytes) (h : isNumeric s = true) :
    ∃ m e, parseNumber s = some (.num m e, []) ∧ decimalValue s = some (m, e) := by
  have := isNumeric_parse s [] h endsNumber_nil
  simpa using this

/-! ### the views -/

/-- **Valid and faithful.**  For every name table (as any iteration order `order` of a map with
distinct names), every index slice and every line of arbitrary bytes: if `json` returns (the only
other outcome is the slice-bounds panic on an index slice that does not fit the line), its text
parses as one JSON object, and its members are, in order, the named captures (a permutation of the
name table) followed by the non-empty numbered captures, each with the right name and a value
that decodes to the captured text. -/
theorem json_valid_faithful (named numbered : Bool) (order : List (Bytes × Int)) (indices : List Int)
    (line out : Bytes) (hnd : (order.map (·.1)).Nodup)
    (h : json named numbered order indices line = .ok out) :
    ∃ ms es, parseObj out = some ms ∧
      es.Perm (if named then expectedNamed order indices line else []) ∧
      membersDecode ms (es ++ (if numbered then expectedNumbered indices line else [])) = true := by
  have ht := json_ok_text named numbered order indices line out h
  refine ⟨_, (if named then namedMembers order indices line else []), by rw [ht]; exact parseObj_objText _ _, ?_, ?_⟩
  · cases named with
    | false => simp
    | true =>
      simp only [if_true, namedMembers, expectedNamed]
      have hp := (sortNames_perm (order.map (·.1))).map
        (fun n => (n, capture indices line (mapGet 0 order n)))
      refine hp.trans ?_
      rw [List.map_map]
      apply List.Perm.of_eq
      apply List.map_congr_left
      intro p hp
      simp [mapGet_mem 0 order p hnd hp]
  · generalize (if named then namedMembers order indices line else []) ++
      (if numbered then expectedNumbered indices line else []) = l
    induction l with
    | nil => simp [membersDecode]
    | cons m l ih =>
      have e : dec inferredR m = (m.1, inferredVal m.2) := rfl
      simp only [List.map_cons, e, membersDecode, decodesTo_inferred m.2, ih]
      simp

/-- **Well-formed UTF-8.**  `parseObj` is byte level; RFC 8259 §8.1 additionally wants the text to be
UTF-8.  That is inherited exactly from the input: when the group names and every captured text are
well-formed UTF-8 (RFC 3629 DFA `validUtf8`), so is the whole text.  (For captures that are not
valid UTF-8 the bytes are copied unchanged – `escape_roundtrip` – and the text is as ill-formed as
the capture; `encoding/json` reads such bytes as U+FFFD.) -/
theorem json_utf8 (named numbered : Bool) (order : List (Bytes × Int)) (indices : List Int)
    (line out : Bytes) (h : json named numbered order indices line = .ok out)
    (hk : ∀ p ∈ order, validUtf8 p.1 = true)
    (hv : ∀ i, validUtf8 (capture indices line i) = true) : validUtf8 out = true :=
  json_text_utf8 named numbered order indices line out h hk hv

/-- **No panic.**  When the index slice fits the line (what every matcher returns: each group
absent or a range inside the line) `json` always returns a text – for any name table, including
group numbers that are out of range. -/
theorem json_no_panic (named numbered : Bool) (order : List (Bytes × Int)) (indices : List Int)
    (line : Bytes) (hf : FitsLine indices line) :
    ∃ out, json named numbered order indices line = .ok out :=
  json_total named numbered order indices line hf

/-- **Deterministic.**  Two iteration orders of the same name table give the same outcome (text
or panic), so the view can serve as an aggregation key.  (False before the fix.) -/
theorem json_deterministic (named numbered : Bool) (o₁ o₂ : List (Bytes × Int)) (indices : List Int)
    (line : Bytes) (hp : o₁.Perm o₂) (hnd : (o₁.map (·.1)).Nodup) :
    json named numbered o₁ indices line = json named numbered o₂ indices line := by
  have h1 : sortNames (o₁.map (·.1)) = sortNames (o₂.map (·.1)) := sortNames_eq_of_perm _ _ (hp.map _)
  have h2 : mapGet (0 : Int) o₁ = mapGet 0 o₂ := mapGet_perm 0 o₁ o₂ hp hnd
  have h3 : namedStep o₁ indices line = namedStep o₂ indices line := by
    funext jb name; simp [namedStep, h2]
  simp [json, h1, h3]

/-- Same for the `{.}`/`{.#}` keys of `rare expression -k …` (cmd/expressions.go). -/
theorem special_deterministic (texts : List Bytes) (o₁ o₂ : List (Bytes × Bytes))
    (hp : o₁.Perm o₂) (hnd : (o₁.map (·.1)).Nodup) :
    buildSpecialKeyJson texts o₁ = buildSpecialKeyJson texts o₂ := by
  have h1 : sortNames (o₁.map (·.1)) = sortNames (o₂.map (·.1)) := sortNames_eq_of_perm _ _ (hp.map _)
  have h2 : mapGet ([] : Bytes) o₁ = mapGet [] o₂ := mapGet_perm [] o₁ o₂ hp hnd
  simp [buildSpecialKeyJson, h1, h2]

/-- The same for `rare expression`: the text parses as one object whose members are the indexed
arguments `0, 1, …` followed by a permutation of the `-k` pairs, every value the exact string. -/
theorem special_valid_faithful (texts : List Bytes) (order : List (Bytes × Bytes))
    (hnd : (order.map (·.1)).Nodup) :
    ∃ ms es, parseObj (buildSpecialKeyJson texts order) = some ms ∧ es.Perm order ∧
      membersDecode ms (indexedMembers 0 texts ++ es) = true ∧
      ∀ m ∈ ms, ∃ v, m.2 = .str v := by
  refine ⟨_, (sortNames (order.map (·.1))).map fun k => (k, mapGet [] order k),
    by rw [special_text]; exact parseObj_objText _ _, ?_, ?_, ?_⟩
  · have hp := (sortNames_perm (order.map (·.1))).map (fun k => (k, mapGet [] order k))
    refine hp.trans ?_
    rw [List.map_map]
    apply List.Perm.of_eq
    conv => rhs; rw [← List.map_id order]
    apply List.map_congr_left
    intro p hp
    simp [mapGet_mem [] order p hnd hp]
  · show membersDecode ((specialMembers texts order).map (dec stringR)) (specialMembers texts order) = true
    generalize specialMembers texts order = l
    induction l with
    | nil => simp [membersDecode]
    | cons m l ih =>
      have e : dec stringR m = (m.1, JVal.str m.2) := rfl
      simp only [List.map_cons, e, membersDecode, decodesTo, ih]
      simp
  · intro m hm
    obtain ⟨x, _, hx⟩ := List.mem_map.mp hm
    exact ⟨x.2, by rw [← hx]; rfl⟩

/-! ### non-vacuity -/

/-- a match with two named groups and a numbered view: `json` returns, hypotheses are satisfiable -/
example :
    (json true true [(lit "b\"", 2), (lit "a", 1)] [0, 7, 0, 3, 4, 7] (lit "007 x\ny")).toOption
      = some (lit "{\"a\": \"007\", \"b\\\"\": \"x\\ny\", \"0\": \"007 x\\ny\", \"1\": \"007\", \"2\": \"x\\ny\"}") := by
  decide

example : ([(lit "b\"", (2 : Int)), (lit "a", 1)].map (·.1)).Nodup := by decide

/-- numbers, booleans and control bytes really occur as such -/
example : parseObj (lit "{\"n\": 10.25, \"t\": true, \"s\": \"\\u0001\"}")
    = some [(lit "n", .num 1025 (-2)), (lit "t", .bool true), (lit "s", .str [1])] := by decide

example : isNumeric (lit "10.25") = true ∧ isNumeric (lit "007") = false ∧ isNumeric (lit "0.5") = true := by
  decide

/-- the parser is not trivially accepting: raw control bytes, leading zeros, unescaped quotes fail -/
example : parseObj [0x7b, 0x22, 0x30, 0x22, 0x3a, 0x20, 0x22, 0x01, 0x22, 0x7d] = none := by decide
example : parseObj (lit "{\"0\": 007}") = none := by decide
example : parseObj (lit "{\"a\"\": 1}") = none := by decide

example : FitsLine [0, 7, 0, 3, 4, 7, -1, -1] (lit "007 x\ny") := by
  intro k hk
  have : k = 0 ∨ k = 1 ∨ k = 2 ∨ k = 3 := by simp at hk; omega
  rcases this with h | h | h | h <;> subst h <;> decide

example : (buildSpecialKeyJson [lit "x\"y"] [(lit "k", lit "007"), (lit "a", lit "\t")])
    = lit "{\"0\": \"x\\\"y\", \"a\": \"\\t\", \"k\": \"007\"}" := by decide

/-- the UTF-8 DFA accepts and rejects what it should -/
example : validUtf8 [0x68, 0xc3, 0xa9, 0xe6, 0x97, 0xa5, 0xf0, 0x9f, 0x98, 0x80] = true ∧
    validUtf8 [0xc0, 0x80] = false ∧ validUtf8 [0xed, 0xa0, 0x80] = false ∧
    validUtf8 [0xf4, 0x90, 0x80, 0x80] = false ∧ validUtf8 [0xe2, 0x82] = false ∧ validUtf8 [0xff] = false := by
  decide

/-- the slice-bounds panic is reachable (so `= .ok out` is a real hypothesis) -/
example : (json false true [] [0, 9] (lit "abc")).toBool = false := by decide

end Rare.C16
