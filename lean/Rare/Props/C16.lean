import Rare.Proofs.C16Views
import Rare.Proofs.C16Seam
import Rare.Proofs.C16Dissect
import Rare.Proofs.C16Special
import Rare.Proofs.C16Src
import Rare.Proofs.C16Key
import Rare.Proofs.C16SrcEsc
import Rare.Proofs.C16Ctx
import Rare.Proofs.C16CtxSeam
import Rare.Gen.C16
/-!
Property C16: the JSON views `{.}`, `{#}`, `{.#}` of a match are valid, faithful and deterministic.

`Rare.Gen.C16.*` is regenerated from pkg/minijson/minijson.go on every run; the first group of
theorems is about those generated definitions.  The model (`Rare/Model/C16.lean`) mirrors the code
after the `fix:` commits listed in known_findings/C16.json.

Quantification.  A Go map is its list of entries in the order one `range` produced them; every
theorem about a name table holds for every such order (`order`, `o₁ o₂`, `σ`).  `GoTyped` collects the
typing facts of Go values (`int` group numbers, `int` slice length) that the unbounded `Int`/`List` of
the model do not carry; `regex_table_typed` / `dissect_table_typed` derive them – and the
distinctness of names – from how the matchers build their tables, so that no assumption on the size of
group numbers remains: `GetMatch` is modelled with Go's wrap-around `idx * 2`.
-/
namespace Rare.C16

/-! ### the generated table and literals -/

set_option maxRecDepth 100000 in
/-- Every byte RFC 8259 forbids raw inside a string (control characters, `"` and `\`) has an
entry in the source's `escapeLookup`.  (False before the fix: only 7 of the 34 were mapped.) -/
theorem escape_complete : ∀ n, n < 256 → (n < 0x20 ∨ n = 0x22 ∨ n = 0x5c) →
    n < Gen.C16.escapeLookup.length ∧ Gen.C16.escapeLookup.getD n [] ≠ [] := by
  decide

set_option maxRecDepth 100000 in
/-- Conversely only those bytes are mapped, so all other bytes (UTF-8 sequences included) pass
through unchanged. -/
theorem escape_only_needed : ∀ n, n < Gen.C16.escapeLookup.length → Gen.C16.escapeLookup.getD n [] ≠ [] →
    (n < 0x20 ∨ n = 0x22 ∨ n = 0x5c) := by
  decide

set_option maxRecDepth 100000 in
/-- The hand-written table of the model is the table in the source. -/
theorem escape_table_is_source : Gen.C16.escapeLookup = escapeLookup := by
  decide

set_option maxRecDepth 100000 in
/-- The literal pieces the model's builder writes are the ones in the source. -/
theorem builder_literals_are_source :
    Gen.C16.openLits = [[0x7b]] ∧ Gen.C16.closeLits = [[0x7d]] ∧
    Gen.C16.writeKeyLits = [[0x2c, 0x20], [0x22], [0x22, 0x3a, 0x20]] ∧
    Gen.C16.writeStringLits = [[0x22], [0x22]] ∧
    Gen.C16.inferredFoldLits = [litTrue, litFalse] ∧ Gen.C16.inferredLiterals = [litTrue, litFalse] := by
  decide

/-- Each entry of the source's table is an escape sequence that the RFC 8259 string grammar reads
back as exactly the byte it stands for. -/
theorem escape_entries_decode (c : UInt8) (tail : Bytes)
    (h : c.toNat < Gen.C16.escapeLookup.length ∧ Gen.C16.escapeLookup.getD c.toNat [] ≠ []) :
    strBody .norm (Gen.C16.escapeLookup.getD c.toNat [] ++ tail) =
      (strBody .norm tail).map fun p => (c :: p.1, p.2) := by
  rw [escape_table_is_source] at h ⊢
  have hl : lookup c = escapeLookup.getD c.toNat [] := by simp [lookup, h.1]
  have := strBody_esc1 c tail
  rw [esc1, if_pos (by rw [hl]; exact h.2), hl] at this
  exact this

set_option maxRecDepth 100000 in
/-- The only `\u` escapes the writer can produce are `\u00XX` of control characters: every entry of
the source's table is empty, a two-character escape, or `\u00` followed by two more characters.  In
particular the writer never emits a surrogate escape (`\ud800` …), lone or paired; a capture that
contains the *characters* `\ud800` gets its backslash escaped like any other (`escape_roundtrip`). -/
theorem escapes_are_control_only : ∀ n, n < Gen.C16.escapeLookup.length →
    Gen.C16.escapeLookup.getD n [] = [] ∨
    ((Gen.C16.escapeLookup.getD n []).length = 2 ∧ (Gen.C16.escapeLookup.getD n []).head? = some 0x5c ∧
      (Gen.C16.escapeLookup.getD n []).getD 1 0 ≠ 0x75) ∨
    ((Gen.C16.escapeLookup.getD n []).length = 6 ∧
      (Gen.C16.escapeLookup.getD n []).take 4 = [0x5c, 0x75, 0x30, 0x30] ∧ n < 0x20) := by
  decide

/-- **Exactly what `escape` emits**, for every byte string, well-formed UTF-8 or not: byte by byte, the
entry of the source's table for the 34 bytes that have one, and the byte itself – unchanged, in
place – for every other byte (so in particular for every byte ≥ 0x80 of an ill-formed capture). -/
theorem escape_bytewise (s : Bytes) :
    escape s = s.flatMap fun c =>
      if c.toNat < Gen.C16.escapeLookup.length ∧ Gen.C16.escapeLookup.getD c.toNat [] ≠ []
      then Gen.C16.escapeLookup.getD c.toNat [] else [c] := by
  rw [escape_eq_flatMap, escape_table_is_source]
  congr 1
  funext c
  unfold esc1 lookup
  by_cases h : c.toNat < escapeLookup.length
  · by_cases h2 : escapeLookup.getD c.toNat [] ≠ []
    · simp only [h, if_true, h2, and_self, ne_eq, not_false_eq_true]
    · simp [h]
  · simp [h]

/-! ### strings, keys, numbers -/

/-- `escape` is exact for ALL byte strings: written between quotes it reads back as the original
bytes (arbitrary bytes, not only valid UTF-8). -/
theorem escape_roundtrip (s tail : Bytes) : strBody .norm (escape s ++ 0x22 :: tail) = some (s, tail) :=
  strBody_escape s tail

/-- Member names go through `escape` (false before the fix), so any name – quotes, backslashes,
control bytes – is read back unchanged. -/
theorem key_escaped (j : JB) (key tail : Bytes) :
    (j.writeKey key).sb =
      (if 0 < j.keyCount then j.sb ++ [0x2c, 0x20] else j.sb) ++ [0x22] ++ escape key ++ [0x22, 0x3a, 0x20] ∧
    strBody .norm (escape key ++ 0x22 :: tail) = some (key, tail) :=
  ⟨rfl, strBody_escape key tail⟩

/-- Whatever `isNumeric` accepts is a JSON number (RFC 8259 grammar) whose value is the decimal
reading of the text.  (False before the fix: `007`.) -/
theorem isNumeric_subset_json (s : Bytes) (h : isNumeric s = true) :
    ∃ m e, parseNumber s = some (.num m e, []) ∧ decimalValue s = some (m, e) := by
  have := isNumeric_parse s [] h endsNumber_nil
  simpa using this

/-- **Same value, over ℚ.**  For every capture `isNumeric` accepts, the bare literal that is emitted
is read by the RFC 8259 number grammar completely, and the rational number it denotes
(`mantissa × 10^exponent`) is the rational number the capture denotes when read as a decimal numeral
(integer digits plus fraction digits over a power of ten – `decimalRat`, defined without mantissa /
exponent pairs). -/
theorem numeric_same_rational (s : Bytes) (h : isNumeric s = true) :
    ∃ v q, parseNumber s = some (v, []) ∧ v.toRat = some q ∧ decimalRat s = some q := by
  have := isNumeric_rat s [] h endsNumber_nil
  simpa using this

/-- The integer-pair comparison used by `decodesTo` (and therefore by `json_valid_faithful`) is equality
of rationals: a number member that decodes to a capture denotes the capture's decimal value. -/
theorem decoded_number_same_rational (m e : Int) (capture : Bytes) (h : decodesTo (.num m e) capture = true) :
    decimalRat capture = some (ratOf m e) :=
  decodesTo_num_rat m e capture h

/-- What is *not* a number for the writer, although a reader of decimals might take it for one:
signs, exponents, a leading or trailing point, leading zeros.  These stay strings (and so decode to
the exact capture). -/
theorem numeric_shape (s : Bytes) (h : isNumeric s = true) :
    ∃ ip fp, ip ≠ [] ∧ ip.all isDig = true ∧ fp.all isDig = true ∧ ¬ (1 < ip.length ∧ ip.head? = some 0x30) ∧
      ((s = ip ∧ fp = []) ∨ (s = ip ++ 0x2e :: fp ∧ fp ≠ [])) :=
  isNumeric_shape s h

/-- **Booleans only for the exact ASCII spellings.**  The value is written as the bare literal `true`
(resp. `false`) exactly when the capture is one of the 16 (resp. 32) spellings of that word with each
letter in upper or lower ASCII case – nothing that merely case-folds to it under Unicode rules
(`fal\u017fe`, Kelvin sign), nothing padded. -/
theorem bool_only_ascii_spellings (val : Bytes) (b : Bool) :
    inferredVal val = .bool b ↔ val ∈ spellings (if b then litTrue else litFalse) :=
  inferredVal_bool_iff val b

/-! ### group look-up and the name tables -/

/-- `GetMatch` with Go's wrap-around arithmetic agrees with the specification of a capture for EVERY
`int` group number – negative, in range, out of range, and from 2^62 on, where `idx * 2` wraps. -/
theorem getMatch_every_int (indices : List Int) (line : Bytes) (idx : Int) (v : Bytes)
    (hi : minInt64 ≤ idx ∧ idx ≤ maxInt64) (hl : (indices.length : Int) ≤ maxInt64)
    (h : getMatch indices line idx = .ok v) : v = capture indices line idx :=
  getMatch_ok indices line idx v hi hl h

/-- Group numbers that cannot name a group read as empty, without a panic and without touching the
index slice, whatever the wrapped product is. -/
theorem getMatch_out_of_range (indices : List Int) (line : Bytes) (idx : Int)
    (hi : minInt64 ≤ idx ∧ idx ≤ maxInt64) (hl : (indices.length : Int) ≤ maxInt64)
    (h : idx < 0 ∨ (indices.length : Int) ≤ 2 * idx + 1) : getMatch indices line idx = .ok [] := by
  unfold getMatch
  simp only []
  rw [if_pos ((getMatch_guard indices idx hi hl).mpr (by omega))]

/-- The table `fastregex.createGroupNameTable` builds from `SubexpNames()`: names are distinct and
every entry `(name, k)` is a real group: `0 ≤ k < len(SubexpNames())` and the `k`-th name is the
non-empty `name`.  Every non-empty name of the expression has an entry. -/
theorem regex_table_typed (names : List Bytes) :
    ((regexNameTable names).map (·.1)).Nodup ∧
    (∀ p ∈ regexNameTable names, 0 ≤ p.2 ∧ p.2 < names.length ∧ names[p.2.toNat]? = some p.1 ∧ p.1 ≠ []) ∧
    (∀ n ∈ names, n ≠ [] → n ∈ (regexNameTable names).map (·.1)) :=
  ⟨regexNameTable_nodup names, regexNameTable_entry names,
   fun n hn hne => regexTableGo_covers names [] 0 n (Or.inr ⟨hn, hne⟩)⟩

/-- The table `dissect.CompileEx` builds: distinct names, group numbers `1 … number of tokens`. -/
theorem dissect_table_typed (tokens : List (Bytes × Bool)) (table : List (Bytes × Int))
    (h : dissectNameTable tokens = .ok table) :
    (table.map (·.1)).Nodup ∧ ∀ p ∈ table, 1 ≤ p.2 ∧ p.2 ≤ tokens.length :=
  dissectNameTable_inv tokens table h

/-! ### the views -/

/-- **Valid and faithful.**  For every name table (as any iteration order `order` of a map with
distinct names), every index slice and every line of arbitrary bytes: if `json` returns (the only
other outcome is the slice-bounds panic on an index slice that does not fit the line), its text
parses as one JSON object, and its members are, in order, the named captures (a permutation of the
name table) followed by the non-empty numbered captures, each with the right name and a value
that decodes to the captured text. -/
theorem json_valid_faithful (named numbered : Bool) (order : List (Bytes × Int)) (indices : List Int)
    (line out : Bytes) (hty : GoTyped order indices) (hnd : (order.map (·.1)).Nodup)
    (h : json named numbered order indices line = .ok out) :
    ∃ ms es, parseObj out = some ms ∧
      es.Perm (if named then expectedNamed order indices line else []) ∧
      es.Pairwise (fun a b => bytesLe a.1 b.1 = true) ∧
      membersDecode ms (es ++ (if numbered then expectedNumbered indices line else [])) = true := by
  have ht := json_ok_text named numbered order indices line out hty h
  refine ⟨_, (if named then namedMembers order indices line else []), by rw [ht]; exact parseObj_objText _ _,
    ?_, ?_, membersDecode_dec _⟩
  · cases named with
    | false => simp
    | true => simpa using namedMembers_perm order indices line hnd
  · cases named with
    | false => simp
    | true => simpa using namedMembers_sorted order indices line

/-- **Member sets and order of the four keys.**  `GetKey` maps `"."` to the named members only, `"#"`
to the numbered members only, `".#"` and `"#."` – the same text for both spellings – to the named
members followed by the numbered ones.  The member names are, in this order: the group names in
ascending byte order, then the decimal numerals of the groups whose text is not empty, ascending
(group 0, the whole match, included).  The numerals read back as the group numbers and are distinct,
and so are the group names. -/
theorem view_members (key : Bytes) (order : List (Bytes × Int)) (indices : List Int) (line out : Bytes)
    (hty : GoTyped order indices) (hnd : (order.map (·.1)).Nodup)
    (h : getKeyJson key order indices line = some (.ok out)) :
    ∃ named numbered ms, viewFlags key = some (named, numbered) ∧ parseObj out = some ms ∧
      ms.map (·.1) =
        (if named then sortNames (order.map (·.1)) else []) ++
        (if numbered then (expectedNumbered indices line).map (·.1) else []) ∧
      (sortNames (order.map (·.1))).Perm (order.map (·.1)) ∧
      (sortNames (order.map (·.1))).Pairwise (fun a b => bytesLe a b = true) ∧
      (sortNames (order.map (·.1))).Nodup ∧
      ((expectedNumbered indices line).map (·.1)).Nodup ∧
      (∀ i : Nat, (natAscii i, capture indices line (i : Nat)) ∈ expectedNumbered indices line ↔
        (i < indices.length / 2 ∧ capture indices line (i : Nat) ≠ [])) ∧
      (∀ i : Nat, digVal (natAscii i) = i) := by
  have key_cases : ∃ named numbered, viewFlags key = some (named, numbered) ∧
      json named numbered order indices line = .ok out := by
    unfold getKeyJson at h
    unfold viewFlags
    split at h
    · exact ⟨true, false, by simp [*], by simpa using h⟩
    · split at h
      · exact ⟨false, true, by simp [*], by simpa using h⟩
      · split at h
        · exact ⟨true, true, by simp [*], by simpa using h⟩
        · cases h
  obtain ⟨named, numbered, hf, hj⟩ := key_cases
  have ht := json_ok_text named numbered order indices line out hty hj
  refine ⟨named, numbered, _, hf, by rw [ht]; exact parseObj_objText _ _, ?_, sortNames_perm _, sortNames_sorted _,
    (sortNames_perm _).nodup_iff.mpr hnd, numbered_names_nodup indices line, ?_, digVal_natAscii⟩
  · rw [dec_names]; exact viewMembers_names named numbered order indices line
  · intro i
    simp only [expectedNumbered, List.mem_filterMap, List.mem_range]
    constructor
    · rintro ⟨j, hj, e⟩
      split at e
      · cases e
      · simp only [Option.some.injEq, Prod.mk.injEq] at e
        have := natAscii_inj _ _ e.1; subst this
        exact ⟨hj, by assumption⟩
    · rintro ⟨hi, hne⟩
      exact ⟨i, hi, by simp [hne]⟩

/-- `".#"` and `"#."` are the same view; `"."`, `"#"`, `".#"`, `"#."` are the only JSON keys. -/
theorem view_keys (key : Bytes) (order : List (Bytes × Int)) (indices : List Int) (line : Bytes) :
    getKeyJson key order indices line =
      (viewFlags key).map (fun f => json f.1 f.2 order indices line) ∧
    getKeyJson [0x2e, 0x23] order indices line = getKeyJson [0x23, 0x2e] order indices line ∧
    (viewFlags key ≠ none ↔ key = [0x2e] ∨ key = [0x23] ∨ key = [0x2e, 0x23] ∨ key = [0x23, 0x2e]) := by
  refine ⟨?_, by simp [getKeyJson], ?_⟩
  · unfold getKeyJson viewFlags
    split
    · rfl
    · split
      · rfl
      · split <;> rfl
  · unfold viewFlags
    constructor
    · intro h
      split at h
      · left; assumption
      · split at h
        · right; left; assumption
        · split at h
          · rename_i hk; right; right; exact hk
          · exact absurd rfl h
    · rintro (h | h | h | h) <;> subst h <;> decide

/-- **Duplicate member names.**  Within the named part and within the numbered part names are distinct
(`view_members`); in `{.#}` a name is repeated exactly when a group is *named* by the decimal numeral
of a group with non-empty text (Go's regexp accepts `(?P<1>…)`).  RFC 8259 allows this
syntactically (names SHOULD be unique); the text still parses and both members decode to their
captures. -/
theorem view_names_nodup_iff (order : List (Bytes × Int)) (indices : List Int) (line : Bytes)
    (hnd : (order.map (·.1)).Nodup) :
    ((viewMembers true true order indices line).map (·.1)).Nodup ↔
      ∀ p ∈ order, ∀ i : Nat, i < indices.length / 2 → capture indices line (i : Nat) ≠ [] → p.1 ≠ natAscii i := by
  rw [viewMembers_names]
  simp only [if_true]
  rw [List.nodup_append]
  have h1 : (sortNames (order.map (·.1))).Nodup := (sortNames_perm _).nodup_iff.mpr hnd
  have h2 := numbered_names_nodup indices line
  constructor
  · rintro ⟨_, _, hd⟩ p hp i hi hne e
    refine hd p.1 ((sortNames_perm _).mem_iff.mpr (List.mem_map_of_mem hp)) (natAscii i) ?_ e
    simp only [expectedNumbered, List.mem_map, List.mem_filterMap, List.mem_range]
    exact ⟨(natAscii i, capture indices line (i : Nat)), ⟨i, hi, by simp [hne]⟩, rfl⟩
  · intro h
    refine ⟨h1, h2, ?_⟩
    intro a ha b hb e
    subst e
    obtain ⟨p, hp, e⟩ := List.mem_map.mp ((sortNames_perm _).mem_iff.mp ha)
    simp only [expectedNumbered, List.mem_map, List.mem_filterMap, List.mem_range] at hb
    obtain ⟨m, ⟨i, hi, hm⟩, e2⟩ := hb
    split at hm
    · cases hm
    · cases hm
      exact h p hp i hi (by assumption) (by rw [e, ← e2])

/-- **Well-formed UTF-8.**  `parseObj` is byte level; RFC 8259 §8.1 additionally wants the text to be
UTF-8.  That is inherited exactly from the input: when the group names and every captured text are
well-formed UTF-8 (RFC 3629 DFA `validUtf8`), so is the whole text.  (For captures that are not
valid UTF-8 the bytes are copied unchanged – `escape_roundtrip` – and the text is as ill-formed as
the capture; `encoding/json` reads such bytes as U+FFFD.) -/
theorem json_utf8 (named numbered : Bool) (order : List (Bytes × Int)) (indices : List Int)
    (line out : Bytes) (hty : GoTyped order indices) (h : json named numbered order indices line = .ok out)
    (hk : ∀ p ∈ order, validUtf8 p.1 = true)
    (hv : ∀ i, validUtf8 (capture indices line i) = true) : validUtf8 out = true :=
  json_text_utf8 named numbered order indices line out hty h hk hv

/-- **Ill-formed UTF-8 comes from the captures only, and is never hidden.**  The text is well-formed
UTF-8 if AND ONLY IF every group name written and every captured text written is. -/
theorem json_utf8_iff (named numbered : Bool) (order : List (Bytes × Int)) (indices : List Int)
    (line out : Bytes) (hty : GoTyped order indices) (hnd : (order.map (·.1)).Nodup)
    (h : json named numbered order indices line = .ok out) :
    validUtf8 out = true ↔
      ((named = true → ∀ p ∈ order, validUtf8 p.1 = true ∧ validUtf8 (capture indices line p.2) = true) ∧
       (numbered = true → ∀ i : Nat, validUtf8 (capture indices line (i : Nat)) = true)) := by
  rw [json_ok_text named numbered order indices line out hty h, valid_objText_eq]
  exact viewMembers_all_valid named numbered order indices line hnd

/-- **Valid JSON modulo the captures' own ill-formed bytes.**  `json_valid_faithful` already holds for
arbitrary bytes under the byte-level grammar (ill-formed bytes are string content and are returned
as they are).  For a reader that insists on UTF-8 and substitutes U+FFFD for every ill-formed byte
(`sanitize`: what `encoding/json` and Go's `range` do – one U+FFFD per ill-formed byte): the substituted text is
well-formed UTF-8, is unchanged when the text was well-formed, parses under the same grammar, and
its members are – in the same order, none lost or merged – the substituted names with values that
decode to the substituted captures.  So the only difference to a fully valid document is the
U+FFFD a reader sees in place of each ill-formed byte of a capture. -/
theorem json_sanitized (named numbered : Bool) (order : List (Bytes × Int)) (indices : List Int)
    (line out : Bytes) (hty : GoTyped order indices) (hnd : (order.map (·.1)).Nodup)
    (h : json named numbered order indices line = .ok out) :
    validUtf8 (sanitize out) = true ∧ (validUtf8 out = true → sanitize out = out) ∧
    ∃ ms es, parseObj (sanitize out) = some ms ∧
      es.Perm (if named then expectedNamed order indices line else []) ∧
      membersDecode ms ((es ++ (if numbered then expectedNumbered indices line else [])).map
        fun m => (sanitize m.1, sanitize m.2)) = true := by
  have ht := json_ok_text named numbered order indices line out hty h
  refine ⟨valid_sanitize out, sanitize_valid out,
    ((viewMembers named numbered order indices line).map san2).map (dec inferredR),
    (if named then namedMembers order indices line else []), ?_, ?_, ?_⟩
  · rw [ht, objText_sanitize]; exact parseObj_objText _ _
  · cases named with
    | false => simp
    | true => simpa using namedMembers_perm order indices line hnd
  · exact membersDecode_dec _

/-- The same three theorems for a table as the regex wrapper builds it from `SubexpNames()`, in any
iteration order `σ` of the map: no hypothesis on group numbers or on distinctness is left. -/
theorem json_valid_faithful_regex (named numbered : Bool) (names : List Bytes) (σ : List (Bytes × Int))
    (indices : List Int) (line out : Bytes) (hσ : σ.Perm (regexNameTable names))
    (hn : (names.length : Int) ≤ maxInt64) (hl : (indices.length : Int) ≤ maxInt64)
    (h : json named numbered σ indices line = .ok out) :
    ∃ ms es, parseObj out = some ms ∧
      es.Perm (if named then expectedNamed (regexNameTable names) indices line else []) ∧
      es.Pairwise (fun a b => bytesLe a.1 b.1 = true) ∧
      membersDecode ms (es ++ (if numbered then expectedNumbered indices line else [])) = true := by
  obtain ⟨hty, hnd⟩ := regex_typed names σ indices hσ hn hl
  obtain ⟨ms, es, h1, h2, h3, h4⟩ := json_valid_faithful named numbered σ indices line out hty hnd h
  refine ⟨ms, es, h1, ?_, h3, h4⟩
  cases named with
  | false => simpa using h2
  | true =>
    simp only [if_true] at h2 ⊢
    exact h2.trans (hσ.map _)

/-- … and as `dissect.CompileEx` builds it. -/
theorem json_valid_faithful_dissect (named numbered : Bool) (tokens : List (Bytes × Bool))
    (table σ : List (Bytes × Int)) (indices : List Int) (line out : Bytes)
    (ht : dissectNameTable tokens = .ok table) (hσ : σ.Perm table)
    (hn : (tokens.length : Int) ≤ maxInt64) (hl : (indices.length : Int) ≤ maxInt64)
    (h : json named numbered σ indices line = .ok out) :
    ∃ ms es, parseObj out = some ms ∧
      es.Perm (if named then expectedNamed table indices line else []) ∧
      es.Pairwise (fun a b => bytesLe a.1 b.1 = true) ∧
      membersDecode ms (es ++ (if numbered then expectedNumbered indices line else [])) = true := by
  obtain ⟨hty, hnd⟩ := dissect_typed tokens table σ indices ht hσ hn hl
  obtain ⟨ms, es, h1, h2, h3, h4⟩ := json_valid_faithful named numbered σ indices line out hty hnd h
  refine ⟨ms, es, h1, ?_, h3, h4⟩
  cases named with
  | false => simpa using h2
  | true =>
    simp only [if_true] at h2 ⊢
    exact h2.trans (hσ.map _)

/-- **Same match ⇒ same text**, for tables as the matchers build them: any two iteration orders
`σ₁ σ₂` of the regex wrapper's map give the same outcome. -/
theorem json_deterministic_regex (named numbered : Bool) (names : List Bytes) (σ₁ σ₂ : List (Bytes × Int))
    (indices : List Int) (line : Bytes) (h1 : σ₁.Perm (regexNameTable names)) (h2 : σ₂.Perm (regexNameTable names)) :
    json named numbered σ₁ indices line = json named numbered σ₂ indices line := by
  have hnd : (σ₁.map (·.1)).Nodup := (h1.map (·.1)).nodup_iff.mpr (regexNameTable_nodup names)
  have hp := h1.trans h2.symm
  have e1 : sortNames (σ₁.map (·.1)) = sortNames (σ₂.map (·.1)) := sortNames_eq_of_perm _ _ (hp.map _)
  have e2 : mapGet (0 : Int) σ₁ = mapGet 0 σ₂ := mapGet_perm 0 σ₁ σ₂ hp hnd
  have e3 : namedStep σ₁ indices line = namedStep σ₂ indices line := by
    funext jb name; simp [namedStep, e2]
  simp [json, e1, e3]

/-- **No panic.**  When the index slice fits the line (what every matcher returns: each group
absent or a range inside the line) `json` always returns a text – for any name table, including
group numbers that are out of range. -/
theorem json_no_panic (named numbered : Bool) (order : List (Bytes × Int)) (indices : List Int)
    (line : Bytes) (hf : FitsLine indices line) :
    ∃ out, json named numbered order indices line = .ok out :=
  json_total named numbered order indices line hf

/-- **Deterministic.**  Two iteration orders of the same name table give the same outcome (text
or panic), so the view can serve as an aggregation key.  (False before the fix.) -/
theorem json_deterministic (named numbered : Bool) (o₁ o₂ : List (Bytes × Int)) (indices : List Int)
    (line : Bytes) (hp : o₁.Perm o₂) (hnd : (o₁.map (·.1)).Nodup) :
    json named numbered o₁ indices line = json named numbered o₂ indices line := by
  have h1 : sortNames (o₁.map (·.1)) = sortNames (o₂.map (·.1)) := sortNames_eq_of_perm _ _ (hp.map _)
  have h2 : mapGet (0 : Int) o₁ = mapGet 0 o₂ := mapGet_perm 0 o₁ o₂ hp hnd
  have h3 : namedStep o₁ indices line = namedStep o₂ indices line := by
    funext jb name; simp [namedStep, h2]
  simp [json, h1, h3]

/-- Same for the `{.}`/`{.#}` keys of `rare expression -k …` (cmd/expressions.go). -/
theorem special_deterministic (texts : List Bytes) (o₁ o₂ : List (Bytes × Bytes))
    (hp : o₁.Perm o₂) (hnd : (o₁.map (·.1)).Nodup) :
    buildSpecialKeyJson texts o₁ = buildSpecialKeyJson texts o₂ := by
  have h1 : sortNames (o₁.map (·.1)) = sortNames (o₂.map (·.1)) := sortNames_eq_of_perm _ _ (hp.map _)
  have h2 : mapGet ([] : Bytes) o₁ = mapGet [] o₂ := mapGet_perm [] o₁ o₂ hp hnd
  simp [buildSpecialKeyJson, h1, h2]

/-- The same for `rare expression`: the text parses as one object whose members are the indexed
arguments `0, 1, …` followed by a permutation of the `-k` pairs, every value the exact string. -/
theorem special_valid_faithful (texts : List Bytes) (order : List (Bytes × Bytes))
    (hnd : (order.map (·.1)).Nodup) :
    ∃ ms es, parseObj (buildSpecialKeyJson texts order) = some ms ∧ es.Perm order ∧
      membersDecode ms (indexedMembers 0 texts ++ es) = true ∧
      ∀ m ∈ ms, ∃ v, m.2 = .str v := by
  refine ⟨_, (sortNames (order.map (·.1))).map fun k => (k, mapGet [] order k),
    by rw [special_text]; exact parseObj_objText _ _, ?_, ?_, ?_⟩
  · have hp := (sortNames_perm (order.map (·.1))).map (fun k => (k, mapGet [] order k))
    refine hp.trans ?_
    rw [List.map_map]
    apply List.Perm.of_eq
    conv => rhs; rw [← List.map_id order]
    apply List.map_congr_left
    intro p hp
    simp [mapGet_mem [] order p hnd hp]
  · show membersDecode ((specialMembers texts order).map (dec stringR)) (specialMembers texts order) = true
    generalize specialMembers texts order = l
    induction l with
    | nil => simp [membersDecode]
    | cons m l ih =>
      have e : dec stringR m = (m.1, JVal.str m.2) := rfl
      simp only [List.map_cons, e, membersDecode, decodesTo, ih]
      simp
  · intro m hm
    obtain ⟨x, _, hx⟩ := List.mem_map.mp hm
    exact ⟨x.2, by rw [← hx]; rfl⟩

/-! ### round 4: the exact number grammar, `-k` arguments, the rest of minijson, the C02 seam -/

/-- **The shapes `isNumeric` accepts, exactly** (the converse of `numeric_shape`): `int` or `int.frac` with
at least one digit on each side of the point and no superfluous leading zero – and nothing else. -/
theorem numeric_iff_shape (s : Bytes) :
    isNumeric s = true ↔
      ∃ ip fp, ip ≠ [] ∧ ip.all isDig = true ∧ fp.all isDig = true ∧ ¬ (1 < ip.length ∧ ip.head? = some 0x30) ∧
        ((s = ip ∧ fp = []) ∨ (s = ip ++ 0x2e :: fp ∧ fp ≠ [])) :=
  isNumeric_iff_shape s

/-- **Bare number ⇔ RFC 8259 number without sign and exponent.**  For every byte string: the capture is
written as a bare literal by the numeric branch of `WriteInferred` if and only if the whole capture is a
JSON number (`parseNumber`, the grammar of RFC 8259 §6, consumes it completely) that is written with
digits and the decimal point only.  So nothing that is not a JSON number is ever emitted bare, and the
JSON numbers that stay strings are exactly those with a minus sign or an exponent (`numeric_boundary`). -/
theorem numeric_iff_plain_json_number (s : Bytes) :
    isNumeric s = true ↔ (∃ v, parseNumber s = some (v, [])) ∧ plainChars s = true :=
  isNumeric_iff_plain_number s

/-- captures around the boundary of the class: `(text, is a complete RFC 8259 number, is emitted bare)` -/
def numericBoundaryTable : List (String × Bool × Bool) :=
  [-- JSON numbers written with a sign or an exponent: kept as strings
   ("-0", true, false), ("-1.5", true, false), ("1e5", true, false), ("1E+5", true, false), ("0.0e-0", true, false),
   ("-12345678901234567890", true, false),
   -- JSON numbers written with digits and point only: bare
   ("0", true, true), ("0.0", true, true), ("10.050", true, true), ("12345678901234567890123", true, true),
   -- not JSON numbers, not bare
   ("1.", false, false), (".5", false, false), ("+1", false, false), ("007", false, false), ("00", false, false),
   ("00.5", false, false), ("-007", false, false), ("0x10", false, false), ("Infinity", false, false),
   ("NaN", false, false), ("1,000", false, false), ("1 ", false, false), (" 1", false, false),
   ("1.2.3", false, false), ("1..2", false, false), ("-", false, false), (".", false, false), ("", false, false),
   ("1e", false, false), ("1e+", false, false), ("null", false, false), ("\\u0031", false, false)]

/-- **The boundary of the class, kernel-checked.**  JSON numbers that are NOT emitted bare (sign, exponent)
– they become strings and decode to the exact capture; and numeral-looking captures that are not JSON
numbers at all and are (rightly) not bare: trailing/leading point, plus sign, leading zeros, hexadecimal,
`Infinity`, `NaN`, digit groups, white space.  Every row of `numericBoundaryTable` is as stated, and no
row has a capture emitted bare that is not a complete JSON number. -/
theorem numeric_boundary : ∀ r ∈ numericBoundaryTable,
    ((parseNumber (lit r.1)).map (·.2) == some []) = r.2.1 ∧ isNumeric (lit r.1) = r.2.2 ∧
    (r.2.2 = true → r.2.1 = true) := by
  decide +kernel

/-- **Which kind of JSON value a capture becomes**, for every byte string: a number exactly when `isNumeric`
(and then the number is the capture's decimal reading), `null` never (the word `null` stays a string, in
any case), otherwise – unless it is one of the 48 boolean spellings (`bool_only_ascii_spellings`) – the
string with exactly the capture's bytes. -/
theorem value_kind_exact (val : Bytes) :
    (isNumeric val = true → ∃ m e, inferredVal val = .num m e ∧ decimalValue val = some (m, e)) ∧
    ((∃ m e, inferredVal val = .num m e) → isNumeric val = true) ∧
    inferredVal val ≠ .null ∧
    (isNumeric val = false → val ∉ spellings litTrue → val ∉ spellings litFalse → inferredVal val = .str val) := by
  have ht := equalFoldLen_iff val litTrue litTrue_lower
  have hf := equalFoldLen_iff val litFalse litFalse_lower
  refine ⟨?_, ?_, ?_, ?_⟩
  · intro h
    obtain ⟨m, e, _, hd⟩ := isNumeric_parse val [] h endsNumber_nil
    exact ⟨m, e, by simp [inferredVal, h, hd], hd⟩
  · rintro ⟨m, e, h⟩
    unfold inferredVal at h
    split at h
    · assumption
    · split at h
      · cases h
      · split at h <;> cases h
  · intro h
    unfold inferredVal at h
    split at h
    · rename_i hn
      obtain ⟨m, e, _, hd⟩ := isNumeric_parse val [] hn endsNumber_nil
      simp [hd] at h
    · split at h
      · cases h
      · split at h <;> cases h
  · intro hn h1 h2
    have a : ¬ equalFoldLen val litTrue = true := fun h => h1 (ht.mp h)
    have b : ¬ equalFoldLen val litFalse = true := fun h => h2 (hf.mp h)
    simp [inferredVal, hn, a, b]

/-- a group that did not take part in the match (or matched the empty text): the named views still have
its member, with the empty string as value; the numbered views leave it out (`view_members`) -/
theorem empty_capture_rendering :
    inferredVal [] = .str [] ∧ valueText [] = [0x22, 0x22] ∧
    ∀ (indices : List Int) (line : Bytes) (i : Nat), capture indices line (i : Nat) = [] →
      natAscii i ∉ (expectedNumbered indices line).map (·.1) := by
  refine ⟨by decide, by decide, ?_⟩
  intro indices line i h hm
  simp only [expectedNumbered, List.mem_map, List.mem_filterMap, List.mem_range] at hm
  obtain ⟨m, ⟨j, _, hj⟩, e⟩ := hm
  split at hj
  · cases hj
  · rename_i hne
    simp only [Option.some.injEq] at hj
    subst hj
    have := natAscii_inj _ _ e
    subst this
    exact hne h

/-- **`-k name=value`: how one argument is split.**  At the FIRST `=`: the name is everything before it (so
a name cannot contain `=`, the value can), the name may be empty (`=v`), the value may be empty (`k=`);
an argument without `=` is both its own name and its own value. -/
theorem kv_parse (s : Bytes) :
    ((0x3d : UInt8) ∉ s ∧ parseKeyValue s = (s, s)) ∨
    (s = (parseKeyValue s).1 ++ 0x3d :: (parseKeyValue s).2 ∧ (0x3d : UInt8) ∉ (parseKeyValue s).1) :=
  parseKeyValue_cases s

/-- **Repeated `-k` names: the last one wins, and the map has no duplicates** – so the `hnd` hypothesis of
`special_valid_faithful` / `special_deterministic` always holds for the map `rare expression` builds. -/
theorem kv_map_last_wins (kvs : List Bytes) :
    ((parseKeyValuesIntoMap kvs).map (·.1)).Nodup ∧
    ∀ q : Bytes × Bytes, q ∈ parseKeyValuesIntoMap kvs ↔ lastValue (kvs.map parseKeyValue) q.1 = some q.2 :=
  kvMap_spec kvs

/-- **`rare expression -d … -k …`, without hypotheses.**  For every list of `-d` and `-k` arguments (arbitrary
bytes, repeated names, empty names, no `=`) and every two iteration orders `σ₁ σ₂` of the map built from
the `-k` arguments: the text is the same, it parses as one object, and its members are the `-d` values
under `0, 1, …` followed by the `-k` names in ascending byte order, each with the exact string of the last
value given for it. -/
theorem special_args_valid_faithful (data kvs : List Bytes) (σ₁ σ₂ : List (Bytes × Bytes))
    (h1 : σ₁.Perm (parseKeyValuesIntoMap kvs)) (h2 : σ₂.Perm (parseKeyValuesIntoMap kvs)) :
    buildSpecialKeyJson data σ₁ = buildSpecialKeyJson data σ₂ ∧
    ∃ ms es, parseObj (buildSpecialKeyJson data σ₁) = some ms ∧ es.Perm (parseKeyValuesIntoMap kvs) ∧
      es.Pairwise (fun a b => bytesLe a.1 b.1 = true) ∧
      (∀ q ∈ es, lastValue (kvs.map parseKeyValue) q.1 = some q.2) ∧
      ms = (indexedMembers 0 data ++ es).map (fun m => (m.1, JVal.str m.2)) := by
  have hnd0 := (kv_map_last_wins kvs).1
  have hnd : (σ₁.map (·.1)).Nodup := (h1.map (·.1)).nodup_iff.mpr hnd0
  refine ⟨special_deterministic data σ₁ σ₂ (h1.trans h2.symm) hnd, ?_⟩
  refine ⟨_, (sortNames (σ₁.map (·.1))).map fun k => (k, mapGet [] σ₁ k),
    by rw [special_text]; exact parseObj_objText _ _, ?_, ?_, ?_, ?_⟩
  · have hp := (sortNames_perm (σ₁.map (·.1))).map (fun k => (k, mapGet [] σ₁ k))
    refine (hp.trans ?_).trans h1
    rw [List.map_map]
    apply List.Perm.of_eq
    conv => rhs; rw [← List.map_id σ₁]
    apply List.map_congr_left
    intro p hp
    simp [mapGet_mem [] σ₁ p hnd hp]
  · rw [List.pairwise_map]
    exact sortNames_sorted _
  · intro q hq
    obtain ⟨k, hk, e⟩ := List.mem_map.mp hq
    obtain ⟨p, hp, e2⟩ := List.mem_map.mp ((sortNames_perm _).mem_iff.mp hk)
    have : q = p := by
      rw [← e, ← e2, mapGet_mem [] σ₁ p hnd hp]
    rw [this]
    exact ((kv_map_last_wins kvs).2 p).mp (h1.mem_iff.mp hp)
  · rfl

/-- **Repeated member names in `{.#}` of `rare expression`.**  The `-d` numerals are distinct, the `-k` names
are distinct; the two parts share a name exactly when a `-k` name is the decimal numeral of a `-d`
position (`-d x -k 0=y` gives `{"0": "x", "0": "y"}` – syntactically valid, names SHOULD be unique). -/
theorem special_names_nodup_iff (data : List Bytes) (order : List (Bytes × Bytes))
    (hnd : (order.map (·.1)).Nodup) :
    ((specialMembers data order).map (·.1)).Nodup ↔ ∀ p ∈ order, ∀ i < data.length, p.1 ≠ natAscii i := by
  rw [specialMembers_names, List.nodup_append]
  have h1 := indexed_names_nodup data.length
  have h2 : (sortNames (order.map (·.1))).Nodup := (sortNames_perm _).nodup_iff.mpr hnd
  constructor
  · rintro ⟨_, _, hd⟩ p hp i hi e
    exact hd (natAscii i) (List.mem_map.mpr ⟨i, List.mem_range.mpr hi, rfl⟩) p.1
      ((sortNames_perm _).mem_iff.mpr (List.mem_map_of_mem hp)) e.symm
  · intro h
    refine ⟨h1, h2, ?_⟩
    intro a ha b hb e
    obtain ⟨i, hi, e1⟩ := List.mem_map.mp ha
    obtain ⟨p, hp, e2⟩ := List.mem_map.mp ((sortNames_perm _).mem_iff.mp hb)
    exact h p hp i (List.mem_range.mp hi) (by rw [e2, ← e, e1])

/-- the four JSON keys of `rare expression`: `{.}` has the `-k` pairs only, `{#}` the `-d` values only,
`{.#}` and `{#.}` are the same text with both -/
theorem expression_keys (key : Bytes) (data : List Bytes) (order : List (Bytes × Bytes)) :
    expressionJsonKey key data order =
      (viewFlags key).map (fun f => buildSpecialKeyJson (if f.2 then data else []) (if f.1 then order else [])) ∧
    expressionJsonKey [0x2e, 0x23] data order = expressionJsonKey [0x23, 0x2e] data order := by
  refine ⟨?_, by simp [expressionJsonKey]⟩
  unfold expressionJsonKey viewFlags
  split
  · rfl
  · split
    · rfl
    · split <;> rfl

/-- **`MarshalStringMapInferred` (pkg/minijson/util.go) is valid and faithful for EVERY map and every
iteration order**: the text parses, and its members are the entries in the order `range` produced them,
every value the exact string (in spite of the function's name nothing is inferred). -/
theorem marshal_valid_faithful (order : List (Bytes × Bytes)) :
    parseObj (marshalStringMap order) = some (order.map fun p => (p.1, JVal.str p.2)) ∧
    membersDecode (order.map fun p => (p.1, JVal.str p.2)) order = true := by
  rw [marshal_text]
  exact ⟨parseObj_objText _ _, membersDecode_string order⟩

/-- … but it is NOT deterministic: the entries are written in map iteration order (no sort), so two
evaluations on the same map may give different texts.  The function is exported but no command calls it
(the views go through `json` / `buildSpecialKeyJson`, which sort), so the property is not affected; the
member *sets* agree (`marshal_valid_faithful`: a permutation of the entries). -/
theorem marshal_order_counterexample :
    ∃ o₁ o₂ : List (Bytes × Bytes), o₁.Perm o₂ ∧ (o₁.map (·.1)).Nodup ∧ marshalStringMap o₁ ≠ marshalStringMap o₂ :=
  ⟨[(lit "a", lit "1"), (lit "b", lit "2")], [(lit "b", lit "2"), (lit "a", lit "1")],
    List.Perm.swap _ _ _, by decide, by decide⟩

/-- **`WriteInt`** (`strconv.Itoa` as a bare literal) is a JSON number of exactly that value for EVERY `int`,
negative ones included. -/
theorem writeInt_valid (key : Bytes) (n : Int) :
    parseObj ((JB.opened.writeInt key n).close.sb) = some [(key, .num n 0)] := by
  have h := writeAllW_opened (writeInt_eq n) [(key, [])]
  simp only [writeAllW, List.foldl_cons, List.foldl_nil] at h
  rw [h, parseObj_objText]
  rfl

/-- **Seam with C02's model of `GetKey`**: C02 answers the placeholder `.json` ("property C16") for exactly
the keys C16 models as JSON views, and those keys are decided BEFORE the name table is consulted – a
dissect field named `#` or `.` can never be read through `{#}` / `{.}`. -/
theorem getKey_json_iff_view (c : C02.MatchCtx) (key : Bytes) :
    (getKeyJson key c.names c.indices c.line).isSome = (viewFlags key).isSome ∧
    (C02.getKey c key = .ok .json ↔ (viewFlags key).isSome = true) := by
  have e1 : ascii "." = [0x2e] := by decide +kernel
  have e2 : ascii "#" = [0x23] := by decide +kernel
  have e3 : ascii ".#" = [0x2e, 0x23] := by decide +kernel
  have e4 : ascii "#." = [0x23, 0x2e] := by decide +kernel
  have e5 : ascii "src" = [0x73, 0x72, 0x63] := by decide +kernel
  have e6 : ascii "line" = [0x6c, 0x69, 0x6e, 0x65] := by decide +kernel
  have e7 : ascii "@" = [0x40] := by decide +kernel
  refine ⟨by rw [(view_keys key c.names c.indices c.line).1]; cases viewFlags key <;> rfl, ?_⟩
  have hv : (viewFlags key).isSome = true ↔ key = [0x2e] ∨ key = [0x23] ∨ key = [0x2e, 0x23] ∨ key = [0x23, 0x2e] := by
    rw [← (view_keys key c.names c.indices c.line).2.2]
    cases viewFlags key <;> simp
  rw [hv]
  unfold C02.getKey
  rw [e1, e2, e3, e4, e5, e6, e7]
  constructor
  · intro h
    split at h
    · cases h
    · split at h
      · cases h
      · split at h
        · assumption
        · split at h
          · cases ha : C02.array c.line c.indices <;> simp [ha, Except.map] at h
          · split at h
            · rename_i p _
              cases hg : C02.getMatch c.line c.indices p.2 <;> simp [hg, Except.map] at h
            · cases h
  · intro h
    have n1 : key ≠ [0x73, 0x72, 0x63] := by rcases h with h | h | h | h <;> subst h <;> decide
    have n2 : key ≠ [0x6c, 0x69, 0x6e, 0x65] := by rcases h with h | h | h | h <;> subst h <;> decide
    rw [if_neg n1, if_neg n2, if_pos h]

/-! ### round 4: the translator tie – `isNumeric` statement by statement, the key switch, control skeletons -/

/-- **The hand model of `isNumeric` is the source's function.**  `Rare.Gen.C16.isNumeric` is regenerated on
every run from the body of `isNumeric` in pkg/minijson/minijson.go, statement by statement (the
leading-zero guard, `i := 0`, the two `for ; i < len(s); i++` loops with their `if`s, early `return`s,
`i++` and `break`, the final `return i > 0`; index arithmetic over `Int`, bytes by `s[i]`).  For EVERY byte
string it computes what the list-recursive model (`numLoop1`, `numLoop2`) computes – so
`numeric_iff_plain_json_number`, `numeric_same_rational`, … are theorems about the code as it is in /repo,
and a changed comparison, constant, branch or statement order there breaks this theorem. -/
theorem isNumeric_matches_source (s : Bytes) : isNumeric s = Gen.C16.isNumeric s := by
  unfold isNumeric Gen.C16.isNumeric
  simp only []
  by_cases hg : 1 < s.length ∧ s.head? = some 0x30 ∧ s.tail.head? ≠ some 0x2e
  · rw [if_pos hg, if_pos ((guard_eq s).mpr hg)]
  · rw [if_neg hg, if_neg (fun h => hg ((guard_eq s).mp h))]
    refine (loops_eq s _ _ ?_ ?_).symm
    · intro pre c r hs
      subst hs
      simp only [byteAt_mid, decide_eq_true_eq, dot_iff, Bool.or_eq_true, bad_iff]
      by_cases hdot : c = 0x2e
      · simp only [hdot, if_true]
        by_cases h0 : pre.length = 0
        · simp [h0]
        · have h0' : ¬ ((pre.length : Int) = 0) := by omega
          simp only [h0, h0', if_false]
          by_cases hr : r = []
          · simp [hr]
          · have hp := List.length_pos_iff.mpr hr
            have : ¬ ((pre.length : Int) + 1 ≥ ((pre ++ 0x2e :: r).length : Int)) := by
              simp only [List.length_append, List.length_cons]; omega
            simp only [this, if_false, hr]
      · simp only [hdot, if_false]
    · intro pre c r hs
      subst hs
      simp only [byteAt_mid, decide_eq_true_eq, Bool.or_eq_true, bad_iff]

/-- **The key switch of `GetKey`**: the cases that answer with `s.json(named, numbered)`, taken from the
source, are exactly `viewFlags` (and therefore `getKeyJson`, `view_keys`): `"."` ↦ named only, `"#"` ↦
numbered only, `".#"` and `"#."` ↦ both; every other key is not a JSON view. -/
theorem key_switch_is_source (key : Bytes) :
    viewFlags key = ((Gen.C16.jsonKeyCases.find? fun row => row.1.contains key).map fun row => row.2) := by
  have e : Gen.C16.jsonKeyCases =
      [([[0x2e]], true, false), ([[0x23]], false, true), ([[0x2e, 0x23], [0x23, 0x2e]], true, true)] := by decide
  rw [e]
  unfold viewFlags
  by_cases h1 : key = [0x2e]
  · subst h1; decide
  · by_cases h2 : key = [0x23]
    · subst h2; decide
    · by_cases h3 : key = [0x2e, 0x23]
      · subst h3; decide
      · by_cases h4 : key = [0x23, 0x2e]
        · subst h4; decide
        · have b1 : (key == [0x2e]) = false := by simpa using h1
          have b2 : (key == [0x23]) = false := by simpa using h2
          have b3 : (key == [0x2e, 0x23]) = false := by simpa using h3
          have b4 : (key == [0x23, 0x2e]) = false := by simpa using h4
          simp [h1, h2, h3, h4, List.find?, List.contains, List.elem, b1, b2, b3, b4]

/-- **Control skeletons of the functions the model mirrors**, regenerated from /repo (statement texts without
white space, blocks bracketed): `json` (names collected, `sort.Strings`, named loop BEFORE the numbered loop,
numbered loop from 0 to `len(indices)/2` skipping empty values, every value through `WriteInferred`),
`buildSpecialKeyJson` (indexed arguments first, then the sorted keys, all through `WriteString`),
`parseKeyValue` / `parseKeyValuesIntoMap`, `MarshalStringMapInferred` (no sort), `WriteInferred` (numeric test,
then the two length-guarded `EqualFold`s, then string), `WriteInt`, `writeKey` (separator, quote, ESCAPED key),
`WriteString` (ESCAPED value between quotes), `WriteLiteral`, `escape` and `createGroupNameTable`.
`Model/C16.lean` was written against these; a reordered loop, a dropped sort, a changed bound or a changed
call in /repo breaks this theorem. -/
theorem control_skeletons_are_source :
    Gen.C16.jsonOutline =
      ["varjbminijson.JsonObjectBuilder", "jb.OpenEx(len(s.nameTable)*50)", "if named{",
       "names:=make([]string,0,len(s.nameTable))", "range name:=s.nameTable{", "names=append(names,name)", "}",
       "sort.Strings(names)", "range _,name:=names{", "jb.WriteInferred(name,s.GetMatch(s.nameTable[name]))", "}", "}",
       "if numbered{", "for i:=0;i<len(s.indices)/2;i++{", "if val:=s.GetMatch(i);val!=\"\"{",
       "jb.WriteInferred(strconv.Itoa(i),val)", "}", "}", "}", "jb.Close()", "returnjb.String()"] ∧
    Gen.C16.specialOutline =
      ["varjsonminijson.JsonObjectBuilder", "json.Open()", "range i,val:=matches{",
       "json.WriteString(strconv.Itoa(i),val)", "}", "keys:=make([]string,0,len(values))", "range k:=values{",
       "keys=append(keys,k)", "}", "sort.Strings(keys)", "range _,k:=keys{", "json.WriteString(k,values[k])", "}",
       "json.Close()", "returnjson.String()"] ∧
    Gen.C16.parseKeyValueOutline =
      ["idx:=strings.IndexByte(s,'=')", "if idx<0{", "returns,s", "}", "returns[:idx],s[idx+1:]"] ∧
    Gen.C16.parseKeyValuesIntoMapOutline =
      ["ret:=make(map[string]string)", "range _,item:=kvs{", "k,v:=parseKeyValue(item)", "ret[k]=v", "}", "returnret"] ∧
    Gen.C16.marshalOutline =
      ["varjbJsonObjectBuilder", "jb.OpenEx(len(s)*50)", "range k,v:=s{", "jb.WriteString(k,v)", "}", "jb.Close()",
       "returnjb.String()"] ∧
    Gen.C16.writeInferredOutline =
      ["if isNumeric(val){", "s.WriteLiteral(key,val)", "}", "else{",
       "if len(val)==4&&strings.EqualFold(val,\"true\"){", "s.WriteLiteral(key,\"true\")", "}", "else{",
       "if len(val)==5&&strings.EqualFold(val,\"false\"){", "s.WriteLiteral(key,\"false\")", "}", "else{",
       "s.WriteString(key,val)", "}", "}", "}"] ∧
    Gen.C16.writeIntOutline = ["s.writeKey(key)", "s.sb.WriteString(strconv.Itoa(val))"] ∧
    Gen.C16.writeKeyOutline =
      ["if s.keyCount>0{", "s.sb.WriteString(\",\")", "}", "s.sb.WriteRune('\"')", "s.sb.WriteString(escape(key))",
       "s.sb.WriteString(\"\\\":\")", "s.keyCount++"] ∧
    Gen.C16.writeStringOutline =
      ["s.writeKey(key)", "s.sb.WriteRune('\"')", "s.sb.WriteString(escape(val))", "s.sb.WriteRune('\"')"] ∧
    Gen.C16.writeLiteralOutline = ["s.writeKey(key)", "s.sb.WriteString(literal)"] ∧
    Gen.C16.escapeOutline =
      ["varsbstrings.Builder", "hasMapped:=false", "for i:=0;i<len(s);i++{", "c:=s[i]",
       "if int(c)<len(escapeLookup)&&escapeLookup[c]!=\"\"{", "if !hasMapped{", "sb.Grow(len(s)+5)",
       "sb.WriteString(s[:i])", "hasMapped=true", "}", "sb.WriteString(escapeLookup[c])", "}", "else{",
       "if hasMapped{", "sb.WriteByte(c)", "}", "}", "}", "if hasMapped{", "returnsb.String()", "}", "returns"] ∧
    Gen.C16.regexTableOutline =
      ["ret=make(map[string]int)", "range idx,name:=re.SubexpNames(){", "if name!=\"\"{", "ret[name]=idx", "}", "}",
       "return"] := by
  decide

/-- **No shared mutable state behind the views** (why evaluating them on several worker goroutines at once
cannot make them non-deterministic), read off the source on every run: pkg/minijson has exactly one
package-level variable, the escape table, and no statement of the package assigns to it, takes its address
or passes it on; every function that builds a view declares its `JsonObjectBuilder` as a local variable and
does nothing with it but call its methods (no `&jb`, no closure, no `go`), so each evaluation has a builder
of its own.  The match itself (`linePtr`, `indices`, `nameTable`) is only read (`GetMatch`, `range`, index).
(`extra/C16.py` runs the built CLI with the race detector under 8 workers in the thorough tier.) -/
theorem views_share_no_mutable_state :
    Gen.C16.packageVars = ["escapeLookup"] ∧ Gen.C16.packageVarWrites = [] ∧
    Gen.C16.builderUses =
      [("SliceSpaceExpressionContext.json",
          ["local:jb", "call:OpenEx", "call:WriteInferred", "call:WriteInferred", "call:Close", "call:String"]),
       ("buildSpecialKeyJson",
          ["local:json", "call:Open", "call:WriteString", "call:WriteString", "call:Close", "call:String"]),
       ("MarshalStringMapInferred", ["local:jb", "call:OpenEx", "call:WriteString", "call:Close", "call:String"])] := by
  decide

/-! ### non-vacuity -/

/-- a match with two named groups and a numbered view: `json` returns, hypotheses are satisfiable -/
example :
    (json true true [(lit "b\"", 2), (lit "a", 1)] [0, 7, 0, 3, 4, 7] (lit "007 x\ny")).toOption
      = some (lit "{\"a\": \"007\", \"b\\\"\": \"x\\ny\", \"0\": \"007 x\\ny\", \"1\": \"007\", \"2\": \"x\\ny\"}") := by
  decide

example : ([(lit "b\"", (2 : Int)), (lit "a", 1)].map (·.1)).Nodup := by decide

/-- numbers, booleans and control bytes really occur as such -/
example : parseObj (lit "{\"n\": 10.25, \"t\": true, \"s\": \"\\u0001\"}")
    = some [(lit "n", .num 1025 (-2)), (lit "t", .bool true), (lit "s", .str [1])] := by decide

example : isNumeric (lit "10.25") = true ∧ isNumeric (lit "007") = false ∧ isNumeric (lit "0.5") = true := by
  decide

/-- the parser is not trivially accepting: raw control bytes, leading zeros, unescaped quotes fail -/
example : parseObj [0x7b, 0x22, 0x30, 0x22, 0x3a, 0x20, 0x22, 0x01, 0x22, 0x7d] = none := by decide
example : parseObj (lit "{\"0\": 007}") = none := by decide
example : parseObj (lit "{\"a\"\": 1}") = none := by decide

example : FitsLine [0, 7, 0, 3, 4, 7, -1, -1] (lit "007 x\ny") := by
  intro k hk
  have : k = 0 ∨ k = 1 ∨ k = 2 ∨ k = 3 := by simp at hk; omega
  rcases this with h | h | h | h <;> subst h <;> decide

example : (buildSpecialKeyJson [lit "x\"y"] [(lit "k", lit "007"), (lit "a", lit "\t")])
    = lit "{\"0\": \"x\\\"y\", \"a\": \"\\t\", \"k\": \"007\"}" := by decide

/-- the UTF-8 DFA accepts and rejects what it should -/
example : validUtf8 [0x68, 0xc3, 0xa9, 0xe6, 0x97, 0xa5, 0xf0, 0x9f, 0x98, 0x80] = true ∧
    validUtf8 [0xc0, 0x80] = false ∧ validUtf8 [0xed, 0xa0, 0x80] = false ∧
    validUtf8 [0xf4, 0x90, 0x80, 0x80] = false ∧ validUtf8 [0xe2, 0x82] = false ∧ validUtf8 [0xff] = false := by
  decide

/-- the slice-bounds panic is reachable (so `= .ok out` is a real hypothesis) -/
example : (json false true [] [0, 9] (lit "abc")).toBool = false := by decide

/-- `GoTyped` and distinct names hold of the table above -/
example : GoTyped [(lit "b\"", 2), (lit "a", 1)] [0, 7, 0, 3, 4, 7] :=
  ⟨by intro p hp; simp at hp; rcases hp with h | h <;> subst h <;> decide, by decide⟩

/-- the tables as built: `(?P<a>…)(…)(?P<b>…)(?P<a>…)` – a repeated name keeps its last group – and a
dissect pattern with a skipped token; a repeated dissect key is a compile error -/
example : regexNameTable [[], lit "a", [], lit "b", lit "a"] = [(lit "a", 4), (lit "b", 3)] := by decide
example : (dissectNameTable [(lit "x", false), (lit "", true), (lit "y\"", false)]).toOption
    = some [(lit "x", 1), (lit "y\"", 2)] := by decide
example : (dissectNameTable [(lit "x", false), (lit "x", false)]).toBool = false := by decide

/-- huge group numbers: from 2^62 on `idx * 2` wraps; the answer is the empty text, as for any group
that does not exist (with unbounded arithmetic `4611686018427387904 * 2` would not be negative) -/
example : (getMatch [0, 3] (lit "abc") 4611686018427387904).toOption = some [] ∧
    (getMatch [0, 3] (lit "abc") 9223372036854775807).toOption = some [] ∧
    (getMatch [0, 3] (lit "abc") (-9223372036854775808)).toOption = some [] ∧
    (getMatch [0, 3] (lit "abc") 0).toOption = some (lit "abc") := by decide

/-- the four keys on one match: member sets and order -/
example :
    (getKeyJson (lit ".") [(lit "z", 1), (lit "b", 2)] [0, 3, 0, 1, 2, 3, -1, -1] (lit "x y")).map Except.toOption
      = some (some (lit "{\"b\": \"y\", \"z\": \"x\"}")) ∧
    (getKeyJson (lit "#") [(lit "z", 1), (lit "b", 2)] [0, 3, 0, 1, 2, 3, -1, -1] (lit "x y")).map Except.toOption
      = some (some (lit "{\"0\": \"x y\", \"1\": \"x\", \"2\": \"y\"}")) ∧
    (getKeyJson (lit "#.") [(lit "z", 1), (lit "b", 2)] [0, 3, 0, 1, 2, 3, -1, -1] (lit "x y")).map Except.toOption
      = some (some (lit "{\"b\": \"y\", \"z\": \"x\", \"0\": \"x y\", \"1\": \"x\", \"2\": \"y\"}")) ∧
    (getKeyJson (lit "src") [] [0, 1] (lit "x")).isNone = true := by decide

/-- a repeated member name is possible: `(b)(?P<1>a)` on `ba` -/
example : (json true true [(lit "1", 2)] [0, 2, 0, 1, 1, 2] (lit "ba")).toOption
    = some (lit "{\"1\": \"a\", \"0\": \"ba\", \"1\": \"b\", \"2\": \"a\"}") := by decide

/-- numbers: what is and is not numeric for the writer -/
example : isNumeric (lit "0") = true ∧ isNumeric (lit "0.50") = true ∧ isNumeric (lit "12345678901234567890123") = true ∧
    isNumeric (lit "-0") = false ∧ isNumeric (lit "+1") = false ∧ isNumeric (lit ".5") = false ∧
    isNumeric (lit "5.") = false ∧ isNumeric (lit "1e400") = false ∧ isNumeric (lit "1E5") = false ∧
    isNumeric (lit "00") = false ∧ isNumeric (lit "") = false ∧ isNumeric (lit "1.2.3") = false := by decide

example : parseNumber (lit "10.250") = some (.num 10250 (-3), []) ∧ decimalValue (lit "10.250") = some (10250, -3) := by
  decide

/-- booleans: the spellings, and what is not one -/
example : (spellings litTrue).length = 16 ∧ (spellings litFalse).length = 32 ∧
    lit "tRuE" ∈ spellings litTrue ∧ lit "FALSE" ∈ spellings litFalse ∧
    [0x66, 0x61, 0x6c, 0xc5, 0xbf, 0x65] ∉ spellings litFalse ∧ lit " true" ∉ spellings litTrue := by decide

/-- ill-formed captures: the bytes are copied, the text is not UTF-8, and with U+FFFD substituted it is
the text of the substituted capture -/
example : (json false true [] [0, 3] [0x61, 0xff, 0x22]).toOption
      = some (lit "{\"0\": \"a" ++ [0xff] ++ lit "\\\"\"}") ∧
    validUtf8 (lit "{\"0\": \"a" ++ [0xff] ++ lit "\\\"\"}") = false ∧
    sanitize (lit "{\"0\": \"a" ++ [0xff] ++ lit "\\\"\"}") = lit "{\"0\": \"a" ++ fffd ++ lit "\\\"\"}" ∧
    sanitize [0x61, 0xe2, 0x82, 0x41, 0xc3, 0xa9, 0xed, 0xa0, 0x80]
      = [0x61] ++ fffd ++ fffd ++ [0x41, 0xc3, 0xa9] ++ fffd ++ fffd ++ fffd := by decide

/-! non-vacuity of the round-4 theorems -/
example : parseKeyValue (lit "a=b=c") = (lit "a", lit "b=c") ∧ parseKeyValue (lit "abc") = (lit "abc", lit "abc") ∧
    parseKeyValue (lit "=v") = ([], lit "v") ∧ parseKeyValue (lit "k=") = (lit "k", []) := by decide +kernel
example : parseKeyValuesIntoMap [lit "a=1", lit "b=2", lit "a=3"] = [(lit "a", lit "3"), (lit "b", lit "2")] := by
  decide +kernel
example : lastValue ([lit "a=1", lit "b=2", lit "a=3"].map parseKeyValue) (lit "a") = some (lit "3") := by decide +kernel
example : buildSpecialKeyJson [lit "x"] (parseKeyValuesIntoMap [lit "0=y"]) = lit "{\"0\": \"x\", \"0\": \"y\"}" := by
  decide +kernel
example : (JB.opened.writeInt (lit "n") (-42)).close.sb = lit "{\"n\": -42}" ∧
    (JB.opened.writeInt (lit "n") 0).close.sb = lit "{\"n\": 0}" := by decide +kernel
example : marshalStringMap [(lit "b", lit "007"), (lit "a", lit "true")] = lit "{\"b\": \"007\", \"a\": \"true\"}" := by
  decide +kernel
example : expressionJsonKey (lit "#") [lit "d"] [(lit "k", lit "v")] = some (lit "{\"0\": \"d\"}") ∧
    expressionJsonKey (lit ".") [lit "d"] [(lit "k", lit "v")] = some (lit "{\"k\": \"v\"}") ∧
    expressionJsonKey (lit "#.") [lit "d"] [(lit "k", lit "v")] = some (lit "{\"0\": \"d\", \"k\": \"v\"}") := by
  decide +kernel
example : plainChars (lit "10.5") = true ∧ plainChars (lit "1e5") = false := by decide

/-! ### seams: the same code modelled for C02 / C08 and for C12 -/

/-- **The two hand models of `SliceSpaceExpressionContext.GetMatch` are one function**: C16's
`getMatch` (this property) and C02's `C02.getMatch` (the one C08 ties, guard by guard, to the chain
generated from the Go source: `c02_getMatch_eq_gen` in `Props/C08.lean`) agree on every index slice,
line and index – results, empty answers and the slice-bounds panic alike.  Every theorem above about
`json` is therefore a theorem about the `GetMatch` of C02/C08. -/
theorem getMatch_models_agree (indices : List Int) (line : Bytes) (idx : Int) :
    getMatch indices line idx = C02.getMatch line indices idx :=
  getMatch_eq_c02 indices line idx

/-- **The dissect name table assumed here is the one `CompileEx` builds** (C12's model of
`dissect.CompileEx`, `Rare/Model/C12.lean`).  For EVERY pattern text and either mode:

* if `CompileEx` succeeds with `d`, then `dissectNameTable` run on the compiled tokens – `(name, skip)`
  in pattern order – succeeds with exactly `d.groupNames` (the Go map, same names, same numbers), these
  names are the names of the capturing tokens in pattern order, and they are numbered `1 … groupCount`;
* if `CompileEx` answers `ErrorKeyConflict`, the text is `p.render ++ tail` of a well-formed `p`
  (+ optionally an unclosed token) and `dissectNameTable` answers `key conflict` on `p`'s tokens;
* a token list on which `dissectNameTable` fails is never compiled. -/
theorem dissect_name_table_is_compile (pat : Bytes) (ic : Bool) :
    (∀ d, C12.compileEx pat ic = .ok d →
        dissectNameTable (d.tokens.map tokenView) = .ok (castTable d.groupNames) ∧
        d.groupNames.map (·.1) = (d.tokens.filter (fun t => !t.skip)).map (·.name) ∧
        d.groupNames.map (·.2) = List.range' 1 d.groupCount) ∧
    (C12.compileEx pat ic = .error .conflict →
        ∃ (p : C12.Pat) (tail : Option Bytes), p.Shape ∧ pat = p.render ++ C12.tailText tail ∧
          dissectNameTable (p.toks.map tokView) = .error "key conflict") ∧
    (∀ (p : C12.Pat) (m : String), p.Shape → pat = p.render →
        dissectNameTable (p.toks.map tokView) = .error m → ∃ e, C12.compileEx pat ic = .error e) := by
  refine ⟨?_, ?_, ?_⟩
  · intro d h
    obtain ⟨p, hp, hs⟩ := C12.compiles_is_pattern h
    subst hs
    obtain ⟨he, hd⟩ := C12.compileEx_ok hp h
    subst hd
    have hn := nameTable_numbers p.toks
    refine ⟨?_, ?_, hn.1⟩
    · simp only [C12.compiled, tokenView_tokOf]
      exact dissectNameTable_compiled he
    · simp only [C12.compiled]
      rw [hn.2]
      simp [C12.tokOf, List.filter_map, Function.comp_def]
  · intro h
    obtain ⟨p, tail, hp, ht, hs⟩ := C12.parse_total pat
    refine ⟨p, tail, hp, hs, ?_⟩
    rw [hs, C12.compileEx_render ic p hp tail ht] at h
    cases he : C12.specErrors tail.isSome p.toks [] with
    | none => rw [he] at h; cases h
    | some e =>
      rw [he] at h
      cases e <;> simp [C12.cerr] at h
      exact dissectTableGo_of_conflict tail.isSome p.toks [] 0 [] (by simp) he
  · intro p m hp hs hm
    subst hs
    rw [C12.compileEx_pat ic p hp]
    cases he : C12.specErrors false p.toks [] with
    | some e => exact ⟨_, rfl⟩
    | none => rw [dissectNameTable_compiled he] at hm; cases hm

/-- `json_valid_faithful_dissect` with the table taken from C12's `CompileEx` itself: whatever pattern
text compiles (either mode), in any iteration order `σ` of its `SubexpNameTable()`, the JSON views
are valid and faithful.  (`hn` is the Go typing fact "a slice length is an `int`".) -/
theorem json_valid_faithful_compiled (named numbered : Bool) (pat : Bytes) (ic : Bool) (d : C12.Dissect)
    (hc : C12.compileEx pat ic = .ok d) (σ : List (Bytes × Int)) (indices : List Int) (line out : Bytes)
    (hσ : σ.Perm (castTable d.groupNames))
    (hn : (d.tokens.length : Int) ≤ maxInt64) (hl : (indices.length : Int) ≤ maxInt64)
    (h : json named numbered σ indices line = .ok out) :
    ∃ ms es, parseObj out = some ms ∧
      es.Perm (if named then expectedNamed (castTable d.groupNames) indices line else []) ∧
      es.Pairwise (fun a b => bytesLe a.1 b.1 = true) ∧
      membersDecode ms (es ++ (if numbered then expectedNumbered indices line else [])) = true :=
  json_valid_faithful_dissect named numbered (d.tokens.map tokenView) (castTable d.groupNames) σ indices line out
    ((dissect_name_table_is_compile pat ic).1 d hc).1 hσ (by simpa using hn) hl h

/-! non-vacuity of the seam theorems: `k=%{x} %{?s};%{y}` compiles to the table `x ↦ 1, y ↦ 2`,
`%{a} %{a}` is a key conflict in both models, and the two `GetMatch` models compute a group -/
example : ∃ d, C12.compileEx (lit "k=%{x} %{?s};%{y}") false = .ok d ∧
    castTable d.groupNames = [(lit "x", 1), (lit "y", 2)] ∧
    (dissectNameTable (d.tokens.map tokenView)).toOption = some [(lit "x", 1), (lit "y", 2)] :=
  ⟨C12.compiled false ⟨lit "k=", [⟨lit "x", lit " "⟩, ⟨lit "?s", lit ";"⟩, ⟨lit "y", []⟩]⟩, by rfl, by decide +kernel, by decide +kernel⟩
example : C12.compileEx (lit "%{a} %{a}") false = .error .conflict ∧
    (dissectNameTable [(lit "a", false), (lit "a", false)]).toBool = false := by
  exact ⟨by rfl, by decide +kernel⟩
example : (getMatch [0, 7, 0, 3, 4, 7] (lit "007 x\ny") 2).toOption = some (lit "x\ny") ∧
    (C02.getMatch (lit "007 x\ny") [0, 7, 0, 3, 4, 7] 2).toOption = some (lit "x\ny") := by decide +kernel

/-! ### round 4b: the view as an aggregation key – one line, one array element, a complete invariant -/

/-- **No control byte in a view** – whatever bytes the groups captured and whatever the group names are: every
byte of the text is ≥ 0x20.  So the text is ONE line (no LF / CR inside a key that a line-oriented consumer reads
back), has no tab (the column separator of `--csv`-style outputs) and no NUL – rare's `ArraySeparator`, which
the aggregators use to split a key into its parts.  The same for the emulated views of `rare expression` and for
`MarshalStringMapInferred`. -/
theorem view_text_no_control_bytes :
    (∀ (named numbered : Bool) (order : List (Bytes × Int)) (indices : List Int) (line out : Bytes),
      GoTyped order indices → json named numbered order indices line = .ok out → ∀ b ∈ out, 0x20 ≤ b) ∧
    (∀ (texts : List Bytes) (order : List (Bytes × Bytes)), ∀ b ∈ buildSpecialKeyJson texts order, 0x20 ≤ b) ∧
    (∀ (order : List (Bytes × Bytes)), ∀ b ∈ marshalStringMap order, 0x20 ≤ b) := by
  have conv : ∀ t : Bytes, printable t = true → ∀ b ∈ t, 0x20 ≤ b := by
    intro t h b hb
    simp only [printable, List.all_eq_true, decide_eq_true_eq] at h
    exact h b hb
  refine ⟨?_, ?_, ?_⟩
  · intro named numbered order indices line out hty h
    rw [json_ok_text named numbered order indices line out hty h]
    exact conv _ (objText_printable inferredR valueText_printable _)
  · intro texts order
    rw [special_text]
    exact conv _ (objText_printable stringR stringText_printable _)
  · intro order
    rw [marshal_text]
    exact conv _ (objText_printable stringR stringText_printable _)

/-- **A view survives rare's array convention and the printing of `rare expression`.**  For every view text
`out`: `smartFormatResult` (which rewrites any result containing the array separator as `[a, b, …]`) prints it
unchanged; split at the separator it is one element; and placed anywhere in an array (`MakeArray`) among other
elements without control bytes – other views, for instance – the split gives back exactly the elements.  So
`{.}` can be a part of a multi-part aggregation key (`{.}` NUL `{1}`) without the parts shifting. -/
theorem view_survives_arrays_and_printing (named numbered : Bool) (order : List (Bytes × Int)) (indices : List Int)
    (line out : Bytes) (hty : GoTyped order indices) (h : json named numbered order indices line = .ok out) :
    smartFormatResult out = out ∧ splitSep arraySeparator out = [out] ∧
    ∀ before after : List Bytes, (∀ x ∈ before ++ after, ∀ b ∈ x, 0x20 ≤ b) →
      splitSep arraySeparator (makeArray (before ++ out :: after)) = before ++ out :: after := by
  have hp : printable out = true := by
    rw [json_ok_text named numbered order indices line out hty h]
    exact objText_printable inferredR valueText_printable _
  refine ⟨smartFormat_of_printable out hp, splitSep_not_mem _ out (not_mem_of_printable out hp), ?_⟩
  intro before after hx
  have hall : ∀ x ∈ before ++ out :: after, printable x = true := by
    intro x hm
    rcases List.mem_append.mp hm with hm | hm
    · simp only [printable, List.all_eq_true, decide_eq_true_eq]
      exact hx x (List.mem_append_left _ hm)
    · rcases List.mem_cons.mp hm with rfl | hm
      · exact hp
      · simp only [printable, List.all_eq_true, decide_eq_true_eq]
        exact hx x (List.mem_append_right _ hm)
  cases before with
  | nil => exact split_makeArray out after hall
  | cons b bs => exact split_makeArray b (bs ++ out :: after) hall

/-- **What `canonVal` forgets**: two captures have the same canonical form iff they are the same bytes or two
spellings (ASCII letter case) of the same boolean word. -/
theorem canon_forgets_only_bool_case (a b : Bytes) :
    canonVal a = canonVal b ↔
      a = b ∨ (a ∈ spellings litTrue ∧ b ∈ spellings litTrue) ∨ (a ∈ spellings litFalse ∧ b ∈ spellings litFalse) :=
  canonVal_eq_iff a b

/-- **The value text determines the capture** (up to the case of `true`/`false`): `WriteInferred` writes the same
text after the key for two captures iff their canonical forms agree.  In particular `1`, `1.0`, `1.00`, `01`,
`"1"` all get different texts although some denote the same number – nothing is merged by the numeric reading. -/
theorem value_text_injective (a b : Bytes) : valueText a = valueText b ↔ canonVal a = canonVal b :=
  valueText_eq_iff a b

/-- **The view is a complete invariant of what it shows – it can serve as an aggregation key.**  Two lines matched
by the same extractor (same name table, in any two iteration orders `σ₁ σ₂` of its map) get the SAME view text
if and only if every group the view shows captured the same text in both, up to the letter case of the words
`true` / `false`: all named groups for `{.}`, all numbered groups for `{#}` (a group that is absent and one that
matched the empty text are the same), both for `{.#}`.  `⇐` is determinism (same match ⇒ same key, whatever the
map order), `⇒` says no two different matches are ever merged under one key except by that letter case.
`sameShown` is the decidable form of the right-hand side (the correspondence op `keyeq` compares it with the
equality of the two texts the real `GetKey` returns). -/
theorem json_key_iff (named numbered : Bool) (order σ₁ σ₂ : List (Bytes × Int)) (i1 i2 : List Int)
    (l1 l2 out1 out2 : Bytes) (hσ₁ : σ₁.Perm order) (hσ₂ : σ₂.Perm order)
    (t1 : GoTyped order i1) (t2 : GoTyped order i2) (hnd : (order.map (·.1)).Nodup)
    (h1 : json named numbered σ₁ i1 l1 = .ok out1) (h2 : json named numbered σ₂ i2 l2 = .ok out2) :
    (out1 = out2 ↔ sameShown named numbered order i1 l1 i2 l2 = true) ∧
    (sameShown named numbered order i1 l1 i2 l2 = true ↔
      ((named = true → ∀ p ∈ order, canonVal (capture i1 l1 p.2) = canonVal (capture i2 l2 p.2)) ∧
       (numbered = true → ∀ i : Nat, canonVal (capture i1 l1 (i : Nat)) = canonVal (capture i2 l2 (i : Nat))))) := by
  refine ⟨?_, sameShown_iff named numbered order i1 i2 l1 l2⟩
  have hnd1 : (σ₁.map (·.1)).Nodup := (hσ₁.map (·.1)).nodup_iff.mpr hnd
  have hnd2 : (σ₂.map (·.1)).Nodup := (hσ₂.map (·.1)).nodup_iff.mpr hnd
  rw [json_deterministic named numbered σ₁ order i1 l1 hσ₁ hnd1] at h1
  rw [json_deterministic named numbered σ₂ order i2 l2 hσ₂ hnd2] at h2
  rw [json_ok_text named numbered order i1 l1 out1 t1 h1, json_ok_text named numbered order i2 l2 out2 t2 h2,
    sameShown_iff, objText_eq_iff]
  exact viewMembers_canon_iff named numbered order i1 i2 l1 l2 hnd

/-- `json_key_iff` for a table as the regex wrapper builds it from `SubexpNames()`, in any two iteration orders of
the map: no hypothesis on group numbers or on distinctness is left. -/
theorem json_key_iff_regex (named numbered : Bool) (names : List Bytes) (σ₁ σ₂ : List (Bytes × Int)) (i1 i2 : List Int)
    (l1 l2 out1 out2 : Bytes) (hσ₁ : σ₁.Perm (regexNameTable names)) (hσ₂ : σ₂.Perm (regexNameTable names))
    (hn : (names.length : Int) ≤ maxInt64) (hl1 : (i1.length : Int) ≤ maxInt64) (hl2 : (i2.length : Int) ≤ maxInt64)
    (h1 : json named numbered σ₁ i1 l1 = .ok out1) (h2 : json named numbered σ₂ i2 l2 = .ok out2) :
    out1 = out2 ↔ sameShown named numbered (regexNameTable names) i1 l1 i2 l2 = true :=
  (json_key_iff named numbered (regexNameTable names) σ₁ σ₂ i1 i2 l1 l2 out1 out2 hσ₁ hσ₂
    (regex_typed names _ i1 (List.Perm.refl _) hn hl1).1 (regex_typed names _ i2 (List.Perm.refl _) hn hl2).1
    (regexNameTable_nodup names) h1 h2).1

/-- **The boundary of `json_key_iff`, kernel-checked**: what IS merged under one key.  Two different lines whose
only difference is the letter case of a boolean word get the same `{.}` text; a group that did not take part in the
match and one that matched the empty text get the same `{#}` text (and so do index slices of different length
whose extra groups are absent).  Everything else is told apart – e.g. `1` / `1.0` / `01`, `true` / `true `. -/
theorem key_boundary_witnesses :
    (json true false [(lit "ok", 1)] [0, 4, 0, 4] (lit "TRUE")).toOption =
      (json true false [(lit "ok", 1)] [0, 4, 0, 4] (lit "true")).toOption ∧
    (json false true [] [0, 1, -1, -1] (lit "a")).toOption = (json false true [] [0, 1, 1, 1] (lit "a")).toOption ∧
    (json false true [] [0, 1, -1, -1, -1, -1] (lit "a")).toOption = (json false true [] [0, 1] (lit "a")).toOption ∧
    (json false true [] [0, 1] (lit "1")).toOption ≠ (json false true [] [0, 3] (lit "1.0")).toOption ∧
    (json false true [] [0, 1] (lit "1")).toOption ≠ (json false true [] [0, 2] (lit "01")).toOption ∧
    (json false true [] [0, 4] (lit "true")).toOption ≠ (json false true [] [0, 5] (lit "true ")).toOption := by
  decide +kernel

/-- The same for `rare expression` (every value a string, nothing inferred): the text determines the members
EXACTLY – names and values, byte for byte.  (Not the arguments: `-d x` and `-k 0=x` both give `{"0": "x"}`.) -/
theorem special_text_iff_members (d1 d2 : List Bytes) (o1 o2 : List (Bytes × Bytes)) :
    buildSpecialKeyJson d1 o1 = buildSpecialKeyJson d2 o2 ↔ specialMembers d1 o1 = specialMembers d2 o2 := by
  rw [special_text, special_text]
  exact ⟨objText_string_inj _ _, fun h => by rw [h]⟩

/-- **`rare expression '{.}'` prints the view, whatever `-k` says.**  The emulated keys are assigned after the
`-k` pairs went into the map, so `-k .=x`, `-k '#=y'`, `-k .#=z` cannot replace a view; `{.}` `{#}` `{.#}` `{#.}`
print `buildSpecialKeyJson` of the `-k` pairs / the `-d` values / both, unchanged by `smartFormatResult` (with
or without `--raw`), followed by a line feed unless `-n`. -/
theorem expression_prints_view (raw skipNewline : Bool) (data kvs : List Bytes) (σ : List (Bytes × Bytes))
    (key : Bytes) (f : Bool × Bool) (h : viewFlags key = some f) :
    expressionPrints raw skipNewline data kvs σ key =
      buildSpecialKeyJson (if f.2 then data else []) (if f.1 then σ else []) ++ (if skipNewline then [] else [0x0a]) ∧
    some (buildSpecialKeyJson (if f.2 then data else []) (if f.1 then σ else [])) = expressionJsonKey key data σ := by
  have hp : printable (buildSpecialKeyJson (if f.2 then data else []) (if f.1 then σ else [])) = true := by
    rw [special_text]; exact objText_printable stringR stringText_printable _
  refine ⟨?_, ?_⟩
  · unfold expressionPrints
    simp only [expressionKeys_view data kvs σ key f h]
    cases raw with
    | true => rfl
    | false => simp only [Bool.false_eq_true, if_false, smartFormat_of_printable _ hp]
  · rw [(expression_keys key data σ).1, h]; rfl

/-- **The hand model of `escape` is the source's function.**  `Rare.Gen.C16.escape` is regenerated on every run
from the body of `escape` in pkg/minijson/minijson.go, statement by statement: the locals (`hasMapped`, the
`strings.Builder`) as a record, `for i := 0; i < len(s); i++` as a fold over the indices, `c := s[i]`, the test
`int(c) < len(escapeLookup) && escapeLookup[c] != ""` against the GENERATED table, the lazy copy of `s[:i]` on the
first mapped byte, `WriteString(escapeLookup[c])`, `WriteByte(c)`, and the final `if hasMapped { return sb.String() };
return s`.  For EVERY byte string it computes what the list-recursive model (`escapeLoop`) computes – so
`escape_roundtrip`, `escape_bytewise`, `view_text_no_control_bytes`, … are theorems about the code as it is in /repo,
and a changed condition, branch, statement order or table entry there breaks this theorem. -/
theorem escape_matches_source (s : Bytes) : escape s = Gen.C16.escape s := by
  rw [escape_eq_of_bodySpec s _ (escapeBody_spec escape_table_is_source s)]
  rfl

/-- **The array convention and the printing of `rare expression`, from the source**: the separator constant
(`expressions.ArraySeparator`), the skeletons of `smartFormatResult` and `MakeArray`, and the "Emulate special keys"
block of `expressionFunction` – `expCtx.Keys` starts as the map of the `-k` pairs and the seven emulated keys are
assigned AFTERWARDS, in this order, with these right-hand sides (`Model/C16Cmd.lean: expressionKeys` was written
against them). -/
theorem array_and_printing_are_source :
    Gen.C16.arraySeparator = arraySeparator.toNat ∧
    Gen.C16.smartFormatOutline =
      ["if strings.ContainsRune(s,expressions.ArraySeparator){", "varsbstrings.Builder", "sb.WriteRune('[')", "range idx,val:=strings.Split(s,expressions.ArraySeparatorString){", "if idx>0{", "sb.WriteString(\",\")", "}", "sb.WriteString(val)", "}", "sb.WriteRune(']')", "returnsb.String()", "}", "returns"] ∧
    Gen.C16.makeArrayOutline =
      ["varsbstrings.Builder", "for i:=0;i<len(args);i++{", "if i>0{", "sb.WriteRune(ArraySeparator)", "}", "sb.WriteString(args[i])", "}", "returnsb.String()"] ∧
    Gen.C16.expressionKeysInit = "parseKeyValuesIntoMap(keyPairs...)" ∧
    Gen.C16.emulatedKeys =
      [([0x73, 0x72, 0x63], "\"<args>\""),
      ([0x6c, 0x69, 0x6e, 0x65], "\"0\""),
      ([0x2e], "buildSpecialKeyJson(nil,keys)"),
      ([0x23], "buildSpecialKeyJson(data,nil)"),
      ([0x2e, 0x23], "buildSpecialKeyJson(data,keys)"),
      ([0x23, 0x2e], "expCtx.Keys[\".#\"]"),
      ([0x40], "expressions.MakeArray(data...)")] := by
  decide

/-! non-vacuity of the round-4b theorems -/
example : canonVal (lit "tRuE") = litTrue ∧ canonVal (lit "FALSE") = litFalse ∧ canonVal (lit "truee") = lit "truee" ∧
    canonVal (lit "007") = lit "007" ∧ canonVal [] = [] := by decide
example : valueText (lit "1") ≠ valueText (lit "1.0") ∧ valueText (lit "1") ≠ valueText (lit "\"1\"") ∧
    valueText (lit "TRUE") = valueText (lit "true") ∧ valueText (lit "true ") ≠ valueText (lit "true") := by decide
/-- two different lines, same key: only the case of a boolean word differs; and a pair that differs -/
example : sameShown true true [(lit "ok", 1)] [0, 6, 0, 4, 4, 6] (lit "TRUE 7") [0, 6, 0, 4, 4, 6] (lit "true 7") = false ∧
    sameShown true false [(lit "ok", 1)] [0, 6, 0, 4, 4, 6] (lit "TRUE 7") [0, 6, 0, 4, 4, 6] (lit "true 7") = true ∧
    sameShown false true [] [0, 1, -1, -1] (lit "a") [0, 1] (lit "a") = true ∧
    sameShown false true [] [0, 1] (lit "a") [0, 1] (lit "b") = false := by decide
example : smartFormatResult [0x61, 0, 0x62] = lit "[a, b]" ∧ smartFormatResult (lit "{\"0\": \"a\\u0000b\"}") = lit "{\"0\": \"a\\u0000b\"}" ∧
    splitSep arraySeparator [0x61, 0, 0, 0x62] = [[0x61], [], [0x62]] ∧ makeArray [[0x61], [], [0x62]] = [0x61, 0, 0, 0x62] := by
  decide
example : expressionPrints false false [lit "d"] [lit ".=x", lit "k=v"] (parseKeyValuesIntoMap [lit ".=x", lit "k=v"]) (lit ".")
    = lit "{\".\": \"x\", \"k\": \"v\"}\n" ∧
    expressionPrints false true [lit "a", lit "b"] [] [] (lit "@") = lit "[a, b]" ∧
    expressionPrints true true [lit "a", lit "b"] [] [] (lit "@") = [0x61, 0, 0x62] ∧
    expressionPrints false true [] [lit "src=me"] (parseKeyValuesIntoMap [lit "src=me"]) (lit "src") = lit "<args>" := by
  decide +kernel

/-! ## Round 4c: ONE context object over a HISTORY of matches

The extractor does not build a context per match.  Every worker goroutine owns one
`SliceSpaceExpressionContext` and `processLineSync` re-points it at each matched line; sources are mixed in
the worker's input and line numbers restart at 1 in every source.  "The same match always yields the same
text" is therefore a statement about an object with a past: the text must be a function of the CURRENT
match only. -/

/-- **The worker's loop is the map of a context-free function.**  One worker (`runWorker`: a context created
once with the name table, then `processLineSync` for every line it is handed, expression `{k₁}|{k₂}|…` over
arbitrary keys) produces, for EVERY history `hs` – any sources in any order, equal or restarting line numbers,
unmatched lines in between, the same match again – exactly what the context-free `extractOf` gives line by
line (same panics too). -/
theorem worker_history_is_map (keys : List Bytes) (nt : List (Bytes × Int)) (hs : List Hit) :
    runWorker keys nt hs = hs.mapM (extractOf keys nt) :=
  runWorker_eq_mapM keys nt hs

/-- Pointwise: the outcome at position `i` of a history is determined by the line at position `i` alone. -/
theorem view_is_function_of_current_match (keys : List Bytes) (nt : List (Bytes × Int)) (hs : List Hit)
    (outs : List (Option Bytes)) (hrun : runWorker keys nt hs = .ok outs) :
    outs.length = hs.length ∧
    ∀ (i : Nat) (x : Hit), hs[i]? = some x → ∃ o, outs[i]? = some o ∧ extractOf keys nt x = .ok o := by
  rw [worker_history_is_map] at hrun
  exact mapM_ok_pointwise _ hs outs hrun

/-- The state a context is in does not matter: from ANY context `c` (whatever line, indices, source and line
number an earlier match – or nobody – left in it) `processLineSync` extracts what a fresh context would; only
the name table, which is set at construction and never again, is kept. -/
theorem context_state_is_irrelevant (keys : List Bytes) (c : Ctx) (h : Hit) :
    (processLine keys c h).map (·.2) = extractOf keys c.nameTable h ∧
    ∀ c' o, processLine keys c h = .ok (c', o) → c'.nameTable = c.nameTable := by
  refine ⟨?_, fun c' o hp => processLine_nameTable keys c c' h o hp⟩
  rw [processLine_eq]
  cases extractOf keys c.nameTable h <;> rfl

/-- What the keys read: a view key is `json` of (name table, indices, line) – neither the source nor the line
number enters –, while `{src}` and `{line}` answer exactly those two fields. -/
theorem view_key_reads_match_only (nt : List (Bytes × Int)) (h : Hit) :
    (∀ key a b, viewFlags key = some (a, b) → keyOf nt h key = json a b nt h.indices h.line) ∧
    keyOf nt h keySrc = .ok h.source ∧ keyOf nt h keyLine = .ok (natAscii h.lineNum) :=
  ⟨fun key a b hv => keyOf_view nt h key a b hv, keyOf_src_line nt h⟩

/-- **Aggregation key over a history.**  In the output of one worker for the expression `{key}` (a view key),
the texts at two positions of the history are equal IF AND ONLY IF the two matches show the same captures (up
to the letter case of true/false) – wherever the two lines stand in the history, whatever their sources and
line numbers are (equal line numbers in different sources included).  `⇒` : a match never gets the text of
another match; `⇐` : the same match gets the same text every time. -/
theorem history_key_iff (key : Bytes) (named numbered : Bool) (hv : viewFlags key = some (named, numbered))
    (nt : List (Bytes × Int)) (hs : List Hit) (outs : List (Option Bytes))
    (hrun : runWorker [key] nt hs = .ok outs)
    (i j : Nat) (x y : Hit) (hi : hs[i]? = some x) (hj : hs[j]? = some y)
    (hx : x.indices ≠ []) (hy : y.indices ≠ [])
    (tx : GoTyped nt x.indices) (ty : GoTyped nt y.indices) (hnd : (nt.map (·.1)).Nodup) :
    outs[i]? = outs[j]? ↔ sameShown named numbered nt x.indices x.line y.indices y.line = true := by
  obtain ⟨_, hp⟩ := view_is_function_of_current_match [key] nt hs outs hrun
  obtain ⟨o1, ho1, he1⟩ := hp i x hi
  obtain ⟨o2, ho2, he2⟩ := hp j y hj
  rw [ho1, ho2]
  unfold extractOf at he1 he2
  simp only [hx, hy, if_false, Ctx.buildKeys] at he1 he2
  have k1 := keyOf_view nt x key named numbered hv
  have k2 := keyOf_view nt y key named numbered hv
  unfold keyOf at k1 k2
  rw [k1] at he1
  rw [k2] at he2
  cases h1 : json named numbered nt x.indices x.line with
  | error e => simp [h1, bind, Except.bind] at he1
  | ok t1 =>
    cases h2 : json named numbered nt y.indices y.line with
    | error e => simp [h2, bind, Except.bind] at he2
    | ok t2 =>
      simp [h1, bind, Except.bind, pure, Except.pure] at he1
      simp [h2, bind, Except.bind, pure, Except.pure] at he2
      rw [← (json_key_iff named numbered nt nt nt x.indices y.indices x.line y.line t1 t2
        (List.Perm.refl _) (List.Perm.refl _) tx ty hnd h1 h2).1, ← he1, ← he2]
      by_cases e1 : t1 = [] <;> by_cases e2 : t2 = [] <;> simp [e1, e2]

/-- the history the seeded change `C16-json-memo-linenum` gets wrong, in the model: three one-line files
through one worker, every match is line 1 of its source – each gets its own text; and the same match later in
the history gets the same text again -/
theorem history_witness :
    (runWorker [lit "#"] []
      [⟨lit "f1", 1, [0, 1], lit "a"⟩, ⟨lit "f2", 1, [0, 1], lit "b"⟩, ⟨lit "f3", 1, [], lit "zz"⟩,
       ⟨lit "f1", 1, [0, 1], lit "a"⟩]).toOption
      = some [some (lit "{\"0\": \"a\"}"), some (lit "{\"0\": \"b\"}"), none, some (lit "{\"0\": \"a\"}")] := by
  decide +kernel

/-- fields `processLineSync` assigns, from the generated event list -/
def loadSetFields (ev : List (String × String × String)) : List String :=
  ev.filterMap fun e => if e.1 = "set" then some e.2.1 else none

/-- no assignment to the context comes after the first call the context is handed to -/
def setsBeforeUses (ev : List (String × String × String)) : Bool :=
  (ev.dropWhile fun e => e.1 ≠ "use").all fun e => e.1 ≠ "set"

/-- fields any method of the context reads / may write, from the generated method table -/
def methodReads (ms : List (String × List String × List String × List String × List String)) : List String :=
  ms.flatMap fun m => m.2.1
def methodWrites (ms : List (String × List String × List String × List String × List String)) : List String :=
  ms.flatMap fun m => m.2.2.1

/-- **The context's fields, their writers and their readers ARE the source's** (regenerated from
pkg/extractor/sliceSpaceExpressionContext.go and extractor.go on every run).  The struct has exactly the five
fields of `Ctx`; `processLineSync` binds the worker's context, assigns exactly `linePtr`, `indices`, `source`,
`lineNum` (= `Ctx.load`) and only then hands the context to `IgnoreMatch` / `BuildKey`; the only constructor
site sets `nameTable` (= `Ctx.fresh`), nothing else in the package assigns such a field; NO method of the
context writes a field, takes its address, hands a map/slice field on, or lets the receiver escape; the
methods read no field but the five.  A per-line memo, a cache keyed by line number, a lazily filled field –
any state a method could carry from one match to the next – changes one of these lists. -/
theorem context_is_repointed_per_match_source :
    Gen.C16.ctxFields = [("linePtr", "string"), ("indices", "[]int"), ("nameTable", "map[string]int"),
      ("source", "string"), ("lineNum", "uint64")] ∧
    Gen.C16.ctxLoadEvents = [("bind", "expContext", "s.context"), ("set", "linePtr", "lineStringPtr"),
      ("set", "indices", "matches"), ("set", "source", "source"), ("set", "lineNum", "lineNum"),
      ("use", "s.ignore.IgnoreMatch", ""), ("use", "s.keyBuilder.BuildKey", "")] ∧
    loadSetFields Gen.C16.ctxLoadEvents = ["linePtr", "indices", "source", "lineNum"] ∧
    setsBeforeUses Gen.C16.ctxLoadEvents = true ∧
    Gen.C16.ctxLiterals = ["asyncWorker:nameTable"] ∧ Gen.C16.ctxFieldSetsElsewhere = [] ∧
    Gen.C16.ctxMethods =
      [("GetMatch", ["indices", "linePtr"], [], [], []),
       ("GetKey", ["source", "lineNum", "nameTable"], [], ["json", "array", "GetMatch"], []),
       ("json", ["nameTable", "indices"], [], ["GetMatch"], []),
       ("array", ["indices"], [], ["GetMatch"], [])] ∧
    methodWrites Gen.C16.ctxMethods = [] ∧
    (∀ f ∈ methodReads Gen.C16.ctxMethods,
      f ∈ loadSetFields Gen.C16.ctxLoadEvents ∨ f ∈ ["nameTable"]) := by
  decide

/-- **History independence from the source's own read/write sets.**  Take the fields `processLineSync`
assigns (`W`), the fields the context's methods may write (`MW`) and the fields they read (`R`) as the
translator found them in /repo.  Then for ANY function `view` of the object that reads only `R`, after ANY
history of re-pointings and method calls (`before`), a re-pointing at the match `m` and any number of further
method calls on that match (`after`), `view` answers what it answers on the constructed object re-pointed once
at `m`.  The only premise, `R ∩ MW = ∅`, is decided on the generated lists – with a memo field it is false
(`frame_counterexample` shows the conclusion then fails). -/
theorem context_history_frame_source {V β : Type} (view : Obj V → β)
    (hv : ReadsOnly (methodReads Gen.C16.ctxMethods) view)
    (o₀ : Obj V) (before : List (ObjStep V)) (m : Obj V) (after : List (Obj V)) :
    view ((after.map ObjStep.method).foldl
        (ObjStep.apply (loadSetFields Gen.C16.ctxLoadEvents) (methodWrites Gen.C16.ctxMethods))
        (ObjStep.apply (loadSetFields Gen.C16.ctxLoadEvents) (methodWrites Gen.C16.ctxMethods)
          (before.foldl (ObjStep.apply (loadSetFields Gen.C16.ctxLoadEvents) (methodWrites Gen.C16.ctxMethods)) o₀)
          (.repoint m)))
      = view (ObjStep.apply (loadSetFields Gen.C16.ctxLoadEvents) (methodWrites Gen.C16.ctxMethods) o₀ (.repoint m)) :=
  frame _ _ _ (by decide) view hv o₀ before m after

/-- `GetMatch`, `GetKey` and `array()` – the rest of the context's methods, which `Ctx.getMatch`, `Ctx.getKey`
and `Ctx.array` mirror – statement skeletons from the AST -/
theorem context_methods_are_source :
    Gen.C16.getMatchOutline =
      ["sliceIndex:=idx*2", "if idx<0||sliceIndex<0||sliceIndex+1>=len(s.indices){", "return\"\"", "}",
       "start:=s.indices[sliceIndex]", "end:=s.indices[sliceIndex+1]", "if start<0||end<0{", "return\"\"", "}",
       "returns.linePtr[start:end]"] ∧
    Gen.C16.getKeyOutline =
      ["switchkey{case\"src\":returns.sourcecase\"line\":returnstrconv.FormatUint(s.lineNum,10)case\".\":returns.json(true,false)case\"#\":returns.json(false,true)case\".#\",\"#.\":returns.json(true,true)case\"@\":returns.array()}",
       "if idx,ok:=s.nameTable[key];ok{", "returns.GetMatch(idx)", "}", "returnstdlib.ErrorArgName"] ∧
    Gen.C16.arrayOutline =
      ["varsbstrings.Builder", "for i:=1;i<len(s.indices)/2;i++{", "val:=s.GetMatch(i)", "if i>1{",
       "sb.WriteRune(expressions.ArraySeparator)", "}", "sb.WriteString(val)", "}", "returnsb.String()"] := by
  decide +kernel

/-- the context as C02's model sees it -/
def Ctx.toC02 (c : Ctx) : C02.MatchCtx := ⟨c.linePtr, c.indices, c.nameTable, c.source, c.lineNum⟩

/-- **The two hand models of the whole `GetKey` are one function** (seam with C02, which C08's expression model
evaluates keys through): for EVERY context and key, C02's `getKey` answers its placeholder `.json` exactly on
the view keys, and on every other key – `src`, `line`, `@` (the NUL-joined groups), a group name, an unknown
name – the very bytes (or the panic) of C16's `Ctx.getKey`.  So `worker_history_is_map` and
`context_state_is_irrelevant` speak about the `GetKey` C02/C08 model too. -/
theorem getKey_models_agree (c : Ctx) (key : Bytes) :
    C02.getKey c.toC02 key =
      if (viewFlags key).isSome then .ok .json else (c.getKey key).map C02.KeyAns.val := by
  have e1 : ascii "." = [0x2e] := by decide +kernel
  have e2 : ascii "#" = [0x23] := by decide +kernel
  have e3 : ascii ".#" = [0x2e, 0x23] := by decide +kernel
  have e4 : ascii "#." = [0x23, 0x2e] := by decide +kernel
  have e5 : ascii "src" = keySrc := by decide +kernel
  have e6 : ascii "line" = keyLine := by decide +kernel
  have e7 : ascii "@" = [0x40] := by decide +kernel
  have e8 : Expr.ErrorArgName = errorArgName := by decide +kernel
  have hn : itoa (c.lineNum : Nat) = natAscii c.lineNum := by
    unfold itoa natAscii; simp
  unfold C02.getKey Ctx.getKey Ctx.toC02
  rw [e1, e2, e3, e4, e5, e6, e7, e8]
  simp only []
  by_cases h5 : key = keySrc
  · subst h5; simp [viewFlags, keySrc, Except.map]
  by_cases h6 : key = keyLine
  · subst h6; simp [viewFlags, keySrc, keyLine, Except.map, hn]
  rw [if_neg h5, if_neg h6, if_neg h5, if_neg h6]
  by_cases hv : key = [0x2e] ∨ key = [0x23] ∨ key = [0x2e, 0x23] ∨ key = [0x23, 0x2e]
  · rw [if_pos hv]
    rcases hv with h | h | h | h <;> subst h <;> simp [viewFlags]
  · rw [if_neg hv]
    have hvf : viewFlags key = none := by
      unfold viewFlags
      simp only [not_or] at hv
      simp [hv.1, hv.2.1, hv.2.2.1, hv.2.2.2]
    have hgj : getKeyJson key c.nameTable c.indices c.linePtr = none := by
      rw [(view_keys key c.nameTable c.indices c.linePtr).1, hvf]; rfl
    rw [hvf, hgj]
    simp only [Option.isSome_none, Bool.false_eq_true, if_false]
    by_cases h7 : key = [0x40]
    · rw [if_pos h7, if_pos h7, ctx_array_eq_c02]
    · rw [if_neg h7, if_neg h7]
      cases c.nameTable.find? (fun p => p.1 == key) with
      | none => rfl
      | some p => simp only [Ctx.getMatch, getMatch_eq_c02]

/-! non-vacuity of the round-4c theorems -/
/-- a history with two sources at the same line number; hypotheses of `history_key_iff` hold on it -/
example : (runWorker [lit "."] [(lit "g", 1)]
      [⟨lit "a.log", 7, [0, 1, 0, 1], lit "x"⟩, ⟨lit "b.log", 7, [0, 1, 0, 1], lit "y"⟩]).toOption
      = some [some (lit "{\"g\": \"x\"}"), some (lit "{\"g\": \"y\"}")] ∧
    ([(lit "g", (1 : Int))].map (·.1)).Nodup := ⟨by decide +kernel, by decide⟩
example : GoTyped [(lit "g", 1)] [0, 1, 0, 1] :=
  ⟨by intro p hp; simp at hp; subst hp; decide, by decide⟩
example : (extractOf [lit "g", lit "src", lit "line", lit "@", lit "nope"] [(lit "g", 1)]
      ⟨lit "f", 12, [0, 3, 0, 1, 2, 3], lit "a b"⟩).toOption
    = some (some ((lit "a|f|12|a") ++ [0] ++ (lit "b|<NAME>"))) := by decide +kernel
/-- a view that reads what the source's methods read: `ReadsOnly` is satisfiable and not trivial -/
example : ReadsOnly (methodReads Gen.C16.ctxMethods) (fun o : Obj Nat => o "indices" + o "linePtr") :=
  fun o o' h => by simp [h "indices" (by decide), h "linePtr" (by decide)]

end Rare.C16
