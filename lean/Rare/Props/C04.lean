import Rare.Model.C04
namespace Rare.C04

theorem splitLines_nil : splitLines [] = [] := by
  simp [splitLines, splitGo]

end Rare.C04
