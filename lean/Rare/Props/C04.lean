import Rare.Proofs.C04
import Rare.Proofs.C04Buf
/-!
# C04 — line splitting is exact; returned line buffers are never overwritten

Property theorems for `pkg/readahead/immediate.go` (the scanner the batchers use).
Quantifiers: every byte stream `data`, every read script (chunk sizes incl. 0-byte reads,
an `io.EOF` or another error injected at any position, possibly together with bytes), every
buffer size ≥ 1.  `run` is "call `Scan()` until it returns false".
-/
namespace Rare.C04

/-- Calling `Scan()` until it answers false, with the fuel the driver uses. -/
def Imm.run (bufSize : Nat) (data : Bytes) (script : List Step) : List (View × Bytes) × Bool × Imm :=
  let fuel := data.length + script.length + 3
  Imm.scanAll fuel fuel (Imm.init bufSize ⟨data, script⟩)

private theorem run_good (bufSize : Nat) (data : Bytes) (script : List Step) (h : 1 ≤ bufSize) :
    Good (Imm.init bufSize ⟨data, script⟩) [] := good_init _ _ h

/-- The scanner always runs to completion: no call to `Scan()` fails to return and the
    sequence of calls ends with `false`. -/
theorem imm_terminates (bufSize : Nat) (data : Bytes) (script : List Step) (h : 1 ≤ bufSize) :
    (Imm.run bufSize data script).2.1 = true := by
  apply scanAll_done _ data _ (run_good bufSize data script h)
  · simp [Imm.init]
  · simp [Imm.init, Reader.measure]; omega
  · simp [Imm.init, Imm.consumed]; omega

/-- The tokens are exactly the lines of the bytes the reader delivered (everything read before
    an error included), and those bytes are a prefix of the stream. -/
theorem imm_tokens_eq_split (bufSize : Nat) (data : Bytes) (script : List Step) (h : 1 ≤ bufSize) :
    (Imm.run bufSize data script).1.map (·.2) = splitLines (Imm.run bufSize data script).2.2.delivered ∧
    (Imm.run bufSize data script).2.2.delivered <+: data := by
  have hg := run_good bufSize data script h
  have hdone := imm_terminates bufSize data script h
  constructor
  · have := scanAll_good _ _ hg hdone
    simp only [List.nil_append] at this
    exact this.symm
  · have := scanAll_closed (closed_stream data) (data.length + script.length + 3)
      (data.length + script.length + 3) hg (by simp [Imm.init])
    exact ⟨_, this⟩

/-- With a reader that never reports an error early, every chunking (incl. stalls) yields exactly
    the lines of the whole stream: the result does not depend on the script or the buffer size. -/
theorem imm_chunking_independent (bufSize : Nat) (data : Bytes) (script : List Step) (h : 1 ≤ bufSize)
    (hs : ∀ st ∈ script, st.err = none) :
    (Imm.run bufSize data script).1.map (·.2) = splitLines data := by
  have hg := run_good bufSize data script h
  have hdone := imm_terminates bufSize data script h
  have hstream := scanAll_closed (closed_stream data) (data.length + script.length + 3)
      (data.length + script.length + 3) hg (by simp [Imm.init])
  have hdr := scanAll_closed closed_drained (data.length + script.length + 3)
      (data.length + script.length + 3) hg (s := Imm.init bufSize ⟨data, script⟩)
      ⟨by simpa [Imm.init] using hs, by simp [Imm.init]⟩
  have heof := scanAll_eof _ _ hg hdone
  have hrest := hdr.2 heof
  have hd : (Imm.run bufSize data script).2.2.delivered = data := by
    have := hstream
    unfold Imm.run
    rw [hrest] at this; simpa using this
  rw [(imm_tokens_eq_split bufSize data script h).1, hd]

/-- A slice handed out for a line still reads back as that line after all later scanning:
    no later `Read` or buffer growth overwrites it. -/
theorem imm_tokens_stable (bufSize : Nat) (data : Bytes) (script : List Step) (h : 1 ≤ bufSize) :
    ∀ vb ∈ (Imm.run bufSize data script).1,
      readView (Imm.run bufSize data script).2.2.arrays vb.1 = vb.2 :=
  scanAll_views _ _ (run_good bufSize data script h)

/-- The error callback fires at most once and only together with the end of the stream;
    without a failing read it never fires. -/
theorem imm_error_once (bufSize : Nat) (data : Bytes) (script : List Step) (h : 1 ≤ bufSize) :
    ((Imm.run bufSize data script).2.2.errs = 0 ∨
      ((Imm.run bufSize data script).2.2.errs = 1 ∧ (Imm.run bufSize data script).2.2.eof = true)) ∧
    ((∀ st ∈ script, st.err ≠ some .fail) → (Imm.run bufSize data script).2.2.errs = 0) := by
  have hg := run_good bufSize data script h
  constructor
  · exact scanAll_closed closed_errs _ _ hg (Or.inl (by simp [Imm.init]))
  · intro hs
    exact (scanAll_closed closed_nofail _ _ hg (s := Imm.init bufSize ⟨data, script⟩)
      ⟨by simpa [Imm.init] using hs, by simp [Imm.init]⟩).2

/-- The specification itself: lines are separated by `\n`, carry no `\n`, and re-joining them
    (restoring the dropped `\r`s is impossible, so stated for CR-free input) gives the stream back. -/
theorem splitLines_no_nl (data : Bytes) : ∀ l ∈ splitLines data, nl ∉ l := by
  suffices h : ∀ (d cur : Bytes), nl ∉ cur → ∀ l ∈ splitGo cur d, nl ∉ l from h data [] (by simp)
  intro d
  induction d with
  | nil =>
    intro cur hc l hl
    simp only [splitGo] at hl
    split at hl
    · simp at hl
    · simp at hl; rw [hl]; exact hc
  | cons b rest ih =>
    intro cur hc l hl
    simp only [splitGo] at hl
    split at hl
    · simp only [List.mem_cons] at hl
      rcases hl with rfl | hl
      · intro hmem
        have : nl ∈ cur := (dropCR_prefix cur).subset hmem
        exact hc this
      · exact ih [] (by simp) l hl
    · rename_i hb
      exact ih (cur ++ [b]) (by simp; exact ⟨hc, fun e => hb e.symm⟩) l hl

/-! ## BufferedReadAhead (`pkg/readahead/buffered.go`; `NewBuffered` requires `maxBufLen > 1`) -/

def Buf.run (maxBufLen : Nat) (data : Bytes) (script : List Step) : List (View × Bytes) × Bool × Buf :=
  let fuel := data.length + script.length + 3
  Buf.scanAll fuel fuel (Buf.init maxBufLen ⟨data, script⟩)

private theorem brun_good (m : Nat) (data : Bytes) (script : List Step) (h : 2 ≤ m) :
    BGood (Buf.init m ⟨data, script⟩) [] := bgood_init _ _ h

/-- The buffered scanner always runs to completion. -/
theorem buf_terminates (m : Nat) (data : Bytes) (script : List Step) (h : 2 ≤ m) :
    (Buf.run m data script).2.1 = true := by
  apply bscanAll_done _ data _ (brun_good m data script h)
  · simp [Buf.init]
  · simp [Buf.init, Reader.measure]; omega
  · simp [Buf.init, Buf.consumed]; omega

/-- Its tokens are exactly the lines of the bytes the reader delivered (everything read before an
    error included), and those bytes are a prefix of the stream. -/
theorem buf_tokens_eq_split (m : Nat) (data : Bytes) (script : List Step) (h : 2 ≤ m) :
    (Buf.run m data script).1.map (·.2) = splitLines (Buf.run m data script).2.2.delivered ∧
    (Buf.run m data script).2.2.delivered <+: data := by
  have hg := brun_good m data script h
  have hdone := buf_terminates m data script h
  constructor
  · have := bscanAll_good _ (by omega) _ hg hdone
    simp only [List.nil_append] at this
    exact this.symm
  · have := bscanAll_closed (bclosed_stream data) (data.length + script.length + 3) (by omega)
      (data.length + script.length + 3) hg (by simp [Buf.init])
    exact ⟨_, this⟩

/-- With a reader that reports no error early, every chunking yields the lines of the whole stream. -/
theorem buf_chunking_independent (m : Nat) (data : Bytes) (script : List Step) (h : 2 ≤ m)
    (hs : ∀ st ∈ script, st.err = none) :
    (Buf.run m data script).1.map (·.2) = splitLines data := by
  have hg := brun_good m data script h
  have hdone := buf_terminates m data script h
  have hstream := bscanAll_closed (bclosed_stream data) (data.length + script.length + 3) (by omega)
      (data.length + script.length + 3) hg (by simp [Buf.init])
  have hdr := bscanAll_closed bclosed_drained (data.length + script.length + 3) (by omega)
      (data.length + script.length + 3) hg (s := Buf.init m ⟨data, script⟩)
      ⟨by simpa [Buf.init] using hs, by simp [Buf.init]⟩
  have heof := bscanAll_eof _ (by omega) _ hg hdone
  have hrest := hdr.2 heof
  have hd : (Buf.run m data script).2.2.delivered = data := by
    have := hstream
    unfold Buf.run
    rw [hrest] at this; simpa using this
  rw [(buf_tokens_eq_split m data script h).1, hd]

/-- Slices handed out by the buffered scanner keep their contents (each refill allocates a new array). -/
theorem buf_tokens_stable (m : Nat) (data : Bytes) (script : List Step) (h : 2 ≤ m) :
    ∀ vb ∈ (Buf.run m data script).1,
      readView (Buf.run m data script).2.2.arrays vb.1 = vb.2 :=
  bscanAll_views _ (by omega) _ (brun_good m data script h)

/-- The error callback fires at most once, only together with the end of the stream, and never without
    a failing read. -/
theorem buf_error_once (m : Nat) (data : Bytes) (script : List Step) (h : 2 ≤ m) :
    ((Buf.run m data script).2.2.errs = 0 ∨
      ((Buf.run m data script).2.2.errs = 1 ∧ (Buf.run m data script).2.2.eof = true)) ∧
    ((∀ st ∈ script, st.err ≠ some .fail) → (Buf.run m data script).2.2.errs = 0) := by
  have hg := brun_good m data script h
  constructor
  · exact bscanAll_closed bclosed_errs _ (by omega) _ hg (Or.inl (by simp [Buf.init]))
  · intro hs
    exact (bscanAll_closed bclosed_nofail _ (by omega) _ hg (s := Buf.init m ⟨data, script⟩)
      ⟨by simpa [Buf.init] using hs, by simp [Buf.init]⟩).2

example : (Buf.run 2 [97, 13, 10, 10, 98, 98, 98, 10, 99] [⟨1, none⟩, ⟨0, none⟩, ⟨5, none⟩]).1.map (·.2)
    = [[97], [], [98, 98, 98], [99]] := by decide

/-- Non-vacuity: a concrete stream with CRLF, an empty line, a line longer than the buffer, a
    stalled read and an injected failure alongside data. -/
example : (Imm.run 2 [97, 13, 10, 10, 98, 98, 98, 10, 99] [⟨1, none⟩, ⟨0, none⟩, ⟨5, none⟩]).1.map (·.2)
    = [[97], [], [98, 98, 98], [99]] := by decide

example : (Imm.run 2 [97, 10, 98, 10] [⟨1, none⟩, ⟨2, some .fail⟩]).2.2.errs = 1 := by decide

end Rare.C04
