import Rare.Proofs.C04
import Rare.Proofs.C04Buf
import Rare.Proofs.C04Tie
import Rare.Proofs.C04More
import Rare.Proofs.C04Held
import Rare.Proofs.C04Order
import Rare.Proofs.C04Fuel
import Rare.Proofs.C04Micro
import Rare.Proofs.C04Gz
import Rare.Proofs.C04Rooms
import Rare.Model.C06File
import Rare.Proofs.C06Inflate
import Rare.Proofs.Batcher
import Rare.Model.C04Sync
import Rare.Gen.C04
/-!
# C04 — line splitting is exact; returned line buffers are never overwritten

Property theorems for `pkg/readahead/immediate.go` (the scanner the batchers use).
Quantifiers: every byte stream `data`, every read script (chunk sizes incl. 0-byte reads,
an `io.EOF` or another error injected at any position, possibly together with bytes), every
buffer size ≥ 1.  `run` is "call `Scan()` until it returns false".
-/
namespace Rare.C04

/-- Calling `Scan()` until it answers false, with the fuel the driver uses. -/
def Imm.run (bufSize : Nat) (data : Bytes) (script : List Step) : List (View × Bytes) × Bool × Imm :=
  let fuel := data.length + script.length + 3
  Imm.scanAll fuel fuel (Imm.init bufSize ⟨data, script⟩)

private theorem run_good (bufSize : Nat) (data : Bytes) (script : List Step) (h : 1 ≤ bufSize) :
    Good (Imm.init bufSize ⟨data, script⟩) [] := good_init _ _ h

/-- The scanner always runs to completion: no call to `Scan()` fails to return and the
    sequence of calls ends with `false`. -/
theorem imm_terminates (bufSize : Nat) (data : Bytes) (script : List Step) (h : 1 ≤ bufSize) :
    (Imm.run bufSize data script).2.1 = true := by
  apply scanAll_done _ data _ (run_good bufSize data script h)
  · simp [Imm.init]
  · simp [Imm.init, Reader.measure]; omega
  · simp [Imm.init, Imm.consumed]; omega

/-- The tokens are exactly the lines of the bytes the reader delivered (everything read before
    an error included), and those bytes are a prefix of the stream. -/
theorem imm_tokens_eq_split (bufSize : Nat) (data : Bytes) (script : List Step) (h : 1 ≤ bufSize) :
    (Imm.run bufSize data script).1.map (·.2) = splitLines (Imm.run bufSize data script).2.2.delivered ∧
    (Imm.run bufSize data script).2.2.delivered <+: data := by
  have hg := run_good bufSize data script h
  have hdone := imm_terminates bufSize data script h
  constructor
  · have := scanAll_good _ _ hg hdone
    simp only [List.nil_append] at this
    exact this.symm
  · have := scanAll_closed (closed_stream data) (data.length + script.length + 3)
      (data.length + script.length + 3) hg (by simp [Imm.init])
    exact ⟨_, this⟩

/-- With a reader that never reports an error early, every chunking (incl. stalls) yields exactly
    the lines of the whole stream: the result does not depend on the script or the buffer size. -/
theorem imm_chunking_independent (bufSize : Nat) (data : Bytes) (script : List Step) (h : 1 ≤ bufSize)
    (hs : ∀ st ∈ script, st.err = none) :
    (Imm.run bufSize data script).1.map (·.2) = splitLines data := by
  have hg := run_good bufSize data script h
  have hdone := imm_terminates bufSize data script h
  have hstream := scanAll_closed (closed_stream data) (data.length + script.length + 3)
      (data.length + script.length + 3) hg (by simp [Imm.init])
  have hdr := scanAll_closed closed_drained (data.length + script.length + 3)
      (data.length + script.length + 3) hg (s := Imm.init bufSize ⟨data, script⟩)
      ⟨by simpa [Imm.init] using hs, by simp [Imm.init]⟩
  have heof := scanAll_eof _ _ hg hdone
  have hrest := hdr.2 heof
  have hd : (Imm.run bufSize data script).2.2.delivered = data := by
    have := hstream
    unfold Imm.run
    rw [hrest] at this; simpa using this
  rw [(imm_tokens_eq_split bufSize data script h).1, hd]

/-- A slice handed out for a line still reads back as that line after all later scanning:
    no later `Read` or buffer growth overwrites it. -/
theorem imm_tokens_stable (bufSize : Nat) (data : Bytes) (script : List Step) (h : 1 ≤ bufSize) :
    ∀ vb ∈ (Imm.run bufSize data script).1,
      readView (Imm.run bufSize data script).2.2.arrays vb.1 = vb.2 :=
  scanAll_views _ _ (run_good bufSize data script h)

/-- The error callback fires at most once and only together with the end of the stream;
    without a failing read it never fires. -/
theorem imm_error_once (bufSize : Nat) (data : Bytes) (script : List Step) (h : 1 ≤ bufSize) :
    ((Imm.run bufSize data script).2.2.errs = 0 ∨
      ((Imm.run bufSize data script).2.2.errs = 1 ∧ (Imm.run bufSize data script).2.2.eof = true)) ∧
    ((∀ st ∈ script, st.err ≠ some .fail) → (Imm.run bufSize data script).2.2.errs = 0) := by
  have hg := run_good bufSize data script h
  constructor
  · exact scanAll_closed closed_errs _ _ hg (Or.inl (by simp [Imm.init]))
  · intro hs
    exact (scanAll_closed closed_nofail _ _ hg (s := Imm.init bufSize ⟨data, script⟩)
      ⟨by simpa [Imm.init] using hs, by simp [Imm.init]⟩).2

/-- The specification itself: lines are separated by `\n`, carry no `\n`, and re-joining them
    (restoring the dropped `\r`s is impossible, so stated for CR-free input) gives the stream back. -/
theorem splitLines_no_nl (data : Bytes) : ∀ l ∈ splitLines data, nl ∉ l := by
  suffices h : ∀ (d cur : Bytes), nl ∉ cur → ∀ l ∈ splitGo cur d, nl ∉ l from h data [] (by simp)
  intro d
  induction d with
  | nil =>
    intro cur hc l hl
    simp only [splitGo] at hl
    split at hl
    · simp at hl
    · simp at hl; rw [hl]; exact hc
  | cons b rest ih =>
    intro cur hc l hl
    simp only [splitGo] at hl
    split at hl
    · simp only [List.mem_cons] at hl
      rcases hl with rfl | hl
      · intro hmem
        have : nl ∈ cur := (dropCR_prefix cur).subset hmem
        exact hc this
      · exact ih [] (by simp) l hl
    · rename_i hb
      exact ih (cur ++ [b]) (by simp; exact ⟨hc, fun e => hb e.symm⟩) l hl

/-! ## BufferedReadAhead (`pkg/readahead/buffered.go`; `NewBuffered` requires `maxBufLen > 1`) -/

def Buf.run (maxBufLen : Nat) (data : Bytes) (script : List Step) : List (View × Bytes) × Bool × Buf :=
  let fuel := data.length + script.length + 3
  Buf.scanAll fuel fuel (Buf.init maxBufLen ⟨data, script⟩)

private theorem brun_good (m : Nat) (data : Bytes) (script : List Step) (h : 2 ≤ m) :
    BGood (Buf.init m ⟨data, script⟩) [] := bgood_init _ _ h

/-- The buffered scanner always runs to completion. -/
theorem buf_terminates (m : Nat) (data : Bytes) (script : List Step) (h : 2 ≤ m) :
    (Buf.run m data script).2.1 = true := by
  apply bscanAll_done _ data _ (brun_good m data script h)
  · simp [Buf.init]
  · simp [Buf.init, Reader.measure]; omega
  · simp [Buf.init, Buf.consumed]; omega

/-- Its tokens are exactly the lines of the bytes the reader delivered (everything read before an
    error included), and those bytes are a prefix of the stream. -/
theorem buf_tokens_eq_split (m : Nat) (data : Bytes) (script : List Step) (h : 2 ≤ m) :
    (Buf.run m data script).1.map (·.2) = splitLines (Buf.run m data script).2.2.delivered ∧
    (Buf.run m data script).2.2.delivered <+: data := by
  have hg := brun_good m data script h
  have hdone := buf_terminates m data script h
  constructor
  · have := bscanAll_good _ (by omega) _ hg hdone
    simp only [List.nil_append] at this
    exact this.symm
  · have := bscanAll_closed (bclosed_stream data) (data.length + script.length + 3) (by omega)
      (data.length + script.length + 3) hg (by simp [Buf.init])
    exact ⟨_, this⟩

/-- With a reader that reports no error early, every chunking yields the lines of the whole stream. -/
theorem buf_chunking_independent (m : Nat) (data : Bytes) (script : List Step) (h : 2 ≤ m)
    (hs : ∀ st ∈ script, st.err = none) :
    (Buf.run m data script).1.map (·.2) = splitLines data := by
  have hg := brun_good m data script h
  have hdone := buf_terminates m data script h
  have hstream := bscanAll_closed (bclosed_stream data) (data.length + script.length + 3) (by omega)
      (data.length + script.length + 3) hg (by simp [Buf.init])
  have hdr := bscanAll_closed bclosed_drained (data.length + script.length + 3) (by omega)
      (data.length + script.length + 3) hg (s := Buf.init m ⟨data, script⟩)
      ⟨by simpa [Buf.init] using hs, by simp [Buf.init]⟩
  have heof := bscanAll_eof _ (by omega) _ hg hdone
  have hrest := hdr.2 heof
  have hd : (Buf.run m data script).2.2.delivered = data := by
    have := hstream
    unfold Buf.run
    rw [hrest] at this; simpa using this
  rw [(buf_tokens_eq_split m data script h).1, hd]

/-- Slices handed out by the buffered scanner keep their contents (each refill allocates a new array). -/
theorem buf_tokens_stable (m : Nat) (data : Bytes) (script : List Step) (h : 2 ≤ m) :
    ∀ vb ∈ (Buf.run m data script).1,
      readView (Buf.run m data script).2.2.arrays vb.1 = vb.2 :=
  bscanAll_views _ (by omega) _ (brun_good m data script h)

/-- The error callback fires at most once, only together with the end of the stream, and never without
    a failing read. -/
theorem buf_error_once (m : Nat) (data : Bytes) (script : List Step) (h : 2 ≤ m) :
    ((Buf.run m data script).2.2.errs = 0 ∨
      ((Buf.run m data script).2.2.errs = 1 ∧ (Buf.run m data script).2.2.eof = true)) ∧
    ((∀ st ∈ script, st.err ≠ some .fail) → (Buf.run m data script).2.2.errs = 0) := by
  have hg := brun_good m data script h
  constructor
  · exact bscanAll_closed bclosed_errs _ (by omega) _ hg (Or.inl (by simp [Buf.init]))
  · intro hs
    exact (bscanAll_closed bclosed_nofail _ (by omega) _ hg (s := Buf.init m ⟨data, script⟩)
      ⟨by simpa [Buf.init] using hs, by simp [Buf.init]⟩).2

example : (Buf.run 2 [97, 13, 10, 10, 98, 98, 98, 10, 99] [⟨1, none⟩, ⟨0, none⟩, ⟨5, none⟩]).1.map (·.2)
    = [[97], [], [98, 98, 98], [99]] := by decide

/-- Non-vacuity: a concrete stream with CRLF, an empty line, a line longer than the buffer, a
    stalled read and an injected failure alongside data. -/
example : (Imm.run 2 [97, 13, 10, 10, 98, 98, 98, 10, 99] [⟨1, none⟩, ⟨0, none⟩, ⟨5, none⟩]).1.map (·.2)
    = [[97], [], [98, 98, 98], [99]] := by decide

example : (Imm.run 2 [97, 10, 98, 10] [⟨1, none⟩, ⟨2, some .fail⟩]).2.2.errs = 1 := by decide

/-! ## Translator tie: the hand model against the source of pkg/readahead as it is now

`Rare.Gen.C04` is regenerated from /repo on every run (harness/extract/c04.go).  The theorems below
break (stop compiling) when the control structure, a guard, an index expression, a slice bound or an
allocation size of the scanners changes in /repo. -/

/-- bounds of a generated slice expression -/
def slB (s : Rare.Gen.C04.Sl) : SlB := ⟨s.cr, s.lo, s.hi⟩

/-- the fragments of `ImmediateReadAhead.Scan` as translated from /repo, in source order -/
def ImmFrags.gen : ImmFrags where
  c0 := Rare.Gen.C04.imm_cond_0
  sl0 := fun x0 x1 => slB (Rare.Gen.C04.imm_slice_0 x0 x1)
  c1 := Rare.Gen.C04.imm_cond_1
  sl1 := fun x0 x1 => slB (Rare.Gen.C04.imm_slice_1 x0 x1)
  set0 := Rare.Gen.C04.imm_set_0
  c2 := Rare.Gen.C04.imm_cond_2
  sl2 := fun x0 x1 => slB (Rare.Gen.C04.imm_slice_2 x0 x1)
  set1 := Rare.Gen.C04.imm_set_1
  c3 := Rare.Gen.C04.imm_cond_3
  c4 := Rare.Gen.C04.imm_cond_4
  make0 := Rare.Gen.C04.imm_make_0
  sl3 := fun x0 x1 => slB (Rare.Gen.C04.imm_slice_3 x0 x1)
  set2 := Rare.Gen.C04.imm_set_2
  set3 := Rare.Gen.C04.imm_set_3
  sl4 := fun x0 x1 => slB (Rare.Gen.C04.imm_slice_4 x0 x1)
  set4 := Rare.Gen.C04.imm_set_4
  c5 := Rare.Gen.C04.imm_cond_5
  c6 := Rare.Gen.C04.imm_cond_6
  sl5 := fun x0 x1 => slB (Rare.Gen.C04.imm_slice_5 x0 x1)
  c7 := Rare.Gen.C04.imm_cond_7
  set5 := Rare.Gen.C04.imm_set_5
  sl6 := fun x0 x1 => slB (Rare.Gen.C04.imm_slice_6 x0 x1)
  set6 := Rare.Gen.C04.imm_set_6

/-- the fragments of `BufferedReadAhead.Scan` as translated from /repo, in source order -/
def BufFrags.gen : BufFrags where
  sl0 := fun x0 x1 => slB (Rare.Gen.C04.buf_slice_0 x0 x1)
  c0 := Rare.Gen.C04.buf_cond_0
  set0 := Rare.Gen.C04.buf_set_0
  set1 := Rare.Gen.C04.buf_set_1
  sl1 := fun x0 x1 => slB (Rare.Gen.C04.buf_slice_1 x0 x1)
  c1 := Rare.Gen.C04.buf_cond_1
  sl2 := fun x0 x1 => slB (Rare.Gen.C04.buf_slice_2 x0 x1)
  set2 := Rare.Gen.C04.buf_set_2
  c2 := Rare.Gen.C04.buf_cond_2
  make0 := Rare.Gen.C04.buf_make_0
  sl3 := fun x0 x1 => slB (Rare.Gen.C04.buf_slice_3 x0 x1)
  set3 := Rare.Gen.C04.buf_set_3
  c3 := Rare.Gen.C04.buf_cond_3
  sl4 := fun x0 x1 => slB (Rare.Gen.C04.buf_slice_4 x0 x1)
  set4 := Rare.Gen.C04.buf_set_4
  c4 := Rare.Gen.C04.buf_cond_4
  c5 := Rare.Gen.C04.buf_cond_5
  sl5 := fun x0 => slB (Rare.Gen.C04.buf_slice_5 x0)
  set5 := Rare.Gen.C04.buf_set_5

/-- The control skeletons of `Scan` (both scanners), `dropCR`, `maxi`, the constructors, `ReadLine` and
    `Bytes` in /repo are the ones the model was written against: statement order, guards (with their init
    statements), the `RESTART` label / `goto`, the loops, `break` and every `return`. -/
theorem scanner_skeletons_match_source :
    Rare.Gen.C04.imm_skeleton = [
      "label:RESTART", "if:s.offset<s.end{",
      "if:eol:=bytes.IndexByte(s.buf[s.offset:s.end],s.delim);eol>=0{",
      "stmt:s.token=dropCR(s.buf[s.offset:s.offset+eol])", "stmt:s.offset+=eol+1", "return:true", "}",
      "if:s.eof{", "stmt:s.token=s.buf[s.offset:s.end]", "stmt:s.offset=s.end", "return:true", "}",
      "}elseif:s.eof{", "return:false", "}", "for:;;{", "if:s.end>=len(s.buf){", "stmt:old:=s.buf",
      "stmt:s.buf=make([]byte,s.end-s.offset+s.bufSize)", "stmt:copy(s.buf,old[s.offset:s.end])",
      "stmt:s.end-=s.offset", "stmt:s.offset=0", "}", "stmt:n,err:=s.r.Read(s.buf[s.end:])", "stmt:s.end+=n",
      "if:err!=nil{", "stmt:s.eof=true", "if:err!=io.EOF&&s.onError!=nil{", "stmt:s.onError(err)", "}",
      "goto:RESTART", "}", "if:eol:=bytes.IndexByte(s.buf[s.end-n:s.end],s.delim);eol>=0{",
      "stmt:end:=s.end-n+eol", "stmt:s.token=dropCR(s.buf[s.offset:end])", "stmt:s.offset=end+1",
      "return:true", "}", "}"] ∧
    Rare.Gen.C04.buf_skeleton = [
      "for:;;{", "stmt:relIndex:=bytes.IndexByte(s.buf[s.offset:],s.delim)", "if:relIndex>=0{",
      "stmt:start:=s.offset", "stmt:s.offset+=relIndex+1",
      "stmt:s.token=dropCR(s.buf[start:start+relIndex])", "return:true", "}",
      "if:s.eof&&s.offset<len(s.buf){", "stmt:ret:=s.buf[s.offset:]", "stmt:s.offset=len(s.buf)",
      "stmt:s.token=ret", "return:true", "}elseif:!s.eof{", "stmt:oldbuf:=s.buf",
      "stmt:s.buf=make([]byte,maxi(s.maxBufLen,len(oldbuf)-s.offset+s.maxBufLen/2))",
      "stmt:copy(s.buf,oldbuf[s.offset:])", "stmt:readOffset:=len(oldbuf)-s.offset",
      "for:;readOffset<len(s.buf);{", "stmt:n,err:=s.r.Read(s.buf[readOffset:])", "stmt:readOffset+=n",
      "if:err!=nil{", "if:err!=io.EOF&&s.onError!=nil{", "stmt:s.onError(err)", "}", "stmt:s.eof=true",
      "break", "}", "}", "stmt:s.buf=s.buf[:readOffset]", "stmt:s.offset=0", "}else{", "stmt:s.token=nil",
      "return:false", "}", "}"] ∧
    Rare.Gen.C04.dropCR_skeleton = ["if:len(data)>0&&data[len(data)-1]=='\\r'{", "return:data[0:len(data)-1]", "}", "return:data"] ∧
    Rare.Gen.C04.maxiFn_skeleton = ["if:a>b{", "return:a", "}", "return:b"] ∧
    Rare.Gen.C04.newImm_skeleton = [
      "return:&ImmediateReadAhead{r:reader,bufSize:bufSize,buf:make([]byte,bufSize),delim:'\\n',}"] ∧
    Rare.Gen.C04.newBuf_skeleton = [
      "if:maxBufLen<=1{", "stmt:panic(\"Buflengthmustbe>1\")", "}",
      "return:&BufferedReadAhead{r:reader,maxBufLen:maxBufLen,delim:'\\n',}"] ∧
    Rare.Gen.C04.immReadLine_skeleton = ["if:s.Scan(){", "return:s.token", "}", "return:nil"] ∧
    Rare.Gen.C04.bufReadLine_skeleton = ["if:!s.Scan(){", "return:nil", "}", "return:s.token"] ∧
    Rare.Gen.C04.immBytes_skeleton = ["return:s.token"] ∧ Rare.Gen.C04.bufBytes_skeleton = ["return:s.token"] ∧
    Rare.Gen.C04.imm_counts = [8, 7, 7, 1] ∧ Rare.Gen.C04.buf_counts = [6, 6, 6, 1] ∧ Rare.Gen.C04.dropCR_counts = [1, 0, 1, 0] ∧
    Rare.Gen.C04.immDelim = nl.toNat ∧ Rare.Gen.C04.bufDelim = nl.toNat := by
  refine ⟨rfl, rfl, rfl, rfl, rfl, rfl, rfl, rfl, rfl, rfl, rfl, rfl, rfl, rfl, rfl⟩

/-- Every condition, integer update, slice bound and allocation size of `ImmediateReadAhead.Scan` in /repo
    is the one the hand model uses, and the slices are taken from the arrays the model takes them from. -/
theorem imm_fragments_match_source :
    ImmFrags.gen = ImmFrags.hand ∧
    [(Rare.Gen.C04.imm_slice_0 0 0).base, (Rare.Gen.C04.imm_slice_1 0 0).base, (Rare.Gen.C04.imm_slice_2 0 0).base, (Rare.Gen.C04.imm_slice_3 0 0).base, (Rare.Gen.C04.imm_slice_4 0 0).base, (Rare.Gen.C04.imm_slice_5 0 0).base, (Rare.Gen.C04.imm_slice_6 0 0).base]
      = ["s.buf", "s.buf", "s.buf", "old", "s.buf", "s.buf", "s.buf"] :=
  ⟨rfl, rfl⟩

/-- The same for `BufferedReadAhead.Scan` (the refill size goes through the generated `maxi`). -/
theorem buf_fragments_match_source :
    BufFrags.gen = BufFrags.hand ∧
    [(Rare.Gen.C04.buf_slice_0 0 0).base, (Rare.Gen.C04.buf_slice_1 0 0).base, (Rare.Gen.C04.buf_slice_2 0 0).base, (Rare.Gen.C04.buf_slice_3 0 0).base, (Rare.Gen.C04.buf_slice_4 0 0).base, (Rare.Gen.C04.buf_slice_5 0).base]
      = ["s.buf", "s.buf", "s.buf", "oldbuf", "s.buf", "s.buf"] :=
  ⟨rfl, rfl⟩

/-- `ImmediateReadAhead.Scan` of the model is, for every state with `offset ≤ end` (an invariant of the scan,
    `Inv.off`) and every fuel, the program re-assembled from the fragments translated from /repo along the
    pinned control skeleton: an off-by-one in an index expression of /repo breaks this theorem. -/
theorem imm_scan_matches_source (fuel : Nat) (s : Imm) (h : s.offset ≤ s.buf.length) :
    s.scan fuel = s.scanG ImmFrags.gen fuel := by
  rw [imm_fragments_match_source.1]
  exact (scanG_hand fuel s h).symm

/-- The same for `BufferedReadAhead.Scan`, including the inner fill loop and the refill size
    `maxi(maxBufLen, len(oldbuf)-offset+maxBufLen/2)`. -/
theorem buf_scan_matches_source (fuel : Nat) (s : Buf) (h : s.offset ≤ s.buf.length) :
    s.scan fuel = s.scanG BufFrags.gen fuel := by
  rw [buf_fragments_match_source.1]
  exact (bscanG_hand fuel s h).symm

/-- The integer variables the model keeps implicitly as the length of the valid part follow the source:
    `s.end -= s.offset` after a regrow, `s.end += n` after a Read, `readOffset := len(oldbuf) - s.offset`,
    `readOffset += n`. -/
theorem implicit_lengths_match_source :
    (∀ s : Imm, s.offset ≤ s.buf.length →
      (s.regrow.buf.length : Int) = Rare.Gen.C04.imm_set_2 s.buf.length s.offset) ∧
    (∀ (s : Imm) (bs : Bytes) (rd' : Reader),
      ((s.recv bs rd').buf.length : Int) = Rare.Gen.C04.imm_set_4 s.buf.length bs.length) ∧
    (∀ s : Buf, s.offset ≤ s.buf.length →
      ((evalSl s.buf (slB (Rare.Gen.C04.buf_slice_3 s.offset s.buf.length))).length : Int)
        = Rare.Gen.C04.buf_set_3 s.buf.length s.offset) ∧
    (∀ acc bs : Bytes, (((acc ++ bs).length : Nat) : Int) = Rare.Gen.C04.buf_set_4 acc.length bs.length) :=
  ⟨imm_end_after_regrow, imm_end_after_read, buf_readOffset_init, buf_readOffset_after_read⟩

/-- The specification's `dropCR` is the function of pkg/readahead/util.go: its condition
    `len(data) > 0 && data[len(data)-1] == '\r'` and its result slice `data[0:len(data)-1]`, read on lists. -/
theorem dropCR_matches_source (data : Bytes) :
    dropCR data = dropCRG Rare.Gen.C04.dropCR_cond_0 (fun n => slB (Rare.Gen.C04.dropCR_slice_0 n)) data ∧
    (Rare.Gen.C04.dropCR_slice_0 0).base = "data" :=
  ⟨(dropCRG_hand data).symm, rfl⟩

/-- `maxi` of util.go is `max`, and the model's refill size is the generated allocation size. -/
theorem maxi_matches_source (a b : Int) : Rare.Gen.C04.maxi a b = max a b := by
  unfold Rare.Gen.C04.maxi
  by_cases h : a > b
  · simp only [h, decide_true, if_true]; omega
  · simp only [h, decide_false, Bool.false_eq_true, if_false]; omega

/-- The constructors: `NewImmediate` allocates `bufSize` bytes (the model's initial `cap`), `NewBuffered`
    panics exactly when `maxBufLen ≤ 1` (the hypothesis `2 ≤ m` of the `buf_*` theorems is its negation). -/
theorem constructors_match_source (n : Nat) (rd : Reader) :
    ((Imm.init n rd).cap : Int) = Rare.Gen.C04.newImm_make_0 n ∧
    (Rare.Gen.C04.newBuf_cond_0 n = false ↔ 2 ≤ n) := by
  refine ⟨rfl, ?_⟩
  simp [Rare.Gen.C04.newBuf_cond_0]; omega

/-- Non-vacuity of the tie: the re-assembled program really runs (same concrete scan as above). -/
example : (match ((Imm.init 2 ⟨[97, 13, 10, 98], []⟩).scanG ImmFrags.gen 5).1 with
    | .tok v b => some (v, b) | _ => none) = some (⟨1, 0, 1⟩, [97]) := by decide

/-! ## Round 4: the specification characterised, unterminated tails, stalls, allocation sizes -/

/-- `splitLines` satisfies the three equations of the property text (nothing for the empty stream; a
    newline-terminated segment yields the segment minus one trailing `\r`, then the lines of the rest; a
    non-empty newline-free stream is one line, verbatim) and is the only function that does. -/
theorem splitLines_characterised :
    splitLines [] = [] ∧
    (∀ a rest, nl ∉ a → splitLines (a ++ nl :: rest) = dropCR a :: splitLines rest) ∧
    (∀ a, nl ∉ a → a ≠ [] → splitLines a = [a]) ∧
    (∀ f : Bytes → List Bytes, f [] = [] →
      (∀ a rest, nl ∉ a → f (a ++ nl :: rest) = dropCR a :: f rest) →
      (∀ a, nl ∉ a → a ≠ [] → f a = [a]) → f = splitLines) :=
  ⟨splitLines_nil, splitLines_line, splitLines_tail,
   fun f h0 h1 h2 => funext fun d => splitLines_unique_aux f h0 h1 h2 d.length d (Nat.le_refl _)⟩

/-- Cutting a stream right after a newline splits its lines into the lines of the two halves (so reading
    a file in newline-aligned pieces, as the tail follower does, loses nothing). -/
theorem splitLines_compositional (p x : Bytes) :
    splitLines (p ++ [nl] ++ x) = splitLines (p ++ [nl]) ++ splitLines x :=
  splitLines_append_terminated p x

/-- A final unterminated non-empty segment is delivered verbatim by both scanners - in particular a trailing
    `\r` before EOF without `\n` is kept (only newline-terminated lines lose their `\r`) - for every chunking. -/
theorem unterminated_tail_verbatim (n : Nat) (q t : Bytes) (script : List Step)
    (ht : nl ∉ t) (hne : t ≠ []) (hs : ∀ st ∈ script, st.err = none) :
    (1 ≤ n → (Imm.run n (q ++ [nl] ++ t) script).1.map (·.2) = splitLines (q ++ [nl]) ++ [t]) ∧
    (2 ≤ n → (Buf.run n (q ++ [nl] ++ t) script).1.map (·.2) = splitLines (q ++ [nl]) ++ [t]) ∧
    (1 ≤ n → (Imm.run n t script).1.map (·.2) = [t]) ∧
    (2 ≤ n → (Buf.run n t script).1.map (·.2) = [t]) := by
  have e : splitLines (q ++ [nl] ++ t) = splitLines (q ++ [nl]) ++ [t] := by
    rw [splitLines_append_terminated, splitLines_tail t ht hne]
  refine ⟨fun h => ?_, fun h => ?_, fun h => ?_, fun h => ?_⟩
  · rw [imm_chunking_independent n _ script h hs, e]
  · rw [buf_chunking_independent n _ script h hs, e]
  · rw [imm_chunking_independent n _ script h hs, splitLines_tail t ht hne]
  · rw [buf_chunking_independent n _ script h hs, splitLines_tail t ht hne]

example : (Imm.run 3 [97, 10, 98, 13] [⟨2, none⟩, ⟨0, none⟩]).1.map (·.2) = [[97], [98, 13]] := by decide

/-- The scanner has no bound on consecutive `(0, nil)` reads (unlike `bufio.Scanner`'s 100): after `N` such
    reads, for every `N`, `Scan` is still in its read loop, having consumed all `N` script steps and
    nothing else.  So `imm_terminates` is exactly as strong as it can be: every *finite* stall is survived,
    and a reader stalling for ever is outside what any scanner without such a bound can handle. -/
theorem imm_no_stall_bound (b N : Nat) (data : Bytes) (h : 1 ≤ b) :
    (Imm.init b ⟨data, List.replicate N ⟨0, none⟩⟩).scan N = (.fuel, Imm.init b ⟨data, []⟩) := by
  have ht : (Imm.init b ⟨data, List.replicate N ⟨0, none⟩⟩).top = none := by
    simp [Imm.top, Imm.init]
  simp only [Imm.scan, ht]
  rw [readLoop_stalls N _ [] (by simp [Imm.init]; omega) (by simpa [Imm.init] using h) (by simp [Imm.init])]
  simp [Imm.init]

/-- Memory: after any number of `Scan()` calls the immediate scanner's backing array has its initial size
    or the size "an unterminated fragment of the input + bufSize", and the valid part never exceeds it.
    So the allocation is bounded by the longest line plus `bufSize`, whatever the chunking. -/
theorem imm_alloc_bound (b : Nat) (data : Bytes) (script : List Step) (fuel k : Nat) (h : 1 ≤ b) :
    let s := (Imm.scanAll fuel k (Imm.init b ⟨data, script⟩)).2.2
    s.buf.length ≤ s.cap ∧
    (s.cap = b ∨ ∃ w, w <:+: data ∧ nl ∉ w ∧ s.cap = w.length + b) := by
  intro s
  have hg := run_good b data script h
  have h1 : s.buf.length ≤ s.cap := scanAll_closed closed_end_le_cap fuel k hg (by simp [Imm.init])
  have h2 : s.bufSize = b := scanAll_closed (closed_bufSize b) fuel k hg (by simp [Imm.init])
  have h3 : s.delivered ++ s.rd.rest = data :=
    scanAll_closed (closed_stream data) fuel k hg (by simp [Imm.init])
  have h4 : AllocOK s := scanAll_alloc fuel k hg (Or.inl (by simp [Imm.init]))
  refine ⟨h1, ?_⟩
  rcases h4 with h4 | ⟨w, hw, hn, hc⟩
  · exact Or.inl (by rw [h4, h2])
  · refine Or.inr ⟨w, ?_, hn, by rw [hc, h2]⟩
    rw [← h3]; exact infix_append_right _ hw

/-- Memory of the buffered scanner: every array it ever allocated (the retained ones included) is at most
    `max(maxBufLen, |w| + maxBufLen/2)` long for an unterminated fragment `w` of the input. -/
theorem buf_alloc_bound (m : Nat) (data : Bytes) (script : List Step) (fuel k : Nat) (h : 2 ≤ m) (hf : 0 < fuel) :
    ∀ a ∈ (Buf.scanAll fuel k (Buf.init m ⟨data, script⟩)).2.2.arrays,
      ∃ w, w <:+: data ∧ nl ∉ w ∧ a.length ≤ max m (w.length + m / 2) := by
  intro a ha
  have hg := brun_good m data script h
  have h2 := bscanAll_closed (bclosed_maxBufLen m) fuel hf k hg (by simp [Buf.init])
  have h3 := bscanAll_closed (bclosed_stream data) fuel hf k hg (by simp [Buf.init])
  have h4 : BAllocOK _ := bscanAll_alloc fuel hf k hg (by
    intro a ha
    simp [Buf.arrays, Buf.init] at ha
    subst ha
    exact ⟨[], List.nil_infix, by simp, by simp⟩)
  obtain ⟨w, hw, hn, hl⟩ := h4 a ha
  refine ⟨w, ?_, hn, by rw [h2] at hl; exact hl⟩
  rw [← h3]; exact infix_append_right _ hw


/-! ## The batcher side of the anchor: `syncReaderToBatcher` over the real scanner configuration -/

/-- `syncReaderToBatcher` (`readahead.NewImmediate(reader, ReadAheadBufferSize)` scanned into batches of
    `batchSize` lines; the buffer size is the constant regenerated from /repo): for every stream, every
    chunking / stall / fault script and every batch size, the scan ends; the batches hold, in order, exactly
    the scanner's slices (no copy), which are the lines of the delivered bytes; every line carries its true
    1-based number (`BatchStart + index`); no batch is empty; and every slice in every batch still reads
    back as its line after the whole scan (late consumers see unmodified batches). -/
theorem sync_batches_partition_lines (batchSize : Nat) (data : Bytes) (script : List Step) :
    let o := syncRun batchSize data script
    o.done = true ∧
    (o.batches.flatMap (·.lines)).map (·.2) = splitLines o.final.delivered ∧
    (o.batches.flatMap Batcher.lineNumbers).map (fun x => (x.1.2, x.2)) = (splitLines o.final.delivered).zipIdx 1 ∧
    (∀ b ∈ o.batches, b.lines ≠ []) ∧
    (∀ b ∈ o.batches, ∀ l ∈ b.lines, readView o.final.arrays l.1 = l.2) ∧
    o.final.delivered <+: data := by
  intro o
  have hb : 1 ≤ Rare.Gen.readAheadBufferSize := by decide
  have hrun : (Imm.run Rare.Gen.readAheadBufferSize data script) = (_, o.done, o.final) := rfl
  have hdone := imm_terminates _ data script hb
  have hsplit := imm_tokens_eq_split _ data script hb
  have hstable := imm_tokens_stable _ data script hb
  generalize htoks : (Imm.run Rare.Gen.readAheadBufferSize data script).1 = toks at *
  have hbat : o.batches = Batcher.run batchSize (toks.map (·, false)) := by rw [← htoks]; rfl
  have hinv := Batcher.inv_fold batchSize (toks.map (·, false)) (Batcher.inv_init (α := View × Bytes))
  simp only [List.nil_append] at hinv
  have hf := Batcher.finish_spec hinv
  have hnum : o.batches.flatMap Batcher.lineNumbers = toks.zipIdx 1 := by
    rw [hbat]; simpa [Batcher.run, List.map_map, Function.comp_def] using hf.1
  have hlines : o.batches.flatMap (·.lines) = toks := by
    have := congrArg (List.map Prod.fst) hnum
    rw [List.zipIdx_map_fst, List.map_flatMap] at this
    rw [← this]
    congr 1
    funext b
    simp [Batcher.lineNumbers, List.zipIdx_map_fst]
  refine ⟨hdone, ?_, ?_, ?_, ?_, hsplit.2⟩
  · rw [hlines]; exact hsplit.1
  · have hs1 : toks.map (·.2) = splitLines o.final.delivered := hsplit.1
    rw [hnum, ← hs1, List.zipIdx_map]
    apply List.map_congr_left
    intro x _
    rfl
  · intro b hbm
    rw [hbat] at hbm
    exact hf.2 b (by simpa [Batcher.run, List.map_map, Function.comp_def] using hbm)
  · intro b hbm l hl
    apply hstable l
    rw [← hlines]
    exact List.mem_flatMap.mpr ⟨b, hbm, hl⟩

example : ((syncRun 2 [97, 13, 10, 98, 10, 10, 99] [⟨1, none⟩, ⟨0, none⟩, ⟨9, some .fail⟩]).batches.map
    fun b => (b.start, b.lines.map (·.2))) = [(1, [[97], [98]]), (3, [[], [99]])] := by decide

/-- Once `Scan()` has answered false it keeps answering false and changes nothing (`ReadLine()` keeps
    returning nil): no further `Read` is issued, no callback fires again, no line re-appears. -/
theorem done_is_final (n : Nat) (data : Bytes) (script : List Step) (g : Nat) :
    (1 ≤ n → (Imm.run n data script).2.2.scan g = (.done, (Imm.run n data script).2.2)) ∧
    (2 ≤ n → 0 < g → (Buf.run n data script).2.2.scan g = (.done, (Buf.run n data script).2.2)) :=
  ⟨fun h => scanAll_final _ _ (run_good n data script h) (imm_terminates n data script h) g,
   fun h hg => bscanAll_final _ (by omega) _ (brun_good n data script h) (buf_terminates n data script h) g hg⟩

/-- Every `Read` the immediate scanner issues has a non-empty destination (the regrow guarantees
    `end < len(buf)`), so a conforming reader cannot answer `(0, nil)` for lack of room. -/
theorem imm_read_room_positive (s : Imm) (C : Bytes) (h : Inv s C) :
    0 < s.grown.cap - s.grown.buf.length := by
  have := (grown_spec h).2.2.1
  omega

/-! ## Round 4b: every retained array bounded; held slices intact at every later call and between any two
    micro-steps of `Scan()` -/

/-- Memory, all arrays: every backing array the immediate scanner ever allocated - the current one and every
    archived one that a held slice may keep alive - is at most `|w| + bufSize` long for an unterminated
    fragment `w` of the input (`w = []`: the initial size).  Closes the gap left by `imm_alloc_bound`, which
    spoke about the current array only. -/
theorem imm_alloc_bound_all (b : Nat) (data : Bytes) (script : List Step) (fuel k : Nat) (h : 1 ≤ b) :
    ∀ a ∈ (Imm.scanAll fuel k (Imm.init b ⟨data, script⟩)).2.2.arrays,
      ∃ w, w <:+: data ∧ nl ∉ w ∧ a.length ≤ w.length + b := by
  intro a ha
  have hg := run_good b data script h
  have h2 : (Imm.scanAll fuel k (Imm.init b ⟨data, script⟩)).2.2.bufSize = b :=
    scanAll_closed (closed_bufSize b) fuel k hg (by simp [Imm.init])
  have h3 : (Imm.scanAll fuel k (Imm.init b ⟨data, script⟩)).2.2.delivered ++
      (Imm.scanAll fuel k (Imm.init b ⟨data, script⟩)).2.2.rd.rest = data :=
    scanAll_closed (closed_stream data) fuel k hg (by simp [Imm.init])
  have h4 := scanAll_allOK fuel k hg (allOK_init b ⟨data, script⟩)
  generalize (Imm.scanAll fuel k (Imm.init b ⟨data, script⟩)).2.2 = s at *
  have key : ∃ w, w <:+: s.delivered ∧ nl ∉ w ∧ a.length ≤ w.length + s.bufSize := by
    simp only [Imm.arrays, List.mem_append, List.mem_singleton] at ha
    rcases ha with ha | rfl
    · exact h4.2.2 a ha
    · rcases h4.2.1 with hc | ⟨w, hw, hn, hc⟩
      · exact ⟨[], List.nil_infix, by simp, by have := h4.1; simp; omega⟩
      · exact ⟨w, hw, hn, by have := h4.1; omega⟩
  obtain ⟨w, hw, hn, hl⟩ := key
  exact ⟨w, by rw [← h3]; exact infix_append_right _ hw, hn, by rw [← h2]; exact hl⟩

/-- "For as long as the caller holds it while later lines are scanned": a slice handed out by one of the first
    `j` calls of `Scan()` is still handed out (same position) and reads back as its line after ANY number `k`
    of further calls - not only once the stream has ended (`imm_tokens_stable`, `buf_tokens_stable`).
    Every fuel, i.e. also when a later call is still waiting in its read loop. -/
theorem held_slices_intact_at_every_call (n : Nat) (data : Bytes) (script : List Step) (fuel j k : Nat) :
    (1 ≤ n → ∀ vb ∈ (Imm.scanAll fuel j (Imm.init n ⟨data, script⟩)).1,
      vb ∈ (Imm.scanAll fuel (j + k) (Imm.init n ⟨data, script⟩)).1 ∧
      readView (Imm.scanAll fuel (j + k) (Imm.init n ⟨data, script⟩)).2.2.arrays vb.1 = vb.2) ∧
    (2 ≤ n → 0 < fuel → ∀ vb ∈ (Buf.scanAll fuel j (Buf.init n ⟨data, script⟩)).1,
      vb ∈ (Buf.scanAll fuel (j + k) (Buf.init n ⟨data, script⟩)).1 ∧
      readView (Buf.scanAll fuel (j + k) (Buf.init n ⟨data, script⟩)).2.2.arrays vb.1 = vb.2) := by
  refine ⟨fun h vb hvb => ?_, fun h hf vb hvb => ?_⟩
  · have hm := (scanAll_prefix fuel j k _).subset hvb
    exact ⟨hm, scanAll_views fuel (j + k) (run_good n data script h) vb hm⟩
  · have hm := (bscanAll_prefix fuel j k _).subset hvb
    exact ⟨hm, bscanAll_views fuel hf (j + k) (brun_good n data script h) vb hm⟩

/-- Between any two micro-steps: `Scan()` is composed of exactly these state changes (`Imm.readLoop`,
    `Imm.top`, `Buf.scan`) - the regrow (allocate + copy), a `Read` appending whatever bytes to `buf[end:]`,
    setting the error flag, and handing out a token - and each of them leaves every valid slice readable
    with the same contents.  So a consumer goroutine reading a held batch while the reader goroutine is in
    the middle of `Scan()` (rare's batcher/extractor pipeline) sees unmodified lines.  For every state, not
    only reachable ones. -/
theorem held_slice_survives_every_step (s : Imm) (v : View) (hv : ViewOK s.arrays v) :
    (readView s.grown.arrays v = readView s.arrays v ∧ ViewOK s.grown.arrays v) ∧
    (∀ bs rd', readView (s.recv bs rd').arrays v = readView s.arrays v ∧ ViewOK (s.recv bs rd').arrays v) ∧
    (∀ e, (s.fail e).arrays = s.arrays) ∧
    (∀ k, (s.emitAt k).2.arrays = s.arrays) ∧ s.emitTail.2.arrays = s.arrays ∧
    (∀ (t : Buf) (w : View), ViewOK t.arrays w → ∀ acc rd' eof' errs' dl',
      readView ({ t with mem := t.mem ++ [t.buf], buf := acc, offset := 0, rd := rd', eof := eof',
                         errs := errs', delivered := dl' } : Buf).arrays w = readView t.arrays w) :=
  ⟨readView_ext (grown_ext s) hv, fun bs rd' => readView_ext (recv_ext s bs rd') hv,
   fun _ => rfl, fun _ => rfl, rfl,
   fun t _ hw acc rd' eof' errs' dl' => (readView_ext (refill_ext t acc rd' eof' errs' dl') hw).1⟩

/-- Non-vacuity: a held slice of a full buffer, then the regrow and a Read of further bytes. -/
example : ViewOK (({ Imm.init 2 ⟨[99, 10], []⟩ with buf := [97, 10], offset := 2 } : Imm)).arrays ⟨0, 0, 1⟩ := by
  unfold ViewOK; decide

example : readView (({ Imm.init 2 ⟨[99, 10], []⟩ with buf := [97, 10], offset := 2 } : Imm)).arrays ⟨0, 0, 1⟩ = [97] ∧
    readView ((({ Imm.init 2 ⟨[99, 10], []⟩ with buf := [97, 10], offset := 2 } : Imm)).grown.recv [99, 10] ⟨[], []⟩).arrays
      ⟨0, 0, 1⟩ = [97] ∧
    ((({ Imm.init 2 ⟨[99, 10], []⟩ with buf := [97, 10], offset := 2 } : Imm)).grown.recv [99, 10] ⟨[], []⟩).arrays
      = [[97, 10], [99, 10]] := by decide

example : ((Imm.scanAll 9 1 (Imm.init 2 ⟨[97, 10, 98, 98, 98, 10], []⟩)).1.map (·.1)) = [⟨0, 0, 1⟩] ∧
    readView (Imm.scanAll 9 2 (Imm.init 2 ⟨[97, 10, 98, 98, 98, 10], []⟩)).2.2.arrays ⟨0, 0, 1⟩ = [97] ∧
    (Imm.scanAll 9 2 (Imm.init 2 ⟨[97, 10, 98, 98, 98, 10], []⟩)).2.2.arrays.map (·.length) = [2, 2, 4] := by decide

/-- The slices the immediate scanner hands out never overlap one another: in hand-out order every slice lies in a
    later backing array than an earlier one, or in the same array at or after the earlier one's end; every slice is
    a proper range (`start ≤ stop`).  So a caller that edits one line in place cannot change another line it holds,
    and no byte is ever handed out twice.  From the initial state of every buffer size (0 included), for every
    chunking / stall / fault script, every number of calls and every fuel. -/
theorem imm_slices_ordered_disjoint (bufSize : Nat) (data : Bytes) (script : List Step) (fuel k : Nat) :
    List.Pairwise (fun a b : View × Bytes =>
        a.1.arr < b.1.arr ∨ (a.1.arr = b.1.arr ∧ a.1.stop ≤ b.1.start))
      (Imm.scanAll fuel k (Imm.init bufSize ⟨data, script⟩)).1 ∧
    ∀ vb ∈ (Imm.scanAll fuel k (Imm.init bufSize ⟨data, script⟩)).1, vb.1.start ≤ vb.1.stop :=
  ⟨(scanAll_sorted fuel k _).2, fun vb h => ((scanAll_sorted fuel k _).1 vb h).2⟩

example : (Imm.run 4 [97, 10, 98, 10, 99, 99, 99, 99, 10] []).1.map (·.1) = [⟨0, 0, 1⟩, ⟨0, 2, 3⟩, ⟨2, 0, 4⟩] := by decide

/-! ## Round 4c: the buffered scanner's slices are disjoint too; fuel is irrelevant; `Scan()` is a path of the listed
    micro-steps and held slices are intact at every intermediate state -/

/-- The buffered twin of `imm_slices_ordered_disjoint`: the slices `BufferedReadAhead` hands out never overlap - in
    hand-out order each lies in a later backing array than an earlier one, or in the same array at or after the earlier
    one's end - and each is a proper range.  Every `maxBufLen` (the panicking 0 and 1 included: purely positional),
    every chunking / stall / fault script, every number of calls, every fuel. -/
theorem buf_slices_ordered_disjoint (m : Nat) (data : Bytes) (script : List Step) (fuel k : Nat) :
    List.Pairwise (fun a b : View × Bytes =>
        a.1.arr < b.1.arr ∨ (a.1.arr = b.1.arr ∧ a.1.stop ≤ b.1.start))
      (Buf.scanAll fuel k (Buf.init m ⟨data, script⟩)).1 ∧
    ∀ vb ∈ (Buf.scanAll fuel k (Buf.init m ⟨data, script⟩)).1, vb.1.start ≤ vb.1.stop :=
  ⟨(bscanAll_sorted fuel k _).2, fun vb h => ((bscanAll_sorted fuel k _).1 vb h).2⟩

example : (Buf.run 4 [97, 10, 98, 10, 99, 99, 99, 99, 10] []).1.map (·.1) = [⟨1, 0, 1⟩, ⟨1, 2, 3⟩, ⟨3, 0, 4⟩] := by decide

/-- The fuel of the model is an artefact of totality, not a bound on the code's loops: (1), (2) for EVERY state, a
    `Scan()` that did not stop for lack of fuel gives the same answer and the same state with any larger fuel; (3),
    (4) from the initial state, every recursion fuel and every number of calls at or above the ones `run` uses give
    exactly `run`'s slices, verdict and final state.  So every theorem about `Imm.run` / `Buf.run` is a theorem about
    the unbounded `for` loops of the code. -/
theorem fuel_irrelevant (n : Nat) (data : Bytes) (script : List Step) :
    (∀ (s : Imm) (f g : Nat), (s.scan f).1 ≠ .fuel → s.scan (f + g) = s.scan f) ∧
    (∀ (s : Buf) (f g : Nat), (s.scan f).1 ≠ .fuel → s.scan (f + g) = s.scan f) ∧
    (1 ≤ n → ∀ F N, data.length + script.length + 3 ≤ F → data.length + script.length + 3 ≤ N →
      Imm.scanAll F N (Imm.init n ⟨data, script⟩) = Imm.run n data script) ∧
    (2 ≤ n → ∀ F N, data.length + script.length + 3 ≤ F → data.length + script.length + 3 ≤ N →
      Buf.scanAll F N (Buf.init n ⟨data, script⟩) = Buf.run n data script) := by
  refine ⟨fun s f g => scan_fuel_mono f g s, fun s f g => bscan_fuel_mono f g s, fun h F N hF hN => ?_,
    fun h F N hF hN => ?_⟩
  · obtain ⟨g, rfl⟩ : ∃ g, F = (data.length + script.length + 3) + g := ⟨F - (data.length + script.length + 3), by omega⟩
    obtain ⟨k, rfl⟩ : ∃ k, N = (data.length + script.length + 3) + k := ⟨N - (data.length + script.length + 3), by omega⟩
    rw [scanAll_fuel_mono _ g _ (good_init n ⟨data, script⟩ h) (by simp [Imm.init, Reader.measure]; omega)]
    exact scanAll_calls_mono _ _ k _ (imm_terminates n data script h)
  · obtain ⟨g, rfl⟩ : ∃ g, F = (data.length + script.length + 3) + g := ⟨F - (data.length + script.length + 3), by omega⟩
    obtain ⟨k, rfl⟩ : ∃ k, N = (data.length + script.length + 3) + k := ⟨N - (data.length + script.length + 3), by omega⟩
    rw [bscanAll_fuel_mono _ g _ (bgood_init n ⟨data, script⟩ h) (by simp [Buf.init, Reader.measure]; omega)]
    exact bscanAll_calls_mono _ _ k _ (buf_terminates n data script h)

example : Imm.scanAll 100 50 (Imm.init 2 ⟨[97, 10, 98], [⟨0, none⟩]⟩) = Imm.run 2 [97, 10, 98] [⟨0, none⟩] :=
  (fuel_irrelevant 2 [97, 10, 98] [⟨0, none⟩]).2.2.1 (by decide) 100 50 (by decide) (by decide)

/-- `Scan()` IS a sequence of the listed micro-steps (`Imm.Micro`: regrow = allocate + copy; a `Read` into the free
    part `buf[end:]`, only with room; the error flag + callback, only right after the failing `Read`; handing out a
    terminated line; handing out the tail, only with `eof` set - `Buf.Micro`: the same for the buffered scanner with
    the allocation of the refill and the `Read`s of its fill loop as separate steps): for every state (immediate:
    `bufSize ≥ 1`), every fuel and every number of calls, `scan` / `scanAll` go from the state to their final state
    along a path of such steps that hands out exactly their slices, in order.  The model has no state change outside
    these steps, so `held_slice_survives_every_step` covers every moment of every scan. -/
theorem scan_is_path_of_micro_steps :
    (∀ (s : Imm) (f : Nat), 1 ≤ s.bufSize → Imm.Path (fun _ => True) s (s.scan f).1.toks (s.scan f).2) ∧
    (∀ (s : Imm) (f k : Nat), 1 ≤ s.bufSize → Imm.Path (fun _ => True) s (s.scanAll f k).1 (s.scanAll f k).2.2) ∧
    (∀ (s : Buf) (f : Nat), Buf.Path (fun _ => True) s (s.scan f).1.toks (s.scan f).2) ∧
    (∀ (s : Buf) (f k : Nat), Buf.Path (fun _ => True) s (s.scanAll f k).1 (s.scanAll f k).2.2) :=
  ⟨fun s f h => scan_path f s h, fun s f k h => scanAll_path f k s h, fun s f => bscan_path f s,
   fun s f k => bscanAll_path f k s⟩

/-- "For as long as the caller holds it while later lines are scanned", at the finest grain: a slice handed out by one
    of the first `j` calls of `Scan()` is a valid range of its array and reads back as its line in EVERY intermediate
    state (after each single micro-step: in the middle of a regrow / refill, between two `Read`s of one call, between
    the failing `Read` and the error callback, ...) of the following `k` calls - not only at call boundaries
    (`held_slices_intact_at_every_call`).  This is what a consumer goroutine working on a batch sees while the reader
    goroutine is anywhere inside `Scan()`.  Both scanners, every script, every fuel. -/
theorem held_slices_intact_at_every_intermediate_state (n : Nat) (data : Bytes) (script : List Step) (fuel j k : Nat) :
    (1 ≤ n → ∀ vb ∈ (Imm.scanAll fuel j (Imm.init n ⟨data, script⟩)).1,
      Imm.Path (fun t => ViewOK t.arrays vb.1 ∧ readView t.arrays vb.1 = vb.2)
        (Imm.scanAll fuel j (Imm.init n ⟨data, script⟩)).2.2
        ((Imm.scanAll fuel j (Imm.init n ⟨data, script⟩)).2.2.scanAll fuel k).1
        ((Imm.scanAll fuel j (Imm.init n ⟨data, script⟩)).2.2.scanAll fuel k).2.2) ∧
    (2 ≤ n → 0 < fuel → ∀ vb ∈ (Buf.scanAll fuel j (Buf.init n ⟨data, script⟩)).1,
      Buf.Path (fun t => ViewOK t.arrays vb.1 ∧ readView t.arrays vb.1 = vb.2)
        (Buf.scanAll fuel j (Buf.init n ⟨data, script⟩)).2.2
        ((Buf.scanAll fuel j (Buf.init n ⟨data, script⟩)).2.2.scanAll fuel k).1
        ((Buf.scanAll fuel j (Buf.init n ⟨data, script⟩)).2.2.scanAll fuel k).2.2) := by
  refine ⟨fun h vb hvb => ?_, fun h hf vb hvb => ?_⟩
  · apply path_keeps_view (scanAll_path fuel k _ ?_) vb.1 vb.2 (scanAll_viewsOK fuel j (good_init n ⟨data, script⟩ h) vb hvb)
    rw [scanAll_bufSize]; exact h
  · exact bpath_keeps_view (bscanAll_path fuel k _) vb.1 vb.2 (bscanAll_viewsOK fuel hf j (bgood_init n ⟨data, script⟩ h) vb hvb)

/-- Non-vacuity: the path of one `Scan()` that regrows (a held slice in array 0, the scan continues in array 1). -/
example : (Imm.scanAll 9 1 (Imm.init 2 ⟨[97, 10, 98, 98, 98, 10], []⟩)).1 = [(⟨0, 0, 1⟩, [97])] ∧
    ((Imm.scanAll 9 1 (Imm.init 2 ⟨[97, 10, 98, 98, 98, 10], []⟩)).2.2.scanAll 9 1).1 = [(⟨2, 0, 3⟩, [98, 98, 98])] := by
  decide

/-! ## Round 4c: the seam with C06 - the scanner over the reader `openFileToReader` returns (plain file or gzip reader) -/

/-- The scripts that describe a reader delivering the stream `(d, fails)` of C06's `streamOf` to a scanner with buffer
    size `b`.  A stream that ends with `io.EOF`: any chunking with any stalls and no error before the data is out (the
    scripted reader answers `(0, io.EOF)` once script and data are used up).  A stream that ends with a failure: the
    first error reported is a failure (with or without bytes) and the reader had handed over all of `d` by then.  The
    scanner is deterministic, so every adaptive reader with that contract (`os.File`, `gzip.Reader` with its
    block-dependent chunking, a pipe) behaves on it like exactly one such script. -/
def Realises (b : Nat) (script : List Step) (d : Bytes) (fails : Bool) : Prop :=
  if fails then failsFirst script = true ∧ (Imm.run b d script).2.2.delivered = d
  else ∀ st ∈ script, st.err = none

/-- **C06 abstracts the scanner as `splitLines` of what the opened reader delivers (`runFile` / `runStream`); C04
    discharges that assumption.**  For every file (plain, directory, gzip with any decoder outcome), with and without
    `-z`, every buffer size and every script realising the reader's stream: the immediate scanner hands on exactly the
    lines C06's `runFile` says, and calls `OnError` exactly as often as `runFile` counts read errors; with the batcher's
    real buffer size the batches of `syncReaderToBatcher` carry exactly those lines. -/
theorem scanner_over_opened_file (b : Nat) (h : 1 ≤ b) (gunzip : Bool) (name : C06.Path) (f : C06.FileOracle)
    (rd : C06.Rd) (fb : Bool) (ho : C06.openFileToReader f gunzip = some (rd, fb)) (script : List Step)
    (hr : Realises b script (C06.streamOf f rd).1 (C06.streamOf f rd).2) :
    (Imm.run b (C06.streamOf f rd).1 script).1.map (·.2) = (C06.runFile gunzip name f).lines ∧
    (Imm.run b (C06.streamOf f rd).1 script).2.2.errs = (C06.runFile gunzip name f).errs ∧
    (b = Rare.Gen.readAheadBufferSize → ∀ batchSize,
      ((syncRun batchSize (C06.streamOf f rd).1 script).batches.flatMap (·.lines)).map (·.2)
        = (C06.runFile gunzip name f).lines) := by
  have hl : (C06.runFile gunzip name f).lines = splitLines (C06.streamOf f rd).1 := by
    simp only [C06.runFile, ho]
    generalize C06.streamOf f rd = p
    obtain ⟨d, e⟩ := p
    rfl
  have he : (C06.runFile gunzip name f).errs = if (C06.streamOf f rd).2 then 1 else 0 := by
    simp only [C06.runFile, ho]
    generalize C06.streamOf f rd = p
    obtain ⟨d, e⟩ := p
    rfl
  rw [hl, he]
  generalize C06.streamOf f rd = p at hr
  obtain ⟨d, e⟩ := p
  have key : (Imm.run b d script).1.map (·.2) = splitLines d ∧ (Imm.run b d script).2.2.errs = if e then 1 else 0 := by
    cases e with
    | false =>
      have hs : ∀ st ∈ script, st.err = none := by simpa [Realises] using hr
      refine ⟨imm_chunking_independent b d script h hs, ?_⟩
      exact (imm_error_once b d script h).2 (fun st hst => by rw [hs st hst]; simp)
    | true =>
      obtain ⟨hf, hd⟩ : failsFirst script = true ∧ (Imm.run b d script).2.2.delivered = d := by
        simpa [Realises] using hr
      refine ⟨by rw [(imm_tokens_eq_split b d script h).1, hd], ?_⟩
      have hg : Good (Imm.init b ⟨d, script⟩) [] := good_init _ _ h
      have heof := scanAll_eof _ _ hg (imm_terminates b d script h)
      have hP := scanAll_closed closed_firstFailure_seen (d.length + script.length + 3) (d.length + script.length + 3) hg
        (Or.inl ⟨by simp [Imm.init], by simpa [Imm.init] using hf, by simp [Imm.init]⟩)
      rcases hP with ⟨hne, _, _⟩ | ⟨h1, _⟩
      · rw [hne] at heof; cases heof
      · simpa [Imm.run] using h1
  refine ⟨key.1, key.2, fun hb batchSize => ?_⟩
  subst hb
  have h1 := (sync_batches_partition_lines batchSize d script).2.1
  have h2 := (imm_tokens_eq_split Rare.Gen.readAheadBufferSize d script h).1
  have h3 : (syncRun batchSize d script).final = (Imm.run Rare.Gen.readAheadBufferSize d script).2.2 := rfl
  simp only at h1 ⊢
  rw [h1, h3, ← h2, key.1]

/-- **`rare -z` over a gzip file, every member and block layout, every chunking.**  A file of any number of gzip
    members (`cat a.gz b.gz`; any header `gzip.NewReader` accepts), each member any sequence of stored blocks: the file
    is opened through the gzip reader (no fallback), the decoder model delivers the concatenated member contents without
    error, and the scanner over it - every buffer size, every way the gzip reader chunks its `Read` results (block
    boundaries, member boundaries, window flushes: any error-free script with any stalls) - hands on exactly the lines of
    the uncompressed data with no `OnError` call: where lines end is independent of where members, blocks and chunks
    end.  (Fixed / dynamic Huffman blocks: same statement through `scanner_over_opened_file` for whatever the decoder
    model `Gz.gunzip` answers; the decoder model itself is compared with `compress/gzip` by C06's op `gunzip` and by
    C04's op `gz`.) -/
theorem scanner_over_gzip_members (b : Nat) (h : 1 ≤ b) (name : C06.Path) (m : C06.Gz.Hdr × List Bytes)
    (ms : List (C06.Gz.Hdr × List Bytes)) (hms : C06.Gz.MembersOk (m :: ms)) (script : List Step)
    (hs : ∀ st ∈ script, st.err = none) :
    C06.openFileToReader (C06.FileOracle.ofBytes (C06.Gz.fileStored (m :: ms))) true = some (.gz, false) ∧
    C06.streamOf (C06.FileOracle.ofBytes (C06.Gz.fileStored (m :: ms))) .gz = (C06.Gz.fileData (m :: ms), false) ∧
    (Imm.run b (C06.Gz.fileData (m :: ms)) script).1.map (·.2) = splitLines (C06.Gz.fileData (m :: ms)) ∧
    (Imm.run b (C06.Gz.fileData (m :: ms)) script).1.map (·.2)
      = (C06.runFile true name (C06.FileOracle.ofBytes (C06.Gz.fileStored (m :: ms)))).lines ∧
    (Imm.run b (C06.Gz.fileData (m :: ms)) script).2.2.errs = 0 ∧
    (C06.runFile true name (C06.FileOracle.ofBytes (C06.Gz.fileStored (m :: ms)))).errs = 0 := by
  have hg : C06.Gz.gunzip (C06.Gz.fileStored (m :: ms)) = some (C06.Gz.fileData (m :: ms), false) := by
    have := C06.Gz.gunzip_fileStored m ms hms [] (fun r hh => by cases hh)
    simpa using this
  have hh : C06.Gz.headerOk (C06.Gz.fileStored (m :: ms)) = true := by
    unfold C06.Gz.headerOk C06.Gz.readHeader
    simp only [C06.Gz.fileStored, C06.Gz.memberStored, List.append_assoc]
    rw [C06.Gz.readHeaderRest_encode m.1 (hms m (by simp)).1]
  have ho : C06.openFileToReader (C06.FileOracle.ofBytes (C06.Gz.fileStored (m :: ms))) true = some (.gz, false) := by
    simp [C06.openFileToReader, C06.openFileToReaderG, C06.FileOracle.ofBytes, C06.FileOracle.gzHeaderOk, hh]
  have hst : C06.streamOf (C06.FileOracle.ofBytes (C06.Gz.fileStored (m :: ms))) .gz = (C06.Gz.fileData (m :: ms), false) := by
    simp [C06.streamOf, C06.FileOracle.ofBytes, C06.gzAnswers, hg]
  have hr : Realises b script (C06.streamOf (C06.FileOracle.ofBytes (C06.Gz.fileStored (m :: ms))) .gz).1
      (C06.streamOf (C06.FileOracle.ofBytes (C06.Gz.fileStored (m :: ms))) .gz).2 := by
    rw [hst]; simpa [Realises] using hs
  have main := scanner_over_opened_file b h true name _ _ _ ho script hr
  rw [hst] at main
  refine ⟨ho, hst, imm_chunking_independent b _ script h hs, main.1, ?_, ?_⟩
  · exact (imm_error_once b _ script h).2 (fun st hst => by rw [hs st hst]; simp)
  · rw [← main.2.1]
    exact (imm_error_once b _ script h).2 (fun st hst => by rw [hs st hst]; simp)

/-- **A gzip file cut at any point after its header, under the scanner**: the decoder model delivers a prefix `d` of the
    content and then fails (`io.ErrUnexpectedEOF`, with or without bytes in the same `Read`); for every buffer size and
    every script realising that stream the scanner hands on exactly the lines of `d` - a cut inside a line gives that
    partial line as the last one - and `OnError` fires exactly once, as `runFile` counts. -/
theorem scanner_over_truncated_gzip (b : Nat) (h : 1 ≤ b) (name : C06.Path) (hd : C06.Gz.Hdr) (hw : hd.WF) (cs : List Bytes)
    (hok : C06.Gz.ChunksOk cs) (k : Nat) (hk1 : hd.encode.length ≤ k) (hk2 : k < (C06.Gz.memberStored hd cs).length) :
    ∃ d : Bytes, d <+: cs.flatten ∧
      C06.streamOf (C06.FileOracle.ofBytes ((C06.Gz.memberStored hd cs).take k)) .gz = (d, true) ∧
      ∀ script, Realises b script d true →
        (Imm.run b d script).1.map (·.2) = splitLines d ∧
        (Imm.run b d script).1.map (·.2)
          = (C06.runFile true name (C06.FileOracle.ofBytes ((C06.Gz.memberStored hd cs).take k))).lines ∧
        (Imm.run b d script).2.2.errs = 1 ∧
        (C06.runFile true name (C06.FileOracle.ofBytes ((C06.Gz.memberStored hd cs).take k))).errs = 1 := by
  obtain ⟨d, hg, hp⟩ := C06.Gz.gunzip_cut hd hw cs hok k hk1 hk2
  have hh : C06.Gz.headerOk ((C06.Gz.memberStored hd cs).take k) = true := by
    have e : (C06.Gz.memberStored hd cs).take k
        = hd.encode ++ (C06.Gz.deflateStored cs ++ C06.Gz.trailer cs.flatten).take (k - hd.encode.length) := by
      unfold C06.Gz.memberStored
      rw [List.append_assoc, List.take_append, List.take_of_length_le hk1]
    unfold C06.Gz.headerOk C06.Gz.readHeader
    rw [e, C06.Gz.readHeaderRest_encode hd hw]
  have ho : C06.openFileToReader (C06.FileOracle.ofBytes ((C06.Gz.memberStored hd cs).take k)) true = some (.gz, false) := by
    simp [C06.openFileToReader, C06.openFileToReaderG, C06.FileOracle.ofBytes, C06.FileOracle.gzHeaderOk, hh]
  have hst : C06.streamOf (C06.FileOracle.ofBytes ((C06.Gz.memberStored hd cs).take k)) .gz = (d, true) := by
    simp [C06.streamOf, C06.FileOracle.ofBytes, C06.gzAnswers, hg]
  refine ⟨d, hp, hst, fun script hr => ?_⟩
  have main := scanner_over_opened_file b h true name _ _ _ ho script (by rw [hst]; exact hr)
  rw [hst] at main
  have hl : (C06.runFile true name (C06.FileOracle.ofBytes ((C06.Gz.memberStored hd cs).take k))).lines = splitLines d := by
    simp only [C06.runFile, ho, hst]; rfl
  have he : (C06.runFile true name (C06.FileOracle.ofBytes ((C06.Gz.memberStored hd cs).take k))).errs = 1 := by
    simp only [C06.runFile, ho, hst]; rfl
  exact ⟨by rw [main.1, hl], main.1, by rw [main.2.1, he], he⟩

/-- Non-vacuity (`Realises`, failing stream): three bytes, then the failure together with the last one. -/
example : Realises 2 [⟨2, none⟩, ⟨0, none⟩, ⟨1, some .fail⟩] [97, 10, 98] true := by
  unfold Realises; decide

/-- The same for any stream handed to the scanner (`runStream`: what C06 uses for stdin and for every opened file):
    lines and error count of C06's abstraction are the scanner's, for every script realising the stream. -/
theorem scanner_over_stream (b : Nat) (h : 1 ≤ b) (name d : Bytes) (fails : Bool) (script : List Step)
    (hr : Realises b script d fails) :
    (Imm.run b d script).1.map (·.2) = (C06.runStream name d fails).lines ∧
    (Imm.run b d script).2.2.errs = (C06.runStream name d fails).errs := by
  have ho : C06.openFileToReader ⟨true, false, d, 0, d, fails⟩ false = some (.plain 0, false) := rfl
  cases fails with
  | false =>
    have := scanner_over_opened_file b h false name ⟨true, false, d, 0, d, false⟩ (.plain 0) false ho script
      (by simpa [C06.streamOf] using hr)
    simpa [C06.streamOf, C06.runFile, C06.openFileToReader, C06.openFileToReaderG] using ⟨this.1, this.2.1⟩
  | true =>
    -- a failing stream: the gzip reader of a file whose decoder answers `(d, true)`
    have hr' : failsFirst script = true ∧ (Imm.run b d script).2.2.delivered = d := by simpa [Realises] using hr
    refine ⟨?_, ?_⟩
    · show _ = splitLines d
      rw [(imm_tokens_eq_split b d script h).1, hr'.2]
    · show _ = 1
      have hg : Good (Imm.init b ⟨d, script⟩) [] := good_init _ _ h
      have heof := scanAll_eof _ _ hg (imm_terminates b d script h)
      have hP := scanAll_closed closed_firstFailure_seen (d.length + script.length + 3) (d.length + script.length + 3) hg
        (Or.inl ⟨by simp [Imm.init], by simpa [Imm.init] using hr'.1, by simp [Imm.init]⟩)
      rcases hP with ⟨hne, _, _⟩ | ⟨h1, _⟩
      · rw [hne] at heof; cases heof
      · simpa [Imm.run] using h1

/-- `Realises` is inhabited for EVERY stream and buffer size (so no theorem above is vacuous for any file): a reader
    handing over one byte per `Read` and then failing (with a request for `w` more bytes) realises `(d, true)`; every
    error-free script realises `(d, false)`. -/
theorem realises_inhabited (b : Nat) (h : 1 ≤ b) (d : Bytes) (w : Nat) :
    Realises b (byteScript d.length w) d true ∧
    (∀ script : List Step, (∀ st ∈ script, st.err = none) → Realises b script d false) := by
  refine ⟨?_, fun script hs => by simpa [Realises] using hs⟩
  have hg : Good (Imm.init b ⟨d, byteScript d.length w⟩) [] := good_init _ _ h
  have hstream := scanAll_closed (closed_stream d) (d.length + (byteScript d.length w).length + 3)
      (d.length + (byteScript d.length w).length + 3) hg (by simp [Imm.init])
  have hP := scanAll_closed (closed_byteScript w) (d.length + (byteScript d.length w).length + 3)
      (d.length + (byteScript d.length w).length + 3) hg
      (Or.inl ⟨by simp [Imm.init], d.length, by simp [Imm.init], by simp [Imm.init]⟩)
  have heof := scanAll_eof _ _ hg (imm_terminates b d (byteScript d.length w) h)
  have hrest : (Imm.run b d (byteScript d.length w)).2.2.rd.rest = [] := by
    rcases hP with ⟨hne, _⟩ | hr
    · rw [hne] at heof; cases heof
    · exact hr
  have hdel : (Imm.run b d (byteScript d.length w)).2.2.delivered = d := by
    have := hstream
    unfold Imm.run at hrest ⊢
    rw [hrest] at this
    simpa using this
  simp only [Realises, if_true]
  exact ⟨failsFirst_byteScript _ _, hdel⟩

/-- The boundaries of the two new hypotheses are real.  (1) `Realises` for a failing stream needs "everything was handed
    over before the failure": a reader that fails after the first byte of `a\nb` still gets its error counted once, but
    the scanner hands on the lines of the DELIVERED prefix (`a`), not of the stream C06's `streamOf` names - a decoder
    model that over-reports what was delivered before a failure would be caught here, not absorbed.  (2)
    `fuel_irrelevant` needs the fuel bound: with less fuel than the reader's progress measure a `Scan()` of the model
    stops with `.fuel` and the run differs from `run`. -/
theorem seam_hypotheses_needed :
    (failsFirst [⟨1, some .fail⟩] = true ∧
      ¬ Realises 4 [⟨1, some .fail⟩] [97, 10, 98] true ∧
      (Imm.run 4 [97, 10, 98] [⟨1, some .fail⟩]).1.map (·.2) = [[97]] ∧
      (C06.runStream [120] [97, 10, 98] true).lines = [[97], [98]] ∧
      (Imm.run 4 [97, 10, 98] [⟨1, some .fail⟩]).2.2.errs = (C06.runStream [120] [97, 10, 98] true).errs) ∧
    (match ((Imm.init 2 ⟨[97, 10], [⟨0, none⟩, ⟨0, none⟩]⟩).scan 2).1 with | .fuel => true | _ => false) = true ∧
    (Imm.scanAll 2 9 (Imm.init 2 ⟨[97, 10], [⟨0, none⟩, ⟨0, none⟩]⟩)).1 ≠ (Imm.run 2 [97, 10] [⟨0, none⟩, ⟨0, none⟩]).1 := by
  refine ⟨⟨by decide, ?_, by decide, by decide, by decide⟩, by decide, by decide⟩
  unfold Realises
  decide

/-- The destination sizes of all `Read` calls (op `rooms`: compared one by one with the sizes the real scanners pass
    to the reader - the only place where the allocation sizes `bufSize`, `end - offset + bufSize`,
    `maxi(maxBufLen, len - offset + maxBufLen/2)` become observable): the logging twins of `Model/C04Rooms.lean` are the
    scanners themselves - dropping the log gives `scanAll` back, for every state, fuel and number of calls - and every
    logged size is positive: no `Read` with an empty destination is ever issued, over the whole run (the per-state fact
    was `imm_read_room_positive`), by either scanner. -/
theorem read_destinations_logged (fuel k : Nat) :
    (∀ (s : Imm) (log : List Nat), (s.scanAllL fuel k log).2 = s.scanAll fuel k) ∧
    (∀ (s : Buf) (log : List Nat), (s.scanAllL fuel k log).2 = s.scanAll fuel k) ∧
    (∀ s : Imm, 1 ≤ s.bufSize → ∀ r ∈ (s.scanAllL fuel k []).1, 0 < r) ∧
    (∀ s : Buf, ∀ r ∈ (s.scanAllL fuel k []).1, 0 < r) :=
  ⟨fun s log => scanAllL_snd fuel k s log, fun s log => bscanAllL_snd fuel k s log,
   fun s hb => scanAllL_pos fuel k s [] hb (fun _ h => by cases h),
   fun s => bscanAllL_pos fuel k s [] (fun _ h => by cases h)⟩

example : ((Imm.init 2 ⟨[97, 98, 99, 10, 100], [⟨1, none⟩]⟩).scanAllL 9 9 []).1.reverse = [2, 1, 2, 2, 1] := by decide

example : ((Buf.init 4 ⟨[97, 98, 99, 10, 100, 101, 102, 103, 104, 105], [⟨1, none⟩]⟩).scanAllL 9 9 []).1.reverse
    = [4, 3, 4, 2, 2] := by decide

end Rare.C04
