import Rare.Proofs.C19Rat
import Rare.Proofs.C19Complete
import Rare.Proofs.C19Fuel
import Rare.Gen.C19
/-!
# C19 — math formulas follow the documented precedence; constants equal bound variables

Property theorems about the model of `pkg/expressions/stdmath` (`Rare/Model/C19.lean`, mirrors
tokenizer.go / parser.go / ops.go / simplify.go of the repaired code).  They hold for every
arithmetic `A : Arith α` (float64 in the real code): nothing below depends on how `+`, `sin`, …
compute, so the IEEE evaluation itself is outside these theorems (it is covered by the
correspondence run, bit for bit where IEEE-754 makes the result unique).

`compile A s = .ok (t, e)`: `e` is the expression the Go code builds (with compile-time
simplification), `t` the ghost parse tree.  Quantifiers: every formula text `s` (byte string),
every binding `b` of `[n]`/named variables.
-/
namespace Rare.C19

variable {α : Type} (A : Arith α)

/-- The operator tables the model uses are the ones in `/repo` now (regenerated from ops.go). -/
theorem gen_tables :
    Gen.C19.orderOfOps = orderOfOps ∧ Gen.C19.opKeys = opKeys ∧ Gen.C19.uniKeys = uniKeys ∧
    Gen.C19.maxOpLen = maxOpLen := by decide

/-- Every binary operator is listed in exactly one precedence set, and the sets list nothing else. -/
theorem orderOfOps_partition :
    (Gen.C19.opKeys.all fun op => (Gen.C19.orderOfOps.filter (·.contains op)).length == 1) = true ∧
    (Gen.C19.orderOfOps.all fun set => set.all fun op => Gen.C19.opKeys.contains op) = true := by decide

/-- The documented order: `^`, then shifts, then `* / %`, then `& |`, then `+ -`, then comparisons,
    then `&& ||` (level 0 binds tightest). -/
theorem documented_order :
    level Gen.C19.orderOfOps [94] = some 0 ∧
    level Gen.C19.orderOfOps [60, 60] = some 1 ∧ level Gen.C19.orderOfOps [62, 62] = some 1 ∧
    level Gen.C19.orderOfOps [42] = some 2 ∧ level Gen.C19.orderOfOps [47] = some 2 ∧
    level Gen.C19.orderOfOps [37] = some 2 ∧
    level Gen.C19.orderOfOps [38] = some 3 ∧ level Gen.C19.orderOfOps [124] = some 3 ∧
    level Gen.C19.orderOfOps [43] = some 4 ∧ level Gen.C19.orderOfOps [45] = some 4 ∧
    level Gen.C19.orderOfOps [60] = some 5 ∧ level Gen.C19.orderOfOps [60, 61] = some 5 ∧
    level Gen.C19.orderOfOps [62] = some 5 ∧ level Gen.C19.orderOfOps [62, 61] = some 5 ∧
    level Gen.C19.orderOfOps [61, 61] = some 5 ∧
    level Gen.C19.orderOfOps [38, 38] = some 6 ∧ level Gen.C19.orderOfOps [124, 124] = some 6 := by decide

/-- `opCodeOrder` never reaches its `panic("op not found")`: for the `""` of the outermost frame and
    every key of `ops` as `op0`, and every key of `ops` as `op1`, it answers -1, 0 or 1
    (finite table, fully enumerated). -/
theorem opCodeOrder_total :
    (([] :: Gen.C19.opKeys).all fun op0 => Gen.C19.opKeys.all fun op1 =>
      match opCodeOrderGo Gen.C19.orderOfOps op0 op1 with
      | .ok r => r == -1 || r == 0 || r == 1
      | .error _ => false) = true := by decide

/-- … and in fact for *any* `op0` whatsoever, as long as `op1` is a binary operator. -/
theorem opCodeOrder_total_any (op0 op1 : Bytes) (h : opKeys.contains op1 = true) :
    ∃ r, opCodeOrder op0 op1 = .ok r := by
  have hl := level_of_mem op1 h
  cases hlv : level orderOfOps op1 with
  | none => rw [hlv] at hl; cases hl
  | some lb => exact order_total hlv

/-- **The parse is the common-order parse.**  If a formula compiles, its parse tree flattens back
    to exactly the token sequence of the formula, is well-precedenced for the table in `/repo`
    (a binary node of level ℓ has a left operand of level ≤ ℓ and a right operand of level < ℓ;
    groups, unary applications and literals are atoms), every parenthesised group is, recursively,
    such a parse of its own text, and every literal is a number or a variable. -/
theorem parse_wellprec (s : Bytes) (t : Tree) (e : Expr α) (h : compile A s = .ok (t, e)) :
    tok s = some t.flatten ∧ WellPrec Gen.C19.orderOfOps t ∧ Deep tok t ∧
    t.allLits (fun v => (classify A v).isSome) = true := by
  obtain ⟨htok, g⟩ := compileF_post A _ s t e h
  rw [gen_tables.1]
  exact ⟨htok, g.wp, g.deep, g.lits⟩

/-- **Compile-time simplification is invisible; the value is the value of the parse.**  The
    expression the code builds (sub-formulas without variables folded into constants by probe
    evaluation) evaluates, under every binding, to the value of the unsimplified parse tree. -/
theorem formula_value (s : Bytes) (t : Tree) (e : Expr α) (h : compile A s = .ok (t, e))
    (b : Binding α) : e.eval A b = t.eval A (classify A) b :=
  (compileF_post A _ s t e h).2.ev b

/-- **Every common-order parse is found.**  If the tokens of a formula are the flattening of a
    well-precedenced tree (groups recursively, literals proper), the formula compiles, to exactly
    that tree. -/
theorem parse_complete (s : Bytes) (t : Tree) (htok : tok s = some t.flatten)
    (hwp : WellPrec Gen.C19.orderOfOps t) (hd : Deep tok t)
    (hl : t.allLits (fun v => (classify A v).isSome) = true) :
    ∃ e, compile A s = .ok (t, e) := by
  rw [gen_tables.1] at hwp
  exact compileF_complete A _ s t (Nat.lt_succ_self _) htok hwp hd hl

/-- **The common-order parse of a formula is unique**: two well-precedenced trees that flatten to
    the tokens of the same text are equal (so `parse_wellprec` pins the parse down completely). -/
theorem wp_unique (s : Bytes) (t₁ t₂ : Tree)
    (h₁ : tok s = some t₁.flatten) (h₂ : tok s = some t₂.flatten)
    (w₁ : WellPrec Gen.C19.orderOfOps t₁) (w₂ : WellPrec Gen.C19.orderOfOps t₂)
    (d₁ : Deep tok t₁) (d₂ : Deep tok t₂)
    (l₁ : t₁.allLits (fun v => (classify A v).isSome) = true)
    (l₂ : t₂.allLits (fun v => (classify A v).isSome) = true) : t₁ = t₂ := by
  obtain ⟨e₁, c₁⟩ := parse_complete A s t₁ h₁ w₁ d₁ l₁
  obtain ⟨e₂, c₂⟩ := parse_complete A s t₂ h₂ w₂ d₂ l₂
  rw [c₁] at c₂
  injection c₂ with c₂
  injection c₂ with c₂ _

/-- **Constants equal bound variables.**  Take a compiled formula `s` and replace any of its
    numeric constants by variables (or variables by constants, or by other spellings) such that
    every replaced literal denotes, under the new binding `b'`, the value the old one denotes under
    `b` (`LitSubst`).  Then the new text `s'` compiles as well, to the substituted tree, and its value
    under `b'` is the value of the old formula under `b` – although the simplifier folded different
    sub-formulas in the two compilations. -/
theorem simplify_invisible (s s' : Bytes) (t t' : Tree) (e : Expr α) (b b' : Binding α)
    (hc : compile A s = .ok (t, e)) (hs : LitSubst A b b' t t')
    (htok : tok s' = some t'.flatten) (hd : Deep tok t') :
    ∃ e', compile A s' = .ok (t', e') ∧ e'.eval A b' = e.eval A b := by
  obtain ⟨_, hwp, _, _⟩ := parse_wellprec A s t e hc
  rw [gen_tables.1] at hwp
  have hwp' : WellPrec Gen.C19.orderOfOps t' := by rw [gen_tables.1]; exact hs.wp hwp
  obtain ⟨e', hc'⟩ := parse_complete A s' t' htok hwp' hd hs.lits
  refine ⟨e', hc', ?_⟩
  rw [formula_value A s' t' e' hc' b', formula_value A s t e hc b]
  exact hs.eval_eq.symm

/-- `simplify_invisible` is not vacuous: `2*3+4` and `2*x+4` with x = 3. -/
example : ∃ e', compile ratArith (ascii "2*x+4") = .ok
      (.bin false [43] (.bin false [42] (.lit [50]) (.lit [120])) (.lit [52]), e') ∧
    e'.eval ratArith ⟨fun _ => some 0, fun _ => some 3⟩ = some 10 := by
  have hc : compile ratArith (ascii "2*3+4") = .ok
      (.bin false [43] (.bin false [42] (.lit [50]) (.lit [51])) (.lit [52]), .val (some 10)) := by
    have h : (compile ratArith (ascii "2*3+4")).toOption = some
        (.bin false [43] (.bin false [42] (.lit [50]) (.lit [51])) (.lit [52]), .val (some 10)) := by
      decide +kernel
    cases hx : compile ratArith (ascii "2*3+4") with
    | error err => rw [hx] at h; cases h
    | ok r => rw [hx] at h; injection h with h; rw [h]
  have := simplify_invisible ratArith (ascii "2*3+4") (ascii "2*x+4") _
    (.bin false [43] (.bin false [42] (.lit [50]) (.lit [120])) (.lit [52])) _
    ⟨fun _ => some 0, fun _ => some 0⟩ ⟨fun _ => some 0, fun _ => some 3⟩ hc
    (.bin _ _ _ _ _ _
      (.bin _ _ _ _ _ _
        (.lit _ _ (.num (some 2)) (.num (some 2)) (by decide +kernel) (by decide +kernel) rfl)
        (.lit _ _ (.num (some 3)) (.named [120]) (by decide +kernel) (by decide +kernel) rfl))
      (.lit _ _ (.num (some 4)) (.num (some 4)) (by decide +kernel) (by decide +kernel) rfl))
    (by decide +kernel)
    (.bin _ _ _ _ (.bin _ _ _ _ (.lit _) (.lit _)) (.lit _))
  obtain ⟨e', h1, h2⟩ := this
  exact ⟨e', h1, h2⟩

/-- `simplify` alone: replacing an expression by its simplification never changes a value. -/
theorem simplify_sound (e : Expr α) (b : Binding α) : (simplify A e).eval A b = e.eval A b :=
  simplify_eval A e b

/-- **No formula makes compilation panic** (after the repairs F11/F12: the simplifier's probe
    evaluation is total, a dangling unary operator is an error, `opCodeOrder` always finds its
    operators); evaluation is a total function by construction (`Expr.eval`), the integer
    operators being guarded (`modI`, `shlI`, `shrI` answer `none` → NaN). -/
theorem eval_no_panic (s : Bytes) (err : Err) (h : compile A s = .error err) (m : String) :
    err ≠ .panic m :=
  compileF_noPanic A _ s err h m

/-- **Compilation always returns**: the model's recursion budgets (token loop, nesting of groups)
    are never exhausted, so for every text `compile` answers either a parse or one of the Go error
    values – "the model returned" is not an assumption of the other theorems. -/
theorem compile_returns (s : Bytes) : compile A s ≠ .error .fuel :=
  compile_noFuel A s

/-- **Malformed formulas are rejected at compile time**: a text that is not the flattening of any
    well-precedenced parse tree with proper literals (unbalanced parentheses, two operands or two
    operators in a row, a dangling operator, `2x`, `1.2.3` …) does not compile – and is rejected
    by an error value, not by a panic or a non-return. -/
theorem malformed_rejected (s : Bytes)
    (h : ¬ ∃ t : Tree, tok s = some t.flatten ∧ WellPrec Gen.C19.orderOfOps t ∧ Deep tok t ∧
      t.allLits (fun v => (classify A v).isSome) = true) :
    ∃ err, compile A s = .error err ∧ (∀ m, err ≠ .panic m) ∧ err ≠ .fuel := by
  cases hc : compile A s with
  | error err => exact ⟨err, rfl, eval_no_panic A s err hc, fun h => compile_returns A s (h ▸ hc)⟩
  | ok r =>
    obtain ⟨t, e⟩ := r
    exact absurd ⟨t, parse_wellprec A s t e hc⟩ h

/-- The guarded integer operators on the exact instance: `%` by zero and negative shift counts
    are "not a number", never a crash; otherwise `%` is Go's truncated remainder. -/
theorem int_ops_guarded (a b : Rat) :
    (ratTrunc b = 0 → ratArith.bin [37] (some a) (some b) = none) ∧
    (ratTrunc b ≠ 0 → ratArith.bin [37] (some a) (some b) = some ((Int.tmod (ratTrunc a) (ratTrunc b) : Int) : Rat)) ∧
    (ratTrunc b < 0 → ratArith.bin [60, 60] (some a) (some b) = none ∧ ratArith.bin [62, 62] (some a) (some b) = none) := by
  refine ⟨?_, ?_, ?_⟩
  · intro h
    simp [ratArith, arithOf, binOf, ratPrim, modI, h]
  · intro h
    simp [ratArith, arithOf, binOf, ratPrim, modI, h]
  · intro h
    simp [ratArith, arithOf, binOf, ratPrim, shlI, shrI, h]

/-! ### Non-vacuity: concrete formulas through the whole model (exact instance) -/

/-- `2+3*4` parses as `2+(3*4)`. -/
example : parseStr (ascii "2+3*4") =
    some (.bin false [43] (.lit [50]) (.bin false [42] (.lit [51]) (.lit [52]))) := by decide +kernel

/-- equal levels associate to the left: `8-3-2` is `(8-3)-2`, and so is `2^3^2 = (2^3)^2 = 64`. -/
example : parseStr (ascii "8-3-2") =
    some (.bin false [45] (.bin false [45] (.lit [56]) (.lit [51])) (.lit [50])) := by decide +kernel
example : evalStr (ascii "2^3^2") 0 = some (some 64) := by decide +kernel

/-- `1 + 2 * 3 ^ 2 < 20 && 1` = ((1 + (2 * (3^2))) < 20) && 1 = 1 -/
example : evalStr (ascii "1 + 2 * 3 ^ 2 < 20 && 1") 0 = some (some 1) := by decide +kernel

/-- implied multiplication and groups: `2(1+1)` = 4 (docs/usage/math.md) -/
example : evalStr (ascii "2(1+1)") 0 = some (some 4) := by decide +kernel
example : parseStr (ascii "2(x)") = some (.bin true [42] (.lit [50]) (.grp [120] (.lit [120]))) := by
  decide +kernel

/-- the unary minus binds tighter than `^`: `-2^2` = (-2)^2 = 4 (a documented quirk of the parser,
    not claimed as a defect) -/
example : evalStr (ascii "-2^2") 0 = some (some 4) := by decide +kernel

/-- constants and variables, hex/binary literals, decimals: with x = 4, `7 % x + 0x10 + 0.5` = 19.5 -/
example : evalStr (ascii "7 % x + 0x10 + 0b1 - 1 + 0.5") 4 = some (some (39 / 2)) := by decide +kernel

/-- F11: `5 % x` compiles (it used to crash inside the simplifier) and is "not a number" for x = 0 -/
example : evalStr (ascii "5 % x") 0 = some none := by decide +kernel
example : evalStr (ascii "5 % x") 3 = some (some 2) := by decide +kernel

/-- F12 and other malformed texts are compile errors -/
example : evalStr (ascii "2 + -") 0 = none := by decide +kernel
example : evalStr (ascii "-") 0 = none := by decide +kernel
example : evalStr (ascii "(2") 0 = none := by decide +kernel
example : evalStr (ascii "2 3)") 0 = none := by decide +kernel
example : evalStr (ascii "2 * * 3") 0 = none := by decide +kernel
example : evalStr (ascii "(2)3") 0 = none := by decide +kernel

end Rare.C19
