import Rare.Proofs.C19Rat
import Rare.Proofs.C19Complete
import Rare.Proofs.C19Fuel
import Rare.Proofs.C19Lit
import Rare.Proofs.C19Tok
import Rare.Proofs.C19F64c
import Rare.Proofs.C19Ops
import Rare.Proofs.C19Pool
import Rare.Proofs.C19Vars
import Rare.Proofs.C19IntText
import Rare.Proofs.C11Log
import Rare.Proofs.C19Trig
import Rare.Proofs.C19TextVars
import Rare.Gen.C19
import Rare.Gen.Access
/-!
# C19 — math formulas follow the documented precedence; constants equal bound variables

Property theorems about the model of `pkg/expressions/stdmath` (`Rare/Model/C19.lean`, mirrors
tokenizer.go / parser.go / ops.go / simplify.go of the repaired code).  They hold for every
arithmetic `A : Arith α` (float64 in the real code): nothing in the first part depends on how `+`,
`sin`, … compute – in particular no algebraic law (associativity, distributivity, `x - x = 0` …)
is assumed anywhere, which floats would not satisfy; the simplifier is proved invisible only
because it evaluates constant sub-formulas *with the same operations* as the run-time evaluation.

The second part (`*_f64`, `integer_formulas_exact`, `comparison_total`, `nan_*` …) instantiates the
arithmetic with IEEE-754 binary64: `IEEE.arith L` of `Rare/Model/C19F64.lean`, built on the
kernel-checkable software model `Rare.F64` (bit patterns, exact rationals, one rounding), for every
behaviour `L` of the libm-backed functions (`sin cos tan asin acos atan exp exp2`, `math.Pow` with a
fractional exponent), which stay a parameter; the logarithms are computed (round 4b, `log_functions_f64`).  The driver evaluates with the same operations (`IEEE.arithT`, sound by
`taint_sound`) and is compared bit for bit with the Go code.

`compile A s = .ok (t, e)`: `e` is the expression the Go code builds (with compile-time
simplification), `t` the ghost parse tree.  Quantifiers: every formula text `s` (byte string),
every binding `b` of `[n]`/named variables.
-/
namespace Rare.C19

variable {α : Type} (A : Arith α)

/-- The operator tables the model uses are the ones in `/repo` now (regenerated from ops.go). -/
theorem gen_tables :
    Gen.C19.orderOfOps = orderOfOps ∧ Gen.C19.opKeys = opKeys ∧ Gen.C19.uniKeys = uniKeys ∧
    Gen.C19.maxOpLen = maxOpLen := by decide

/-- Every binary operator is listed in exactly one precedence set, and the sets list nothing else. -/
theorem orderOfOps_partition :
    (Gen.C19.opKeys.all fun op => (Gen.C19.orderOfOps.filter (·.contains op)).length == 1) = true ∧
    (Gen.C19.orderOfOps.all fun set => set.all fun op => Gen.C19.opKeys.contains op) = true := by decide

/-- The documented order: `^`, then shifts, then `* / %`, then `& |`, then `+ -`, then comparisons,
    then `&& ||` (level 0 binds tightest). -/
theorem documented_order :
    level Gen.C19.orderOfOps [94] = some 0 ∧
    level Gen.C19.orderOfOps [60, 60] = some 1 ∧ level Gen.C19.orderOfOps [62, 62] = some 1 ∧
    level Gen.C19.orderOfOps [42] = some 2 ∧ level Gen.C19.orderOfOps [47] = some 2 ∧
    level Gen.C19.orderOfOps [37] = some 2 ∧
    level Gen.C19.orderOfOps [38] = some 3 ∧ level Gen.C19.orderOfOps [124] = some 3 ∧
    level Gen.C19.orderOfOps [43] = some 4 ∧ level Gen.C19.orderOfOps [45] = some 4 ∧
    level Gen.C19.orderOfOps [60] = some 5 ∧ level Gen.C19.orderOfOps [60, 61] = some 5 ∧
    level Gen.C19.orderOfOps [62] = some 5 ∧ level Gen.C19.orderOfOps [62, 61] = some 5 ∧
    level Gen.C19.orderOfOps [61, 61] = some 5 ∧
    level Gen.C19.orderOfOps [38, 38] = some 6 ∧ level Gen.C19.orderOfOps [124, 124] = some 6 := by decide

/-- `opCodeOrder` never reaches its `panic("op not found")`: for the `""` of the outermost frame and
    every key of `ops` as `op0`, and every key of `ops` as `op1`, it answers -1, 0 or 1
    (finite table, fully enumerated). -/
theorem opCodeOrder_total :
    (([] :: Gen.C19.opKeys).all fun op0 => Gen.C19.opKeys.all fun op1 =>
      match opCodeOrderGo Gen.C19.orderOfOps op0 op1 with
      | .ok r => r == -1 || r == 0 || r == 1
      | .error _ => false) = true := by decide

/-- … and in fact for *any* `op0` whatsoever, as long as `op1` is a binary operator. -/
theorem opCodeOrder_total_any (op0 op1 : Bytes) (h : opKeys.contains op1 = true) :
    ∃ r, opCodeOrder op0 op1 = .ok r := by
  have hl := level_of_mem op1 h
  cases hlv : level orderOfOps op1 with
  | none => rw [hlv] at hl; cases hl
  | some lb => exact order_total hlv

/-- **The parse is the common-order parse.**  If a formula compiles, its parse tree flattens back
    to exactly the token sequence of the formula, is well-precedenced for the table in `/repo`
    (a binary node of level ℓ has a left operand of level ≤ ℓ and a right operand of level < ℓ;
    groups, unary applications and literals are atoms), every parenthesised group is, recursively,
    such a parse of its own text, and every literal is a number or a variable. -/
theorem parse_wellprec (s : Bytes) (t : Tree) (e : Expr α) (h : compile A s = .ok (t, e)) :
    tok s = some t.flatten ∧ WellPrec Gen.C19.orderOfOps t ∧ Deep tok t ∧
    t.allLits (fun v => (classify A v).isSome) = true := by
  obtain ⟨htok, g⟩ := compileF_post A _ s t e h
  rw [gen_tables.1]
  exact ⟨htok, g.wp, g.deep, g.lits⟩

/-- **Compile-time simplification is invisible; the value is the value of the parse.**  The
    expression the code builds (sub-formulas without variables folded into constants by probe
    evaluation) evaluates, under every binding, to the value of the unsimplified parse tree. -/
theorem formula_value (s : Bytes) (t : Tree) (e : Expr α) (h : compile A s = .ok (t, e))
    (b : Binding α) : e.eval A b = t.eval A (classify A) b :=
  (compileF_post A _ s t e h).2.ev b

/-- **Every common-order parse is found.**  If the tokens of a formula are the flattening of a
    well-precedenced tree (groups recursively, literals proper), the formula compiles, to exactly
    that tree. -/
theorem parse_complete (s : Bytes) (t : Tree) (htok : tok s = some t.flatten)
    (hwp : WellPrec Gen.C19.orderOfOps t) (hd : Deep tok t)
    (hl : t.allLits (fun v => (classify A v).isSome) = true) :
    ∃ e, compile A s = .ok (t, e) := by
  rw [gen_tables.1] at hwp
  exact compileF_complete A _ s t (Nat.lt_succ_self _) htok hwp hd hl

/-- **The common-order parse of a formula is unique**: two well-precedenced trees that flatten to
    the tokens of the same text are equal (so `parse_wellprec` pins the parse down completely). -/
theorem wp_unique (s : Bytes) (t₁ t₂ : Tree)
    (h₁ : tok s = some t₁.flatten) (h₂ : tok s = some t₂.flatten)
    (w₁ : WellPrec Gen.C19.orderOfOps t₁) (w₂ : WellPrec Gen.C19.orderOfOps t₂)
    (d₁ : Deep tok t₁) (d₂ : Deep tok t₂)
    (l₁ : t₁.allLits (fun v => (classify A v).isSome) = true)
    (l₂ : t₂.allLits (fun v => (classify A v).isSome) = true) : t₁ = t₂ := by
  obtain ⟨e₁, c₁⟩ := parse_complete A s t₁ h₁ w₁ d₁ l₁
  obtain ⟨e₂, c₂⟩ := parse_complete A s t₂ h₂ w₂ d₂ l₂
  rw [c₁] at c₂
  injection c₂ with c₂
  injection c₂ with c₂ _

/-- **Constants equal bound variables.**  Take a compiled formula `s` and replace any of its
    numeric constants by variables (or variables by constants, or by other spellings) such that
    every replaced literal denotes, under the new binding `b'`, the value the old one denotes under
    `b` (`LitSubst`).  Then the new text `s'` compiles as well, to the substituted tree, and its value
    under `b'` is the value of the old formula under `b` – although the simplifier folded different
    sub-formulas in the two compilations. -/
theorem simplify_invisible (s s' : Bytes) (t t' : Tree) (e : Expr α) (b b' : Binding α)
    (hc : compile A s = .ok (t, e)) (hs : LitSubst A b b' t t')
    (htok : tok s' = some t'.flatten) (hd : Deep tok t') :
    ∃ e', compile A s' = .ok (t', e') ∧ e'.eval A b' = e.eval A b := by
  obtain ⟨_, hwp, _, _⟩ := parse_wellprec A s t e hc
  rw [gen_tables.1] at hwp
  have hwp' : WellPrec Gen.C19.orderOfOps t' := by rw [gen_tables.1]; exact hs.wp hwp
  obtain ⟨e', hc'⟩ := parse_complete A s' t' htok hwp' hd hs.lits
  refine ⟨e', hc', ?_⟩
  rw [formula_value A s' t' e' hc' b', formula_value A s t e hc b]
  exact hs.eval_eq.symm

/-- `simplify_invisible` is not vacuous: `2*3+4` and `2*x+4` with x = 3. -/
example : ∃ e', compile ratArith (ascii "2*x+4") = .ok
      (.bin false [43] (.bin false [42] (.lit [50]) (.lit [120])) (.lit [52]), e') ∧
    e'.eval ratArith ⟨fun _ => some 0, fun _ => some 3⟩ = some 10 := by
  have hc : compile ratArith (ascii "2*3+4") = .ok
      (.bin false [43] (.bin false [42] (.lit [50]) (.lit [51])) (.lit [52]), .val (some 10)) := by
    have h : (compile ratArith (ascii "2*3+4")).toOption = some
        (.bin false [43] (.bin false [42] (.lit [50]) (.lit [51])) (.lit [52]), .val (some 10)) := by
      decide +kernel
    cases hx : compile ratArith (ascii "2*3+4") with
    | error err => rw [hx] at h; cases h
    | ok r => rw [hx] at h; injection h with h; rw [h]
  have := simplify_invisible ratArith (ascii "2*3+4") (ascii "2*x+4") _
    (.bin false [43] (.bin false [42] (.lit [50]) (.lit [120])) (.lit [52])) _
    ⟨fun _ => some 0, fun _ => some 0⟩ ⟨fun _ => some 0, fun _ => some 3⟩ hc
    (.bin _ _ _ _ _ _
      (.bin _ _ _ _ _ _
        (.lit _ _ (.num (some 2)) (.num (some 2)) (by decide +kernel) (by decide +kernel) rfl)
        (.lit _ _ (.num (some 3)) (.named [120]) (by decide +kernel) (by decide +kernel) rfl))
      (.lit _ _ (.num (some 4)) (.num (some 4)) (by decide +kernel) (by decide +kernel) rfl))
    (by decide +kernel)
    (.bin _ _ _ _ (.bin _ _ _ _ (.lit _) (.lit _)) (.lit _))
  obtain ⟨e', h1, h2⟩ := this
  exact ⟨e', h1, h2⟩

/-- `simplify` alone: replacing an expression by its simplification never changes a value. -/
theorem simplify_sound (e : Expr α) (b : Binding α) : (simplify A e).eval A b = e.eval A b :=
  simplify_eval A e b

/-- **No formula makes compilation panic** (after the repairs F11/F12: the simplifier's probe
    evaluation is total, a dangling unary operator is an error, `opCodeOrder` always finds its
    operators); evaluation is a total function by construction (`Expr.eval`), the integer
    operators being guarded (`modI`, `shlI`, `shrI` answer `none` → NaN). -/
theorem eval_no_panic (s : Bytes) (err : Err) (h : compile A s = .error err) (m : String) :
    err ≠ .panic m :=
  compileF_noPanic A _ s err h m

/-- **Compilation always returns.**  The model has exactly two recursion budgets, and neither is ever
    exhausted: (1) `climb`'s, the loop of `compileTokens` (started with `rest.length + 1`; every round
    consumes a token: `climb_noFuel`), and (2) `compileF`'s, the nesting of groups (`s.length + 1`; a
    group is strictly shorter than the text around it: `tok_group_len`, `compileF_noFuel`).  Everything
    else is structural recursion (`tokLoop` over the bytes, `prefixInOps.go` over ≤ 2 bytes,
    `getNextExpr` over the tokens, `Expr.probe`/`simplify`/`Expr.eval` over the expression,
    `opCodeOrderGo` over the table).  So for every text `compile` answers either a parse or one of the
    Go error values – "the model returned" is not an assumption of the other theorems. -/
theorem compile_returns (s : Bytes) : compile A s ≠ .error .fuel :=
  compile_noFuel A s


/-- …and the budget is irrelevant beyond that: with any larger budget a text that compiles still
    compiles to the same parse tree (so nothing depends on the particular `s.length + 1`). -/
theorem compile_budget_irrelevant (s : Bytes) (t : Tree) (e : Expr α) (h : compile A s = .ok (t, e))
    (f : Nat) (hf : s.length < f) : ∃ e', compileF A f s = .ok (t, e') ∧ ∀ b, e'.eval A b = e.eval A b := by
  obtain ⟨htok, g⟩ := compileF_post A _ s t e h
  obtain ⟨e', he'⟩ := compileF_complete A f s t hf htok g.wp g.deep g.lits
  obtain ⟨_, g'⟩ := compileF_post A _ s t e' he'
  exact ⟨e', he', fun b => by rw [g'.ev b, g.ev b]⟩

/-- **Malformed formulas are rejected at compile time**: a text that is not the flattening of any
    well-precedenced parse tree with proper literals (unbalanced parentheses, two operands or two
    operators in a row, a dangling operator, `2x`, `1.2.3` …) does not compile – and is rejected
    by an error value, not by a panic or a non-return. -/
theorem malformed_rejected (s : Bytes)
    (h : ¬ ∃ t : Tree, tok s = some t.flatten ∧ WellPrec Gen.C19.orderOfOps t ∧ Deep tok t ∧
      t.allLits (fun v => (classify A v).isSome) = true) :
    ∃ err, compile A s = .error err ∧ (∀ m, err ≠ .panic m) ∧ err ≠ .fuel := by
  cases hc : compile A s with
  | error err => exact ⟨err, rfl, eval_no_panic A s err hc, fun h => compile_returns A s (h ▸ hc)⟩
  | ok r =>
    obtain ⟨t, e⟩ := r
    exact absurd ⟨t, parse_wellprec A s t e hc⟩ h


/-- **Full characterisation of "malformed"** (`Spec/C19Grammar.lean`): a text compiles if and only if
    its token sequence is derivable by

        formula ::= operand ( binop operand | group )*        operand ::= unary* ( literal | group )

    with proper literals, operators from the table in `/repo`, and every group – also one that stands
    for an implied multiplication – recursively a formula.  The grammar mentions neither parse trees
    nor precedence; `accepts` is its executable two-state recogniser. -/
theorem compile_iff_grammar (s : Bytes) :
    (∃ t e, compile A s = .ok (t, e)) ↔
      accepts tok (fun v => (classify A v).isSome) (fun o => Gen.C19.opKeys.contains o) s = true := by
  rw [gen_tables.2.1]
  constructor
  · rintro ⟨t, e, h⟩
    exact (compile_iff_accepts A s).mp ⟨(t, e), h⟩
  · intro h
    obtain ⟨⟨t, e⟩, hr⟩ := (compile_iff_accepts A s).mpr h
    exact ⟨t, e, hr⟩

/-- …and everything else is rejected with one of the Go error values (no panic, no non-return):
    the converse direction of `malformed_rejected`, so "rejected" and "not in the grammar" coincide. -/
theorem rejected_iff_not_grammar (s : Bytes) :
    (∃ err, compile A s = .error err ∧ (∀ m, err ≠ .panic m) ∧ err ≠ .fuel) ↔
      accepts tok (fun v => (classify A v).isSome) (fun o => Gen.C19.opKeys.contains o) s = false := by
  constructor
  · rintro ⟨err, h, _⟩
    cases ha : accepts tok (fun v => (classify A v).isSome) (fun o => Gen.C19.opKeys.contains o) s with
    | false => rfl
    | true =>
      obtain ⟨t, e, hc⟩ := (compile_iff_grammar A s).mpr ha
      rw [hc] at h; cases h
  · intro ha
    cases hc : compile A s with
    | error err => exact ⟨err, rfl, eval_no_panic A s err hc, fun h => compile_returns A s (h ▸ hc)⟩
    | ok r =>
      obtain ⟨t, e⟩ := r
      have := (compile_iff_grammar A s).mp ⟨t, e, hc⟩
      rw [ha] at this; cases this

/-- The nesting budget of the grammar's recogniser is irrelevant beyond the length of the text. -/
theorem grammar_budget_irrelevant (s : Bytes) (f : Nat) (hf : s.length < f) :
    acceptsF tok (fun v => (classify A v).isSome) (fun o => opKeys.contains o) f s =
      accepts tok (fun v => (classify A v).isSome) (fun o => opKeys.contains o) s :=
  acceptsF_stable A f s hf

/-- The grammar and the tree characterisation describe the same texts. -/
theorem grammar_iff_wellprec (s : Bytes) :
    accepts tok (fun v => (classify A v).isSome) (fun o => Gen.C19.opKeys.contains o) s = true ↔
      ∃ t : Tree, tok s = some t.flatten ∧ WellPrec Gen.C19.orderOfOps t ∧ Deep tok t ∧
        t.allLits (fun v => (classify A v).isSome) = true := by
  rw [← compile_iff_grammar]
  constructor
  · rintro ⟨t, e, h⟩; exact ⟨t, parse_wellprec A s t e h⟩
  · rintro ⟨t, h1, h2, h3, h4⟩
    obtain ⟨e, he⟩ := parse_complete A s t h1 h2 h3 h4
    exact ⟨t, e, he⟩

/-! ### Literals -/

/-- A non-empty run of ASCII letters and digits is ONE literal token (no operator, unary operator,
    parenthesis or blank can start inside it). -/
theorem literal_token (s : Bytes) (hne : s ≠ []) (h : ∀ b ∈ s, isAlnumB b = true) :
    tok s = some [⟨s, .lit⟩] := by
  simp only [tok, tokenize_alnum s hne h]

/-- **Literal value, `0x`/`0X`**: for every non-empty string `ds` of hexadecimal digits (either case)
    whose positional value fits int64, the formula `0x<ds>` compiles to a constant, and under every
    binding its value is `float64(value)` (`A.ofInt`). -/
theorem literal_value_hex (x : UInt8) (hx : x = 120 ∨ x = 88) (ds : Bytes) (hne : ds ≠ [])
    (hd : ∀ d ∈ ds, isBaseDigit 16 d = true) (hr : (baseVal 16 ds : Int) ≤ maxInt64) (b : Binding α) :
    ∃ e, compile A (48 :: x :: ds) = .ok (.lit (48 :: x :: ds), e) ∧ e.eval A b = A.ofInt (baseVal 16 ds) := by
  have hp : prefixBase x = some 16 := by rcases hx with rfl | rfl <;> decide
  exact ⟨_, compile_prefixed_lit A x 16 ds hp hne hd (by unfold maxInt64 at hr; omega), rfl⟩

/-- **Literal value, `0b`/`0B`** (binary digits). -/
theorem literal_value_bin (x : UInt8) (hx : x = 98 ∨ x = 66) (ds : Bytes) (hne : ds ≠ [])
    (hd : ∀ d ∈ ds, isBaseDigit 2 d = true) (hr : (baseVal 2 ds : Int) ≤ maxInt64) (b : Binding α) :
    ∃ e, compile A (48 :: x :: ds) = .ok (.lit (48 :: x :: ds), e) ∧ e.eval A b = A.ofInt (baseVal 2 ds) := by
  have hp : prefixBase x = some 2 := by rcases hx with rfl | rfl <;> decide
  exact ⟨_, compile_prefixed_lit A x 2 ds hp hne hd (by unfold maxInt64 at hr; omega), rfl⟩

/-- `0o`/`0O` (octal; `strconv.ParseInt(s, 0, 64)` accepts it as well). -/
theorem literal_value_oct (x : UInt8) (hx : x = 111 ∨ x = 79) (ds : Bytes) (hne : ds ≠ [])
    (hd : ∀ d ∈ ds, isBaseDigit 8 d = true) (hr : (baseVal 8 ds : Int) ≤ maxInt64) (b : Binding α) :
    ∃ e, compile A (48 :: x :: ds) = .ok (.lit (48 :: x :: ds), e) ∧ e.eval A b = A.ofInt (baseVal 8 ds) := by
  have hp : prefixBase x = some 8 := by rcases hx with rfl | rfl <;> decide
  exact ⟨_, compile_prefixed_lit A x 8 ds hp hne hd (by unfold maxInt64 at hr; omega), rfl⟩

/-- Decimal integers without a leading zero (a leading `0` makes `ParseInt(s, 0, 64)` read octal:
    `010` is 8 – Go's rule, mirrored by the model and exercised by the correspondence). -/
theorem literal_value_dec (ds : Bytes) (hne : ds ≠ []) (h0 : ds.head? ≠ some 48)
    (hd : ∀ d ∈ ds, isBaseDigit 10 d = true) (hr : (baseVal 10 ds : Int) ≤ maxInt64) (b : Binding α) :
    ∃ e, compile A ds = .ok (.lit ds, e) ∧ e.eval A b = A.ofInt (baseVal 10 ds) :=
  ⟨_, compile_dec_lit A ds hne h0 hd (by unfold maxInt64 at hr; omega), rfl⟩

/-- **Longest-operator match**: where the tokenizer looks for a binary operator (`prefixInOps`), it
    takes the LONGEST key of `ops` (table in `/repo`) the remaining text starts with – `<<` before `<`,
    `<=` before `<`, `&&` before `&` – and finds none only if no key is a prefix. -/
theorem operator_longest_match (s : Bytes) :
    (∀ k, prefixInOps s = some k →
      k ∈ Gen.C19.opKeys ∧ k <+: s ∧ ∀ k' ∈ Gen.C19.opKeys, k' <+: s → k'.length ≤ k.length) ∧
    (prefixInOps s = none → ∀ k' ∈ Gen.C19.opKeys, ¬ k' <+: s) := by
  rw [gen_tables.2.1]
  exact prefixInOps_longest s

example : prefixInOps (ascii "<<=1") = some (ascii "<<") ∧ prefixInOps (ascii "<=1") = some (ascii "<=") ∧
    prefixInOps (ascii "<1") = some (ascii "<") ∧ prefixInOps (ascii "&&x") = some (ascii "&&") ∧
    prefixInOps (ascii "=1") = none := by decide +kernel

/-! ### Implied multiplication -/

/-- **Implied multiplication is multiplication.**  In the parse of any formula every implied node
    carries the operator `*`; and writing the implied multiplications out (`t.explicit`: `2(x)` ↦
    `2*(x)`, any text `s'` with those tokens) gives a formula that compiles, to the same parse with
    written `*` nodes only, and has the same value under every binding.  (Precedence of the implied
    `*` is that of `*`: `parse_wellprec`.) -/
theorem implied_mul_is_mul (s s' : Bytes) (t : Tree) (e : Expr α) (hc : compile A s = .ok (t, e))
    (htok : tok s' = some t.explicit.flatten) :
    t.impliedStar = true ∧ t.explicit.noImplied = true ∧
    ∃ e', compile A s' = .ok (t.explicit, e') ∧ ∀ b, e'.eval A b = e.eval A b :=
  ⟨wp_impliedStar t (parse_wellprec A s t e hc).2.1, explicit_noImplied t, compile_explicit A s s' t e hc htok⟩

/-- The guarded integer operators on the exact instance: `%` by zero and negative shift counts
    are "not a number", never a crash; otherwise `%` is Go's truncated remainder. -/
theorem int_ops_guarded (a b : Rat) :
    (ratTrunc b = 0 → ratArith.bin [37] (some a) (some b) = none) ∧
    (ratTrunc b ≠ 0 → ratArith.bin [37] (some a) (some b) = some ((Int.tmod (ratTrunc a) (ratTrunc b) : Int) : Rat)) ∧
    (ratTrunc b < 0 → ratArith.bin [60, 60] (some a) (some b) = none ∧ ratArith.bin [62, 62] (some a) (some b) = none) := by
  refine ⟨?_, ?_, ?_⟩
  · intro h
    simp [ratArith, arithOf, binOf, ratPrim, modI, h]
  · intro h
    simp [ratArith, arithOf, binOf, ratPrim, modI, h]
  · intro h
    simp [ratArith, arithOf, binOf, ratPrim, shlI, shrI, h]

/-! ### Non-vacuity: concrete formulas through the whole model (exact instance) -/

/-- `2+3*4` parses as `2+(3*4)`. -/
example : parseStr (ascii "2+3*4") =
    some (.bin false [43] (.lit [50]) (.bin false [42] (.lit [51]) (.lit [52]))) := by decide +kernel

/-- equal levels associate to the left: `8-3-2` is `(8-3)-2`, and so is `2^3^2 = (2^3)^2 = 64`. -/
example : parseStr (ascii "8-3-2") =
    some (.bin false [45] (.bin false [45] (.lit [56]) (.lit [51])) (.lit [50])) := by decide +kernel
example : evalStr (ascii "2^3^2") 0 = some (some 64) := by decide +kernel

/-- `1 + 2 * 3 ^ 2 < 20 && 1` = ((1 + (2 * (3^2))) < 20) && 1 = 1 -/
example : evalStr (ascii "1 + 2 * 3 ^ 2 < 20 && 1") 0 = some (some 1) := by decide +kernel

/-- implied multiplication and groups: `2(1+1)` = 4 (docs/usage/math.md) -/
example : evalStr (ascii "2(1+1)") 0 = some (some 4) := by decide +kernel
example : parseStr (ascii "2(x)") = some (.bin true [42] (.lit [50]) (.grp [120] (.lit [120]))) := by
  decide +kernel

/-- the unary minus binds tighter than `^`: `-2^2` = (-2)^2 = 4 (a documented quirk of the parser,
    not claimed as a defect) -/
example : evalStr (ascii "-2^2") 0 = some (some 4) := by decide +kernel

/-- constants and variables, hex/binary literals, decimals: with x = 4, `7 % x + 0x10 + 0.5` = 19.5 -/
example : evalStr (ascii "7 % x + 0x10 + 0b1 - 1 + 0.5") 4 = some (some (39 / 2)) := by decide +kernel

/-- F11: `5 % x` compiles (it used to crash inside the simplifier) and is "not a number" for x = 0 -/
example : evalStr (ascii "5 % x") 0 = some none := by decide +kernel
example : evalStr (ascii "5 % x") 3 = some (some 2) := by decide +kernel

/-- F12 and other malformed texts are compile errors -/
example : evalStr (ascii "2 + -") 0 = none := by decide +kernel
example : evalStr (ascii "-") 0 = none := by decide +kernel
example : evalStr (ascii "(2") 0 = none := by decide +kernel
example : evalStr (ascii "2 3)") 0 = none := by decide +kernel
example : evalStr (ascii "2 * * 3") 0 = none := by decide +kernel
example : evalStr (ascii "(2)3") 0 = none := by decide +kernel

/-- the grammar on concrete texts: accepted … -/
example : (["2(x)+-3", "sin(x)(2)", "-(-x)", "a<<2>=b&&!c", "((1))", "0x1F*0b11"].all fun s =>
    accepts tok (fun v => (classify ratArith v).isSome) (fun o => Gen.C19.opKeys.contains o) (ascii s)) = true := by
  decide +kernel
/-- … and malformed (empty, dangling/doubled operator, operand after a group, unary after an operand,
    bad literal, malformed group, unbalanced) -/
example : (["", " ", "2+", "2**3", "(2)3", "2!", "2x", "2+(3*)", "(2", "2)", "()", "1.2.3"].all fun s =>
    !accepts tok (fun v => (classify ratArith v).isSome) (fun o => Gen.C19.opKeys.contains o) (ascii s)) = true := by
  decide +kernel

/-- `literal_value_hex` / `_bin` are not vacuous: `0x1F` = 31, `0XfF` = 255, `0b101` = 5 -/
example : isBaseDigit 16 49 = true ∧ isBaseDigit 16 70 = true ∧ isBaseDigit 16 102 = true ∧
    isBaseDigit 16 103 = false ∧ baseVal 16 [49, 70] = 31 ∧ baseVal 16 [102, 70] = 255 ∧
    baseVal 2 [49, 48, 49] = 5 ∧ isBaseDigit 2 50 = false := by decide
example : evalStr (ascii "0x1F + 0XfF + 0b101 + 0o17") 0 = some (some 306) := by decide +kernel

/-- `implied_mul_is_mul` is not vacuous: `2(x)^2` parses with an implied node, `2*(x)^2` has the
    tokens of its explicit form; both are 2·(x²) = 18 for x = 3. -/
example : parseStr (ascii "2(x)^2") =
      some (.bin true [42] (.lit [50]) (.bin false [94] (.grp [120] (.lit [120])) (.lit [50]))) ∧
    tok (ascii "2*(x)^2") = some
      (Tree.explicit (.bin true [42] (.lit [50]) (.bin false [94] (.grp [120] (.lit [120])) (.lit [50])))).flatten ∧
    evalStr (ascii "2(x)^2") 3 = some (some 18) ∧ evalStr (ascii "2*(x)^2") 3 = some (some 18) := by
  decide +kernel


/-! ## Round 4: what the operator tables compute, the documentation, the glue of `{! …}` and its hidden state -/

/-- **Every entry of `ops` computes what the model says** (ops.go → `Gen.C19.opsDesc`, regenerated on every
    run: for each key the shape of its function literal – float arithmetic, comparison through
    `conditionalOp`, `truthy` combination, int64 operation with its NaN guard, `math.Pow` – recognised on the
    AST with the operands in the order `(left, right)`).  The described entries are exactly the keys of
    `ops`, and for every one of them the model's `binOf` IS the interpretation of the description
    (`binInterp`), over every primitive arithmetic.  A new, dropped or changed entry in /repo (`<`
    computing `<=`, swapped operands, a removed zero-divisor guard, `&` and `|` exchanged) breaks this. -/
theorem ops_table_covered (P : Prim α) :
    Gen.C19.opsDesc.map (·.1) = Gen.C19.opKeys ∧
    ∀ d ∈ Gen.C19.opsDesc, binInterp P d.2.1 d.2.2.1 d.2.2.2 = some (binOf P d.1) := by
  refine ⟨by decide, ?_⟩
  intro d hd
  simp only [Gen.C19.opsDesc, List.mem_cons, List.not_mem_nil, or_false] at hd
  rcases hd with rfl | rfl | rfl | rfl | rfl | rfl | rfl | rfl | rfl | rfl | rfl | rfl | rfl | rfl | rfl | rfl | rfl <;>
    (simp only [binInterp]; simp (config := {decide := true}) only [if_true, if_false, Option.some.injEq]
     funext l r; simp (config := {decide := true}) [binOf])

/-- **Every entry of `uniOps` computes what the model says**: `-` negates, `!` is `conditionalOp(!truthy(f))`,
    and every other key `k` is bound to the function of package `math` with the SAME name (`abs` ↦ `math.Abs`,
    `log10` ↦ `math.Log10`, …: `goMathName`), which is what the model's `P.fn k` stands for. -/
theorem uniops_table_covered (P : Prim α) :
    Gen.C19.uniDesc.map (·.1) = Gen.C19.uniKeys ∧
    ∀ d ∈ Gen.C19.uniDesc, unInterp P d.1 d.2.1 d.2.2 = some (unOf P d.1) := by
  refine ⟨by decide, ?_⟩
  intro d hd
  simp only [Gen.C19.uniDesc, List.mem_cons, List.not_mem_nil, or_false] at hd
  rcases hd with rfl | rfl | rfl | rfl | rfl | rfl | rfl | rfl | rfl | rfl | rfl | rfl | rfl | rfl | rfl | rfl | rfl | rfl <;>
    (simp only [unInterp]; simp (config := {decide := true}) only [if_true, if_false, Option.some.injEq]
     funext x; simp (config := {decide := true}) [unOf])

/-- `truthy(val)` is `val != 0.0` and `conditionalOp` answers `1.0` / `0.0` in /repo – the literals, read by
    the modelled `strconv.ParseFloat`, are the model's `zeroP` and `one` (`IEEE.truthy`, `IEEE.cond`). -/
theorem truthy_cond_source :
    Gen.C19.truthyDesc.1 = "!=" ∧ F64.parseFloat (ascii Gen.C19.truthyDesc.2) = some IEEE.zeroP ∧
    F64.parseFloat (ascii Gen.C19.condDesc.1) = some F64.one ∧
    F64.parseFloat (ascii Gen.C19.condDesc.2) = some IEEE.zeroP := by decide +kernel

/-- **The glue of `{! …}` is the modelled one, statement by statement** (funcsMath.go, parser.go →
    `Gen.C19`): the wrapper's look-ups (`strconv.ParseFloat(val, 64)`, `errors++`, `return 0`), the head
    of `kfMath` (collapse of static arguments, `stdmath.Compile`, a pool of 5 wrapper objects), the stage
    it returns (`Get`, deferred `Return`, the assignment that resets BOTH fields, `Eval`, the `errors > 0`
    check, `FormatFloat(val, 'f', -1, 64)`), the three `strconv` calls of `compileToken` with their base
    and bit-size arguments, and the regular expression of bare variable names.  (`Model/C19Pool.lean`,
    `Funcs/Math.lean` and `Model/C19.lean` mirror exactly these statements.) -/
theorem glue_matches_source :
    Gen.C19.wrapperGetMatch = ["val:=s.sub.GetMatch(idx)", "iff,err:=strconv.ParseFloat(val,64);err==nil{returnf}",
      "s.errors++", "return0"] ∧
    Gen.C19.wrapperGetKey = ["val:=s.sub.GetKey(key)", "iff,err:=strconv.ParseFloat(val,64);err==nil{returnf}",
      "s.errors++", "return0"] ∧
    Gen.C19.kfMathHead = ["varsbstrings.Builder",
      "fori,arg:=rangeargs{s,ok:=expressions.EvalStaticStage(arg)if!ok{returnstageArgError(ErrConst,i)}sb.WriteString(s)}",
      "expr,err:=stdmath.Compile(sb.String())", "iferr!=nil{returnstageErrorf(ErrParsing,err.Error())}",
      "ctxPool:=slicepool.NewObjectPool[keyBuilderContextWrapper](5)"] ∧
    Gen.C19.kfMathClosure = ["mathCtx:=ctxPool.Get()", "deferctxPool.Return(mathCtx)",
      "*mathCtx=keyBuilderContextWrapper{sub:ctx,errors:0,}", "val:=expr.Eval(mathCtx)",
      "ifmathCtx.errors>0{returnErrorNum}", "returnstrconv.FormatFloat(val,'f',-1,64)"] ∧
    Gen.C19.compileTokenStrconv = ["strconv.Atoi(inner)", "strconv.ParseInt(t.val,0,64)", "strconv.ParseFloat(t.val,64)"] ∧
    Gen.C19.validVariableRegex = "(?i)^[a-z][a-z0-9]*$" := by decide

/-- **The documented operators are the operators** (docs/usage/math.md, tables `Binary` and `Unary` →
    `Gen.C19.docBinaryOps/docUnaryOps`): every documented operator is a key of `ops` / `uniOps` and every key
    is documented, nothing twice.  (Until c2a543c the document listed `=` for `==` and omitted `%`.) -/
theorem docs_operators_are_the_tables :
    (Gen.C19.docBinaryOps.all fun o => Gen.C19.opKeys.contains o) = true ∧
    (Gen.C19.opKeys.all fun o => Gen.C19.docBinaryOps.contains o) = true ∧
    Gen.C19.docBinaryOps.length = Gen.C19.opKeys.length ∧
    (Gen.C19.docUnaryOps.all fun o => Gen.C19.uniKeys.contains o) = true ∧
    (Gen.C19.uniKeys.all fun o => Gen.C19.docUnaryOps.contains o) = true ∧
    Gen.C19.docUnaryOps.length = Gen.C19.uniKeys.length := by decide

/-- **Unary operators bind tightest** (the documentation only says "common order of operations"; this is
    what the code does, for every formula): in the parse of any formula the operand of a unary operator or
    function is an atom – a literal, a parenthesised group or another unary application – never a binary
    node.  So `-2^2` is `(-2)^2 = 4` and `!a && b` is `(!a) && b`. -/
theorem unary_binds_tightest (s : Bytes) (t : Tree) (e : Expr α) (h : compile A s = .ok (t, e)) :
    t.unaryAtomic = true :=
  wp_unaryAtomic _ t (parse_wellprec A s t e h).2.1

example : parseStr (ascii "-2^2") = some (.bin false [94] (.un [45] (.lit [50])) (.lit [50])) ∧
    parseStr (ascii "!a&&b") = some (.bin false [38, 38] (.un [33] (.lit [97])) (.lit [98])) ∧
    parseStr (ascii "-abs(x)^2") = some (.bin false [94] (.un [45] (.un [97, 98, 115] (.grp [120] (.lit [120])))) (.lit [50])) := by
  decide +kernel

/-- **Every pair of binary operators.**  For all 17 × 17 pairs `(o₁, o₂)` of keys of `ops` (table in /repo) the
    text `a o₁ b o₂ c` parses as `a o₁ (b o₂ c)` exactly when `o₂` stands in a strictly tighter set of
    `orderOfOps` than `o₁`, and as `(a o₁ b) o₂ c` otherwise (equal levels associate to the left, `^`
    included: `a^b^c = (a^b)^c`); and with a one-character unary operator in front of any operand
    (`-a o b`, `a o !b`) the unary operator takes that operand only.  Fully enumerated. -/
theorem operator_pairs_parse :
    (Gen.C19.opKeys.all fun o1 => Gen.C19.opKeys.all fun o2 =>
      parseStr ([97] ++ o1 ++ [98] ++ o2 ++ [99]) ==
        some (if (level Gen.C19.orderOfOps o2).getD 0 < (level Gen.C19.orderOfOps o1).getD 0
              then .bin false o1 (.lit [97]) (.bin false o2 (.lit [98]) (.lit [99]))
              else .bin false o2 (.bin false o1 (.lit [97]) (.lit [98])) (.lit [99]))) = true ∧
    (Gen.C19.opKeys.all fun o => [[45], [33]].all fun m =>
      parseStr (m ++ [97] ++ o ++ [98]) == some (.bin false o (.un m (.lit [97])) (.lit [98])) &&
      parseStr ([97] ++ o ++ m ++ [98]) == some (.bin false o (.lit [97]) (.un m (.lit [98])))) = true := by
  decide +kernel

/-! ## The IEEE-754 binary64 instance (`Rare/Model/C19F64.lean`) -/

section ieee
open IEEE Rare.F64

/-- **Formula value, in IEEE-754 binary64.**  For every formula text, every behaviour `L` of the
    libm-backed functions and every binding of the variables to float64 values: the program the Go
    code builds (precedence climbing, constant sub-formulas folded at compile time) evaluates, in
    binary64 arithmetic, to the binary64 value of the parse tree of the text – which is the unique
    parse under the common order of operations (table regenerated from `/repo`).  The abstract
    `formula_value` instantiates directly: its proof uses no algebraic law of the arithmetic. -/
theorem formula_value_f64 (L : Libm) (s : Bytes) (t : Tree) (e : Expr F64)
    (h : compile (arith L) s = .ok (t, e)) (b : Binding F64) :
    tok s = some t.flatten ∧ WellPrec Gen.C19.orderOfOps t ∧ Deep tok t ∧
    e.eval (arith L) b = t.eval (arith L) (classify (arith L)) b :=
  let p := parse_wellprec (arith L) s t e h
  ⟨p.1, p.2.1, p.2.2.1, formula_value (arith L) s t e h b⟩

/-- Value of a formula in the IEEE instance under "every variable = the pattern `x`"
    (`none` = compile error), for the examples. -/
def evalF64 (s : Bytes) (x : Nat) : Option Nat :=
  match compile (arith libm0) s with
  | .ok (_, e) => some (e.eval (arith libm0) ⟨fun _ => ofBits (UInt64.ofNat x), fun _ => ofBits (UInt64.ofNat x)⟩).bits
  | .error _ => none

/-- `0.1+0.2` is `0.30000000000000004` (0x3FD3333333333334), not `0.3` (0x3FD3333333333333);
    `1e308*10` overflows to +Inf; `2^0.5` is the correctly rounded `sqrt 2`; `7 % 0` is NaN. -/
example : evalF64 (ascii "0.1+0.2") 0 = some 0x3FD3333333333334 ∧ evalF64 (ascii "0.3") 0 = some 0x3FD3333333333333 ∧
    evalF64 (ascii "1e308*10") 0 = some 0x7FF0000000000000 ∧ evalF64 (ascii "2^0.5") 0 = some 0x3FF6A09E667F3BCD ∧
    evalF64 (ascii "7 % 0") 0 = some F64.nan.bits ∧ evalF64 (ascii "3^4 + x/4") 0x4000000000000000 = some 0x4054600000000000 := by
  decide +kernel

/-- **Constants equal bound variables, in binary64.**  Replacing numeric constants of a compiled
    formula by variables bound to the same binary64 values (or back) gives a formula that compiles to
    the substituted parse and has bit for bit the same value – although other sub-formulas were
    folded at compile time.  (Instance of `simplify_invisible`.) -/
theorem constants_equal_variables_f64 (L : Libm) (s s' : Bytes) (t t' : Tree) (e : Expr F64) (b b' : Binding F64)
    (hc : compile (arith L) s = .ok (t, e)) (hs : LitSubst (arith L) b b' t t')
    (htok : tok s' = some t'.flatten) (hd : Deep tok t') :
    ∃ e', compile (arith L) s' = .ok (t', e') ∧ e'.eval (arith L) b' = e.eval (arith L) b :=
  simplify_invisible (arith L) s s' t t' e b b' hc hs htok hd

/-- not vacuous, and no rounding slips in: `x + 0.1 + 0.2` at x = 1e16 folds nothing (left to right:
    1e16 absorbs both), `x + (0.1+0.2)` folds the group at compile time – each equals its own
    variable form `x + a + b` / `x + (a + b)` with a = 0.1, b = 0.2 bound at run time. -/
example :
    let b : Binding F64 := ⟨fun _ => zeroP, fun k =>
      if k = [120] then ofBits 0x4341C37937E08000 else if k = [97] then ofBits 0x3FB999999999999A else ofBits 0x3FC999999999999A⟩
    (match compile (arith libm0) (ascii "x + 0.1 + 0.2"), compile (arith libm0) (ascii "x + a + b"),
           compile (arith libm0) (ascii "x + (0.1+0.2)"), compile (arith libm0) (ascii "x + (a + b)") with
     | .ok (_, e1), .ok (_, e2), .ok (_, e3), .ok (_, e4) =>
       decide (e1.eval (arith libm0) b = e2.eval (arith libm0) b) && decide (e3.eval (arith libm0) b = e4.eval (arith libm0) b) &&
       decide ((e1.eval (arith libm0) b).bits = 0x4341C37937E08000) && decide ((e3.eval (arith libm0) b).bits = 0x4341C37937E08000)
     | _, _, _, _ => false) = true := by
  decide +kernel

/-- **No formula and no binding crashes, in binary64.**  Compilation answers a parse or a Go error
    value (never a panic, never a non-return); evaluation is a total function; and the integer
    operators, which would panic in Go on a zero divisor / negative shift count, are guarded as in
    the repaired code: `%` with `int64(right) = 0` and `<<`, `>>` with `int64(right) < 0` give NaN –
    for EVERY float64 operand, NaN, ±Inf and values beyond int64 included (`int64(x)` is then
    MinInt64, as compiled for amd64). -/
theorem no_panic_f64 (L : Libm) :
    (∀ s err m, compile (arith L) s = .error err → err ≠ .panic m) ∧
    (∀ s, compile (arith L) s ≠ .error .fuel) ∧
    (∀ a b : F64, toInt64 b = 0 → (arith L).bin [37] a b = F64.nan) ∧
    (∀ a b : F64, toInt64 b ≠ 0 → (arith L).bin [37] a b = ofInt (Int.tmod (toInt64 a) (toInt64 b))) ∧
    (∀ a b : F64, toInt64 b < 0 → (arith L).bin [60, 60] a b = F64.nan ∧ (arith L).bin [62, 62] a b = F64.nan) :=
  ⟨fun s err m h => eval_no_panic (arith L) s err h m, fun s => compile_returns (arith L) s,
   fun a b h => by rw [bin_mod]; exact mod_zero h,
   fun a b h => by rw [bin_mod]; exact mod_nonzero h,
   fun a b h => ⟨by rw [bin_shl]; exact shl_neg h, by rw [bin_shr]; exact shr_neg h⟩⟩

/-- `5 % 0`, `5 % 0.5` (0.5 truncates to 0), `5 % NaN`?  No: `int64(NaN)` is MinInt64 ≠ 0, so `5 % NaN = 5`
    (amd64); `1 << -1` and `1 >> -0.5`… the latter truncates to 0 and shifts by nothing. -/
example : toInt64 (zero true) = 0 ∧ toInt64 half = 0 ∧ toInt64 F64.nan = minInt64 ∧
    evalF64 (ascii "5 % x") 0x3FE0000000000000 = some F64.nan.bits ∧
    evalF64 (ascii "5 % x") 0x7FF8000000000001 = some (ofInt 5).bits ∧
    evalF64 (ascii "1 << x") 0xBFF0000000000000 = some F64.nan.bits ∧
    evalF64 (ascii "1 >> x") 0xBFE0000000000000 = some one.bits := by
  decide +kernel

/-- **The integer operators work on truncated operands.**  For finite operands whose truncations toward
    zero `a`, `b` fit int64, `% & | << >>` are Go's int64 operations on `a` and `b` (truncated
    remainder; two's-complement and/or; shifts with counts ≥ 64 giving 0 or the sign fill), converted
    back with one rounding (`float64(…)`); the guards give NaN.  Every other operand (NaN, ±Inf, beyond
    int64) is first replaced by MinInt64, as `int64(x)` compiled for amd64 does. -/
theorem int_ops_truncate (L : Libm) (x y : F64) (hx : x.isFinite = true) (hy : y.isFinite = true)
    (hxr : minInt64 ≤ truncRat x.toRat ∧ truncRat x.toRat ≤ maxInt64)
    (hyr : minInt64 ≤ truncRat y.toRat ∧ truncRat y.toRat ≤ maxInt64) :
    (arith L).bin [37] x y = (if truncRat y.toRat = 0 then F64.nan
      else ofInt (Int.tmod (truncRat x.toRat) (truncRat y.toRat))) ∧
    (arith L).bin [38] x y = ofInt (wrap64 (Nat.land (toU64 (truncRat x.toRat)) (toU64 (truncRat y.toRat)))) ∧
    (arith L).bin [124] x y = ofInt (wrap64 (Nat.lor (toU64 (truncRat x.toRat)) (toU64 (truncRat y.toRat)))) ∧
    (arith L).bin [60, 60] x y = (if truncRat y.toRat < 0 then F64.nan
      else ofInt (if truncRat y.toRat ≥ 64 then 0 else wrap64 (truncRat x.toRat * 2 ^ (truncRat y.toRat).toNat))) ∧
    (arith L).bin [62, 62] x y = (if truncRat y.toRat < 0 then F64.nan
      else ofInt (if truncRat y.toRat ≥ 64 then (if truncRat x.toRat < 0 then -1 else 0)
        else truncRat x.toRat / 2 ^ (truncRat y.toRat).toNat)) ∧
    (∀ z : F64, z.isFinite = false → toInt64 z = minInt64) := by
  have tx := toInt64_trunc hx hxr.1 hxr.2
  have ty := toInt64_trunc hy hyr.1 hyr.2
  refine ⟨?_, ?_, ?_, ?_, ?_, fun z hz => toInt64_not_finite hz⟩
  · rw [bin_mod]; unfold intBinF modI; rw [tx, ty]
    by_cases h : truncRat y.toRat = 0 <;> simp [h]
  · rw [bin_and]; unfold intBinF andI; rw [tx, ty]
  · rw [bin_or]; unfold intBinF orI; rw [tx, ty]
  · rw [bin_shl]; unfold intBinF shlI; rw [tx, ty]
    by_cases h : truncRat y.toRat < 0 <;> simp [h]
  · rw [bin_shr]; unfold intBinF shrI; rw [tx, ty]
    by_cases h : truncRat y.toRat < 0 <;> simp [h]

/-- `7.9 % 2.9` = 7 % 2 = 1, `-7.9 % 2` = -1 (truncated, sign of the dividend), `6.7 & 3.2` = 2, `1 << 62.9`
    = 2^62, `1 << 63` = MinInt64 as a float (-2^63), `1 << 64` = 0, `-8 >> 1.5` = -4, `-1 >> 100` = -1,
    `1e19 | 1` = MinInt64|1 (1e19 is beyond int64). -/
example : evalF64 (ascii "7.9 % 2.9") 0 = some one.bits ∧ evalF64 (ascii "-7.9 % 2") 0 = some (ofInt (-1)).bits ∧
    evalF64 (ascii "6.7 & 3.2") 0 = some (ofInt 2).bits ∧ evalF64 (ascii "1 << 62.9") 0 = some (ofInt (2 ^ 62)).bits ∧
    evalF64 (ascii "1 << 63") 0 = some (ofInt (-(2 ^ 63))).bits ∧ evalF64 (ascii "1 << 64") 0 = some 0 ∧
    evalF64 (ascii "-8 >> 1.5") 0 = some (ofInt (-4)).bits ∧ evalF64 (ascii "-1 >> 100") 0 = some (ofInt (-1)).bits ∧
    evalF64 (ascii "1e19 | 1") 0 = some (ofInt (minInt64 + 1)).bits := by decide +kernel

/-- **Integer formulas are exact.**  Take a compiled formula whose parse tree has an *integer
    meaning* `n` (`Tree.intEval`, `Spec/C19F64.lean`): leaves are integer literals (decimal, `0x`,
    `0b`, `0o`, read by the integer parser) or variables of an integer binding `ib`, operators are
    `+ - *`, unary `-`, the comparisons and parentheses, and every leaf and every intermediate result
    of exact integer arithmetic stays within ±2^53.  Then under any float binding that carries those
    integers the binary64 value of the compiled program is exactly `n` – no rounding occurred
    anywhere, compile-time folding included. -/
theorem integer_formulas_exact (L : Libm) (s : Bytes) (t : Tree) (e : Expr F64)
    (h : compile (arith L) s = .ok (t, e)) (ib : Binding Int) (b : Binding F64) (hb : IntBinding ib b)
    (n : Int) (hn : Tree.intEval ib t = some n) :
    (e.eval (arith L) b).toRat? = some (n : Rat) := by
  rw [formula_value (arith L) s t e h b]
  exact intEval_sound L hb t n hn

/-- …and such a result is printed by `{! …}` as that integer (`FormatFloat(v,'f',-1,64)` =
    `strconv.Itoa(n)`), unless it is zero (a zero may be `-0`, printed `-0`: `{! 0 * -1}`). -/
theorem integer_formula_renders (L : Libm) (s : Bytes) (t : Tree) (e : Expr F64)
    (h : compile (arith L) s = .ok (t, e)) (ib : Binding Int) (b : Binding F64) (hb : IntBinding ib b)
    (n : Int) (hn : Tree.intEval ib t = some n) (h0 : n ≠ 0) (hr : n.natAbs ≤ 9007199254740992) :
    render (e.eval (arith L) b) = itoa n :=
  render_int (integer_formulas_exact L s t e h ib b hb n hn) h0 hr

/-- Every integer binding has a float binding that carries it. -/
theorem intBinding_ofInt (ib : Binding Int) :
    IntBinding ib ⟨fun i => ofInt (ib.getMatch i), fun k => ofInt (ib.getKey k)⟩ :=
  ⟨fun _ h => toRat?_ofInt h, fun _ h => toRat?_ofInt h⟩

/-- not vacuous: `2*x+0x10-(y) < 3*(9007199254740992-1)` with x = 3, y = -5 has the integer meaning 1
    (27 < 27021597764222973 … which is beyond 2^53, so THAT formula has no integer meaning), while
    `(2*x+0x10-(y))*1000000 == [1]` with [1] = 27000000 means 1 and evaluates to 1.0; `0*-1` means 0
    and evaluates to -0 (rendered `-0`). -/
example :
    let ib : Binding Int := ⟨fun _ => 27000000, fun k => if k = [120] then 3 else -5⟩
    let b : Binding F64 := ⟨fun i => ofInt (ib.getMatch i), fun k => ofInt (ib.getKey k)⟩
    (match compile (arith libm0) (ascii "(2*x+0x10-(y))*1000000 == [1]"),
           compile (arith libm0) (ascii "2*x+0x10-(y) < 3*(9007199254740992-1)"),
           compile (arith libm0) (ascii "2*x+0b11*-y"), compile (arith libm0) (ascii "0*-1") with
     | .ok (t1, e1), .ok (t2, _), .ok (t3, e3), .ok (t4, e4) =>
       decide (Tree.intEval ib t1 = some 1) && decide (e1.eval (arith libm0) b = one) &&
       decide (Tree.intEval ib t2 = none) &&
       decide (Tree.intEval ib t3 = some 21) && decide (render (e3.eval (arith libm0) b) = ascii "21") &&
       decide (Tree.intEval ib t4 = some 0) && decide (render (e4.eval (arith libm0) b) = ascii "-0")
     | _, _, _, _ => false) = true := by
  decide +kernel

/-- **Comparisons and boolean operators answer 0 or 1** – for all operands, NaN and ±Inf included. -/
theorem comparison_total (L : Libm) (op : Bytes)
    (hop : op ∈ [[60], [60, 61], [62], [62, 61], [61, 61], [38, 38], [124, 124]]) (a b : F64) :
    ((arith L).bin op a b = one ∨ (arith L).bin op a b = zeroP) ∧
    ((arith L).un [33] a = one ∨ (arith L).un [33] a = zeroP) := by
  refine ⟨?_, by rw [un_not]; exact cond_cases _⟩
  simp only [List.mem_cons, List.mem_nil_iff, or_false] at hop
  rcases hop with rfl | rfl | rfl | rfl | rfl | rfl | rfl
  · rw [bin_lt]; exact cond_cases _
  · rw [bin_le]; exact cond_cases _
  · rw [bin_gt]; exact cond_cases _
  · rw [bin_ge]; exact cond_cases _
  · rw [bin_eq]; exact cond_cases _
  · rw [bin_andand]; exact cond_cases _
  · rw [bin_oror]; exact cond_cases _

/-- `2 < 3` is 1, `NaN < 1`, `NaN == NaN` and `NaN >= NaN` are 0, `+Inf > 1e308` is 1, `!0` is 1, `-0 == 0` is 1. -/
example : evalF64 (ascii "2 < 3") 0 = some one.bits ∧ evalF64 (ascii "x < 1") F64.nan.bits = some 0 ∧
    evalF64 (ascii "x == x") F64.nan.bits = some 0 ∧ evalF64 (ascii "x >= x") F64.nan.bits = some 0 ∧
    evalF64 (ascii "x > 1e308") (inf false).bits = some one.bits ∧ evalF64 (ascii "!x") 0 = some one.bits ∧
    evalF64 (ascii "x == 0") (zero true).bits = some one.bits := by decide +kernel

/-- **The comparisons are the order of the exact values**: on finite operands `<`, `<=`, `==` answer 1
    exactly when the real numbers the two floats denote compare that way (`-0 == 0` included). -/
theorem comparison_is_value_order (L : Libm) (a b : F64) (ha : a.isFinite = true) (hb : b.isFinite = true) :
    ((arith L).bin [60] a b = one ↔ a.toRat < b.toRat) ∧
    ((arith L).bin [60, 61] a b = one ↔ a.toRat ≤ b.toRat) ∧
    ((arith L).bin [61, 61] a b = one ↔ a.toRat = b.toRat) := by
  have c1 : ∀ c : Bool, IEEE.cond c = one ↔ c = true := by
    intro c; cases c
    · exact ⟨fun h => absurd h (by decide), fun h => by cases h⟩
    · exact ⟨fun _ => rfl, fun _ => rfl⟩
  refine ⟨?_, ?_, ?_⟩
  · rw [bin_lt, c1]; exact lt_iff_toRat_lt ha hb
  · rw [bin_le, c1]; exact le_iff_toRat_le ha hb
  · rw [bin_eq, c1, eq_as_le, Bool.and_eq_true, le_iff_toRat_le ha hb, le_iff_toRat_le hb ha]
    constructor
    · intro ⟨h1, h2⟩; exact Rat.le_antisymm h1 h2
    · intro h; rw [h]; exact ⟨Rat.le_refl, Rat.le_refl⟩

/-- **NaN propagation.**  A NaN operand makes `+ - * /` NaN and every comparison 0; `abs`, `sqrt`,
    `floor`, `ceil`, `round` and unary `-` of NaN are NaN.  But NaN is *truthy* (`truthy(v)` is
    `v != 0.0`): `NaN && 1` is 1, `NaN || 0` is 1 and `!NaN` is 0 – the code's behaviour, mirrored. -/
theorem nan_propagation (L : Libm) (a b : F64) (h : a.isNaN = true ∨ b.isNaN = true) :
    (arith L).bin [43] a b = F64.nan ∧ (arith L).bin [45] a b = F64.nan ∧ (arith L).bin [42] a b = F64.nan ∧
    (arith L).bin [47] a b = F64.nan ∧
    (arith L).bin [60] a b = zeroP ∧ (arith L).bin [60, 61] a b = zeroP ∧ (arith L).bin [62] a b = zeroP ∧
    (arith L).bin [62, 61] a b = zeroP ∧ (arith L).bin [61, 61] a b = zeroP := by
  have h' : b.isNaN = true ∨ a.isNaN = true := h.symm
  refine ⟨?_, ?_, ?_, ?_, ?_, ?_, ?_, ?_, ?_⟩
  · rw [bin_add]; exact add_nan h
  · rw [bin_sub]; exact sub_nan h
  · rw [bin_mul]; exact mul_nan h
  · rw [bin_div]; exact div_nan h
  · rw [bin_lt, lt_nan h]; rfl
  · rw [bin_le, le_nan h]; rfl
  · rw [bin_gt, lt_nan h']; rfl
  · rw [bin_ge, le_nan h']; rfl
  · rw [bin_eq, eq_nan h]; rfl

theorem nan_unary (L : Libm) (a : F64) (h : a.isNaN = true) :
    ((arith L).un [45] a).isNaN = true ∧ ((arith L).un [97, 98, 115] a).isNaN = true ∧
    (arith L).un [115, 113, 114, 116] a = F64.nan ∧ (arith L).un [102, 108, 111, 111, 114] a = F64.nan ∧
    (arith L).un [99, 101, 105, 108] a = F64.nan ∧ (arith L).un [114, 111, 117, 110, 100] a = F64.nan ∧
    (arith L).un [33] a = zeroP ∧
    (∀ b, (arith L).bin [38, 38] a b = (arith L).un [33] ((arith L).un [33] b)) ∧
    (∀ b, (arith L).bin [124, 124] a b = one) := by
  refine ⟨?_, ?_, ?_, ?_, ?_, ?_, ?_, ?_, ?_⟩
  · rw [un_neg, isNaN_neg]; exact h
  · rw [un_abs, abs_isNaN]; exact h
  · rw [un_sqrt]; exact sqrt_nan h
  · rw [un_floor]; exact integral_nan _ h
  · rw [un_ceil]; exact integral_nan _ h
  · rw [un_round]; exact integral_nan _ h
  · rw [un_not, truthy_nan h]; rfl
  · intro b
    rw [bin_andand, un_not, un_not, truthy_nan h]
    cases truthy b <;> decide +kernel
  · intro b; rw [bin_oror, truthy_nan h]; rfl

/-- with x = NaN: `x+1`, `x*0`, `sqrt(x)` are NaN; `x && 1` is 1, `x || 0` is 1, `!x` is 0;
    `x % 3` is `MinInt64 % 3 = -2` and `x & 1` is 0 (`int64(NaN)` on amd64) – the code's behaviour. -/
example : F64.nan.isNaN = true ∧
    evalF64 (ascii "x+1") F64.nan.bits = some F64.nan.bits ∧ evalF64 (ascii "x*0") F64.nan.bits = some F64.nan.bits ∧
    evalF64 (ascii "sqrt(x)") F64.nan.bits = some F64.nan.bits ∧ evalF64 (ascii "x && 1") F64.nan.bits = some one.bits ∧
    evalF64 (ascii "x || 0") F64.nan.bits = some one.bits ∧ evalF64 (ascii "!x") F64.nan.bits = some 0 ∧
    evalF64 (ascii "x % 3") F64.nan.bits = some (ofInt (-2)).bits ∧ evalF64 (ascii "x & 1") F64.nan.bits = some 0 := by
  decide +kernel

/-- **`math.Pow`'s documented special cases** hold in the model of `^` bit for bit: `x^±0 = 1` and
    `1^y = 1` for every operand (NaN included), `x^1 = x`, NaN otherwise propagates, and
    `x^0.5 = sqrt x` for finite non-zero `x` (correctly rounded, unlike a generic `exp(y·log x)`). -/
theorem pow_special_cases (L : Libm) (x y : F64) :
    (y.mag = 0 → (arith L).bin [94] x y = one) ∧
    ((arith L).bin [94] one y = one) ∧
    (x ≠ one → (arith L).bin [94] x one = x) ∧
    (x.isNaN = true → y.mag ≠ 0 → ((arith L).bin [94] x y).isNaN = true) ∧
    (y.isNaN = true → x ≠ one → (arith L).bin [94] x y = F64.nan) ∧
    (x.isFinite = true → x.mag ≠ 0 → x ≠ one → (arith L).bin [94] x half = sqrt x) := by
  refine ⟨?_, ?_, ?_, ?_, ?_, ?_⟩
  · intro h; rw [bin_pow, pow_y_zero h]; rfl
  · rw [bin_pow, pow_one_y]; rfl
  · intro h; rw [bin_pow, pow_x_one h]; rfl
  · intro h1 h2
    obtain ⟨r, hr, hn⟩ := pow_nan_x h1 h2
    rw [bin_pow, hr]; exact hn
  · intro h1 h2; rw [bin_pow, pow_nan_y h1 h2]; rfl
  · intro h1 h2 h3; rw [bin_pow, pow_half h1 h2 h3]; rfl

/-- `2^10` = 1024, `2^-1` = 0.5, `10^308` is 3 ulps above `1e308` (0x7FE1CCF385EBC8A0) – Go's
    square-and-multiply loop rounds 12 times, and the model reproduces it bit for bit –, `10^309` = +Inf,
    `2^-1074` is the smallest subnormal, `2^-1075` = 0, `(-8)^(1/3)`-like fractional powers of
    negatives are NaN, `NaN^0` = 1, `(-2)^3` = -8, `0.1^2` is 0x3F847AE147AE147C (not 0.01 = …7B). -/
example : evalF64 (ascii "2^10") 0 = some 0x4090000000000000 ∧ evalF64 (ascii "2^-1") 0 = some 0x3FE0000000000000 ∧
    evalF64 (ascii "10^308") 0 = some 0x7FE1CCF385EBC8A3 ∧ evalF64 (ascii "1e308") 0 = some 0x7FE1CCF385EBC8A0 ∧ evalF64 (ascii "10^309") 0 = some 0x7FF0000000000000 ∧
    evalF64 (ascii "2^-1074") 0 = some 1 ∧ evalF64 (ascii "2^-1075") 0 = some 0 ∧
    evalF64 (ascii "(-8)^0.3") 0 = some F64.nan.bits ∧ evalF64 (ascii "x^0") F64.nan.bits = some one.bits ∧
    evalF64 (ascii "(-2)^3") 0 = some 0xC020000000000000 ∧ evalF64 (ascii "0.1^2") 0 = some 0x3F847AE147AE147C := by
  decide +kernel

/-- **A numeric literal is `ParseInt`, else `ParseFloat`, of its text**, as in `compileToken`: a token
    that is not boxed denotes `float64(ParseInt(s, 0, 64))` when that succeeds (decimal, `0x`, `0b`, `0o`,
    leading-zero octal, underscores as Go allows them), and otherwise `strconv.ParseFloat(s, 64)` (the
    modelled, correctly rounding one of `Rare/Base/F64Str.lean`: decimals, exponents, hexadecimal
    floats, `inf`, `nan`) when that succeeds; otherwise it is a variable name or an error. -/
theorem literal_value_float (L : Libm) (v : Bytes) (hbx : isBoxed v = false) :
    (∀ k, parseIntU v = some k → classify (arith L) v = some (.num (ofInt k))) ∧
    (∀ x, parseIntU v = none → F64.parseFloat v = some x → classify (arith L) v = some (.num x)) := by
  constructor
  · intro k hi
    cases v with
    | nil => simp [parseIntU, parseIntLit] at hi
    | cons c r =>
      simp only [classify, classifyE, hbx, Bool.false_eq_true, if_false, parseNum, hi]
      rfl
  · intro x hi hp
    have hpl : (arith L).parseFloat v = .val x := by
      show parseLit v = _
      unfold parseLit; rw [hp]
    cases v with
    | nil => simp [F64.parseFloat, F64.special] at hp
    | cons c r => simp only [classify, classifyE, hbx, Bool.false_eq_true, if_false, parseNum, hi, hpl]

/-- `0.1` is 0x3FB999999999999A, `1e22` is exact, `1_000` and `0x_ff` are integers, `1_0.5` is 10.5,
    `0x1p4` is 16, `1__0` is nothing; `9007199254740993` is read by `ParseInt` and rounds to even when
    converted. -/
example : isBoxed (ascii "0.1") = false ∧ parseIntU (ascii "0.1") = none ∧
    F64.parseFloat (ascii "0.1") = some (ofBits 0x3FB999999999999A) ∧
    F64.parseFloat (ascii "1e22") = some (ofBits 0x4480F0CF064DD592) ∧
    parseIntU (ascii "1_000") = some 1000 ∧ parseIntU (ascii "0x_ff") = some 255 ∧ parseIntU (ascii "0_10") = some 8 ∧
    parseIntU (ascii "1__0") = none ∧ parseIntU (ascii "1_") = none ∧ parseIntU (ascii "0_x1") = none ∧
    evalF64 (ascii "1_0.5") 0 = some 0x4025000000000000 ∧ evalF64 (ascii "0x1p4") 0 = some 0x4030000000000000 ∧
    evalF64 (ascii "1__0") 0 = none ∧
    evalF64 (ascii "9007199254740993") 0 = some 0x4340000000000000 := by decide +kernel

/-- **What the driver computes is what the theorems talk about.**  The driver evaluates with the tainted
    arithmetic `arithT` (`none` = the value went through a libm-backed function).  If a formula compiles
    there it compiles to the same parse in `arith L` for EVERY behaviour `L` of those functions, and
    every untainted value the driver reports is the value in `arith L`. -/
theorem taint_sound (L : Libm) (s : Bytes) (t : Tree) (eT : Expr TV) (h : compile arithT s = .ok (t, eT))
    (bT : Binding TV) (b : Binding F64)
    (hk : ∀ k x, bT.getKey k = some x → x = b.getKey k) (hm : ∀ i x, bT.getMatch i = some x → x = b.getMatch i) :
    ∃ e, compile (arith L) s = .ok (t, e) ∧ ∀ x, eT.eval arithT bT = some x → x = e.eval (arith L) b :=
  taint_sound_aux L s t eT h bT b ⟨hk, hm⟩

/-- …and the two arithmetics accept exactly the same formula texts (so the driver's `err …` answers are
    compile errors of `arith L` as well). -/
theorem taint_same_formulas (L : Libm) (s : Bytes) :
    (∃ t eT, compile arithT s = .ok (t, eT)) ↔ (∃ t e, compile (arith L) s = .ok (t, e)) :=
  compile_ok_iff L s

/-- `exp(x)+1` and `x^0.3` are tainted, `sqrt(x)+1`, `x^3` and `x^-2` are not (x = 2.0); since round 4c `sin` is not
    either. -/
example :
    let bT : Binding TV := ⟨fun _ => some zeroP, fun _ => some (ofBits 0x4000000000000000)⟩
    (match compile arithT (ascii "exp(x)+1"), compile arithT (ascii "sqrt(x)+1"), compile arithT (ascii "x^3 - x^-2"),
           compile arithT (ascii "x^0.3") with
     | .ok (_, e1), .ok (_, e2), .ok (_, e3), .ok (_, e4) =>
       decide (e1.eval arithT bT = none) && decide (e2.eval arithT bT = some (ofBits 0x4003504F333F9DE6)) &&
       decide (e3.eval arithT bT = some (ofBits 0x401F000000000000)) && decide (e4.eval arithT bT = none)
     | _, _, _, _ => false) = true := by
  decide +kernel

/-- **`{! formula}` end to end** (`kfMath`, funcsMath.go, for a constant formula text).  If the text
    compiles, the builder returns a stage without a compile error, and on every context that stage
    answers `strconv.FormatFloat(v, 'f', -1, 64)` of the binary64 value `v` of the common-order parse
    under the binding "look the variable up, read the text with `strconv.ParseFloat`" – or `<BAD-TYPE>`;
    and it is the former whenever every text the context can supply parses as a float. -/
theorem kfmath_output_f64 (L : Libm) (s : Bytes) (t : Tree) (e : Expr F64)
    (h : compile (arith L) s = .ok (t, e)) (ctx : Rare.Expr.Ctx) :
    ∃ st, Rare.Expr.Funcs.Math.kfMathWith (mathInstL L) [Rare.Expr.Stage.lit s] = .ok ⟨some st, none⟩ ∧
      (st.run ctx = .ok Rare.Expr.ErrorNum ∨
       st.run ctx = .ok (render (t.eval (arith L) (classify (arith L)) (ctxBinding ctx)))) ∧
      ((∀ i, (F64.parseFloat (ctx.getMatch i)).isSome = true) → (∀ k, (F64.parseFloat (ctx.getKey k)).isSome = true) →
       st.run ctx = .ok (render (t.eval (arith L) (classify (arith L)) (ctxBinding ctx)))) := by
  obtain ⟨st, h1, h2⟩ := kfMath_run L s t e h ctx
  refine ⟨st, h1, ?_, ?_⟩
  · by_cases hb : badLookups ctx e > 0
    · left; rw [h2, if_pos hb]
    · right; rw [h2, if_neg hb]
  · intro hm hk
    have hz : ¬ badLookups ctx e > 0 := by rw [badLookups_zero ctx hm hk e]; omega
    rw [h2, if_neg hz]

/-- `{! [0]*2 + x}` with `{0}` = "1.25", x = "1e-1" prints 2.6; with `{0}` = "abc" it prints `<BAD-TYPE>`. -/
example :
    let ctx1 : Rare.Expr.Ctx := ⟨fun _ => ascii "1.25", fun _ => ascii "1e-1"⟩
    let ctx2 : Rare.Expr.Ctx := ⟨fun _ => ascii "abc", fun _ => ascii "1e-1"⟩
    (match Rare.Expr.Funcs.Math.kfMathWith (mathInstL libm0) [Rare.Expr.Stage.lit (ascii "[0]*2 + x")] with
     | .ok ⟨some st, none⟩ =>
       (match st.run ctx1, st.run ctx2 with
        | .ok a, .ok b => decide (a = ascii "2.6") && decide (b = ascii "<BAD-TYPE>")
        | _, _ => false)
     | _ => false) = true := by
  decide +kernel


/-! ### Round 4, IEEE part -/

/-- **Which unary functions are exact**: for every key of `uniOps` bound to `math.X`, the model computes
    `X`'s IEEE-determined definition when `X` is `Abs`, `Sqrt`, `Floor`, `Ceil` or `Round` (`goMathExact`:
    sign-bit clear, correctly rounded square root, the integral roundings, half away from zero), the
    operation-by-operation mirror of the Go routine when `X` is `Log`, `Log10` or `Log2` (round 4b) or `Sin`, `Cos`,
    `Tan`, `Asin`, `Acos`, `Atan`, `Exp2` (round 4c), and leaves it to the parameter `L` otherwise (`Exp` only) – keyed by the GO function the table in /repo names, so
    `"floor": math.Ceil` or `"log": math.Log2` would break this. -/
theorem exact_functions_named (L : Libm) :
    ∀ d ∈ Gen.C19.uniDesc, d.2.1 = "fn" →
      (prim L).fn d.1 = (match goMathExact d.2.2 with | some f => f | none => L.fn d.1) := by
  intro d hd hk
  simp only [Gen.C19.uniDesc, List.mem_cons, List.not_mem_nil, or_false] at hd
  rcases hd with rfl | rfl | rfl | rfl | rfl | rfl | rfl | rfl | rfl | rfl | rfl | rfl | rfl | rfl | rfl | rfl | rfl | rfl <;>
    first | (exact absurd hk (by decide)) | (funext x; simp (config := {decide := true}) [prim, exactFn, goMathExact])

/-- The context the documentation's examples are evaluated in (`If x=4`). -/
def docCtx : Rare.Expr.Ctx :=
  ⟨fun _ => [], fun k => if k = Gen.C19.docBinding.1 then Gen.C19.docBinding.2 else []⟩

/-- `{! f}` prints `out` on `docCtx` (model of `kfMath` over the IEEE instance, no libm involved). -/
def docExampleHolds (f out : Bytes) : Bool :=
  match kfMath [Rare.Expr.Stage.lit f] with
  | .ok ⟨some st, none⟩ =>
    (match st.run docCtx with
     | .ok a => a == out
     | .error _ => false)
  | _ => false

/-- **The documented examples hold** (docs/usage/math.md, `## Examples` → `Gen.C19.docExamples`, with the
    documented binding): `{! 2+2} => 4`, `{! 2 * x} => 8`, `{! [x] * 4} => 16`, `{! abs(-4)} => 4`,
    `{! (2+2)*3} => 12`, `{! 2(1+1) } => 4` – each evaluated by the model end to end (tokenizer, parser,
    simplifier, binding through `ParseFloat`, `FormatFloat`).  The correspondence op `docex` checks the same
    lines against the real code. -/
theorem docs_examples_hold :
    (Gen.C19.docExamples.all fun p => docExampleHolds p.1 p.2) = true ∧ Gen.C19.docExamples.length ≥ 6 := by
  decide +kernel

/-- **The documented number formats are literals** (`### Formats`): each example starts with its prefix and
    is a numeric constant, `0b1101` = 13, `0x1BC` = 444, `123.456` the correctly rounded binary64. -/
theorem docs_formats_are_literals :
    (Gen.C19.docFormats.all fun p => p.1.isPrefixOf p.2 &&
      (match classify arithT p.2 with | some (.num (some _)) => true | _ => false)) = true ∧
    evalF64 (ascii "0b1101") 0 = some (ofInt 13).bits ∧ evalF64 (ascii "0x1BC") 0 = some (ofInt 444).bits ∧
    evalF64 (ascii "123.456") 0 = some 0x405EDD2F1A9FBE77 := by
  decide +kernel

/-- **`<BAD-TYPE>` exactly when a look-up of the formula does not parse.**  The stage answers `<BAD-TYPE>`
    iff one of the look-ups the compiled formula makes (`Pool.lookups e`: every variable occurrence that
    survives constant folding, `&&`/`||` included – they do not short-circuit) yields a text that
    `strconv.ParseFloat` rejects – the empty text included; otherwise it prints the value. -/
theorem kfmath_badtype_iff (L : Libm) (e : Expr F64) (ctx : Rare.Expr.Ctx) :
    (Pool.stateless L e ctx = Rare.Expr.ErrorNum ∨
      Pool.stateless L e ctx = render (e.eval (arith L) (ctxBinding ctx))) ∧
    ((∃ v ∈ Pool.lookups e, F64.parseFloat (v.text ctx) = none) → Pool.stateless L e ctx = Rare.Expr.ErrorNum) ∧
    ((∀ v ∈ Pool.lookups e, (F64.parseFloat (v.text ctx)).isSome = true) →
      Pool.stateless L e ctx = render (e.eval (arith L) (ctxBinding ctx))) := by
  rw [Pool.stateless_eq, Pool.badLookups_sum]
  refine ⟨?_, ?_, ?_⟩
  · by_cases h : ((Pool.lookups e).map (Pool.lbad ctx)).sum > 0
    · left; rw [if_pos h]
    · right; rw [if_neg h]
  · rintro ⟨v, hv, hp⟩
    have h1 : Pool.lbad ctx v = 1 := by simp [Pool.lbad, conv, hp]
    have := Pool.sum_ge_of_mem (Pool.lbad ctx) _ v hv
    rw [if_pos (by omega)]
  · intro hall
    have : ((Pool.lookups e).map (Pool.lbad ctx)).sum = 0 := by
      apply Pool.sum_zero_of_all
      intro v hv
      have := hall v hv
      cases hp : F64.parseFloat (v.text ctx) with
      | none => rw [hp] at this; cases this
      | some x => simp [Pool.lbad, conv, hp]
    rw [this, if_neg (by omega)]

/-- **History independence.**  Through ONE stage (one pool of wrapper objects, whatever lies in it –
    any number of objects with any left-over `sub` and `errors`), the answers to a sequence of contexts are
    the answers of the stateless stage, one by one: evaluation `i` does not depend on evaluations `< i`.
    And that stateless stage is the one of the shared expression model (`kfmath_output_f64`). -/
theorem kfmath_history_independent (L : Libm) (e : Expr F64) (pool : Pool.Pool) (ctxs : List Rare.Expr.Ctx) :
    (Pool.runHistory L true e pool ctxs).1 = ctxs.map (Pool.stateless L e) :=
  Pool.runHistory_reset L e pool ctxs

theorem kfmath_stage_is_stateless (L : Libm) (s : Bytes) (t : Tree) (e : Expr F64)
    (h : compile (arith L) s = .ok (t, e)) :
    ∃ st, Rare.Expr.Funcs.Math.kfMathWith (mathInstL L) [Rare.Expr.Stage.lit s] = .ok ⟨some st, none⟩ ∧
      ∀ ctx, st.run ctx = .ok (Pool.stateless L e ctx) :=
  Pool.stage_is_stateless L s t e h

/-- The reset is what makes it so: WITHOUT the `errors: 0` of the assignment (the closure's statement 2,
    `glue_matches_source`), `{! [0]}` on "abc" and then on "1" answers `<BAD-TYPE>` twice – the second
    evaluation finds the first one's count in the pooled object – while the stateless answer to "1" is `1`. -/
theorem kfmath_no_reset_counterexample :
    let e : Expr F64 := .idx 0
    let c1 : Rare.Expr.Ctx := ⟨fun _ => ascii "abc", fun _ => []⟩
    let c2 : Rare.Expr.Ctx := ⟨fun _ => ascii "1", fun _ => []⟩
    (Pool.runHistory libm0 false e (Pool.Pool.new 5) [c1, c2]).1 = [Rare.Expr.ErrorNum, Rare.Expr.ErrorNum] ∧
    (Pool.runHistory libm0 true e (Pool.Pool.new 5) [c1, c2]).1 = [Rare.Expr.ErrorNum, ascii "1"] ∧
    Pool.stateless libm0 e c2 = ascii "1" := by
  decide +kernel

/-- The pool neither leaks nor grows in sequential use (an empty pool grows to one object). -/
theorem kfmath_pool_size_stable (L : Libm) (reset : Bool) (e : Expr F64) (pool : Pool.Pool) (ctx : Rare.Expr.Ctx) :
    (Pool.stageRun L reset e pool ctx).2.length = max pool.length 1 :=
  Pool.stageRun_pool_length L reset e pool ctx

/-- **Independence under concurrency.**  Any number of goroutines evaluate through ONE stage, each on its
    own context, interleaved by an arbitrary schedule at the granularity of single accesses to the shared
    memory (`Pool.step`: the atomic `Get`, the overwrite of the object, every single look-up with its
    `errors++`, the check and the atomic `Return`; a pool of any initial size, growing when it is empty).
    Whatever the schedule, a goroutine that has returned has returned the stateless answer for ITS
    context; and a goroutine that was scheduled `#look-ups + 3` times has returned. -/
theorem kfmath_concurrent_independent (L : Libm) (e : Expr F64) (size : Nat) (ctxOf : Nat → Rare.Expr.Ctx)
    (sched : List Nat) (i : Nat) :
    (∀ out, (Pool.run L e (Pool.Sys.init size ctxOf) sched).pc i = .done out → out = Pool.stateless L e (ctxOf i)) ∧
    (sched.count i ≥ (Pool.lookups e).length + 3 →
      (Pool.run L e (Pool.Sys.init size ctxOf) sched).pc i = .done (Pool.stateless L e (ctxOf i))) := by
  have I := Pool.inv_run L e _ sched (Pool.inv_init L e size ctxOf)
  have hc : (Pool.run L e (Pool.Sys.init size ctxOf) sched).ctxOf = ctxOf := Pool.run_ctxOf L e _ sched
  have h1 : ∀ out, (Pool.run L e (Pool.Sys.init size ctxOf) sched).pc i = .done out → out = Pool.stateless L e (ctxOf i) := by
    intro out h
    have := I.done_ok i out h
    rw [hc] at this; exact this
  refine ⟨h1, fun hcount => ?_⟩
  have hr := Pool.run_rem L e (Pool.Sys.init size ctxOf) sched i
  have h0 : ((Pool.run L e (Pool.Sys.init size ctxOf) sched).pc i).rem e = 0 := by
    rw [hr]; simp only [Pool.Sys.init, Pool.Pc.rem]; omega
  obtain ⟨out, hout⟩ := Pool.rem_zero_done e _ h0
  rw [hout, h1 out hout]

/-- not vacuous: three goroutines (contexts "abc", "1", "2.5") through `{! [0]*2}` with a pool of ONE object,
    interleaved look-up by look-up: the pool grows, nobody sees anybody else's failure. -/
example :
    let e : Expr F64 := .bin [42] (.idx 0) (.val (ofInt 2))
    let ctxOf : Nat → Rare.Expr.Ctx := fun i =>
      ⟨fun _ => if i = 0 then ascii "abc" else if i = 1 then ascii "1" else ascii "2.5", fun _ => []⟩
    let s := Pool.run libm0 e (Pool.Sys.init 1 ctxOf) [0, 1, 2, 0, 1, 2, 0, 1, 2, 2, 1, 0]
    (match s.pc 0, s.pc 1, s.pc 2 with
     | .done a, .done b, .done c => a == ascii "<BAD-TYPE>" && b == ascii "2" && c == ascii "5"
     | _, _, _ => false) = true ∧ s.next = 3 ∧ s.pool.length = 3 := by
  decide +kernel

/-- **The atomicity the interleaving model assumes is the code's** (`Gen.Access`, the C05 access table,
    regenerated with go/types on every run): every access to a field of `ObjectPool` outside its
    constructors holds the pool's mutex `m` exclusively; the closure `kfMath` returns touches what it
    captured (`expr`, `ctxPool`) only by reading it and by calling the self-synchronised pool; and the
    operator tables and error values of package stdmath are written by package initialisation only (every
    other write in the table is a call of a type that synchronises itself: `regexp.MatchString`). -/
theorem pool_access_synchronised :
    (Gen.Access.objectPool.all fun a =>
      Gen.Access.objectPoolCtors.contains a.fn || (a.lock == "W" && a.mutex == "m")) = true ∧
    ((Gen.Access.stageState.filter fun a => a.fn == "kfMath$1").all fun a => !a.write || a.atomic) = true ∧
    ((Gen.Access.stageState.filter fun a => a.fn == "kfMath$1").length ≥ 6) ∧
    (Gen.Access.stdmathGlobals.all fun a =>
      !a.write || a.atomic || Gen.Access.stdmathGlobalsCtors.contains a.fn) = true := by
  decide +kernel

/-- **A constant and a variable bound to the same TEXT.**  For a literal spelling that the integer parser
    rejects and `strconv.ParseFloat` reads (`0.5`, `1e3`, `.25`, `1_0.5`, `0x1p4`, `inf`, `nan`, integers beyond
    int64), the constant in the formula and a variable whose capture text is that same spelling denote the
    same binary64 value, and the look-up counts no error. -/
theorem constant_equals_bound_text (L : Libm) (v : Bytes) (x : F64) (hbx : isBoxed v = false)
    (hi : parseIntU v = none) (hp : F64.parseFloat v = some x) :
    classify (arith L) v = some (.num x) ∧ conv v = (x, 0) :=
  ⟨(literal_value_float L v hbx).2 x hi hp, by simp [conv, hp]⟩

/-- …and just outside that class the two readings differ, because a constant goes through
    `ParseInt(s, 0, 64)` FIRST and a capture only through `ParseFloat`: the constant `010` is octal 8 but the
    text "010" binds 10; the constants `0x10`, `0b11`, `0o17` are 16, 3, 15 but as capture texts they are
    `<BAD-TYPE>` (`ParseFloat` wants a `p` exponent after a hexadecimal mantissa and knows no other prefix).
    Decimal integers agree (`9007199254740993` rounds to even both ways).  The property's "constants equal
    bound variables" is about VALUES (`simplify_invisible`); this marks the boundary for texts. -/
theorem constant_vs_bound_text_counterexample :
    evalF64 (ascii "010") 0 = some (ofInt 8).bits ∧ conv (ascii "010") = (ofInt 10, 0) ∧
    evalF64 (ascii "0x10") 0 = some (ofInt 16).bits ∧ (conv (ascii "0x10")).2 = 1 ∧
    evalF64 (ascii "0b11") 0 = some (ofInt 3).bits ∧ (conv (ascii "0b11")).2 = 1 ∧
    evalF64 (ascii "0o17") 0 = some (ofInt 15).bits ∧ (conv (ascii "0o17")).2 = 1 ∧
    evalF64 (ascii "9007199254740993") 0 = some (conv (ascii "9007199254740993")).1.bits ∧
    (conv (ascii "9007199254740993")).2 = 0 := by
  decide +kernel

/-- **Special values as constants and as bindings.**  `inf`, `infinity`, `nan` (any case) are numeric
    CONSTANTS – `ParseFloat` reads them, so they are never variables –, a decimal that overflows (`1e400`)
    is neither a constant nor a legal binding (`ParseFloat` reports a range error: compile error /
    `<BAD-TYPE>`), and a variable bound to NaN, ±Inf or -0 behaves exactly like the constant
    (`constants_equal_variables_f64` has no side condition on the values): `x == x` with x = NaN is 0 like
    `nan == nan`, `1/x` with x = -0 is -Inf like `1/(-0)`. -/
theorem special_values_constants_and_bindings :
    classify arithT (ascii "inf") = some (.num (some (inf false))) ∧
    classify arithT (ascii "Infinity") = some (.num (some (inf false))) ∧
    (match classify arithT (ascii "NaN") with | some (.num (some x)) => x.isNaN | _ => false) = true ∧
    evalF64 (ascii "1e400") 0 = none ∧ (conv (ascii "1e400")).2 = 1 ∧ (conv (ascii "")).2 = 1 ∧
    evalF64 (ascii "x == x") F64.nan.bits = evalF64 (ascii "nan == nan") 0 ∧
    evalF64 (ascii "1/x") (zero true).bits = some (inf true).bits ∧ evalF64 (ascii "1/(-0)") 0 = some (inf true).bits ∧
    evalF64 (ascii "x - x") (inf false).bits = evalF64 (ascii "inf - inf") 0 ∧
    evalF64 (ascii "inf - inf") 0 = some F64.nan.bits := by
  decide +kernel

/-- There are no named constants and no signed exponents: `pi` and `e` are variables, and `1e-3` is
    `1e`, `-`, `3` to the tokenizer (`1e` is not a number: compile error) – `1e3`, `0.001` are the spellings. -/
example : classify arithT (ascii "pi") = some (.named (ascii "pi")) ∧ classify arithT (ascii "e") = some (.named (ascii "e")) ∧
    evalF64 (ascii "1e-3") 0 = none ∧ evalF64 (ascii "0.001") 0 = some 0x3F50624DD2F1A9FC ∧
    evalF64 (ascii "1e3") 0 = some (ofInt 1000).bits := by decide +kernel

/-! ### Round 4b: look-ups on the parse tree; integer texts; (see also the logarithms below) -/

/-- **The look-ups of the compiled formula are the variable occurrences of its parse** – for every
    arithmetic: compile-time folding removes only sub-formulas WITHOUT variables (`simplify` keeps an
    expression whenever its probe counted a look-up), and nothing else is dropped: no algebraic
    simplification (`0*x`), no short circuit (`0 && x`, `1 || x`).  `t.vars` lists the literal tokens of the
    parse that denote `[n]` / `[name]` / bare names, left to right, groups entered. -/
theorem lookups_are_formula_variables (s : Bytes) (t : Tree) (e : Expr α) (h : compile A s = .ok (t, e)) :
    e.vars = t.vars (classify A) :=
  compile_vars A s t e h

/-- **…and they can be read off the formula TEXT** (round 4c): `textVars` walks the token stream of the text (the
    tokenizer specification `tok`): every literal token that denotes `[n]` / `[name]` / a bare name is one look-up,
    a parenthesised group contributes the look-ups of its own text, operators and unary operators / function names
    none.  That list, in text order, IS the list of look-ups `Eval` makes on what `Compile` built – for every
    arithmetic and every formula that compiles; no parse tree is mentioned any more. -/
theorem lookups_are_text_tokens (s : Bytes) (t : Tree) (e : Expr α) (h : compile A s = .ok (t, e)) :
    e.vars = textVars tok (classify A) s := by
  obtain ⟨htok, _, hd, _⟩ := parse_wellprec A s t e h
  rw [compile_vars A s t e h]
  exact (textVarsF_tree (classify A) _ s t (Nat.lt_succ_self _) htok hd).symm

/-- `2*x + (y - [1])*abs([n1]) + 0x10(e) + sin(0)`: x, y, [1], n1, e – `abs`, `sin` and the constants are not
    look-ups, `e` is a variable (there are no named constants). -/
example : textVars tok (classify arithT) (ascii "2*x + (y - [1])*abs([n1]) + 0x10(e) + sin(0)") =
    [.named (ascii "x"), .named (ascii "y"), .idx 1, .named (ascii "n1"), .named (ascii "e")] := by decide +kernel

/-- …so `<BAD-TYPE>` is decided by the FORMULA TEXT and the context alone (strengthens
    `kfmath_badtype_iff`, which spoke about the compiled expression): the stage `{! s}` answers
    `<BAD-TYPE>` as soon as ONE variable occurrence of the parse of `s` is bound to a text `ParseFloat`
    rejects – wherever it stands, also under `0 *` or behind `1 ||` –, and prints the value of the parse
    when all of them parse. -/
theorem kfmath_badtype_iff_formula (L : Libm) (s : Bytes) (t : Tree) (e : Expr F64)
    (h : compile (arith L) s = .ok (t, e)) :
    ∃ st, Rare.Expr.Funcs.Math.kfMathWith (mathInstL L) [Rare.Expr.Stage.lit s] = .ok ⟨some st, none⟩ ∧
      ∀ ctx : Rare.Expr.Ctx,
        ((∃ v ∈ t.vars (classify (arith L)), F64.parseFloat (v.text ctx) = none) →
          st.run ctx = .ok Rare.Expr.ErrorNum) ∧
        ((∀ v ∈ t.vars (classify (arith L)), (F64.parseFloat (v.text ctx)).isSome = true) →
          st.run ctx = .ok (render (t.eval (arith L) (classify (arith L)) (ctxBinding ctx)))) := by
  obtain ⟨st, h1, h2⟩ := kfmath_stage_is_stateless L s t e h
  refine ⟨st, h1, fun ctx => ?_⟩
  have hv : Pool.lookups e = t.vars (classify (arith L)) := by
    rw [lookups_eq_vars]; exact compile_vars (arith L) s t e h
  obtain ⟨_, hb, hg⟩ := kfmath_badtype_iff L e ctx
  rw [hv] at hb hg
  constructor
  · intro hx; rw [h2, hb hx]
  · intro hx; rw [h2, hg hx, formula_value (arith L) s t e h]

/-- not vacuous: `0*x + (0 && [2]) + (1 || y) + 2*3` looks up `x`, `[2]`, `y` (in this order) although none of
    them can influence the value, and nothing for the folded `2*3`; with `[2]` = "abc" the stage answers
    `<BAD-TYPE>`, with all three numeric it prints 7. -/
example :
    (match compile (arith libm0) (ascii "0*x + (0 && [2]) + (1 || y) + 2*3") with
     | .ok (t, e) =>
       decide (Pool.lookups e = [.named [120], .idx 2, .named [121]]) &&
       decide (t.vars (classify (arith libm0)) = [.named [120], .idx 2, .named [121]])
     | .error _ => false) = true ∧
    (match kfMath [Rare.Expr.Stage.lit (ascii "0*x + (0 && [2]) + (1 || y) + 2*3")] with
     | .ok ⟨some st, none⟩ =>
       (match st.run ⟨fun _ => ascii "abc", fun _ => ascii "5"⟩, st.run ⟨fun _ => ascii "4", fun _ => ascii "5"⟩ with
        | .ok a, .ok b => decide (a = ascii "<BAD-TYPE>") && decide (b = ascii "7")
        | _, _ => false)
     | _ => false) = true := by
  decide +kernel

/-- **A decimal integer reads the same as constant and as bound text – every int64, every length.**  For a
    decimal spelling `ds` without leading zero: (1) what `compileToken` makes of the token (`ParseInt(s,0,64)`
    then `float64(n)`, or beyond int64 `ParseFloat`) is what the wrapper's look-up makes of the same text
    (`ParseFloat`): `classify = (parseFloat ds).map num` – too long for `ParseFloat` means neither a constant
    nor a legal binding; (2) up to 2^63 that value is `float64(n)`, one rounding to nearest even (so
    `9007199254740993` is …992 both ways); (3) the bound text `-ds` denotes what the formula `-ds` – unary minus
    applied to the constant – evaluates to (`-0` included).  Closes the gap `constant_equals_bound_text` left
    (spellings `ParseInt` accepts); the boundary (leading zeros, prefixes) is
    `constant_vs_bound_text_counterexample`. -/
theorem int_constant_equals_bound_text (L : Libm) (ds : Bytes) (hne : ds ≠ []) (h0 : ds.head? ≠ some 48)
    (hd : ∀ d ∈ ds, isBaseDigit 10 d = true) :
    classify (arith L) ds = (F64.parseFloat ds).map Atom.num ∧
    (baseVal 10 ds ≤ 9223372036854775808 →
      conv ds = (ofInt (baseVal 10 ds), 0) ∧
      conv (45 :: ds) = ((arith L).un [45] (ofInt (baseVal 10 ds)), 0)) := by
  refine ⟨classify_dec L ds hne h0 hd, fun hr => ⟨?_, ?_⟩⟩
  · simp only [conv, parseFloat_dec_int ds hne hd hr]
  · simp only [conv, parseFloat_neg_dec_int ds hne hd hr, un_neg]

/-- not vacuous: `9223372036854775807` (MaxInt64: constant through `ParseInt`), `9223372036854775808` and
    `18446744073709551616` (through `ParseFloat`) as constants and as texts; `-5` as text and as formula. -/
example : evalF64 (ascii "9223372036854775807") 0 = some (conv (ascii "9223372036854775807")).1.bits ∧
    evalF64 (ascii "9223372036854775807") 0 = some 0x43E0000000000000 ∧
    evalF64 (ascii "18446744073709551616") 0 = some (conv (ascii "18446744073709551616")).1.bits ∧
    evalF64 (ascii "-5") 0 = some (conv (ascii "-5")).1.bits ∧ (conv (ascii "-5")).2 = 0 ∧
    evalF64 (ascii "-0") 0 = some (conv (ascii "-0")).1.bits ∧ (conv (ascii "-0")).1 = zero true := by
  decide +kernel

/-! ### Round 4b: the logarithms are part of the model (no longer a parameter) -/

/-- **`log`, `log10`, `log2` are computed, not assumed.**  In every formula and for every behaviour `L` of the
    remaining libm functions, the three logarithms of `uniOps` are the fixed sequences of binary64 operations
    Go executes on the platform of the check (`math.Log` = `log_amd64.s`, mirrored instruction by instruction in
    `Model/C11Log.lean`, the model property C11 uses for `{ln}`/`{log10}`/`{log2}`; `math.Log10 = Log·(1/Ln10)`,
    `math.Log2 = Frexp` + `Log(frac)·(1/Ln2) + exp`).  Consequences for ALL operands: `log` of ±0 is -Inf, of NaN
    and of every negative value (−Inf included) NaN, of +Inf +Inf; and `log2` of EVERY normal power of two is
    exactly its exponent (so `log2(1024) == 10`, `log2(0.125) == -3` hold bit for bit). -/
theorem log_functions_f64 (L : Libm) (x : F64) :
    (arith L).un [108, 111, 103] x = Rare.C11.Log.logAsm x ∧
    (arith L).un [108, 111, 103, 49, 48] x = Rare.C11.Log.log10 x ∧
    (arith L).un [108, 111, 103, 50] x = Rare.C11.Log.log2 x ∧
    (x.mag = 0 → (arith L).un [108, 111, 103] x = F64.inf true) ∧
    (x.isNaN = true → (arith L).un [108, 111, 103] x = F64.nan) ∧
    (x.sign = true → x.mag ≠ 0 → (arith L).un [108, 111, 103] x = F64.nan) ∧
    (x.sign = false → x.isInf = true → (arith L).un [108, 111, 103] x = x) ∧
    (x.sign = false → x.isFinite = true → 4503599627370496 ≤ x.mag → x.frac = 0 →
      (arith L).un [108, 111, 103, 50] x = ofInt ((x.expField : Int) - 1023)) := by
  obtain ⟨s1, s2, s3, s4⟩ := Rare.C11.Log.logAsm_special x
  rw [un_log, un_log10, un_log2]
  exact ⟨rfl, rfl, rfl, s1, s2, s3, s4, Rare.C11.Log.log2_pow2_normal x⟩

/-- `log(1)`, `log10(1)`, `log2(1)` are +0; `log10(1000)` is 3 bit for bit but `log10(1e15)` is
    14.999999999999998 (`math.Log10 = Log·(1/Ln10)` is one ulp off there – Go's behaviour, reproduced; the only
    power of ten up to 1e22 where that happens: `C11.Log.log10_table`); `log2(1024)` is 10, `log2(8)/log2(2)`
    is 3, `log(0)` is -Inf, `log(-1)` NaN; `floor(log10(x))+1` counts the digits of 12345. -/
example : evalF64 (ascii "log(1)") 0 = some 0 ∧ evalF64 (ascii "log10(1)") 0 = some 0 ∧ evalF64 (ascii "log2(1)") 0 = some 0 ∧
    evalF64 (ascii "log10(1000)") 0 = some (ofInt 3).bits ∧
    evalF64 (ascii "log10(1e15)") 0 = some 0x402DFFFFFFFFFFFF ∧
    evalF64 (ascii "log2(1024)") 0 = some (ofInt 10).bits ∧ evalF64 (ascii "log2(8)/log2(2)") 0 = some (ofInt 3).bits ∧
    evalF64 (ascii "log(0)") 0 = some (inf true).bits ∧ evalF64 (ascii "log(-1)") 0 = some F64.nan.bits ∧
    evalF64 (ascii "floor(log10(x))+1") (ofInt 12345).bits = some (ofInt 5).bits := by
  decide +kernel

/-- **The platform the logarithm model mirrors is the platform of the check** (`Gen.C19.goarch`, `logProbes`:
    computed by the toolchain the harness is built with, on every run): GOARCH is amd64, and at every probe
    argument – subnormals (where the assembly routine and the portable code DIFFER), the rescaling boundary
    `sqrt(2)/2` and its neighbours, 1 and its neighbours, powers of two and ten, `e`, the extremes of the
    range, ±0, −1, ±Inf, NaN – `math.Log`, `math.Log10`, `math.Log2` returned bit for bit what the model
    computes (NaN results canonical).  A toolchain or architecture on which `math.Log` is another routine
    breaks this theorem before any formula is compared. -/
theorem log_platform :
    Gen.C19.goarch = "amd64" ∧ Gen.C19.logProbes.length ≥ 20 ∧
    (Gen.C19.logProbes.all fun p =>
      let x := ofBits (UInt64.ofNat p.1)
      (Rare.C11.Log.logAsm x).bits == p.2.1 && (Rare.C11.Log.log10 x).bits == p.2.2.1 &&
      (Rare.C11.Log.log2 x).bits == p.2.2.2) = true := by
  decide +kernel

/-! ### Round 4c: the trigonometric functions and `exp2` are part of the model; only `exp` stays a parameter -/

/-- **`sin cos tan asin acos atan exp2` are computed, not assumed.**  In every formula and for every behaviour `L`
    of what is left of libm, these seven keys of `uniOps` are the fixed sequences of binary64 operations Go executes
    on the platform of the check: `math.Sin` … `math.Atan`, `math.Exp2` have no assembly routine on amd64 and the
    compiler fuses no multiply-add there, so they are `sin.go`, `tan.go`, `atan.go`, `asin.go`, `trig_reduce.go`,
    `exp.go` as written (Cephes polynomials; Cody-Waite reduction by π/4 in three parts below 2^29, Payne-Hanek on
    1216 bits of 4/π from there to MaxFloat64; `expmulti` + `Ldexp`), mirrored operation by operation in
    `Model/C19Trig.lean` and `IEEE.exp2`.  Consequences for ALL operands: `sin`, `tan`, `atan`, `asin` of ±0 are the
    operand itself (sign kept); `sin`, `cos`, `tan` of ±Inf are NaN and of NaN are NaN; `asin` outside [-1, 1] is
    NaN; `exp2` of NaN is NaN, of +Inf +Inf, of -Inf +0, above 1023.9999999999999 +Inf, below -1074 +0. -/
theorem trig_functions_f64 (L : Libm) (x : F64) :
    (arith L).un (ascii "sin") x = Trig.sin x ∧ (arith L).un (ascii "cos") x = Trig.cos x ∧
    (arith L).un (ascii "tan") x = Trig.tan x ∧ (arith L).un (ascii "asin") x = Trig.asin x ∧
    (arith L).un (ascii "acos") x = Trig.acos x ∧ (arith L).un (ascii "atan") x = Trig.atan x ∧
    (arith L).un (ascii "exp2") x = exp2 x ∧
    (x.mag = 0 → (arith L).un (ascii "sin") x = x ∧ (arith L).un (ascii "tan") x = x ∧
      (arith L).un (ascii "atan") x = x ∧ (arith L).un (ascii "asin") x = x) ∧
    (x.isInf = true → (arith L).un (ascii "sin") x = F64.nan ∧ (arith L).un (ascii "cos") x = F64.nan ∧
      (arith L).un (ascii "tan") x = F64.nan) ∧
    (x.isNaN = true → ((arith L).un (ascii "sin") x).isNaN = true ∧ ((arith L).un (ascii "cos") x).isNaN = true ∧
      ((arith L).un (ascii "tan") x).isNaN = true ∧ ((arith L).un (ascii "exp2") x).isNaN = true) ∧
    (x.isNaN = false → lt one (F64.abs x) = true → ((arith L).un (ascii "asin") x).isNaN = true) ∧
    (x.isInf = true → x.sign = false → (arith L).un (ascii "exp2") x = x) ∧
    (x.isInf = true → x.sign = true → (arith L).un (ascii "exp2") x = zeroP) ∧
    (x.isNaN = false → x.isInf = false → lt exp2Overflow x = true → (arith L).un (ascii "exp2") x = inf false) ∧
    (x.isNaN = false → x.isInf = false → lt x exp2Underflow = true → (arith L).un (ascii "exp2") x = zeroP) := by
  have e1 : ascii "sin" = [115, 105, 110] := by decide +kernel
  have e2 : ascii "cos" = [99, 111, 115] := by decide +kernel
  have e3 : ascii "tan" = [116, 97, 110] := by decide +kernel
  have e4 : ascii "asin" = [97, 115, 105, 110] := by decide +kernel
  have e5 : ascii "acos" = [97, 99, 111, 115] := by decide +kernel
  have e6 : ascii "atan" = [97, 116, 97, 110] := by decide +kernel
  have e7 : ascii "exp2" = [101, 120, 112, 50] := by decide +kernel
  rw [e1, e2, e3, e4, e5, e6, e7, un_sin, un_cos, un_tan, un_asin, un_acos, un_atan, un_exp2]
  obtain ⟨x1, x2, x3, x4, x5⟩ := exp2_special x
  refine ⟨rfl, rfl, rfl, rfl, rfl, rfl, rfl, ?_, Trig.trig_inf, ?_, ?_, x2, x3, ?_, ?_⟩
  · intro h; obtain ⟨a, b, c, d⟩ := Trig.sin_zero h; exact ⟨a, b, c, d⟩
  · intro h; obtain ⟨a, b, c⟩ := Trig.trig_nan h; exact ⟨a, b, c, x1 h⟩
  · intro hn h
    rcases Trig.asin_outside hn h with e | e <;> rw [e]
    · decide
    · decide
  · intro hn hi h; exact x4 hn h hi
  · intro hn hi h; exact x5 hn h hi

/-- **The symmetries hold bit for bit, for every operand** – the code splits the sign off before it reduces the
    argument, so they are facts about the source, not about accuracy: `sin(-x) = -sin(x)`, `tan(-x) = -tan(x)`,
    `asin(-x) = -asin(x)` (or both sides NaN: NaN and ±Inf operands, `asin` outside [-1, 1]), `atan(-x) = -atan(x)`
    and `cos(-x) = cos(x)` exactly.  So `{! sin(-[0]) == -sin([0])}` prints 1 for every finite binding, however
    large (Payne-Hanek range included), and `{! cos(-x) - cos(x)}` prints 0. -/
theorem trig_symmetries_f64 (L : Libm) (x : F64) :
    Trig.Same ((arith L).un (ascii "sin") ((arith L).un [45] x)) ((arith L).un [45] ((arith L).un (ascii "sin") x)) ∧
    Trig.Same ((arith L).un (ascii "tan") ((arith L).un [45] x)) ((arith L).un [45] ((arith L).un (ascii "tan") x)) ∧
    (arith L).un (ascii "cos") ((arith L).un [45] x) = (arith L).un (ascii "cos") x ∧
    (x.isNaN = false →
      (arith L).un (ascii "atan") ((arith L).un [45] x) = (arith L).un [45] ((arith L).un (ascii "atan") x) ∧
      Trig.Same ((arith L).un (ascii "asin") ((arith L).un [45] x)) ((arith L).un [45] ((arith L).un (ascii "asin") x))) := by
  have e1 : ascii "sin" = [115, 105, 110] := by decide +kernel
  have e2 : ascii "cos" = [99, 111, 115] := by decide +kernel
  have e3 : ascii "tan" = [116, 97, 110] := by decide +kernel
  have e4 : ascii "asin" = [97, 115, 105, 110] := by decide +kernel
  have e6 : ascii "atan" = [97, 116, 97, 110] := by decide +kernel
  simp only [e1, e2, e3, e4, e6, un_sin, un_cos, un_tan, un_asin, un_atan, un_neg]
  exact ⟨Trig.sin_neg x, Trig.tan_neg x, Trig.cos_neg x, fun hn => ⟨Trig.atan_neg x hn, Trig.asin_neg x hn⟩⟩

/-- **`exp2` of an integer is exact**, for EVERY integer `n` from -1074 to 1023 (the whole range in which `2^n` is a
    binary64 value): the reduction finds `k = n` and `r = 0`, the polynomial of `expmulti` answers exactly 1, and
    `Ldexp(1, n)` is the float whose value is the rational `2^n` – exponent field `n + 1023` with an empty fraction
    in the normal range, the single bit `n + 1074` in the subnormal range.  So `{! exp2(10)}` prints `1024`, not
    `1023.9999999999999`, and `exp2(-1074)` is the smallest subnormal. -/
theorem exp2_integer_exact (L : Libm) (n : Int) (h1 : -1074 ≤ n) (h2 : n ≤ 1023) :
    (arith L).un (ascii "exp2") (ofInt n) =
      ofSM false (if -1022 ≤ n then (n + 1023).toNat * 4503599627370496 else 2 ^ (n + 1074).toNat) ∧
    ((arith L).un (ascii "exp2") (ofInt n)).toRat? = some (pow2Z n) := by
  have e7 : ascii "exp2" = [101, 120, 112, 50] := by decide +kernel
  rw [e7, un_exp2]
  exact ⟨exp2_int_bits n h1 h2, exp2_int_val n h1 h2⟩

/-- the hypotheses are satisfiable and the bounds are sharp: `exp2(-1075)` is 0 and `exp2(1024)` is +Inf. -/
example : exp2 (ofInt (-1075)) = zeroP ∧ exp2 (ofInt 1024) = inf false ∧ exp2 (ofInt (-1074)) = ofSM false 1 ∧
    exp2 (ofInt 1023) = ofSM false (2046 * 4503599627370496) := by decide +kernel

/-- `4*atan(1)` is π bit for bit (0x400921FB54442D18) and so is `acos(-1)`; `sin(0)`, `cos(0)`, `exp2(10)`,
    `exp2(-1074)` (the smallest subnormal), `exp2(-1075)` (0) and `exp2(1024)` (+Inf); `asin(2)` is NaN; `sin(1e22)`
    goes through the Payne-Hanek reduction and is -0.8522008497671889 (the real sine there is -0.85220084976718880…;
    a routine without that reduction answers garbage); `cos(x)^2 + sin(x)^2` at x = 1 rounds to exactly 1. -/
example : evalF64 (ascii "4*atan(1)") 0 = some 0x400921FB54442D18 ∧ evalF64 (ascii "acos(-1)") 0 = some 0x400921FB54442D18 ∧
    evalF64 (ascii "sin(0)") 0 = some 0 ∧ evalF64 (ascii "cos(0)") 0 = some one.bits ∧
    evalF64 (ascii "exp2(10)") 0 = some (ofInt 1024).bits ∧ evalF64 (ascii "exp2(-1074)") 0 = some 1 ∧
    evalF64 (ascii "exp2(-1075)") 0 = some 0 ∧ evalF64 (ascii "exp2(1024)") 0 = some (inf false).bits ∧
    evalF64 (ascii "asin(2)") 0 = some F64.nan.bits ∧
    evalF64 (ascii "sin(x)") 0x4480F0CF064DD592 = some 0xBFEB453AB76BF398 ∧
    evalF64 (ascii "cos(x)^2 + sin(x)^2") one.bits = some one.bits := by
  decide +kernel

/-- **What is left of the parameter.**  Of all the functions `uniOps` names, the value of the model depends on the
    behaviour `L` of libm for `exp` only (`math.Exp` on amd64 is an assembly routine that selects its instruction
    sequence by a CPU feature flag at run time, so the source does not determine it): for every other entry of the
    table in /repo two arithmetics with different `L` agree on every operand; `exp` does depend on it. -/
theorem libm_parameter_is_exp_only :
    (∀ d ∈ Gen.C19.uniDesc, d.2.1 = "fn" → d.1 ≠ ascii "exp" → ∀ (L L' : Libm), (prim L).fn d.1 = (prim L').fn d.1) ∧
    (∃ (L L' : Libm) (x : F64), (arith L).un (ascii "exp") x ≠ (arith L').un (ascii "exp") x) := by
  constructor
  · intro d hd hk hne L L'
    simp only [Gen.C19.uniDesc, List.mem_cons, List.not_mem_nil, or_false] at hd
    rcases hd with rfl | rfl | rfl | rfl | rfl | rfl | rfl | rfl | rfl | rfl | rfl | rfl | rfl | rfl | rfl | rfl | rfl | rfl <;>
      first | (exact absurd hk (by decide)) | (exact absurd (by decide +kernel) hne) |
        (funext x; simp (config := {decide := true}) [prim, exactFn])
  · refine ⟨libm0, ⟨fun _ _ => one, fun x _ => x⟩, zeroP, ?_⟩
    have e : ascii "exp" = [101, 120, 112] := by decide +kernel
    rw [e]
    simp [arith, arithOf, unOf, prim, exactFn, libm0]
    decide

/-- **The platform the trigonometric model mirrors is the platform of the check** (`Gen.C19.trigProbes`: computed by
    the toolchain the harness is built with, on every run): at 45 probe arguments that take every branch of the
    routines – each octant of `sin`/`cos`, tan's reciprocal and tiny-argument branches, the Cody-Waite path and the
    Payne-Hanek path (2^29 itself, 1e22, MaxFloat64), satan's three ranges, asin's `x > 0.7`, the argument outside
    [-1, 1], `exp2` with k rounded up and down, results in the subnormal range and at the overflow bound, ±0 and
    Inf – `math.Sin/Cos/Tan/Asin/Acos/Atan/Exp2` (looked up by GO name, as `exact_functions_named` binds them)
    returned bit for bit what the model computes (NaN results canonical).  A toolchain in which one of them is
    another routine (an assembly version, fused multiply-add) breaks this theorem before any formula is compared. -/
theorem trig_platform :
    Gen.C19.goarch = "amd64" ∧ Gen.C19.trigProbes.length ≥ 40 ∧
    (Gen.C19.trigProbes.all fun p =>
      match goMathExact p.1 with
      | some f =>
        let y := f (ofBits (UInt64.ofNat p.2.1))
        (if y.isNaN then F64.nan.bits else y.bits) == p.2.2
      | none => false) = true := by
  decide +kernel

end ieee


end Rare.C19
