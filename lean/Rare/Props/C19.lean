import Rare.Proofs.C19Rat
import Rare.Proofs.C19Complete
import Rare.Proofs.C19Fuel
import Rare.Proofs.C19Lit
import Rare.Proofs.C19Tok
import Rare.Gen.C19
/-!
# C19 — math formulas follow the documented precedence; constants equal bound variables

Property theorems about the model of `pkg/expressions/stdmath` (`Rare/Model/C19.lean`, mirrors
tokenizer.go / parser.go / ops.go / simplify.go of the repaired code).  They hold for every
arithmetic `A : Arith α` (float64 in the real code): nothing below depends on how `+`, `sin`, …
compute, so the IEEE evaluation itself is outside these theorems (it is covered by the
correspondence run, bit for bit where IEEE-754 makes the result unique).

`compile A s = .ok (t, e)`: `e` is the expression the Go code builds (with compile-time
simplification), `t` the ghost parse tree.  Quantifiers: every formula text `s` (byte string),
every binding `b` of `[n]`/named variables.
-/
namespace Rare.C19

variable {α : Type} (A : Arith α)

/-- The operator tables the model uses are the ones in `/repo` now (regenerated from ops.go). -/
theorem gen_tables :
    Gen.C19.orderOfOps = orderOfOps ∧ Gen.C19.opKeys = opKeys ∧ Gen.C19.uniKeys = uniKeys ∧
    Gen.C19.maxOpLen = maxOpLen := by decide

/-- Every binary operator is listed in exactly one precedence set, and the sets list nothing else. -/
theorem orderOfOps_partition :
    (Gen.C19.opKeys.all fun op => (Gen.C19.orderOfOps.filter (·.contains op)).length == 1) = true ∧
    (Gen.C19.orderOfOps.all fun set => set.all fun op => Gen.C19.opKeys.contains op) = true := by decide

/-- The documented order: `^`, then shifts, then `* / %`, then `& |`, then `+ -`, then comparisons,
    then `&& ||` (level 0 binds tightest). -/
theorem documented_order :
    level Gen.C19.orderOfOps [94] = some 0 ∧
    level Gen.C19.orderOfOps [60, 60] = some 1 ∧ level Gen.C19.orderOfOps [62, 62] = some 1 ∧
    level Gen.C19.orderOfOps [42] = some 2 ∧ level Gen.C19.orderOfOps [47] = some 2 ∧
    level Gen.C19.orderOfOps [37] = some 2 ∧
    level Gen.C19.orderOfOps [38] = some 3 ∧ level Gen.C19.orderOfOps [124] = some 3 ∧
    level Gen.C19.orderOfOps [43] = some 4 ∧ level Gen.C19.orderOfOps [45] = some 4 ∧
    level Gen.C19.orderOfOps [60] = some 5 ∧ level Gen.C19.orderOfOps [60, 61] = some 5 ∧
    level Gen.C19.orderOfOps [62] = some 5 ∧ level Gen.C19.orderOfOps [62, 61] = some 5 ∧
    level Gen.C19.orderOfOps [61, 61] = some 5 ∧
    level Gen.C19.orderOfOps [38, 38] = some 6 ∧ level Gen.C19.orderOfOps [124, 124] = some 6 := by decide

/-- `opCodeOrder` never reaches its `panic("op not found")`: for the `""` of the outermost frame and
    every key of `ops` as `op0`, and every key of `ops` as `op1`, it answers -1, 0 or 1
    (finite table, fully enumerated). -/
theorem opCodeOrder_total :
    (([] :: Gen.C19.opKeys).all fun op0 => Gen.C19.opKeys.all fun op1 =>
      match opCodeOrderGo Gen.C19.orderOfOps op0 op1 with
      | .ok r => r == -1 || r == 0 || r == 1
      | .error _ => false) = true := by decide

/-- … and in fact for *any* `op0` whatsoever, as long as `op1` is a binary operator. -/
theorem opCodeOrder_total_any (op0 op1 : Bytes) (h : opKeys.contains op1 = true) :
    ∃ r, opCodeOrder op0 op1 = .ok r := by
  have hl := level_of_mem op1 h
  cases hlv : level orderOfOps op1 with
  | none => rw [hlv] at hl; cases hl
  | some lb => exact order_total hlv

/-- **The parse is the common-order parse.**  If a formula compiles, its parse tree flattens back
    to exactly the token sequence of the formula, is well-precedenced for the table in `/repo`
    (a binary node of level ℓ has a left operand of level ≤ ℓ and a right operand of level < ℓ;
    groups, unary applications and literals are atoms), every parenthesised group is, recursively,
    such a parse of its own text, and every literal is a number or a variable. -/
theorem parse_wellprec (s : Bytes) (t : Tree) (e : Expr α) (h : compile A s = .ok (t, e)) :
    tok s = some t.flatten ∧ WellPrec Gen.C19.orderOfOps t ∧ Deep tok t ∧
    t.allLits (fun v => (classify A v).isSome) = true := by
  obtain ⟨htok, g⟩ := compileF_post A _ s t e h
  rw [gen_tables.1]
  exact ⟨htok, g.wp, g.deep, g.lits⟩

/-- **Compile-time simplification is invisible; the value is the value of the parse.**  The
    expression the code builds (sub-formulas without variables folded into constants by probe
    evaluation) evaluates, under every binding, to the value of the unsimplified parse tree. -/
theorem formula_value (s : Bytes) (t : Tree) (e : Expr α) (h : compile A s = .ok (t, e))
    (b : Binding α) : e.eval A b = t.eval A (classify A) b :=
  (compileF_post A _ s t e h).2.ev b

/-- **Every common-order parse is found.**  If the tokens of a formula are the flattening of a
    well-precedenced tree (groups recursively, literals proper), the formula compiles, to exactly
    that tree. -/
theorem parse_complete (s : Bytes) (t : Tree) (htok : tok s = some t.flatten)
    (hwp : WellPrec Gen.C19.orderOfOps t) (hd : Deep tok t)
    (hl : t.allLits (fun v => (classify A v).isSome) = true) :
    ∃ e, compile A s = .ok (t, e) := by
  rw [gen_tables.1] at hwp
  exact compileF_complete A _ s t (Nat.lt_succ_self _) htok hwp hd hl

/-- **The common-order parse of a formula is unique**: two well-precedenced trees that flatten to
    the tokens of the same text are equal (so `parse_wellprec` pins the parse down completely). -/
theorem wp_unique (s : Bytes) (t₁ t₂ : Tree)
    (h₁ : tok s = some t₁.flatten) (h₂ : tok s = some t₂.flatten)
    (w₁ : WellPrec Gen.C19.orderOfOps t₁) (w₂ : WellPrec Gen.C19.orderOfOps t₂)
    (d₁ : Deep tok t₁) (d₂ : Deep tok t₂)
    (l₁ : t₁.allLits (fun v => (classify A v).isSome) = true)
    (l₂ : t₂.allLits (fun v => (classify A v).isSome) = true) : t₁ = t₂ := by
  obtain ⟨e₁, c₁⟩ := parse_complete A s t₁ h₁ w₁ d₁ l₁
  obtain ⟨e₂, c₂⟩ := parse_complete A s t₂ h₂ w₂ d₂ l₂
  rw [c₁] at c₂
  injection c₂ with c₂
  injection c₂ with c₂ _

/-- **Constants equal bound variables.**  Take a compiled formula `s` and replace any of its
    numeric constants by variables (or variables by constants, or by other spellings) such that
    every replaced literal denotes, under the new binding `b'`, the value the old one denotes under
    `b` (`LitSubst`).  Then the new text `s'` compiles as well, to the substituted tree, and its value
    under `b'` is the value of the old formula under `b` – although the simplifier folded different
    sub-formulas in the two compilations. -/
theorem simplify_invisible (s s' : Bytes) (t t' : Tree) (e : Expr α) (b b' : Binding α)
    (hc : compile A s = .ok (t, e)) (hs : LitSubst A b b' t t')
    (htok : tok s' = some t'.flatten) (hd : Deep tok t') :
    ∃ e', compile A s' = .ok (t', e') ∧ e'.eval A b' = e.eval A b := by
  obtain ⟨_, hwp, _, _⟩ := parse_wellprec A s t e hc
  rw [gen_tables.1] at hwp
  have hwp' : WellPrec Gen.C19.orderOfOps t' := by rw [gen_tables.1]; exact hs.wp hwp
  obtain ⟨e', hc'⟩ := parse_complete A s' t' htok hwp' hd hs.lits
  refine ⟨e', hc', ?_⟩
  rw [formula_value A s' t' e' hc' b', formula_value A s t e hc b]
  exact hs.eval_eq.symm

/-- `simplify_invisible` is not vacuous: `2*3+4` and `2*x+4` with x = 3. -/
example : ∃ e', compile ratArith (ascii "2*x+4") = .ok
      (.bin false [43] (.bin false [42] (.lit [50]) (.lit [120])) (.lit [52]), e') ∧
    e'.eval ratArith ⟨fun _ => some 0, fun _ => some 3⟩ = some 10 := by
  have hc : compile ratArith (ascii "2*3+4") = .ok
      (.bin false [43] (.bin false [42] (.lit [50]) (.lit [51])) (.lit [52]), .val (some 10)) := by
    have h : (compile ratArith (ascii "2*3+4")).toOption = some
        (.bin false [43] (.bin false [42] (.lit [50]) (.lit [51])) (.lit [52]), .val (some 10)) := by
      decide +kernel
    cases hx : compile ratArith (ascii "2*3+4") with
    | error err => rw [hx] at h; cases h
    | ok r => rw [hx] at h; injection h with h; rw [h]
  have := simplify_invisible ratArith (ascii "2*3+4") (ascii "2*x+4") _
    (.bin false [43] (.bin false [42] (.lit [50]) (.lit [120])) (.lit [52])) _
    ⟨fun _ => some 0, fun _ => some 0⟩ ⟨fun _ => some 0, fun _ => some 3⟩ hc
    (.bin _ _ _ _ _ _
      (.bin _ _ _ _ _ _
        (.lit _ _ (.num (some 2)) (.num (some 2)) (by decide +kernel) (by decide +kernel) rfl)
        (.lit _ _ (.num (some 3)) (.named [120]) (by decide +kernel) (by decide +kernel) rfl))
      (.lit _ _ (.num (some 4)) (.num (some 4)) (by decide +kernel) (by decide +kernel) rfl))
    (by decide +kernel)
    (.bin _ _ _ _ (.bin _ _ _ _ (.lit _) (.lit _)) (.lit _))
  obtain ⟨e', h1, h2⟩ := this
  exact ⟨e', h1, h2⟩

/-- `simplify` alone: replacing an expression by its simplification never changes a value. -/
theorem simplify_sound (e : Expr α) (b : Binding α) : (simplify A e).eval A b = e.eval A b :=
  simplify_eval A e b

/-- **No formula makes compilation panic** (after the repairs F11/F12: the simplifier's probe
    evaluation is total, a dangling unary operator is an error, `opCodeOrder` always finds its
    operators); evaluation is a total function by construction (`Expr.eval`), the integer
    operators being guarded (`modI`, `shlI`, `shrI` answer `none` → NaN). -/
theorem eval_no_panic (s : Bytes) (err : Err) (h : compile A s = .error err) (m : String) :
    err ≠ .panic m :=
  compileF_noPanic A _ s err h m

/-- **Compilation always returns.**  The model has exactly two recursion budgets, and neither is ever
    exhausted: (1) `climb`'s, the loop of `compileTokens` (started with `rest.length + 1`; every round
    consumes a token: `climb_noFuel`), and (2) `compileF`'s, the nesting of groups (`s.length + 1`; a
    group is strictly shorter than the text around it: `tok_group_len`, `compileF_noFuel`).  Everything
    else is structural recursion (`tokLoop` over the bytes, `prefixInOps.go` over ≤ 2 bytes,
    `getNextExpr` over the tokens, `Expr.probe`/`simplify`/`Expr.eval` over the expression,
    `opCodeOrderGo` over the table).  So for every text `compile` answers either a parse or one of the
    Go error values – "the model returned" is not an assumption of the other theorems. -/
theorem compile_returns (s : Bytes) : compile A s ≠ .error .fuel :=
  compile_noFuel A s


/-- …and the budget is irrelevant beyond that: with any larger budget a text that compiles still
    compiles to the same parse tree (so nothing depends on the particular `s.length + 1`). -/
theorem compile_budget_irrelevant (s : Bytes) (t : Tree) (e : Expr α) (h : compile A s = .ok (t, e))
    (f : Nat) (hf : s.length < f) : ∃ e', compileF A f s = .ok (t, e') ∧ ∀ b, e'.eval A b = e.eval A b := by
  obtain ⟨htok, g⟩ := compileF_post A _ s t e h
  obtain ⟨e', he'⟩ := compileF_complete A f s t hf htok g.wp g.deep g.lits
  obtain ⟨_, g'⟩ := compileF_post A _ s t e' he'
  exact ⟨e', he', fun b => by rw [g'.ev b, g.ev b]⟩

/-- **Malformed formulas are rejected at compile time**: a text that is not the flattening of any
    well-precedenced parse tree with proper literals (unbalanced parentheses, two operands or two
    operators in a row, a dangling operator, `2x`, `1.2.3` …) does not compile – and is rejected
    by an error value, not by a panic or a non-return. -/
theorem malformed_rejected (s : Bytes)
    (h : ¬ ∃ t : Tree, tok s = some t.flatten ∧ WellPrec Gen.C19.orderOfOps t ∧ Deep tok t ∧
      t.allLits (fun v => (classify A v).isSome) = true) :
    ∃ err, compile A s = .error err ∧ (∀ m, err ≠ .panic m) ∧ err ≠ .fuel := by
  cases hc : compile A s with
  | error err => exact ⟨err, rfl, eval_no_panic A s err hc, fun h => compile_returns A s (h ▸ hc)⟩
  | ok r =>
    obtain ⟨t, e⟩ := r
    exact absurd ⟨t, parse_wellprec A s t e hc⟩ h


/-- **Full characterisation of "malformed"** (`Spec/C19Grammar.lean`): a text compiles if and only if
    its token sequence is derivable by

        formula ::= operand ( binop operand | group )*        operand ::= unary* ( literal | group )

    with proper literals, operators from the table in `/repo`, and every group – also one that stands
    for an implied multiplication – recursively a formula.  The grammar mentions neither parse trees
    nor precedence; `accepts` is its executable two-state recogniser. -/
theorem compile_iff_grammar (s : Bytes) :
    (∃ t e, compile A s = .ok (t, e)) ↔
      accepts tok (fun v => (classify A v).isSome) (fun o => Gen.C19.opKeys.contains o) s = true := by
  rw [gen_tables.2.1]
  constructor
  · rintro ⟨t, e, h⟩
    exact (compile_iff_accepts A s).mp ⟨(t, e), h⟩
  · intro h
    obtain ⟨⟨t, e⟩, hr⟩ := (compile_iff_accepts A s).mpr h
    exact ⟨t, e, hr⟩

/-- …and everything else is rejected with one of the Go error values (no panic, no non-return):
    the converse direction of `malformed_rejected`, so "rejected" and "not in the grammar" coincide. -/
theorem rejected_iff_not_grammar (s : Bytes) :
    (∃ err, compile A s = .error err ∧ (∀ m, err ≠ .panic m) ∧ err ≠ .fuel) ↔
      accepts tok (fun v => (classify A v).isSome) (fun o => Gen.C19.opKeys.contains o) s = false := by
  constructor
  · rintro ⟨err, h, _⟩
    cases ha : accepts tok (fun v => (classify A v).isSome) (fun o => Gen.C19.opKeys.contains o) s with
    | false => rfl
    | true =>
      obtain ⟨t, e, hc⟩ := (compile_iff_grammar A s).mpr ha
      rw [hc] at h; cases h
  · intro ha
    cases hc : compile A s with
    | error err => exact ⟨err, rfl, eval_no_panic A s err hc, fun h => compile_returns A s (h ▸ hc)⟩
    | ok r =>
      obtain ⟨t, e⟩ := r
      have := (compile_iff_grammar A s).mp ⟨t, e, hc⟩
      rw [ha] at this; cases this

/-- The nesting budget of the grammar's recogniser is irrelevant beyond the length of the text. -/
theorem grammar_budget_irrelevant (s : Bytes) (f : Nat) (hf : s.length < f) :
    acceptsF tok (fun v => (classify A v).isSome) (fun o => opKeys.contains o) f s =
      accepts tok (fun v => (classify A v).isSome) (fun o => opKeys.contains o) s :=
  acceptsF_stable A f s hf

/-- The grammar and the tree characterisation describe the same texts. -/
theorem grammar_iff_wellprec (s : Bytes) :
    accepts tok (fun v => (classify A v).isSome) (fun o => Gen.C19.opKeys.contains o) s = true ↔
      ∃ t : Tree, tok s = some t.flatten ∧ WellPrec Gen.C19.orderOfOps t ∧ Deep tok t ∧
        t.allLits (fun v => (classify A v).isSome) = true := by
  rw [← compile_iff_grammar]
  constructor
  · rintro ⟨t, e, h⟩; exact ⟨t, parse_wellprec A s t e h⟩
  · rintro ⟨t, h1, h2, h3, h4⟩
    obtain ⟨e, he⟩ := parse_complete A s t h1 h2 h3 h4
    exact ⟨t, e, he⟩

/-! ### Literals -/

/-- A non-empty run of ASCII letters and digits is ONE literal token (no operator, unary operator,
    parenthesis or blank can start inside it). -/
theorem literal_token (s : Bytes) (hne : s ≠ []) (h : ∀ b ∈ s, isAlnumB b = true) :
    tok s = some [⟨s, .lit⟩] := by
  simp only [tok, tokenize_alnum s hne h]

/-- **Literal value, `0x`/`0X`**: for every non-empty string `ds` of hexadecimal digits (either case)
    whose positional value fits int64, the formula `0x<ds>` compiles to a constant, and under every
    binding its value is `float64(value)` (`A.ofInt`). -/
theorem literal_value_hex (x : UInt8) (hx : x = 120 ∨ x = 88) (ds : Bytes) (hne : ds ≠ [])
    (hd : ∀ d ∈ ds, isBaseDigit 16 d = true) (hr : (baseVal 16 ds : Int) ≤ maxInt64) (b : Binding α) :
    ∃ e, compile A (48 :: x :: ds) = .ok (.lit (48 :: x :: ds), e) ∧ e.eval A b = A.ofInt (baseVal 16 ds) := by
  have hp : prefixBase x = some 16 := by rcases hx with rfl | rfl <;> decide
  exact ⟨_, compile_prefixed_lit A x 16 ds hp hne hd (by unfold maxInt64 at hr; omega), rfl⟩

/-- **Literal value, `0b`/`0B`** (binary digits). -/
theorem literal_value_bin (x : UInt8) (hx : x = 98 ∨ x = 66) (ds : Bytes) (hne : ds ≠ [])
    (hd : ∀ d ∈ ds, isBaseDigit 2 d = true) (hr : (baseVal 2 ds : Int) ≤ maxInt64) (b : Binding α) :
    ∃ e, compile A (48 :: x :: ds) = .ok (.lit (48 :: x :: ds), e) ∧ e.eval A b = A.ofInt (baseVal 2 ds) := by
  have hp : prefixBase x = some 2 := by rcases hx with rfl | rfl <;> decide
  exact ⟨_, compile_prefixed_lit A x 2 ds hp hne hd (by unfold maxInt64 at hr; omega), rfl⟩

/-- `0o`/`0O` (octal; `strconv.ParseInt(s, 0, 64)` accepts it as well). -/
theorem literal_value_oct (x : UInt8) (hx : x = 111 ∨ x = 79) (ds : Bytes) (hne : ds ≠ [])
    (hd : ∀ d ∈ ds, isBaseDigit 8 d = true) (hr : (baseVal 8 ds : Int) ≤ maxInt64) (b : Binding α) :
    ∃ e, compile A (48 :: x :: ds) = .ok (.lit (48 :: x :: ds), e) ∧ e.eval A b = A.ofInt (baseVal 8 ds) := by
  have hp : prefixBase x = some 8 := by rcases hx with rfl | rfl <;> decide
  exact ⟨_, compile_prefixed_lit A x 8 ds hp hne hd (by unfold maxInt64 at hr; omega), rfl⟩

/-- Decimal integers without a leading zero (a leading `0` makes `ParseInt(s, 0, 64)` read octal:
    `010` is 8 – Go's rule, mirrored by the model and exercised by the correspondence). -/
theorem literal_value_dec (ds : Bytes) (hne : ds ≠ []) (h0 : ds.head? ≠ some 48)
    (hd : ∀ d ∈ ds, isBaseDigit 10 d = true) (hr : (baseVal 10 ds : Int) ≤ maxInt64) (b : Binding α) :
    ∃ e, compile A ds = .ok (.lit ds, e) ∧ e.eval A b = A.ofInt (baseVal 10 ds) :=
  ⟨_, compile_dec_lit A ds hne h0 hd (by unfold maxInt64 at hr; omega), rfl⟩

/-- **Longest-operator match**: where the tokenizer looks for a binary operator (`prefixInOps`), it
    takes the LONGEST key of `ops` (table in `/repo`) the remaining text starts with – `<<` before `<`,
    `<=` before `<`, `&&` before `&` – and finds none only if no key is a prefix. -/
theorem operator_longest_match (s : Bytes) :
    (∀ k, prefixInOps s = some k →
      k ∈ Gen.C19.opKeys ∧ k <+: s ∧ ∀ k' ∈ Gen.C19.opKeys, k' <+: s → k'.length ≤ k.length) ∧
    (prefixInOps s = none → ∀ k' ∈ Gen.C19.opKeys, ¬ k' <+: s) := by
  rw [gen_tables.2.1]
  exact prefixInOps_longest s

example : prefixInOps (ascii "<<=1") = some (ascii "<<") ∧ prefixInOps (ascii "<=1") = some (ascii "<=") ∧
    prefixInOps (ascii "<1") = some (ascii "<") ∧ prefixInOps (ascii "&&x") = some (ascii "&&") ∧
    prefixInOps (ascii "=1") = none := by decide +kernel

/-! ### Implied multiplication -/

/-- **Implied multiplication is multiplication.**  In the parse of any formula every implied node
    carries the operator `*`; and writing the implied multiplications out (`t.explicit`: `2(x)` ↦
    `2*(x)`, any text `s'` with those tokens) gives a formula that compiles, to the same parse with
    written `*` nodes only, and has the same value under every binding.  (Precedence of the implied
    `*` is that of `*`: `parse_wellprec`.) -/
theorem implied_mul_is_mul (s s' : Bytes) (t : Tree) (e : Expr α) (hc : compile A s = .ok (t, e))
    (htok : tok s' = some t.explicit.flatten) :
    t.impliedStar = true ∧ t.explicit.noImplied = true ∧
    ∃ e', compile A s' = .ok (t.explicit, e') ∧ ∀ b, e'.eval A b = e.eval A b :=
  ⟨wp_impliedStar t (parse_wellprec A s t e hc).2.1, explicit_noImplied t, compile_explicit A s s' t e hc htok⟩

/-- The guarded integer operators on the exact instance: `%` by zero and negative shift counts
    are "not a number", never a crash; otherwise `%` is Go's truncated remainder. -/
theorem int_ops_guarded (a b : Rat) :
    (ratTrunc b = 0 → ratArith.bin [37] (some a) (some b) = none) ∧
    (ratTrunc b ≠ 0 → ratArith.bin [37] (some a) (some b) = some ((Int.tmod (ratTrunc a) (ratTrunc b) : Int) : Rat)) ∧
    (ratTrunc b < 0 → ratArith.bin [60, 60] (some a) (some b) = none ∧ ratArith.bin [62, 62] (some a) (some b) = none) := by
  refine ⟨?_, ?_, ?_⟩
  · intro h
    simp [ratArith, arithOf, binOf, ratPrim, modI, h]
  · intro h
    simp [ratArith, arithOf, binOf, ratPrim, modI, h]
  · intro h
    simp [ratArith, arithOf, binOf, ratPrim, shlI, shrI, h]

/-! ### Non-vacuity: concrete formulas through the whole model (exact instance) -/

/-- `2+3*4` parses as `2+(3*4)`. -/
example : parseStr (ascii "2+3*4") =
    some (.bin false [43] (.lit [50]) (.bin false [42] (.lit [51]) (.lit [52]))) := by decide +kernel

/-- equal levels associate to the left: `8-3-2` is `(8-3)-2`, and so is `2^3^2 = (2^3)^2 = 64`. -/
example : parseStr (ascii "8-3-2") =
    some (.bin false [45] (.bin false [45] (.lit [56]) (.lit [51])) (.lit [50])) := by decide +kernel
example : evalStr (ascii "2^3^2") 0 = some (some 64) := by decide +kernel

/-- `1 + 2 * 3 ^ 2 < 20 && 1` = ((1 + (2 * (3^2))) < 20) && 1 = 1 -/
example : evalStr (ascii "1 + 2 * 3 ^ 2 < 20 && 1") 0 = some (some 1) := by decide +kernel

/-- implied multiplication and groups: `2(1+1)` = 4 (docs/usage/math.md) -/
example : evalStr (ascii "2(1+1)") 0 = some (some 4) := by decide +kernel
example : parseStr (ascii "2(x)") = some (.bin true [42] (.lit [50]) (.grp [120] (.lit [120]))) := by
  decide +kernel

/-- the unary minus binds tighter than `^`: `-2^2` = (-2)^2 = 4 (a documented quirk of the parser,
    not claimed as a defect) -/
example : evalStr (ascii "-2^2") 0 = some (some 4) := by decide +kernel

/-- constants and variables, hex/binary literals, decimals: with x = 4, `7 % x + 0x10 + 0.5` = 19.5 -/
example : evalStr (ascii "7 % x + 0x10 + 0b1 - 1 + 0.5") 4 = some (some (39 / 2)) := by decide +kernel

/-- F11: `5 % x` compiles (it used to crash inside the simplifier) and is "not a number" for x = 0 -/
example : evalStr (ascii "5 % x") 0 = some none := by decide +kernel
example : evalStr (ascii "5 % x") 3 = some (some 2) := by decide +kernel

/-- F12 and other malformed texts are compile errors -/
example : evalStr (ascii "2 + -") 0 = none := by decide +kernel
example : evalStr (ascii "-") 0 = none := by decide +kernel
example : evalStr (ascii "(2") 0 = none := by decide +kernel
example : evalStr (ascii "2 3)") 0 = none := by decide +kernel
example : evalStr (ascii "2 * * 3") 0 = none := by decide +kernel
example : evalStr (ascii "(2)3") 0 = none := by decide +kernel

/-- the grammar on concrete texts: accepted … -/
example : (["2(x)+-3", "sin(x)(2)", "-(-x)", "a<<2>=b&&!c", "((1))", "0x1F*0b11"].all fun s =>
    accepts tok (fun v => (classify ratArith v).isSome) (fun o => Gen.C19.opKeys.contains o) (ascii s)) = true := by
  decide +kernel
/-- … and malformed (empty, dangling/doubled operator, operand after a group, unary after an operand,
    bad literal, malformed group, unbalanced) -/
example : (["", " ", "2+", "2**3", "(2)3", "2!", "2x", "2+(3*)", "(2", "2)", "()", "1.2.3"].all fun s =>
    !accepts tok (fun v => (classify ratArith v).isSome) (fun o => Gen.C19.opKeys.contains o) (ascii s)) = true := by
  decide +kernel

/-- `literal_value_hex` / `_bin` are not vacuous: `0x1F` = 31, `0XfF` = 255, `0b101` = 5 -/
example : isBaseDigit 16 49 = true ∧ isBaseDigit 16 70 = true ∧ isBaseDigit 16 102 = true ∧
    isBaseDigit 16 103 = false ∧ baseVal 16 [49, 70] = 31 ∧ baseVal 16 [102, 70] = 255 ∧
    baseVal 2 [49, 48, 49] = 5 ∧ isBaseDigit 2 50 = false := by decide
example : evalStr (ascii "0x1F + 0XfF + 0b101 + 0o17") 0 = some (some 306) := by decide +kernel

/-- `implied_mul_is_mul` is not vacuous: `2(x)^2` parses with an implied node, `2*(x)^2` has the
    tokens of its explicit form; both are 2·(x²) = 18 for x = 3. -/
example : parseStr (ascii "2(x)^2") =
      some (.bin true [42] (.lit [50]) (.bin false [94] (.grp [120] (.lit [120])) (.lit [50]))) ∧
    tok (ascii "2*(x)^2") = some
      (Tree.explicit (.bin true [42] (.lit [50]) (.bin false [94] (.grp [120] (.lit [120])) (.lit [50])))).flatten ∧
    evalStr (ascii "2(x)^2") 3 = some (some 18) ∧ evalStr (ascii "2*(x)^2") 3 = some (some 18) := by
  decide +kernel

end Rare.C19
